(* C18 - outline objects (model/C18Outline.v): numbering, link consistency, Count = visible descendants. *)
From Coq Require Import ZArith List Bool Lia Arith.
Require Import WV.model.C18Outline.
Import ListNotations.
Open Scope Z_scope.

Fixpoint otree_ind2 (P : otree -> Prop)
  (H : forall ti pg cl ks, Forall P ks -> P (ONode ti pg cl ks)) (t : otree) : P t :=
  match t with
  | ONode ti pg cl ks =>
      H ti pg cl ks ((fix go (l : list otree) : Forall P l :=
                        match l with [] => Forall_nil _ | k :: r => Forall_cons _ (otree_ind2 P H k) (go r) end) ks)
  end.
Fixpoint ntree_ind2 (P : ntree -> Prop)
  (H : forall r ti pg cl ks, Forall P ks -> P (NNode r ti pg cl ks)) (t : ntree) : P t :=
  match t with
  | NNode r ti pg cl ks =>
      H r ti pg cl ks ((fix go (l : list ntree) : Forall P l :=
                          match l with [] => Forall_nil _ | k :: r => Forall_cons _ (ntree_ind2 P H k) (go r) end) ks)
  end.

(* unfolding lemmas: the local loops are the forest functions *)
Lemma num_tree_eq n ti pg cl kids :
  num_tree n (ONode ti pg cl kids) = let '(ks, n') := number (n + 1) kids in (NNode n ti pg cl ks, n').
Proof. reflexivity. Qed.

Lemma objs_tree_eq pages parent prev next r ti pg cl ks :
  objs_tree pages parent prev next (NNode r ti pg cl ks) =
  mkobj r ti (nth pg pages (-1))
        (if cl then ncount_tree (NNode r ti pg cl ks) * -1 else ncount_tree (NNode r ti pg cl ks))
        (Some parent) prev next (hd_ref ks) (last_ref ks) :: objs_forest pages r None ks.
Proof.
  cbn [objs_tree]. f_equal. generalize (@None Z).
  induction ks as [|k ks IH]; intros pv; [reflexivity|]. cbn [objs_forest]. now rewrite IH.
Qed.

Lemma tree_ok_eq L parent prev next r ti pg cl ks :
  tree_ok L parent prev next (NNode r ti pg cl ks) <->
  (exists o, L r = Some o /\ o_num o = r /\ o_title o = ti /\
             o_parent o = Some parent /\ o_prev o = prev /\ o_next o = next /\
             o_first o = hd_ref ks /\ o_last o = last_ref ks /\ o_count o = count_spec (NNode r ti pg cl ks)) /\
  forest_ok L r None ks.
Proof.
  cbn [tree_ok].
  assert (E : forall pv, (fix go (pv : option Z) (l : list ntree) : Prop :=
              match l with [] => True | k :: rest => tree_ok L r pv (hd_ref rest) k /\ go (Some (nref k)) rest end)
              pv ks <-> forest_ok L r pv ks).
  { induction ks as [|k ks IH]; intros pv; [reflexivity|]. cbn [forest_ok]. now rewrite IH. }
  now rewrite E.
Qed.

Lemma ncount_tree_eq r ti pg cl ks : ncount_tree (NNode r ti pg cl ks) = ncount ks.
Proof. reflexivity. Qed.

Lemma between_flags_eq r ti pg cl ks : between_flags (NNode r ti pg cl ks) = between_flags_forest ks.
Proof. reflexivity. Qed.

(* ---- Count ---- *)
Lemma filter_cons_true l : filter (forallb negb) (map (cons true) l) = [].
Proof. induction l as [|x l IH]; [reflexivity|]. cbn. exact IH. Qed.
Lemma filter_cons_false l : filter (forallb negb) (map (cons false) l) = map (cons false) (filter (forallb negb) l).
Proof.
  induction l as [|x l IH]; [reflexivity|]. cbn [map filter forallb negb andb].
  destruct (forallb negb x); cbn [map]; now rewrite IH.
Qed.

Lemma count_visible_tree : forall t, ncount_tree t = visible_desc t.
Proof.
  apply ntree_ind2. intros r ti pg cl ks IH. rewrite ncount_tree_eq. unfold visible_desc. rewrite between_flags_eq.
  clear r ti pg cl. induction IH as [|k ks Hk _ IHks]; [reflexivity|].
  cbn [ncount between_flags_forest]. rewrite IHks. cbn [app filter forallb]. cbn [length].
  rewrite filter_app, app_length, Nat2Z.inj_succ, Nat2Z.inj_add.
  destruct (nclosed k).
  - rewrite filter_cons_true. cbn [length]. lia.
  - rewrite filter_cons_false, map_length, Hk. unfold visible_desc. lia.
Qed.

Lemma count_visible_forest f : ncount f = visible_total f.
Proof.
  unfold visible_total. induction f as [|k ks IH]; [reflexivity|].
  cbn [ncount between_flags_forest]. rewrite IH. cbn [app filter forallb]. cbn [length].
  rewrite filter_app, app_length, Nat2Z.inj_succ, Nat2Z.inj_add.
  destruct (nclosed k).
  - rewrite filter_cons_true. cbn [length]. lia.
  - rewrite filter_cons_false, map_length, count_visible_tree. unfold visible_desc. lia.
Qed.

(* ---- numbering ---- *)
Definition zrange (a b : Z) : list Z := map (fun i => a + Z.of_nat i) (seq 0 (Z.to_nat (b - a))).

Lemma zrange_in a b x : In x (zrange a b) <-> a <= x < b.
Proof.
  unfold zrange. rewrite in_map_iff. split.
  - intros (i & <- & Hi). apply in_seq in Hi. lia.
  - intros H. exists (Z.to_nat (x - a)). split; [lia|]. apply in_seq. lia.
Qed.

Lemma zrange_cons a b : a < b -> zrange a b = a :: zrange (a + 1) b.
Proof.
  intros H. unfold zrange. replace (Z.to_nat (b - a)) with (S (Z.to_nat (b - (a + 1)))) by lia.
  cbn [seq map]. f_equal; [lia|]. rewrite <- seq_shift, map_map. apply map_ext. intros i. lia.
Qed.

Lemma zrange_nil a : zrange a a = [].
Proof. unfold zrange. now rewrite Z.sub_diag. Qed.

Lemma zrange_app : forall n a b c, Z.to_nat (b - a) = n -> a <= b <= c -> zrange a b ++ zrange b c = zrange a c.
Proof.
  induction n as [|n IH]; intros a b c Hn H.
  - assert (a = b) by lia. subst. now rewrite zrange_nil.
  - rewrite (zrange_cons a b), (zrange_cons a c) by lia. cbn [app]. f_equal. apply IH; lia.
Qed.

Lemma zrange_nodup : forall n a b, Z.to_nat (b - a) = n -> NoDup (zrange a b).
Proof.
  induction n as [|n IH]; intros a b Hn.
  - unfold zrange. rewrite Hn. constructor.
  - rewrite zrange_cons by lia. constructor; [rewrite zrange_in; lia|apply IH; lia].
Qed.

Fixpoint strip (t : ntree) : otree :=
  match t with NNode _ ti pg cl ks => ONode ti pg cl (map strip ks) end.

Definition num_tree_P pages (t : otree) : Prop :=
  forall n nt n1 parent prev next,
    num_tree n t = (nt, n1) ->
    n < n1 /\ nref nt = n /\ strip nt = t /\ map o_num (objs_tree pages parent prev next nt) = zrange n n1.

Lemma number_spec pages : forall f, Forall (num_tree_P pages) f ->
  forall n nf n1 parent pv, number n f = (nf, n1) ->
    n <= n1 /\ map strip nf = f /\ map o_num (objs_forest pages parent pv nf) = zrange n n1 /\
    (hd_ref nf = match f with [] => None | _ => Some n end).
Proof.
  induction 1 as [|k f Hk _ IH]; intros n nf n1 parent pv Hn.
  - cbn in Hn. inversion Hn; subst. cbn. rewrite zrange_nil. repeat split; lia.
  - cbn [number] in Hn. destruct (num_tree n k) as [k' m1] eqn:Ek. destruct (number m1 f) as [r' m2] eqn:Er.
    inversion Hn; subst nf n1; clear Hn.
    destruct (Hk _ _ _ parent pv (hd_ref r') Ek) as (H1 & H2 & H3 & H4).
    destruct (IH _ _ _ parent (Some (nref k')) Er) as (H5 & H6 & H7 & _).
    cbn [map objs_forest hd_ref]. rewrite map_app, H4, H7, H3, H6, H2.
    repeat split; try lia. apply (zrange_app (Z.to_nat (m1 - n))); lia.
Qed.

Lemma num_tree_spec pages : forall t, num_tree_P pages t.
Proof.
  apply otree_ind2. intros ti pg cl ks IH n nt n1 parent prev next Hn.
  rewrite num_tree_eq in Hn. destruct (number (n + 1) ks) as [ks' n'] eqn:Ek. inversion Hn; subst nt n1; clear Hn.
  destruct (number_spec pages ks IH _ _ _ n None Ek) as (H1 & H2 & H3 & _).
  rewrite objs_tree_eq. cbn [nref strip map o_num]. rewrite H2, H3.
  repeat split; try lia. rewrite (zrange_cons n n') by lia. reflexivity.
Qed.

Lemma number_ok pages f n nf n1 parent pv :
  number n f = (nf, n1) ->
  n <= n1 /\ map strip nf = f /\ map o_num (objs_forest pages parent pv nf) = zrange n n1 /\
  (hd_ref nf = match f with [] => None | _ => Some n end).
Proof. apply number_spec. rewrite Forall_forall. intros t _. apply num_tree_spec. Qed.

(* ---- links ---- *)
Lemma lookup_found objs : NoDup (map o_num objs) -> forall o, In o objs -> lookup objs (o_num o) = Some o.
Proof.
  unfold lookup. induction objs as [|x objs IH]; intros Hnd o Hin; [contradiction|].
  cbn [map] in Hnd. inversion Hnd as [|? ? Hx Hnd']; subst. cbn [find].
  destruct Hin as [->|Hin]; [now rewrite Z.eqb_refl|].
  destruct (Z.eqb_spec (o_num x) (o_num o)) as [E|_]; [|now apply IH].
  exfalso. apply Hx. rewrite E. now apply in_map.
Qed.

Definition tree_links_P pages (L : Z -> option oobj) (t : ntree) : Prop :=
  forall parent prev next,
    (forall o, In o (objs_tree pages parent prev next t) -> L (o_num o) = Some o) ->
    tree_ok L parent prev next t.

Lemma forest_links pages L : forall ks, Forall (tree_links_P pages L) ks ->
  forall parent pv, (forall o, In o (objs_forest pages parent pv ks) -> L (o_num o) = Some o) ->
  forest_ok L parent pv ks.
Proof.
  induction 1 as [|k ks Hk _ IH]; intros parent pv HL; [exact I|].
  cbn [forest_ok objs_forest] in *. split.
  - apply Hk. intros o Ho. apply HL. apply in_or_app. now left.
  - apply IH. intros o Ho. apply HL. apply in_or_app. now right.
Qed.

Lemma tree_links pages L : forall t, tree_links_P pages L t.
Proof.
  apply ntree_ind2. intros r ti pg cl ks IH parent prev next HL.
  rewrite objs_tree_eq in HL. rewrite tree_ok_eq. split.
  - eexists. split; [apply (HL _ (or_introl eq_refl))|]. cbn [o_num o_title o_parent o_prev o_next o_first o_last o_count].
    repeat split. unfold count_spec. cbn [nclosed]. rewrite <- count_visible_tree. destruct cl; lia.
  - apply (forest_links pages L ks IH). intros o Ho. apply HL. now right.
Qed.

(* main statement about add_outlines *)
Theorem outline_links_consistent pages n0 f objs root :
  add_outlines_model pages n0 f = Some (objs, root) ->
  let nf := fst (number n0 f) in
  map strip nf = f /\
  match root with
  | None => f = [] /\ objs = []
  | Some (rn, rc, rf, rl) =>
      map o_num objs = zrange n0 rn /\ NoDup (map o_num objs) /\ ~ In rn (map o_num objs) /\
      forest_ok (lookup objs) rn None nf /\
      rf = hd_ref nf /\ rl = last_ref nf /\ rf = Some n0 /\
      rc = visible_total nf
  end.
Proof.
  unfold add_outlines_model. destruct (forallb (pages_ok (length pages)) f); [|discriminate].
  destruct (number n0 f) as [nf n1] eqn:En. cbn [fst].
  destruct (number_ok pages f n0 nf n1 n1 None En) as (H1 & H2 & H3 & H4).
  destruct nf as [|t nf'].
  - intros H. inversion H; subst objs root. cbn [map] in H2. subst f. repeat split.
  - assert (Hne : f <> []) by (rewrite <- H2; discriminate).
    remember (t :: nf') as nf eqn:Enf.
    clear Enf t nf'.
    intros H. injection H as <- <-. split; [exact H2|].
    assert (Hnd : NoDup (map o_num (objs_forest pages n1 None nf))).
    { rewrite H3. apply (zrange_nodup (Z.to_nat (n1 - n0))). reflexivity. }
    split; [exact H3|]. split; [exact Hnd|]. split; [rewrite H3, zrange_in; lia|].
    split.
    + apply (forest_links pages). { rewrite Forall_forall. intros x _. apply tree_links. }
      intros o Ho. now apply lookup_found.
    + repeat split.
      * rewrite H4. destruct f; [contradiction|reflexivity].
      * apply count_visible_forest.
Qed.

(* ---- the same, stated on the objects alone: consistent doubly linked child lists ---- *)
Definition ptr_ok (L : Z -> option oobj) (o : oobj) : Prop :=
  (forall m, o_next o = Some m -> exists o', L m = Some o' /\ o_prev o' = Some (o_num o) /\ o_parent o' = o_parent o) /\
  (forall m, o_prev o = Some m -> exists o', L m = Some o' /\ o_next o' = Some (o_num o) /\ o_parent o' = o_parent o) /\
  (forall m, o_first o = Some m -> exists o', L m = Some o' /\ o_parent o' = Some (o_num o) /\ o_prev o' = None) /\
  (forall m, o_last o = Some m -> exists o', L m = Some o' /\ o_parent o' = Some (o_num o) /\ o_next o' = None) /\
  (o_first o = None <-> o_last o = None).

Lemma head_obj pages t rest parent pv :
  exists o, In o (objs_forest pages parent pv (t :: rest)) /\ o_num o = nref t /\ o_prev o = pv /\
            o_parent o = Some parent /\ o_next o = hd_ref rest.
Proof.
  destruct t as [r ti pg cl ks]. cbn [objs_forest]. rewrite objs_tree_eq. eexists. split; [left; reflexivity|].
  cbn. repeat split.
Qed.

Lemma last_obj pages : forall l parent pv m, last_ref l = Some m ->
  exists o, In o (objs_forest pages parent pv l) /\ o_num o = m /\ o_next o = None /\ o_parent o = Some parent.
Proof.
  induction l as [|t l IH]; intros parent pv m H; [discriminate|].
  destruct l as [|t' l'].
  - cbn in H. inversion H; subst. destruct (head_obj pages t [] parent pv) as (o & Hin & Hn & _ & Hp & Hx).
    exists o. repeat split; assumption.
  - change (last_ref (t :: t' :: l')) with (last_ref (t' :: l')) in H.
    destruct (IH parent (Some (nref t)) m H) as (o & Hin & Ho). exists o. split; [|exact Ho].
    cbn [objs_forest]. apply in_or_app. right. exact Hin.
Qed.

Definition ctx_prev (L : Z -> option oobj) (parent : Z) (pv : option Z) (here : option Z) : Prop :=
  match pv with
  | Some m => exists o', L m = Some o' /\ o_next o' = here /\ o_parent o' = Some parent
  | None => True
  end.
Definition ctx_next (L : Z -> option oobj) (parent : Z) (next : option Z) (here : Z) : Prop :=
  match next with
  | Some m => exists o', L m = Some o' /\ o_prev o' = Some here /\ o_parent o' = Some parent
  | None => True
  end.

Definition tree_ptrs_P pages (L : Z -> option oobj) (t : ntree) : Prop :=
  forall parent pv next,
    (forall o, In o (objs_tree pages parent pv next t) -> L (o_num o) = Some o) ->
    ctx_prev L parent pv (Some (nref t)) -> ctx_next L parent next (nref t) ->
    Forall (ptr_ok L) (objs_tree pages parent pv next t).

Lemma forest_ptrs pages L : forall l, Forall (tree_ptrs_P pages L) l ->
  forall parent pv, (forall o, In o (objs_forest pages parent pv l) -> L (o_num o) = Some o) ->
  ctx_prev L parent pv (hd_ref l) -> Forall (ptr_ok L) (objs_forest pages parent pv l).
Proof.
  induction 1 as [|k rest Hk _ IH]; intros parent pv HL Hc; [constructor|].
  cbn [objs_forest]. apply Forall_app. split.
  - apply Hk.
    + intros o Ho. apply HL. cbn [objs_forest]. apply in_or_app. now left.
    + exact Hc.
    + destruct rest as [|t' rest']; [exact I|]. cbn [hd_ref ctx_next].
      destruct (head_obj pages t' rest' parent (Some (nref k))) as (o' & Hin & Hn & Hp & Hpa & _).
      exists o'. rewrite <- Hn. split; [|split; assumption].
      apply HL. cbn [objs_forest]. apply in_or_app. now right.
  - apply IH.
    + intros o Ho. apply HL. cbn [objs_forest]. apply in_or_app. now right.
    + cbn [ctx_prev]. destruct (head_obj pages k rest parent pv) as (o' & Hin & Hn & _ & Hpa & Hnx).
      exists o'. rewrite <- Hn. split; [apply HL; exact Hin|split; assumption].
Qed.

Lemma tree_ptrs pages L : forall t, tree_ptrs_P pages L t.
Proof.
  apply ntree_ind2. intros r ti pg cl ks IH parent pv next HL Hp Hn.
  rewrite objs_tree_eq in *. cbn [nref] in *. constructor.
  - unfold ptr_ok. cbn [o_num o_next o_prev o_first o_last o_parent]. split; [|split; [|split; [|split]]].
    + intros m E. subst next. exact Hn.
    + intros m E. subst pv. exact Hp.
    + intros m E. destruct ks as [|t' ks']; [discriminate|]. cbn in E. inversion E; subst m.
      destruct (head_obj pages t' ks' r None) as (o' & Hin & Hnum & Hpv & Hpa & _).
      exists o'. rewrite <- Hnum. split; [apply HL; now right|split; assumption].
    + intros m E. destruct (last_obj pages ks r None m E) as (o' & Hin & Hnum & Hnx & Hpa).
      exists o'. rewrite <- Hnum. split; [apply HL; now right|split; assumption].
    + destruct ks as [|t' [|t'' ks']]; cbn; split; intros; try reflexivity; try discriminate.
      exfalso. clear -H. revert t'' H. induction ks' as [|x ks' IHk]; intros t'' H; [discriminate|]. exact (IHk x H).
  - apply (forest_ptrs pages L ks IH).
    + intros o Ho. apply HL. now right.
    + exact I.
Qed.

Theorem outline_pointers_consistent pages n0 f objs root :
  add_outlines_model pages n0 f = Some (objs, root) ->
  Forall (ptr_ok (lookup objs)) objs /\
  match root with
  | Some (rn, rc, rf, rl) =>
      (forall m, rf = Some m -> exists o, lookup objs m = Some o /\ o_parent o = Some rn /\ o_prev o = None) /\
      (forall m, rl = Some m -> exists o, lookup objs m = Some o /\ o_parent o = Some rn /\ o_next o = None) /\
      (rf = None <-> rl = None)
  | None => True
  end.
Proof.
  unfold add_outlines_model. destruct (forallb (pages_ok (length pages)) f); [|discriminate].
  destruct (number n0 f) as [nf n1] eqn:En.
  destruct (number_ok pages f n0 nf n1 n1 None En) as (H1 & H2 & H3 & H4).
  destruct nf as [|t nf'].
  - intros H. inversion H; subst. split; [constructor|exact I].
  - remember (t :: nf') as nf eqn:Enf. intros H. injection H as <- <-.
    assert (Hnd : NoDup (map o_num (objs_forest pages n1 None nf))).
    { rewrite H3. apply (zrange_nodup (Z.to_nat (n1 - n0))). reflexivity. }
    assert (HL : forall o, In o (objs_forest pages n1 None nf) -> lookup (objs_forest pages n1 None nf) (o_num o) = Some o)
      by (intros o Ho; now apply lookup_found).
    split.
    + apply (forest_ptrs pages). { rewrite Forall_forall. intros x _. apply tree_ptrs. } { exact HL. } { exact I. }
    + split; [|split].
      * intros m E. subst nf. cbn in E. inversion E; subst m.
        destruct (head_obj pages t nf' n1 None) as (o & Hin & Hn & Hpv & Hpa & _).
        exists o. rewrite <- Hn. split; [now apply HL|split; assumption].
      * intros m E. destruct (last_obj pages nf n1 None m E) as (o & Hin & Hn & Hnx & Hpa).
        exists o. rewrite <- Hn. split; [now apply HL|split; assumption].
      * subst nf. split; [discriminate|]. intros E. exfalso. clear -E. revert t E.
        induction nf' as [|x l IHl]; intros t E; [discriminate|]. exact (IHl x E).
Qed.

Example outline_example :
  add_outlines_model [3; 9] 10
    [ONode 100 0 false [ONode 101 0 true [ONode 102 1 false []]; ONode 103 1 false []]; ONode 104 1 true []] =
  Some ([mkobj 10 100 3 2 (Some 15) None (Some 14) (Some 11) (Some 13);
         mkobj 11 101 3 (-1) (Some 10) None (Some 13) (Some 12) (Some 12);
         mkobj 12 102 9 0 (Some 11) None None None None;
         mkobj 13 103 9 0 (Some 10) (Some 11) None None None;
         mkobj 14 104 9 0 (Some 15) (Some 10) None None None],
        Some (15, 4, Some 10, Some 14)).
Proof. vm_compute. reflexivity. Qed.
