(* C07 - proofs about the loop of preprocess_declarations (model/C07Decl.v). *)
From Coq Require Import ZArith List Bool String Ascii Lia.
Require Import WV.model.C07Tok WV.model.C07Decl.
Import ListNotations.
Open Scope string_scope.

Section PreprocessProofs.
  Variable T0 T V : Type.
  Variable strip : T0 -> T.
  Variable is_empty : T -> bool.
  Variable validator : string -> T -> res (list (string * V)).
  Variable not_print proprietary unstable : string -> bool.

  Notation item := (item T0).
  Notation pp1 := (pp1 T0 T V strip is_empty validator not_print proprietary unstable).
  Notation pp := (pp T0 T V strip is_empty validator not_print proprietary unstable).
  Notation resolve_name := (resolve_name not_print proprietary unstable).
  Notation out := (out V).

  (* concatenation of generator segments, an exception ends everything *)
  Definition seq2 (a b : res (list out)) : res (list out) :=
    bind a (fun x => bind b (fun y => Ok (x ++ y)%list)).

  Lemma seq2_assoc a b c : seq2 (seq2 a b) c = seq2 a (seq2 b c).
  Proof.
    destruct a as [x| |]; simpl; auto.
    destruct b as [y| |]; simpl; auto.
    destruct c as [z| |]; simpl; auto.
    now rewrite app_assoc.
  Qed.

  Lemma seq2_nil_l a : seq2 (Ok []) a = a.
  Proof. destruct a; reflexivity. Qed.

  Lemma seq2_nil_r a : seq2 a (Ok []) = a.
  Proof. destruct a; simpl; auto. now rewrite app_nil_r. Qed.

  Definition step (acc : res (list out)) (d : item) := bind acc (fun a => bind (pp1 d) (fun o => Ok (a ++ o)%list)).

  Lemma step_seq2 acc d : step acc d = seq2 acc (pp1 d).
  Proof. reflexivity. Qed.

  Lemma fold_from acc ds : fold_left step ds acc = seq2 acc (fold_left step ds (Ok [])).
  Proof.
    revert acc. induction ds as [|d ds IH]; intro acc; cbn [fold_left].
    - now rewrite seq2_nil_r.
    - rewrite (IH (step acc d)). rewrite (IH (step (Ok []) d)).
      rewrite !step_seq2, seq2_nil_l. now rewrite seq2_assoc.
  Qed.

  Lemma pp_nil : pp [] = Ok [].
  Proof. reflexivity. Qed.

  Lemma pp_cons d ds : pp (d :: ds) = seq2 (pp1 d) (pp ds).
  Proof.
    unfold pp at 1. simpl. fold step.
    change (fold_left step ds (step (Ok []) d) = seq2 (pp1 d) (pp ds)).
    rewrite fold_from. rewrite step_seq2, seq2_nil_l. reflexivity.
  Qed.

  (* ---- order: the output of a block is the outputs of its parts, in order *)
  Theorem pp_app a b : pp (a ++ b) = seq2 (pp a) (pp b).
  Proof.
    induction a as [|d a IH]; cbn [app].
    - now rewrite pp_nil, seq2_nil_l.
    - now rewrite !pp_cons, IH, seq2_assoc.
  Qed.

  Definition yields (d : item) : list out := match pp1 d with Ok l => l | _ => [] end.

  Lemma pp1_never_invalid d : pp1 d <> Invalid.
  Proof.
    unfold C07Decl.pp1. destruct d; try discriminate.
    destruct (resolve_name name lname); try discriminate.
    destruct (is_empty (strip value)); try discriminate.
    destruct (validator s (strip value)); discriminate.
  Qed.

  Theorem pp_is_concat ds :
    (forall d, In d ds -> pp1 d <> Crash) -> pp ds = Ok (flat_map yields ds).
  Proof.
    induction ds as [|d ds IH]; intro H.
    - reflexivity.
    - rewrite pp_cons, IH by (intros; apply H; now right).
      assert (Hd : pp1 d <> Crash) by (apply H; now left).
      pose proof (pp1_never_invalid d) as Hi.
      destruct (pp1 d) as [l| |] eqn:E; try congruence.
      assert (Y : yields d = l) by (unfold yields; now rewrite E).
      cbn [flat_map]. rewrite Y. reflexivity.
  Qed.

  (* ---- an item that yields nothing might as well be absent, wherever it stands *)
  Theorem vanishes ds1 bad ds2 :
    pp1 bad = Ok [] -> pp (ds1 ++ bad :: ds2) = pp (ds1 ++ ds2).
  Proof.
    intro H. rewrite !pp_app, pp_cons, H, seq2_nil_l. reflexivity.
  Qed.

  (* which items yield nothing *)
  Theorem invalid_yields_nothing name lname value imp n :
    resolve_name name lname = Some n -> validator n (strip value) = Invalid ->
    pp1 (IDecl name lname value imp) = Ok [].
  Proof.
    intros Hn Hv. unfold C07Decl.pp1. rewrite Hn. destruct (is_empty (strip value)); auto. now rewrite Hv.
  Qed.

  Theorem empty_yields_nothing name lname value imp :
    is_empty (strip value) = true -> pp1 (IDecl name lname value imp) = Ok [].
  Proof.
    intro H. unfold C07Decl.pp1. destruct (resolve_name name lname); auto. now rewrite H.
  Qed.

  Theorem unresolved_yields_nothing name lname value imp :
    resolve_name name lname = None -> pp1 (IDecl name lname value imp) = Ok [].
  Proof. intro H. unfold C07Decl.pp1. now rewrite H. Qed.

  Theorem non_declaration_yields_nothing d : is_decl T0 d = false -> pp1 d = Ok [].
  Proof. destruct d; simpl; intro H; try reflexivity; discriminate. Qed.

  (* ---- !important: carried by every longhand of the declaration, and by nothing else *)
  Theorem important_carried name lname value imp l :
    pp1 (IDecl name lname value imp) = Ok l -> Forall (fun o => snd o = imp) l.
  Proof.
    unfold C07Decl.pp1. destruct (resolve_name name lname).
    2: { intro H; inversion H; constructor. }
    destruct (is_empty (strip value)).
    1: { intro H; inversion H; constructor. }
    destruct (validator s (strip value)); intro H; inversion H; subst; try constructor.
    apply Forall_forall. intros o Ho. apply in_map_iff in Ho. destruct Ho as [nv [<- _]]. reflexivity.
  Qed.

  Theorem important_only_flag name lname value imp imp' l :
    pp1 (IDecl name lname value imp) = Ok l ->
    pp1 (IDecl name lname value imp') = Ok (map (fun o => (fst o, imp')) l).
  Proof.
    unfold C07Decl.pp1. destruct (resolve_name name lname).
    2: { intro H; inversion H; reflexivity. }
    destruct (is_empty (strip value)).
    1: { intro H; inversion H; reflexivity. }
    destruct (validator s (strip value)); intro H; inversion H; subst; try reflexivity.
    rewrite map_map. reflexivity.
  Qed.

  Theorem important_flag_carried name lname value imp imp' l :
    pp1 (IDecl name lname value imp) = Ok l ->
    Forall (fun o => snd o = imp) l /\
    pp1 (IDecl name lname value imp') = Ok (map (fun o => (fst o, imp')) l).
  Proof.
    intro H. split; [eapply important_carried|eapply important_only_flag]; eauto.
  Qed.

  (* every output comes from one declaration of the block, with that declaration's flag *)
  Theorem outputs_come_from_declarations ds l :
    pp ds = Ok l ->
    forall o, In o l -> exists name lname value imp l1,
      In (IDecl name lname value imp) ds /\ pp1 (IDecl name lname value imp) = Ok l1 /\ In o l1 /\ snd o = imp.
  Proof.
    revert l. induction ds as [|d ds IH]; intros l H o Ho.
    - rewrite pp_nil in H. inversion H; subst. destruct Ho.
    - rewrite pp_cons in H. unfold seq2 in H.
      destruct (pp1 d) as [l1| |] eqn:E1; try discriminate. simpl in H.
      destruct (pp ds) as [l2| |] eqn:E2; try discriminate. simpl in H. inversion H; subst.
      apply in_app_or in Ho. destruct Ho as [Ho|Ho].
      + destruct d; try (simpl in E1; inversion E1; subst; now destruct Ho).
        exists name, lname, value, important, l1. repeat split; auto. now left.
        pose proof (important_carried _ _ _ _ _ E1) as F. rewrite Forall_forall in F. now apply F.
      + destruct (IH l2 eq_refl o Ho) as (n & ln & v & i & l1' & Hin & Hp & Hio & Hs).
        exists n, ln, v, i, l1'. repeat split; auto. now right.
  Qed.

  (* ---- no validator raises anything but InvalidValues => the loop ends normally *)
  Theorem no_crash ds :
    (forall n t, validator n t <> Crash) -> exists l, pp ds = Ok l.
  Proof.
    intro H. exists (flat_map yields ds). apply pp_is_concat.
    intros d _. unfold C07Decl.pp1. destruct d; try discriminate.
    destruct (resolve_name name lname); try discriminate.
    destruct (is_empty (strip value)); try discriminate.
    specialize (H s (strip value)). destruct (validator s (strip value)); try discriminate. congruence.
  Qed.

  (* a raising validator aborts the block: everything after it is lost (why C02 needs the hypothesis) *)
  Theorem crash_propagates ds1 d ds2 :
    pp1 d = Crash -> (forall x, In x ds1 -> pp1 x <> Crash) -> pp (ds1 ++ d :: ds2) = Crash.
  Proof.
    intros Hd H1. rewrite pp_app, pp_cons, Hd.
    rewrite (pp_is_concat ds1 H1). reflexivity.
  Qed.

  (* ---- a shorthand declaration is equivalent to the longhand declarations it stands for *)
  Theorem shorthand_equals_longhands name lname value imp n l (longs : list item) :
    resolve_name name lname = Some n -> is_empty (strip value) = false ->
    validator n (strip value) = Ok l ->
    Forall2 (fun nv d => exists dn dln dv n',
               d = IDecl dn dln dv imp /\ resolve_name dn dln = Some n' /\ is_empty (strip dv) = false /\
               validator n' (strip dv) = Ok [nv]) l longs ->
    pp [IDecl name lname value imp] = pp longs.
  Proof.
    intros Hn He Hv F.
    rewrite pp_cons, pp_nil, seq2_nil_r.
    unfold C07Decl.pp1 at 1. rewrite Hn, He, Hv. clear Hn He Hv.
    induction F as [|nv d l' longs' Hd F IH].
    - reflexivity.
    - rewrite pp_cons. destruct Hd as (dn & dln & dv & n' & -> & Hr & Hem & Hval).
      unfold C07Decl.pp1 at 1. rewrite Hr, Hem, Hval.
      rewrite <- IH. reflexivity.
  Qed.
End PreprocessProofs.

(* ---- the hypotheses are satisfiable: a block with a bad declaration in the middle *)
Example vanishes_example :
  let validator := fun (n : string) (t : nat) =>
      if String.eqb n "color" then (if Nat.eqb t 1 then Ok [("color", 10%nat)] else Invalid)
      else if String.eqb n "margin" then Ok [("margin-top", t); ("margin-left", t)] else Invalid in
  let P := pp nat nat nat (fun x => x) (fun t => Nat.eqb t 0) validator
              (fun s => String.eqb s "volume") (fun _ => false) (fun _ => false) in
  P [IDecl "margin" "margin" 3%nat true; IDecl "color" "color" 7%nat false; IDecl "COLOR" "color" 1%nat false]
  = Ok [("margin_top", 3%nat, true); ("margin_left", 3%nat, true); ("color", 10%nat, false)]
  /\ P [IDecl "margin" "margin" 3%nat true; IDecl "COLOR" "color" 1%nat false]
  = Ok [("margin_top", 3%nat, true); ("margin_left", 3%nat, true); ("color", 10%nat, false)].
Proof. split; reflexivity. Qed.
