(* C08 - proofs about the table slot assignment model (model/C08Table.v). *)
From Coq Require Import ZArith List Bool Lia FinFun.
Require Import WV.model.C08Table.
Import ListNotations.
Local Open Scope Z_scope.

(* ------------------------------------------------------------------ small tools *)
Lemma zmem_In x l : zmem x l = true <-> In x l.
Proof.
  unfold zmem. rewrite existsb_exists. split.
  - intros [y [Hy He]]. apply Z.eqb_eq in He. subst. exact Hy.
  - intros H. exists x. split; [exact H|apply Z.eqb_refl].
Qed.

Lemma zrange_In z x n : In z (zrange x n) <-> x <= z < x + n.
Proof.
  unfold zrange. rewrite in_map_iff. split.
  - intros [i [Hi Hs]]. apply in_seq in Hs. lia.
  - intros H. exists (Z.to_nat (z - x)). split; [lia|]. apply in_seq. lia.
Qed.

Lemma first_free_spec fuel occ x g :
  first_free fuel occ x = Some g -> x <= g /\ ~ In g occ /\ forall z, x <= z < g -> In z occ.
Proof.
  revert x. induction fuel as [|n IH]; intros x H; simpl in H; [discriminate|].
  destruct (zmem x occ) eqn:E.
  - destruct (IH _ H) as [H1 [H2 H3]]. split; [lia|]. split; [exact H2|].
    intros z Hz. destruct (Z.eq_dec z x) as [->|Hn]; [apply zmem_In; exact E|apply H3; lia].
  - injection H as <-. split; [lia|]. split; [|intros z Hz; lia].
    intros Hin. apply zmem_In in Hin. congruence.
Qed.

Lemma first_free_none fuel occ x :
  first_free fuel occ x = None -> forall i, (i < fuel)%nat -> In (x + Z.of_nat i) occ.
Proof.
  revert x. induction fuel as [|n IH]; intros x H i Hi; [lia|]. simpl in H.
  destruct (zmem x occ) eqn:E; [|discriminate].
  destruct i as [|i'].
  - rewrite Z.add_0_r. apply zmem_In. exact E.
  - replace (x + Z.of_nat (S i')) with ((x + 1) + Z.of_nat i') by lia. apply IH; [exact H|lia].
Qed.

(* the while loop stops: len(occupied) + 1 probes are enough *)
Lemma first_free_total occ x : first_free (S (length occ)) occ x <> None.
Proof.
  intros H. pose proof (first_free_none _ _ _ H) as Hin.
  set (l := map (fun i => x + Z.of_nat i) (seq 0 (S (length occ)))).
  assert (Hnd : NoDup l).
  { unfold l. apply FinFun.Injective_map_NoDup; [|apply seq_NoDup]. intros a b Hab. lia. }
  assert (Hincl : incl l occ).
  { intros z Hz. unfold l in Hz. apply in_map_iff in Hz. destruct Hz as [i [<- Hi]]. apply in_seq in Hi. apply Hin. lia. }
  pose proof (NoDup_incl_length Hnd Hincl) as Hlen. unfold l in Hlen. rewrite map_length, seq_length in Hlen. lia.
Qed.

Lemma mark_length rows k cols : length (mark rows k cols) = length rows.
Proof.
  unfold mark. rewrite app_length, map_length. rewrite <- (firstn_skipn k rows) at 3. rewrite app_length. reflexivity.
Qed.

Lemma mark_nth rows k cols j z :
  In z (nth j (mark rows k cols) []) <-> In z (nth j rows []) \/ ((j < k)%nat /\ (j < length rows)%nat /\ In z cols).
Proof.
  unfold mark. revert k j. induction rows as [|r rows IH]; intros k j.
  - rewrite firstn_nil, skipn_nil. simpl. destruct j; simpl; split; try tauto; intros [H|[_ [H _]]]; try tauto; lia.
  - destruct k as [|k].
    + simpl. split; [tauto|]. intros [H|[H _]]; [exact H|lia].
    + simpl. destruct j as [|j].
      * rewrite in_app_iff. split; [intros [H|H]; [tauto|right; repeat split; try lia; exact H]|].
        intros [H|[_ [_ H]]]; tauto.
      * rewrite (IH k j). split; (intros [H|[H1 [H2 H3]]]; [tauto|right; repeat split; try lia; exact H3]).
Qed.

Local Arguments first_free : simpl never.

(* ------------------------------------------------------------------ one row *)
Fixpoint chain (S : Z -> Prop) (from : Z) (outs : list cellout) : Prop :=
  match outs with
  | [] => True
  | c :: r => is_first_free S from (gx c) /\ chain S (gx c + cs c) r
  end.

Lemma clip_one left : 1 <= left -> clip 1 left = 1.
Proof. intros H. unfold clip. simpl. lia. Qed.

Lemma do_row_spec o occn x gw cells outs occn' w :
  do_row o occn x gw cells = Some (outs, occn', w) ->
  length occn' = length occn /\
  Forall2 (fun (i : cellin) (c : cellout) => cs c = fst i /\ rs c = clip (snd i) (Z.of_nat (length occn) + 1)) cells outs /\
  chain (fun z => In z o) x outs /\
  (forall j z, In z (nth j occn' []) <->
               In z (nth j occn []) \/ exists c, In c outs /\ Z.of_nat j + 1 < rs c /\ gx c <= z < gx c + cs c) /\
  (gw <= w /\ Forall (fun c => gx c + cs c <= w) outs) /\
  Forall (fun c => 1 <= cs c /\ 1 <= rs c <= Z.of_nat (length occn) + 1) outs.
Proof.
  revert occn x gw outs occn' w. induction cells as [|[c r] rest IH]; intros occn x gw outs occn' w H.
  - simpl in H. injection H as <- <- <-. repeat split; try constructor; try lia; try tauto.
    intros [H|[c [[] _]]]; exact H.
  - simpl in H. destruct ((c <? 1) || (r <? 0)) eqn:Edom; [discriminate|].
    apply orb_false_iff in Edom. destruct Edom as [Hc Hr]. apply Z.ltb_ge in Hc. apply Z.ltb_ge in Hr.
    destruct (first_free (S (length o)) o x) as [g|] eqn:Eff; [|discriminate].
    set (maxr := Z.of_nat (length occn) + 1) in *.
    set (r' := if r =? 1 then 1 else if r =? 0 then maxr else Z.min r maxr) in *.
    set (occ1 := if r =? 1 then occn else mark occn (Z.to_nat (r' - 1)) (zrange g c)) in *.
    destruct (do_row o occ1 (g + c) (Z.max gw (g + c)) rest) as [[[outs1 o1] w1]|] eqn:Erec; [|discriminate].
    injection H as <- <- <-.
    assert (Hlen1 : length occ1 = length occn) by (unfold occ1; destruct (r =? 1); [reflexivity|apply mark_length]).
    assert (Hr' : r' = clip r maxr /\ 1 <= r' <= maxr).
    { unfold r', clip, maxr. destruct (r =? 1) eqn:E1; [apply Z.eqb_eq in E1; subst r; simpl; lia|].
      apply Z.eqb_neq in E1. destruct (r =? 0) eqn:E0; [lia|]. apply Z.eqb_neq in E0. lia. }
    destruct Hr' as [Hclip Hr'].
    destruct (IH occ1 (g + c) (Z.max gw (g + c)) outs1 o1 w1 Erec) as [I1 [I2 [I3 [I4 [[I5 I5'] I6]]]]].
    rewrite Hlen1 in *. fold maxr in I2, I6.
    destruct (first_free_spec _ _ _ _ Eff) as [F1 [F2 F3]].
    split; [exact I1|]. split; [constructor; [split; [reflexivity|exact Hclip]|exact I2]|].
    split; [split; [split; [exact F1|split; [exact F2|exact F3]]|exact I3]|].
    split; [|split; [split; [lia|constructor; [simpl; unfold gx, cs; simpl; lia|exact I5']]|
                     constructor; [unfold cs, rs; simpl; lia|exact I6]]].
    intros j z. rewrite I4.
    assert (Hocc1 : In z (nth j occ1 []) <->
                    In z (nth j occn []) \/ (Z.of_nat j + 1 < r' /\ g <= z < g + c)).
    { unfold occ1. destruct (r =? 1) eqn:E1.
      - apply Z.eqb_eq in E1. assert (r' = 1) by (unfold r'; subst r; reflexivity). split; [tauto|].
        intros [HH|[HH _]]; [exact HH|lia].
      - rewrite mark_nth, zrange_In. split; (intros [HH|HH]; [tauto|right]).
        + destruct HH as [H1 [H2 H3]]. split; [lia|exact H3].
        + destruct HH as [H1 H2]. unfold maxr in Hr'. repeat split; try lia. }
    rewrite Hocc1. split.
    + intros [[HH|HH]|[c0 [Hin HH]]]; [tauto| |right; exists c0; split; [right; exact Hin|exact HH]].
      right. exists (g, c, r'). split; [left; reflexivity|exact HH].
    + intros [HH|[c0 [[<-|Hin] HH]]]; [tauto| |right; exists c0; tauto]. left. right. exact HH.
Qed.

Lemma do_row_total o occn x gw cells :
  Forall (fun i : cellin => 1 <= fst i /\ 0 <= snd i) cells -> do_row o occn x gw cells <> None.
Proof.
  intros H. revert occn x gw. induction H as [|[c r] rest [Hc Hr] Hrest IH]; intros occn x gw; simpl; [discriminate|].
  simpl in Hc, Hr. replace ((c <? 1) || (r <? 0)) with false by (symmetry; apply orb_false_iff; split; apply Z.ltb_ge; lia).
  destruct (first_free (S (length o)) o x) as [g|] eqn:Eff; [|exfalso; exact (first_free_total o x Eff)].
  match goal with |- match ?X with _ => _ end <> None => destruct X as [[[? ?] ?]|] eqn:E end; [discriminate|].
  exfalso. exact (IH _ _ _ E).
Qed.

Lemma chain_ext (S S' : Z -> Prop) from outs : (forall z, S z <-> S' z) -> chain S from outs -> chain S' from outs.
Proof.
  intros He. revert from. induction outs as [|c r IH]; intros from; simpl; [auto|].
  intros [[H1 [H2 H3]] H4]. split; [|apply IH; exact H4].
  split; [exact H1|]. split; [rewrite <- He; exact H2|]. intros z Hz. apply He. apply H3. exact Hz.
Qed.

Definition prev_end_row (from : Z) (row : list cellout) (k : nat) : Z :=
  match k with O => from | S k' => match nth_error row k' with Some c => gx c + cs c | None => 0 end end.

Lemma chain_nth S from row k c :
  chain S from row -> nth_error row k = Some c -> is_first_free S (prev_end_row from row k) (gx c).
Proof.
  revert from k. induction row as [|d r IH]; intros from k Hc Hk; [destruct k; discriminate|].
  simpl in Hc. destruct Hc as [H1 H2]. destruct k as [|k].
  - simpl in Hk. injection Hk as <-. exact H1.
  - simpl in Hk. specialize (IH (gx d + cs d) k H2 Hk). destruct k as [|k']; simpl in *; exact IH.
Qed.

Lemma chain_sorted S from row :
  Forall (fun c => 1 <= cs c) row -> chain S from row ->
  forall k1 k2 c1 c2, (k1 < k2)%nat -> nth_error row k1 = Some c1 -> nth_error row k2 = Some c2 ->
  gx c1 + cs c1 <= gx c2.
Proof.
  intros Hpos. revert from. induction Hpos as [|d r Hd Hr IH]; intros from Hc k1 k2 c1 c2 Hk H1 H2; [destruct k1; discriminate|].
  simpl in Hc. destruct Hc as [[Hf _] Hc'].
  assert (Hlow : forall k c, nth_error r k = Some c -> gx d + cs d <= gx c).
  { clear -Hc' Hr. revert Hc'. generalize (gx d + cs d). induction Hr as [|e r' He Hr' IHr]; intros f Hc' k c Hk; [destruct k; discriminate|].
    simpl in Hc'. destruct Hc' as [[Hf _] Hc'']. destruct k as [|k]; [simpl in Hk; injection Hk as <-; exact Hf|].
    simpl in Hk. specialize (IHr _ Hc'' k c Hk). lia. }
  destruct k2 as [|k2]; [lia|]. simpl in H2. destruct k1 as [|k1].
  - simpl in H1. injection H1 as <-. eapply Hlow. exact H2.
  - simpl in H1. eapply (IH _ Hc' k1 k2); try eassumption. lia.
Qed.

(* ------------------------------------------------------------------ the rows of a group *)
Lemma cell_at_0 o ro k : cell_at (o :: ro) 0 k = nth_error o k.
Proof. reflexivity. Qed.
Lemma cell_at_S o ro y k : cell_at (o :: ro) (S y) k = cell_at ro y k.
Proof. reflexivity. Qed.

Lemma rect_S y c r x : rect (S y) c (S r) x <-> rect y c r x.
Proof. unfold rect. rewrite !Nat2Z.inj_succ. lia. Qed.

Lemma from_above_0 outs x : ~ from_above outs 0 x.
Proof. intros [y0 [k0 [c0 [H _]]]]. lia. Qed.

Lemma from_above_S o ro y x :
  from_above (o :: ro) (S y) x <-> (exists c0, In c0 o /\ rect 0 c0 (S y) x) \/ from_above ro y x.
Proof.
  split.
  - intros [y0 [k0 [c0 [Hy [Hc Hr]]]]]. destruct y0 as [|y0].
    + left. exists c0. split; [eapply nth_error_In; exact Hc|exact Hr].
    + right. exists y0, k0, c0. split; [lia|]. split; [exact Hc|apply rect_S; exact Hr].
  - intros [[c0 [Hin Hr]]|[y0 [k0 [c0 [Hy [Hc Hr]]]]]].
    + apply In_nth_error in Hin. destruct Hin as [k0 Hk]. exists 0%nat, k0, c0. split; [lia|]. split; [exact Hk|exact Hr].
    + exists (S y0), k0, c0. split; [lia|]. split; [exact Hc|apply rect_S; exact Hr].
Qed.

Lemma prev_end_S o ro y k : prev_end (o :: ro) (S y) k = prev_end ro y k.
Proof. destruct k; reflexivity. Qed.
Lemma prev_end_0 o ro k : prev_end (o :: ro) 0 k = prev_end_row 0 o k.
Proof. destruct k; reflexivity. Qed.

Lemma is_first_free_ext (S S' : Z -> Prop) f g : (forall z, S z <-> S' z) -> is_first_free S f g -> is_first_free S' f g.
Proof.
  intros He [H1 [H2 H3]]. split; [exact H1|]. split; [rewrite <- He; exact H2|]. intros z Hz. apply He, H3, Hz.
Qed.

Lemma do_rows_spec occ gw rows outs w :
  do_rows occ gw rows = Some (outs, w) -> length occ = length rows ->
  (forall y k c, cell_at outs y k = Some c ->
     is_first_free (fun x => In x (nth y occ []) \/ from_above outs y x) (prev_end outs y k) (gx c)) /\
  spans_ok rows outs /\
  (gw <= w /\ forall y k c, cell_at outs y k = Some c -> gx c + cs c <= w) /\
  (forall y k1 k2 c1 c2, (k1 < k2)%nat -> cell_at outs y k1 = Some c1 -> cell_at outs y k2 = Some c2 ->
     gx c1 + cs c1 <= gx c2) /\
  (forall y k c, cell_at outs y k = Some c -> 1 <= cs c /\ 1 <= rs c /\ Z.of_nat y + rs c <= Z.of_nat (length rows)).
Proof.
  revert occ gw outs w. induction rows as [|row rest IH]; intros occ gw outs w H Hlen.
  - simpl in H. injection H as <- <-. repeat split; try lia; intros; destruct y; discriminate.
  - simpl in H. destruct occ as [|o occ']; [discriminate|].
    destruct (do_row o occ' 0 gw row) as [[[outs0 occ''] gw']|] eqn:Erow; [|discriminate].
    destruct (do_rows occ'' gw' rest) as [[routs w']|] eqn:Erest; [|discriminate].
    injection H as <- <-. simpl in Hlen. injection Hlen as Hlen.
    destruct (do_row_spec _ _ _ _ _ _ _ _ Erow) as [R1 [R2 [R3 [R4 [[R5 R5'] R6]]]]].
    assert (Hlen'' : length occ'' = length rest) by lia.
    destruct (IH occ'' gw' routs w' Erest Hlen'') as [A [B [[C C'] [D E]]]].
    split; [|split; [|split; [|split]]].
    + intros y k c Hc. destruct y as [|y].
      * rewrite cell_at_0 in Hc. rewrite prev_end_0.
        eapply is_first_free_ext; [|eapply chain_nth; [exact R3|exact Hc]].
        intros z. simpl. split; [tauto|]. intros [H|H]; [exact H|exfalso; exact (from_above_0 _ _ H)].
      * rewrite cell_at_S in Hc. rewrite prev_end_S. eapply is_first_free_ext; [|apply (A y k c Hc)].
        intros z. simpl nth. rewrite from_above_S, R4. unfold rect. simpl Z.of_nat at 1. rewrite Nat2Z.inj_succ.
        split.
        -- intros [[H|[c0 [Hin H]]]|H]; [tauto| |tauto]. right. left. exists c0. split; [exact Hin|lia].
        -- intros [H|[[c0 [Hin H]]|H]]; [tauto| |tauto]. left. right. exists c0. split; [exact Hin|lia].
    + cbn [spans_ok]. split; [|exact B]. rewrite Hlen in R2.
      change (length (row :: rest)) with (S (length rest)). rewrite Nat2Z.inj_succ. unfold Z.succ. exact R2.
    + split; [lia|]. intros y k c Hc. destruct y as [|y].
      * rewrite cell_at_0 in Hc. apply nth_error_In in Hc. rewrite Forall_forall in R5'. specialize (R5' c Hc). lia.
      * rewrite cell_at_S in Hc. eapply C'. exact Hc.
    + intros y k1 k2 c1 c2 Hk H1 H2. destruct y as [|y].
      * rewrite cell_at_0 in H1, H2. eapply (chain_sorted _ _ _ _ R3); try eassumption.
      * rewrite cell_at_S in H1, H2. eapply D; eassumption.
    + intros y k c Hc. destruct y as [|y].
      * rewrite cell_at_0 in Hc. apply nth_error_In in Hc. rewrite Forall_forall in R6. specialize (R6 c Hc). simpl length. lia.
      * rewrite cell_at_S in Hc. specialize (E y k c Hc). simpl length. lia.
  Unshelve. eapply Forall_impl; [|exact R6]. intros a Ha. destruct Ha as [Ha _]. exact Ha.
Qed.

Lemma do_rows_total occ gw rows :
  length occ = length rows -> Forall (Forall (fun i : cellin => 1 <= fst i /\ 0 <= snd i)) rows -> do_rows occ gw rows <> None.
Proof.
  intros Hlen H. revert occ gw Hlen. induction H as [|row rest Hrow Hrest IH]; intros occ gw Hlen; simpl; [discriminate|].
  destruct occ as [|o occ']; [discriminate|]. simpl in Hlen. injection Hlen as Hlen.
  destruct (do_row o occ' 0 gw row) as [[[outs0 occ''] gw']|] eqn:Erow; [|exfalso; exact (do_row_total _ _ _ _ _ Hrow Erow)].
  destruct (do_row_spec _ _ _ _ _ _ _ _ Erow) as [R1 _].
  destruct (do_rows occ'' gw' rest) as [[? ?]|] eqn:E; [discriminate|]. exfalso. apply (IH occ'' gw'); [lia|exact E].
Qed.

(* ------------------------------------------------------------------ statements about a row group *)
Lemma init_nth (rows : list (list cellin)) y z : ~ In z (nth y (map (fun _ => @nil Z) rows) []).
Proof.
  revert y. induction rows as [|r rows IH]; intros y; destruct y; simpl; auto.
Qed.

Lemma group_total gw rows :
  Forall (Forall (fun i : cellin => 1 <= fst i /\ 0 <= snd i)) rows -> exists outs w, do_group gw rows = Some (outs, w).
Proof.
  intros H. unfold do_group. destruct (do_rows _ gw rows) as [[outs w]|] eqn:E; [eauto|].
  exfalso. eapply do_rows_total; [|exact H|exact E]. apply map_length.
Qed.

Lemma cell_starts_on_free_slot gw rows outs w :
  do_group gw rows = Some (outs, w) ->
  forall y k c, cell_at outs y k = Some c -> is_first_free (from_above outs y) (prev_end outs y k) (gx c).
Proof.
  unfold do_group. intros H y k c Hc.
  destruct (do_rows_spec _ _ _ _ _ H (map_length _ _)) as [A _].
  eapply is_first_free_ext; [|apply (A y k c Hc)]. intros z. simpl. split; [|tauto].
  intros [Hin|Hf]; [exfalso; exact (init_nth rows y z Hin)|exact Hf].
Qed.

Lemma rowspan_clipped_to_group gw rows outs w :
  do_group gw rows = Some (outs, w) ->
  spans_ok rows outs /\
  forall y k c, cell_at outs y k = Some c -> 1 <= rs c /\ Z.of_nat y + rs c <= Z.of_nat (length rows).
Proof.
  unfold do_group. intros H. destruct (do_rows_spec _ _ _ _ _ H (map_length _ _)) as [_ [B [_ [_ E]]]].
  split; [exact B|]. intros y k c Hc. destruct (E y k c Hc) as [_ [E1 E2]]. auto.
Qed.

Lemma grid_width_covers_group gw rows outs w :
  do_group gw rows = Some (outs, w) -> gw <= w /\ forall y k c, cell_at outs y k = Some c -> gx c + cs c <= w.
Proof.
  unfold do_group. intros H. destruct (do_rows_spec _ _ _ _ _ H (map_length _ _)) as [_ [_ [C _]]]. exact C.
Qed.

Lemma grid_width_covers_all gw groups outs w :
  do_table gw groups = Some (outs, w) ->
  gw <= w /\ Forall (fun g => forall y k c, cell_at g y k = Some c -> gx c + cs c <= w) outs.
Proof.
  revert gw outs w. induction groups as [|g rest IH]; intros gw outs w H; simpl in H.
  - injection H as <- <-. split; [lia|constructor].
  - destruct (do_group gw g) as [[o w1]|] eqn:Eg; [|discriminate].
    destruct (do_table w1 rest) as [[os w2]|] eqn:Er; [|discriminate]. injection H as <- <-.
    destruct (grid_width_covers_group _ _ _ _ Eg) as [G1 G2]. destruct (IH _ _ _ Er) as [I1 I2].
    split; [lia|]. constructor; [|exact I2]. intros y k c Hc. specialize (G2 y k c Hc). lia.
Qed.

Lemma cells_do_not_overlap_partial gw rows outs w :
  do_group gw rows = Some (outs, w) -> clear_below outs -> no_overlap outs.
Proof.
  unfold do_group. intros H Hside. destruct (do_rows_spec _ _ _ _ _ H (map_length _ _)) as [_ [_ [_ [D E]]]].
  assert (Hcross : forall y1 k1 c1 y2 k2 c2, cell_at outs y1 k1 = Some c1 -> cell_at outs y2 k2 = Some c2 ->
                     (y1 < y2)%nat -> forall r x, ~ (rect y1 c1 r x /\ rect y2 c2 r x)).
  { intros y1 k1 c1 y2 k2 c2 H1 H2 Hy r x [[R1 R1'] [R2 R2']].
    apply (Hside y2 k2 c2 H2 x R2'). exists y1, k1, c1. split; [exact Hy|]. split; [exact H1|]. split; [lia|exact R1']. }
  intros y1 k1 c1 y2 k2 c2 H1 H2 Hne r x Hov.
  destruct (Nat.lt_trichotomy y1 y2) as [Hy|[Hy|Hy]].
  - exact (Hcross _ _ _ _ _ _ H1 H2 Hy r x Hov).
  - subst y2. destruct Hov as [[_ R1] [_ R2]].
    destruct (Nat.lt_trichotomy k1 k2) as [Hk|[Hk|Hk]].
    + pose proof (D y1 k1 k2 c1 c2 Hk H1 H2). lia.
    + subst k2. congruence.
    + pose proof (D y1 k2 k1 c2 c1 Hk H2 H1). lia.
  - destruct Hov as [Ha Hb]. exact (Hcross _ _ _ _ _ _ H2 H1 Hy r x (conj Hb Ha)).
Qed.

Example cells_do_not_overlap_ex :
  do_group 0 [[(1, 3); (2, 1)]; [(1, 0); (1, 1)]; [(4, 1)]] =
    Some ([[(0, 1, 3); (1, 2, 1)]; [(1, 1, 2); (2, 1, 1)]; [(2, 4, 1)]], 6)
  /\ clear_below_b [[(0, 1, 3); (1, 2, 1)]; [(1, 1, 2); (2, 1, 1)]; [(2, 4, 1)]] = true.
Proof. vm_compute. auto. Qed.

(* [[1x1, 1x2]; [2x1]]: the second row's cell starts on slot 0 and reaches slot 1, owned by the row-spanning cell *)
Lemma cells_do_not_overlap_refuted :
  exists gw rows outs w, do_group gw rows = Some (outs, w) /\ ~ no_overlap outs.
Proof.
  exists 0, [[(1, 1); (1, 2)]; [(2, 1)]], [[(0, 1, 1); (1, 1, 2)]; [(0, 2, 1)]], 2. split; [reflexivity|].
  intros H. apply (H 0%nat 1%nat (1, 1, 2) 1%nat 0%nat (0, 2, 1) eq_refl eq_refl ltac:(congruence) 1%nat 1).
  unfold rect, gx, cs, rs. simpl. lia.
Qed.


(* rowspan clipping, row by row: `left` = rows from this one to the end of the group *)
Lemma spans_ok_nth rows outs :
  spans_ok rows outs ->
  forall y row orow, nth_error rows y = Some row -> nth_error outs y = Some orow ->
  Forall2 (fun (i : cellin) (o : cellout) => cs o = fst i /\ rs o = clip (snd i) (Z.of_nat (length rows) - Z.of_nat y)) row orow.
Proof.
  revert outs. induction rows as [|r0 rr IH]; intros outs H y row orow Hr Ho; [destruct y; discriminate|].
  destruct outs as [|o0 ro]; [destruct H|]. cbn [spans_ok] in H. destruct H as [H0 Hrest]. destruct y as [|y].
  - simpl in Hr, Ho. injection Hr as <-. injection Ho as <-. rewrite Z.sub_0_r. exact H0.
  - simpl in Hr, Ho. specialize (IH ro Hrest y row orow Hr Ho).
    replace (Z.of_nat (length (r0 :: rr)) - Z.of_nat (S y)) with (Z.of_nat (length rr) - Z.of_nat y) by (simpl length; lia). exact IH.
Qed.

Lemma Forall2_imp {A B} (P Q : A -> B -> Prop) l l' : (forall a b, P a b -> Q a b) -> Forall2 P l l' -> Forall2 Q l l'.
Proof. intros H. induction 1; constructor; auto. Qed.

Lemma rowspan0_to_group_end gw rows outs w :
  do_group gw rows = Some (outs, w) ->
  forall y row orow, nth_error rows y = Some row -> nth_error outs y = Some orow ->
  Forall2 (fun (i : cellin) (o : cellout) =>
             cs o = fst i /\
             (snd i = 0 -> rs o = Z.of_nat (length rows) - Z.of_nat y) /\
             (1 <= snd i -> rs o = Z.min (snd i) (Z.of_nat (length rows) - Z.of_nat y))) row orow.
Proof.
  intros H y row orow Hr Ho. destruct (rowspan_clipped_to_group _ _ _ _ H) as [Hs _].
  pose proof (spans_ok_nth rows outs Hs y row orow Hr Ho) as F. eapply Forall2_imp; [|exact F].
  intros i o [H1 H2]. split; [exact H1|]. unfold clip in H2. split; intros Hi.
  - rewrite Hi in H2. exact H2.
  - destruct (snd i =? 0) eqn:E; [apply Z.eqb_eq in E; lia|exact H2].
Qed.

Example rowspan0_ex : do_group 0 [[(1, 0); (1, 9)]; [(1, 1)]; [(1, 1)]] = Some ([[(0, 1, 3); (1, 1, 3)]; [(2, 1, 1)]; [(2, 1, 1)]], 3).
Proof. reflexivity. Qed.
