(* C15 - the branch `elif system == 'numeric':` of CounterStyle.render_value (weasyprint/css/counters.py) as
   REGENERATED from the source on every run (gen/GenCounters.v: rv_numeric_body): for every tuple of symbols, every
   integer counter value it does what [represent c "numeric"] of the hand model model/C15Style.v says - `initial`
   is bound to the model's text, or the decimal style is called with the value, or the same error is raised - so
   that C15_numeric_representation / C15_numeric_roundtrip / C15_numeric_unique speak about the source.
   `symbol(..)` is answered by [ocall] (hypothesis HS, discharged by the regenerated body of `symbol` in
   proofs/C15_gen_counters.v), self.render_value(..) stays an oracle; len, x[i], %, //, abs, join, reversed are
   primitives of base/Py.v. *)
From Coq Require Import ZArith QArith List String Bool Lia.
Require Import WV.model.C15Style WV.model.C15Builtins WV.proofs.C15_digits WV.proofs.C15_gen_base.
Require Import WV.base.Py WV.gen.GenCounters.
Import ListNotations.
Open Scope string_scope.
Open Scope list_scope.

Definition num_else : list stmt := match rv_numeric_body with [SIf _ _ el] => el | _ => [] end.
Definition num_then : list stmt := match rv_numeric_body with [SIf _ th _] => th | _ => [] end.
Definition num_test : expr := match rv_numeric_body with [SIf c _ _] => c | _ => EConst VNone end.
Definition num_cond : expr := match num_else with [_; _; _; _; SWhile c _; _] => c | _ => EConst VNone end.
Definition num_body : list stmt := match num_else with [_; _; _; _; SWhile _ b; _] => b | _ => [] end.

(* what the branch does, against the model's [represent]: [agrees] when it ends normally (res = None: it falls off
   its end with `initial` bound; Some x: it returns x), [raises] when it raises *)
Definition agrees (O : qops) (decimal_args fallback_args : list val) (r : repr) (rho : env) (res : option val)
  : Prop :=
  match r with
  | RpInitial t => res = None /\ Py.lookup "initial" rho = VStr (enc t)
  | RpDecimal => res = Some (ocall O ".render_value" decimal_args)
  | RpFallback => res = Some (ocall O ".render_value" fallback_args)
  | _ => False
  end.
Definition raises (O : qops) (decimal_args fallback_args : list val) (r : repr) (m : string) : Prop :=
  match r with
  | RpExc => m = "TypeError" \/ m = "IndexError"
  | RpDecimal => ocall O ".render_value" decimal_args = VErr m
  | RpFallback => ocall O ".render_value" fallback_args = VErr m
  | RpFuel => m = "FuelExhausted"
  | _ => False
  end.

Section Numeric.
Variable O : qops.
Hypothesis HO : ops_ok O.
Hypothesis HS : forall p, ocall O "symbol" [vsym p] = VStr (psym_str p).

Variables (sf : list (string * val)) (fb : option string) (rest : list (string * val)).
Notation self := (VObj sf).

Ltac ev := lazy -[qadd qsub qmul qdiv qmax qmin qleb qeqb ocall wfuel prim_apply inject_Z Z.abs Z.div Z.modulo
                  Z.of_nat Z.eqb Z.leb negb].
Ltac unseal :=
  rewrite ?(qadd_eq _ HO), ?(qsub_eq _ HO), ?(qmul_eq _ HO), ?(qdiv_eq _ HO), ?(qmax_eq _ HO), ?(qmin_eq _ HO),
          ?(qleb_eq _ HO), ?(qeqb_eq _ HO) in *.

(* ---- the `else:` part, for a tuple of symbols l (L as a value, n its length) *)
Section Else.
Variables (l : list psym) (L : list val) (n : Z).
Hypothesis HL : L = map vsym l.
Hypothesis Hn : n = Z.of_nat (List.length l).

Definition counter : val := VObj (("symbols", VList L) :: ("fallback", vfallback fb) :: rest).
Definition env0 (z : Z) : env := [("self", self); ("counter", counter); ("counter_value", vint z)].
Definition env1 (z : Z) : env := env0 z ++ [("reversed_parts", VList [])].
Definition envL (z : Z) (ps : list val) : env :=
  env0 z ++ [("reversed_parts", VList ps); ("length", vint n)].
Definition envF (z : Z) (ps : list val) (s : string) : env := envL z ps ++ [("initial", VStr s)].

Lemma length_L : Z.of_nat (List.length L) = n.
Proof. subst L n. now rewrite map_length. Qed.

Section Stmts.
Variables (A : Type) (kret : env -> val -> A) (kerr : string -> A).

Lemma s0_step z k : exec O A kret kerr (nth 0 num_else SPass) (env0 z) k = k (env1 z).
Proof. reflexivity. Qed.

Lemma s1_step z k : exec O A kret kerr (nth 1 num_else SPass) (env1 z) k = k (envL z []).
Proof. ev. rewrite prim_len, length_L. reflexivity. Qed.

Lemma s2_step z k :
  exec O A kret kerr (nth 2 num_else SPass) (envL z []) k =
  if (2 <=? n)%Z then k (envL z [])
  else match ocall O ".render_value" (rv_args self z "decimal" VNone) with
       | VErr m => kerr m
       | x => kret (envL z []) x
       end.
Proof.
  ev. unseal. change (2 # 1) with (inject_Z 2). rewrite Qle_bool_vint.
  destruct (2 <=? n)%Z; reflexivity.
Qed.

Lemma s3_step z k : exec O A kret kerr (nth 3 num_else SPass) (envL z []) k = k (envL (Z.abs z) []).
Proof. ev. rewrite prim_abs. reflexivity. Qed.

Lemma s5_step ss k :
  exec O A kret kerr (nth 5 num_else SPass) (envL 0 (map VStr ss)) k =
  k (envF 0 (map VStr ss) (String.concat "" (rev ss))).
Proof. ev. rewrite prim_reversed. ev. rewrite prim_join. reflexivity. Qed.

(* the loop: its test and the two statements of its body *)
Lemma cond_step z ps (k : bool -> A) :
  eval O A kerr (envL z ps) num_cond (fun vc => bool_k O A kerr vc k) = k (negb (z =? 0)%Z).
Proof.
  ev. unseal. rewrite Qeq_bool_vint0'. destruct (z =? 0)%Z; reflexivity.
Qed.

Hypothesis Hpos : (0 < n)%Z.

Lemma b0_step z ps k :
  exec O A kret kerr (nth 0 num_body SPass) (envL z ps) k =
  k (envL z (ps ++ [VStr (digit_str l (z mod n))])).
Proof.
  assert (Hn0 : n <> 0%Z) by lia.
  destruct (prim_mod_int z n Hn0) as (q & Eq & Hq).
  assert (Hb : (0 <= z mod n < Z.of_nat (List.length L))%Z) by (rewrite length_L; apply Z.mod_pos_bound; lia).
  remember (digit_str l (z mod n)) as d eqn:Hd. unfold digit_str in Hd.
  ev. rewrite Eq. ev.
  rewrite (prim_index_nth L q (z mod n) Hq Hb). rewrite HL at 1.
  rewrite nth_vsym by (rewrite HL, map_length in Hb; lia).
  set (p := nth (Z.to_nat (z mod n)) l (PUrl "")) in *.
  pose proof (HS p) as Hp. destruct p; cbn [vsym psym_str] in *; subst d; ev; rewrite Hp; reflexivity.
Qed.

Lemma b1_step z ps k : exec O A kret kerr (nth 1 num_body SPass) (envL z ps) k = k (envL (z / n) ps).
Proof. ev. rewrite prim_floordiv by lia. reflexivity. Qed.

Lemma num_body_eq : num_body = [nth 0 num_body SPass; nth 1 num_body SPass].
Proof. reflexivity. Qed.
Lemma flowing_envL z ps : flowing (envL z ps) = false.
Proof. reflexivity. Qed.
Lemma flow_envL z ps : Py.lookup "%flow" (envL z ps) = VErr "unbound:%flow".
Proof. reflexivity. Qed.

Lemma body_step z ps k :
  exec_block O A kret kerr num_body (envL z ps) k =
  k (envL (z / n) (ps ++ [VStr (digit_str l (z mod n))])).
Proof.
  rewrite num_body_eq, exec_block_cons, b0_step, flowing_envL, exec_block_cons, b1_step, flowing_envL.
  apply exec_block_nil.
Qed.

Definition strs (idx : list Z) : list val := map VStr (map (digit_str l) (rev idx)).
Lemma strs_cons d idx : strs (d :: idx) = strs idx ++ [VStr (digit_str l d)].
Proof. unfold strs. cbn [rev]. now rewrite !map_app. Qed.

(* the interpreter's loop with fuel f+1 is the model's loop with fuel f *)
Lemma num_wloop k : forall f z idx,
  wloopc O A kret kerr k num_cond num_body (S f) (envL z (strs idx)) =
  match num_loop f n z idx with
  | Some idx' => k (envL 0 (strs idx'))
  | None => kerr "FuelExhausted"
  end.
Proof.
  induction f as [|f IH]; intros z idx.
  - cbn [wloopc]. rewrite cond_step. cbn [num_loop].
    destruct (Z.eqb_spec z 0) as [->|Hz]; cbn [negb]; [reflexivity|].
    rewrite body_step, flow_envL. reflexivity.
  - change (wloopc O A kret kerr k num_cond num_body (S (S f)) (envL z (strs idx))) with
      (eval O A kerr (envL z (strs idx)) num_cond (fun vc => bool_k O A kerr vc (fun t =>
         if t then
           exec_block O A kret kerr num_body (envL z (strs idx)) (fun rho' =>
             match Py.lookup "%flow" rho' with
             | VStr fl => if String.eqb fl "break" then k (update "%flow" VNone rho')
                          else wloopc O A kret kerr k num_cond num_body (S f) (update "%flow" VNone rho')
             | _ => wloopc O A kret kerr k num_cond num_body (S f) rho'
             end)
         else k (envL z (strs idx))))).
    rewrite cond_step. cbn [num_loop].
    destruct (Z.eqb_spec z 0) as [->|Hz]; cbn [negb]; [reflexivity|].
    rewrite body_step, flow_envL, <- strs_cons. apply IH.
Qed.
End Stmts.

(* the whole `else:` part, when the model's loop (with the interpreter's fuel) ends *)
Lemma else_spec A kret kerr (k : env -> A) v f idx :
  (2 <= n)%Z -> wfuel O = S f -> num_loop f n (Z.abs v) [] = Some idx ->
  exec_block O A kret kerr num_else (env0 v) k =
  k (envF 0 (strs idx) (String.concat "" (map (digit_str l) idx))).
Proof.
  intros H2 Hf Hloop.
  change num_else with [nth 0 num_else SPass; nth 1 num_else SPass; nth 2 num_else SPass; nth 3 num_else SPass;
                        SWhile num_cond num_body; nth 5 num_else SPass].
  rewrite exec_block_cons, s0_step. change (flowing (env1 v)) with false. cbv iota.
  rewrite exec_block_cons, s1_step, flowing_envL.
  rewrite exec_block_cons, s2_step. replace (2 <=? n)%Z with true by (symmetry; apply Z.leb_le; exact H2).
  rewrite flowing_envL.
  rewrite exec_block_cons, s3_step, flowing_envL.
  rewrite exec_block_cons, exec_while, Hf.
  change (@nil val) with (strs []). rewrite num_wloop by lia. rewrite Hloop.
  rewrite flowing_envL.
  rewrite exec_block_cons. unfold strs at 1. rewrite s5_step.
  change (flowing (envF 0 (map VStr (map (digit_str l) (rev idx))) (String.concat "" (rev (map (digit_str l) (rev idx))))))
    with false. cbv iota.
  rewrite exec_block_nil. rewrite <- map_rev, rev_involutive. reflexivity.
Qed.

Lemma else_decimal A kret kerr (k : env -> A) v :
  (n < 2)%Z ->
  exec_block O A kret kerr num_else (env0 v) k =
  match ocall O ".render_value" (rv_args self v "decimal" VNone) with
  | VErr m => kerr m
  | x => kret (envL v []) x
  end.
Proof.
  intros H2.
  change num_else with [nth 0 num_else SPass; nth 1 num_else SPass; nth 2 num_else SPass; nth 3 num_else SPass;
                        SWhile num_cond num_body; nth 5 num_else SPass].
  rewrite exec_block_cons, s0_step. change (flowing (env1 v)) with false. cbv iota.
  rewrite exec_block_cons, s1_step, flowing_envL.
  rewrite exec_block_cons, s2_step. replace (2 <=? n)%Z with false by (symmetry; apply Z.leb_gt; exact H2).
  reflexivity.
Qed.
End Else.

(* ---- the theorem *)
Theorem gen_numeric (osyms : option (list psym)) (c : cstyle) (v : Z) :
  c_symbols c = msyms osyms -> (digit_fuel v < wfuel O)%nat ->
  run O rv_numeric_body
    [("self", self); ("counter", vcounter osyms fb rest); ("counter_value", vint v)]
    (agrees O (rv_args self v "decimal" VNone) [] (represent c "numeric" None v))
    (raises O (rv_args self v "decimal" VNone) [] (represent c "numeric" None v)).
Proof.
  intros Hc Hfuel.
  assert (Hrep : represent c "numeric" None v =
    match c_symbols c with
    | None => RpExc
    | Some l0 =>
      if (v =? 0)%Z then (match l0 with [] => RpExc | s :: _ => RpInitial (symbol s) end) else
      if (zlen l0 <? 2)%Z then RpDecimal else
      match num_loop (digit_fuel v) (zlen l0) (Z.abs v) [] with
      | None => RpFuel
      | Some idx => RpInitial (join_idx l0 idx)
      end
    end) by reflexivity.
  rewrite Hrep, Hc. clear Hrep.
  unfold run.
  change rv_numeric_body with [SIf num_test num_then num_else].
  rewrite exec_block_cons, exec_if.
  assert (Htest : forall (k : bool -> Prop) kerr,
    eval O Prop kerr [("self", self); ("counter", vcounter osyms fb rest); ("counter_value", vint v)] num_test
      (fun vc => bool_k O Prop kerr vc k) = k (v =? 0)%Z).
  { intros k kerr. ev. unseal. rewrite Qeq_bool_vint0'. destruct (v =? 0)%Z; reflexivity. }
  rewrite Htest. clear Htest.
  destruct (Z.eqb_spec v 0) as [->|Hv].
  - (* counter_value == 0: the first symbol *)
    destruct osyms as [[|p l]|]; cbn [msyms map].
    + ev. right. reflexivity.
    + cbn [agrees raises]. rewrite symbol_msym. pose proof (HS p) as Hp.
      destruct p; cbn [vsym psym_str] in *; ev; rewrite Hp; ev; split; reflexivity.
    + ev. left. reflexivity.
  - destruct osyms as [l|]; cbn [msyms].
    + (* a tuple of symbols *)
      set (n := Z.of_nat (List.length l)).
      rewrite zlen_msym. fold n.
      change (exec_block O Prop ?kr ?ke num_else
                [("self", self); ("counter", vcounter (Some l) fb rest); ("counter_value", vint v)] ?k)
        with (exec_block O Prop kr ke num_else (env0 (map vsym l) v) k).
      destruct (Z.ltb_spec n 2) as [Hlt|Hge].
      * rewrite (else_decimal l (map vsym l) n eq_refl eq_refl) by exact Hlt.
        cbn [agrees raises]. destruct (ocall O ".render_value" _) eqn:E; try reflexivity.
      * destruct (wfuel O) as [|f] eqn:Hf; [lia|].
        destruct (numeric_roundtrip n (Z.abs v) Hge (Z.abs_nonneg v)) as (idx & Hrun & _).
        assert (Hd : digit_fuel (Z.abs v) = digit_fuel v) by (unfold digit_fuel; now rewrite Z.abs_involutive).
        rewrite Hd in Hrun. rewrite Hrun.
        rewrite (else_spec l (map vsym l) n eq_refl eq_refl Prop _ _ _ v f idx Hge Hf)
          by (apply (num_loop_mono n _ _ _ _ Hrun); lia).
        cbn [agrees]. split; [reflexivity|]. rewrite enc_join_idx. reflexivity.
    + (* counter['symbols'] is None: len(None) *)
      lazy -[qadd qsub qmul qdiv qmax qmin qleb qeqb ocall wfuel inject_Z]. left. reflexivity.
Qed.
End Numeric.
Print Assumptions gen_numeric.
