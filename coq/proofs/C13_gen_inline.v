(* C13 - inline_replaced_box_layout of weasyprint/layout/replaced.py as REGENERATED on every run
   (gen/GenInlineReplaced.v), whole body.  CSS 2.1 10.3.2 (inline replaced elements: "A computed value of 'auto' for
   'margin-left' or 'margin-right' becomes a used value of '0'") and 10.6.2 (the same for 'margin-top' /
   'margin-bottom'): every margin that is 'auto' is used as 0, every other margin is kept, nothing else of the box is
   touched, and ONLY THEN the width / height are resolved: inline_replaced_box_width_height(box, containing_block)
   - an oracle statement - is called on the box that already has the used margins, and what it leaves is the box the
   function leaves.  For every 'auto' / number pattern of the four margins, every other content of the box (`rest`)
   and every containing block; the function never raises and returns None. *)
From Coq Require Import QArith List Bool String.
Require Import WV.base.Py WV.proofs.PyTac WV.gen.GenInlineReplaced WV.model.C13Replaced WV.proofs.C13_gen_tac.
Import ListNotations.
Open Scope string_scope.
Open Scope list_scope.
Open Scope Q_scope.

(* the model: the used value of a margin of an inline replaced box *)
Definition used_margin (m : oq) : Q := match m with Some q => q | None => 0 end.

(* the box: its four margins (a number or 'auto') and anything else *)
Definition ibox (mt mr mb ml : oq) (rest : list (string * val)) : val :=
  VObj (("margin_top", vauto mt) :: ("margin_right", vauto mr) :: ("margin_bottom", vauto mb)
        :: ("margin_left", vauto ml) :: rest).
Definition ibox_used (mt mr mb ml : oq) (rest : list (string * val)) : val :=
  ibox (Some (used_margin mt)) (Some (used_margin mr)) (Some (used_margin mb)) (Some (used_margin ml)) rest.

(* inline_replaced_box_width_height(box, containing_block) called on the box with the USED margins answers `ret`
   and leaves the box as `box'` *)
Definition wh_oracle (O : qops) (mt mr mb ml : oq) rest (cb ret box' : val) : Prop :=
  ocall O "inline_replaced_box_width_height" [ibox_used mt mr mb ml rest; cb] = VList [ret; box'].

Definition leaves_box (box' : val) (rho : env) (res : option val) : Prop :=
  res = None /\ lookup "box" rho = box'.

(* the containing block is a value (a box, or the pair of sizes absolute_replaced passes), not the interpreter's error *)
Definition is_value (v : val) : Prop := match v with VErr _ => False | _ => True end.

Lemma gen_inline_replaced_box_layout O mt mr mb ml rest cb ret box' (HC : is_value cb)
      (HW : wh_oracle O mt mr mb ml rest cb ret box') :
  run O inline_replaced_box_layout_body [("box", ibox mt mr mb ml rest); ("containing_block", cb)]
    (leaves_box box') (fun _ => False).
Proof.
  unfold wh_oracle, ibox_used, ibox in HW.
  unfold run, inline_replaced_box_layout_body, ibox.
  destruct mt as [mt|], mr as [mr|], mb as [mb|], ml as [ml|]; cbn [vauto used_margin] in *.
  all: to_call O; rewrite HW; clear HW.
  all: lazy -[Py.ocall]; destruct cb; try (split; reflexivity); exact HC.
Qed.

(* the clauses, read off the box handed to the width / height resolution *)
Lemma used_margin_auto : used_margin None == 0.
Proof. reflexivity. Qed.
Lemma used_margin_number q : used_margin (Some q) = q.
Proof. reflexivity. Qed.
Lemma ibox_used_fields mt mr mb ml rest :
  fieldv (ibox_used mt mr mb ml rest) "margin_top" = VNum (used_margin mt) /\
  fieldv (ibox_used mt mr mb ml rest) "margin_right" = VNum (used_margin mr) /\
  fieldv (ibox_used mt mr mb ml rest) "margin_bottom" = VNum (used_margin mb) /\
  fieldv (ibox_used mt mr mb ml rest) "margin_left" = VNum (used_margin ml) /\
  (forall k, k <> "margin_top" -> k <> "margin_right" -> k <> "margin_bottom" -> k <> "margin_left" ->
             fieldv (ibox_used mt mr mb ml rest) k = lookup k rest).
Proof.
  repeat split; try reflexivity.
  intros k H1 H2 H3 H4. unfold fieldv, ibox_used, ibox. cbn [lookup].
  apply String.eqb_neq in H1, H2, H3, H4. rewrite H1, H2, H3, H4. reflexivity.
Qed.

(* ---------------------------------------------------------------- inline_replaced_box_width_height
   whole body, the five callees as oracle statements that hand the mutated box back.
   - box.width and box.height both 'auto': the functions UNDER the min/max decorators (`.without_min_max`) resolve the
     width, then the height, and then min_max_auto_replaced applies the min/max constraints to the pair (the table of
     CSS 2.1 10.4): three calls in this order, each on the box the previous one left;
   - otherwise (at least one is a number): the decorated replaced_box_width, then the decorated replaced_box_height
     on the box it left (CSS 2.1 10.3.2 before 10.6.2: the height rules read the used width), and
     min_max_auto_replaced is NOT called.
   For every 'auto' / number pattern of width and height, every other content of the box, every containing block. *)
Require Import WV.base.PyLink.
Definition whbox (bw bh : oq) (rest : list (string * val)) : val :=
  VObj (("width", vauto bw) :: ("height", vauto bh) :: rest).

Definition both_auto (bw bh : oq) : bool := match bw, bh with None, None => true | _, _ => false end.

(* the model: which callees run, in which order, each on the box left by the previous one *)
Definition wh_plan (bw bh : oq) : list string :=
  if both_auto bw bh
  then ["replaced_box_width.without_min_max"; "replaced_box_height.without_min_max"; "min_max_auto_replaced"]
  else ["replaced_box_width"; "replaced_box_height"].
(* the callees of the plan that take the containing block *)
Definition takes_cb (f : string) : bool :=
  String.eqb f "replaced_box_width.without_min_max" || String.eqb f "replaced_box_width".
(* the oracle answers along the plan: callee f called on box b (and cb) returns some value and leaves the box - an
   object - as b' *)
Fixpoint plan_run (O : qops) (plan : list string) (cb b final : val) : Prop :=
  match plan with
  | [] => b = final
  | f :: more => exists ret fields', 
      ocall O f (if takes_cb f then [b; cb] else [b]) = VList [ret; VObj fields'] /\
      plan_run O more cb (VObj fields') final
  end.

Lemma gen_inline_replaced_box_width_height O bw bh rest cb final (HC : is_value cb)
      (HP : plan_run O (wh_plan bw bh) cb (whbox bw bh rest) final) :
  run O inline_replaced_box_width_height_body [("box", whbox bw bh rest); ("containing_block", cb)]
    (leaves_box final) (fun _ => False).
Proof.
  unfold run, inline_replaced_box_width_height_body.
  destruct bw as [bw|], bh as [bh|]; cbn [wh_plan both_auto plan_run takes_cb String.eqb Ascii.eqb Bool.eqb orb] in HP;
    unfold whbox in *; cbn [vauto] in *.
  1-3: destruct HP as (r1 & b1 & H1 & r2 & b2 & H2 & HF); subst final.
  4: destruct HP as (r1 & b1 & H1 & r2 & b2 & H2 & r3 & b3 & H3 & HF); subst final.
  all: destruct cb; try (exfalso; exact HC).
  all: hnf; paths.
  all: to_call O; rewrite H1; clear H1.
  all: to_call O; rewrite H2; clear H2.
  all: try (to_call O; rewrite H3; clear H3).
  all: lazy -[Py.ocall]; split; reflexivity.
Qed.

Lemma wh_plan_cases bw bh :
  wh_plan bw bh =
  match bw, bh with
  | None, None => ["replaced_box_width.without_min_max"; "replaced_box_height.without_min_max"; "min_max_auto_replaced"]
  | _, _ => ["replaced_box_width"; "replaced_box_height"]
  end.
Proof. destruct bw, bh; reflexivity. Qed.
