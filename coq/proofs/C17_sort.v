(* C17 - the bucket sort of StackingContext.__init__: sort_z is a stable sort. *)
From Coq Require Import ZArith List Bool Lia Permutation Sorted.
Require Import WV.model.C17Stacking.
Import ListNotations.
Open Scope Z_scope.

Section Sort.
Context {A : Type} (key : A -> Z).

Lemma insert_z_perm x l : Permutation (insert_z key x l) (x :: l).
Proof.
  induction l as [|y r IH]; simpl; [reflexivity|].
  destruct (key x <=? key y); [reflexivity|].
  rewrite IH. apply perm_swap.
Qed.

Lemma sort_z_perm l : Permutation (sort_z key l) l.
Proof.
  induction l as [|x r IH]; simpl; [reflexivity|].
  rewrite insert_z_perm. now constructor.
Qed.

Definition le_key (a b : A) : Prop := key a <= key b.

Lemma insert_z_sorted x l : StronglySorted le_key l -> StronglySorted le_key (insert_z key x l).
Proof.
  induction 1 as [|y r Hs IH Hall]; simpl.
  - constructor; constructor.
  - destruct (key x <=? key y) eqn:E.
    + apply Z.leb_le in E. constructor; [constructor; assumption|].
      constructor; [exact E|].
      rewrite Forall_forall in *. intros z Hz. specialize (Hall z Hz). unfold le_key in *. lia.
    + apply Z.leb_gt in E. constructor; [exact IH|].
      rewrite Forall_forall in *. intros z Hz.
      apply (Permutation_in _ (insert_z_perm x r)) in Hz. destruct Hz as [<-|Hz].
      * unfold le_key. lia.
      * now apply Hall.
Qed.

Lemma sort_z_sorted l : StronglySorted le_key (sort_z key l).
Proof. induction l; simpl; [constructor|]. now apply insert_z_sorted. Qed.

(* stability: among equal keys the original order is kept *)
Lemma insert_z_filter (p : A -> bool) x l :
  (forall y, In y l -> p y = true -> p x = true -> key x <= key y) ->
  filter p (insert_z key x l) = filter p (x :: l).
Proof.
  induction l as [|y r IH]; intros H; simpl; [reflexivity|].
  destruct (key x <=? key y) eqn:E; [reflexivity|].
  apply Z.leb_gt in E. simpl.
  rewrite IH by (intros z Hz; apply H; now right). simpl.
  destruct (p x) eqn:Px; [|reflexivity].
  destruct (p y) eqn:Py; [|reflexivity].
  specialize (H y (or_introl eq_refl) Py eq_refl). lia.
Qed.

Lemma sort_z_stable k l :
  filter (fun a => key a =? k) (sort_z key l) = filter (fun a => key a =? k) l.
Proof.
  induction l as [|x r IH]; simpl; [reflexivity|].
  rewrite insert_z_filter.
  - simpl. now rewrite IH.
  - intros y _ Hy Hx. apply Z.eqb_eq in Hy, Hx. lia.
Qed.

Lemma sort_z_in x l : In x (sort_z key l) <-> In x l.
Proof.
  split; intro H.
  - exact (Permutation_in _ (sort_z_perm l) H).
  - exact (Permutation_in _ (Permutation_sym (sort_z_perm l)) H).
Qed.

Lemma sort_z_length l : length (sort_z key l) = length l.
Proof. apply Permutation_length, sort_z_perm. Qed.

End Sort.

(* sorting commutes with a key-preserving map *)
Lemma insert_z_map {A B} (kA : A -> Z) (kB : B -> Z) (g : A -> B) x l :
  (forall a, kB (g a) = kA a) ->
  insert_z kB (g x) (map g l) = map g (insert_z kA x l).
Proof.
  intros H. induction l as [|y r IH]; simpl; [reflexivity|].
  rewrite !H. destruct (kA x <=? kA y); simpl; [reflexivity|]. now rewrite IH.
Qed.

Lemma sort_z_map {A B} (kA : A -> Z) (kB : B -> Z) (g : A -> B) l :
  (forall a, kB (g a) = kA a) ->
  sort_z kB (map g l) = map g (sort_z kA l).
Proof.
  intros H. induction l as [|x r IH]; simpl; [reflexivity|].
  rewrite IH. now apply insert_z_map.
Qed.

Lemma filter_map_comm {A B} (p : B -> bool) (q : A -> bool) (g : A -> B) l :
  (forall a, p (g a) = q a) -> filter p (map g l) = map g (filter q l).
Proof.
  intros H. induction l as [|x r IH]; simpl; [reflexivity|].
  rewrite H. destruct (q x); simpl; now rewrite IH.
Qed.

(* weaker hypothesis: key preservation only on the members of the list *)
Lemma sort_z_map_in {A B} (kA : A -> Z) (kB : B -> Z) (g : A -> B) l :
  (forall a, In a l -> kB (g a) = kA a) ->
  sort_z kB (map g l) = map g (sort_z kA l).
Proof.
  induction l as [|x r IH]; intros H; simpl; [reflexivity|].
  rewrite IH by (intros; apply H; now right).
  assert (Hr : forall a, In a (sort_z kA r) -> kB (g a) = kA a).
  { intros a Ha. apply H. right. now apply sort_z_in in Ha. }
  assert (Hx : kB (g x) = kA x) by (apply H; now left).
  clear H IH. induction (sort_z kA r) as [|y s IHs]; simpl; [reflexivity|].
  rewrite Hx, (Hr y (or_introl eq_refl)).
  destruct (kA x <=? kA y); simpl; [reflexivity|].
  rewrite IHs; [reflexivity|]. intros; apply Hr; now right.
Qed.

Lemma filter_map_comm_in {A B} (p : B -> bool) (q : A -> bool) (g : A -> B) l :
  (forall a, In a l -> p (g a) = q a) -> filter p (map g l) = map g (filter q l).
Proof.
  induction l as [|x r IH]; intros H; simpl; [reflexivity|].
  rewrite (H x (or_introl eq_refl)). rewrite IH by (intros; apply H; now right).
  destruct (q x); reflexivity.
Qed.
