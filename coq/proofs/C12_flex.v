(* C12 - flex 9.7: the theorems about `resolve` (model of flex.py step 6). *)
From Coq Require Import QArith Qminmax Qabs List Bool ZArith Lia Lqa.
Require Import WV.model.C12Flex WV.proofs.C12_flex_base WV.proofs.C12_flex_inv.
Import ListNotations.
Open Scope Q_scope.

Lemma loop_done_frozen md avail gap init0 fuel l r :
  loop md avail gap init0 fuel l = Done r -> forallb ffrozen r = true.
Proof.
  revert l. induction fuel as [|f IH]; intros l; simpl.
  - destruct (forallb ffrozen l) eqn:E; [intros H; injection H as <-; assumption | discriminate].
  - destruct (forallb ffrozen l) eqn:E; [intros H; injection H as <-; assumption|].
    destruct (pass md avail gap init0 l) as [l'|]; [apply IH | discriminate].
Qed.

Lemma loop_all_frozen md avail gap init0 fuel l : forallb ffrozen l = true -> loop md avail gap init0 fuel l = Done l.
Proof. intros H. destruct fuel; simpl; now rewrite H. Qed.

Lemma loop_fits md avail gap init0 fuel l r :
  loop md avail gap init0 fuel l = Done r -> map fit r = map fit l.
Proof.
  revert l. induction fuel as [|f IH]; intros l; simpl.
  - destruct (forallb ffrozen l); [intros H; now injection H as <- | discriminate].
  - destruct (forallb ffrozen l); [intros H; now injection H as <-|].
    destruct (pass md avail gap init0 l) as [l'|] eqn:Hp; [|discriminate].
    intros H. rewrite (IH _ H). apply pass_some in Hp. rewrite Hp, map_map.
    apply map_ext. intros x. apply step1_fit.
Qed.

Lemma loop_grow avail gap init0 fuel l r : ginv avail gap l -> 0 <= init0 ->
  loop Grow avail gap init0 fuel l = Done r -> ginv avail gap r.
Proof.
  revert l. induction fuel as [|f IH]; intros l I H0; simpl.
  - destruct (forallb ffrozen l); [intros H; now injection H as <- | discriminate].
  - destruct (forallb ffrozen l); [intros H; now injection H as <-|].
    destruct (pass Grow avail gap init0 l) as [l'|] eqn:Hp; [|discriminate].
    apply IH; [now apply (pass_grow avail gap init0 l) | assumption].
Qed.

Lemma loop_shrink avail gap init0 fuel l r : sinv avail gap l -> init0 <= 0 ->
  loop Shrink avail gap init0 fuel l = Done r -> sinv avail gap r.
Proof.
  revert l. induction fuel as [|f IH]; intros l I H0; simpl.
  - destruct (forallb ffrozen l); [intros H; now injection H as <- | discriminate].
  - destruct (forallb ffrozen l); [intros H; now injection H as <-|].
    destruct (pass Shrink avail gap init0 l) as [l'|] eqn:Hp; [|discriminate].
    apply IH; [now apply (pass_shrink avail gap init0 l) | assumption].
Qed.

Lemma map_nonempty {A B} (g : A -> B) l : l <> [] -> map g l <> [].
Proof. destruct l; simpl; congruence. Qed.

Lemma resolve_nonempty items gap avail r : items <> [] -> resolve items gap avail = Done r -> r <> [].
Proof.
  intros Hne H. unfold resolve in H. apply loop_fits in H. rewrite map_map in H. simpl in H.
  intros ->. simpl in H. destruct items; [congruence | discriminate].
Qed.

(* ---- the facts every resolved line satisfies *)
Lemma resolve_grow items gap avail r : items <> [] -> Forall valid_item items ->
  choose_mode items gap avail = Grow -> resolve items gap avail = Done r -> ginv avail gap r.
Proof.
  intros Hne Hv Hm H. unfold resolve in H. rewrite Hm in H.
  pose proof (init_ginv items gap avail Hne Hv Hm) as I.
  apply (loop_grow _ _ _ _ _ _ I) in H; [assumption|].
  pose proof (free_nonneg_grow _ _ _ I). pose proof (g_S _ _ _ I). lra.
Qed.

Lemma resolve_shrink items gap avail r : items <> [] -> Forall valid_item items ->
  choose_mode items gap avail = Shrink -> resolve items gap avail = Done r -> sinv avail gap r.
Proof.
  intros Hne Hv Hm H. unfold resolve in H. rewrite Hm in H.
  pose proof (init_sinv items gap avail Hne Hv Hm) as I.
  apply (loop_shrink _ _ _ _ _ _ I) in H; [assumption|].
  pose proof (free_nonpos_shrink _ _ _ I). pose proof (s_S _ _ _ I). lra.
Qed.

Lemma resolve_items items gap avail r : resolve items gap avail = Done r -> map fit r = items.
Proof.
  intros H. unfold resolve in H. apply loop_fits in H. rewrite H, map_map. simpl. apply map_id.
Qed.

Lemma resolve_frozen items gap avail r : resolve items gap avail = Done r -> forallb ffrozen r = true.
Proof. intros H. unfold resolve in H. now apply loop_done_frozen in H. Qed.

(* min <= target <= max for every item of every line *)
Theorem flex_respects_min_max items gap avail r : Forall valid_item items -> resolve items gap avail = Done r ->
  map fit r = items /\
  forall x, In x r -> imin (fit x) <= ftarget x /\ le_max (ftarget x) (imax (fit x)).
Proof.
  intros Hv H. split; [now apply (resolve_items items gap avail)|].
  destruct items as [|i0 items'].
  - unfold resolve in H. simpl in H. injection H as <-. intros x [].
  - assert (Hne : i0 :: items' <> []) by discriminate.
    pose proof (resolve_frozen _ _ _ _ H) as Hf. rewrite forallb_forall in Hf.
    intros x Hx. destruct (choose_mode (i0 :: items') gap avail) eqn:Hm.
    + pose proof (resolve_grow _ _ _ _ Hne Hv Hm H) as I. destruct (g_frz _ _ _ I x Hx (Hf x Hx)) as (_ & A & B). auto.
    + pose proof (resolve_shrink _ _ _ _ Hne Hv Hm H) as I. destruct (s_frz _ _ _ I x Hx (Hf x Hx)) as (_ & A & B). auto.
Qed.

(* growing never overflows the container and never makes an item smaller than its hypothetical size;
   shrinking never leaves a hole and never makes an item larger than its hypothetical size *)
Theorem flex_right_direction items gap avail r : items <> [] -> Forall valid_item items ->
  resolve items gap avail = Done r ->
  match choose_mode items gap avail with
  | Grow => total gap r <= avail /\ forall x, In x r -> ihyp (fit x) <= ftarget x
  | Shrink => avail <= total gap r /\ forall x, In x r -> ftarget x <= ihyp (fit x)
  end.
Proof.
  intros Hne Hv H. pose proof (resolve_frozen _ _ _ _ H) as Hf.
  pose proof (resolve_nonempty _ _ _ _ Hne H) as Hr.
  pose proof (total_Ssp avail gap r Hr Hf) as T. rewrite forallb_forall in Hf.
  destruct (choose_mode items gap avail) eqn:Hm.
  - pose proof (resolve_grow _ _ _ _ Hne Hv Hm H) as I. pose proof (g_S _ _ _ I). split; [lra|].
    intros x Hx. now destruct (g_frz _ _ _ I x Hx (Hf x Hx)).
  - pose proof (resolve_shrink _ _ _ _ Hne Hv Hm H) as I. pose proof (s_S _ _ _ I). split; [lra|].
    intros x Hx. now destruct (s_frz _ _ _ I x Hx (Hf x Hx)).
Qed.

(* ================================================================= filling and proportionality *)
Definition inside_b (x : fst) : bool :=
  (if Qlt_le_dec (imin (fit x)) (ftarget x) then true else false) &&
  match imax (fit x) with None => true | Some M => if Qlt_le_dec (ftarget x) M then true else false end.

Lemma inside_b_iff x : inside_b x = true <-> inside x.
Proof.
  unfold inside_b, inside, lt_max. destruct (Qlt_le_dec (imin (fit x)) (ftarget x)); simpl.
  - destruct (imax (fit x)) as [M|]; [|tauto]. destruct (Qlt_le_dec (ftarget x) M); split; intros; try tauto; try discriminate.
    destruct H; lra.
  - split; [discriminate | intros (A & _); lra].
Qed.

(* the flex factor of an item that was flexible and ends strictly between its min and max, else 0 *)
Definition free_factor (md : mode) (x : fst) : Q :=
  if flexible md (fit x) && inside_b x then factor md (fit x) else 0.

Definition Jleft (md : mode) (l : list fst) : Prop :=
  forall x, In x l -> ffrozen x = true -> flexible md (fit x) = true -> ~ inside x.

Definition proportional (md : mode) (r : list fst) : Prop :=
  exists k, forall x, In x r -> flexible md (fit x) = true -> inside x ->
                      ftarget x == ibase (fit x) + k * weight md (fit x).
Definition Fin (md : mode) (avail gap : Q) (r : list fst) : Prop :=
  proportional md r /\ (1 <= sumQ (free_factor md) r -> total gap r == avail).

Lemma inside_step_frozen md rem tot l x : ffrozen x = true -> inside (step1 md rem tot l x) -> inside x.
Proof. intros E. unfold inside. destruct (step1_frozen md rem tot l x E) as (-> & _ & ->). tauto. Qed.

Lemma Jleft_init md items : Jleft md (map (init_item md) items).
Proof.
  intros y Hy Ey Fy. apply in_map_iff in Hy. destruct Hy as (it & <- & _). simpl in *.
  rewrite Fy in Ey. discriminate.
Qed.

Lemma Fin_of_Jleft md avail gap l : Jleft md l -> forallb ffrozen l = true -> Fin md avail gap l.
Proof.
  intros J Hf. rewrite forallb_forall in Hf. split.
  - exists 0. intros x Hx Fx Ix. exfalso. exact (J x Hx (Hf x Hx) Fx Ix).
  - intros H. assert (E : sumQ (free_factor md) l == 0).
    { apply sumQ_zero. intros x Hx. unfold free_factor. destruct (flexible md (fit x)) eqn:Fx; [|reflexivity].
      destruct (inside_b x) eqn:Ix; [|reflexivity]. exfalso. apply inside_b_iff in Ix. exact (J x Hx (Hf x Hx) Fx Ix). }
    lra.
Qed.

Lemma Jleft_step md rem l : (forall x, In x l -> le_max (imin (fit x)) (imax (fit x))) -> Jleft md l ->
  ~ pass_tot md rem l == 0 -> Jleft md (map (step1 md rem (pass_tot md rem l) l) l).
Proof.
  intros Hv J Ht y Hy Ey Fy Iy. apply in_map_iff in Hy. destruct Hy as (x & <- & Hx).
  rewrite step1_fit in Fy. destruct (ffrozen x) eqn:E.
  - apply inside_step_frozen in Iy; [|assumption]. exact (J x Hx E Fy Iy).
  - exact (violation_not_inside md rem l x Ht (Hv x Hx) E Ey Iy).
Qed.

(* the sum of the factors of the items that end "free" is at most the unfrozen factor sum of the last pass *)
Lemma free_factor_le md rem l :
  (forall x, In x l -> ffrozen x = false -> 0 <= factor md (fit x)) -> Jleft md l ->
  sumQ (free_factor md) (map (step1 md rem (pass_tot md rem l) l) l) <= ufs md l.
Proof.
  intros Hpos J. rewrite sumQ_map. apply sumQ_le. intros x Hx. unfold free_factor. rewrite step1_fit.
  destruct (ffrozen x) eqn:E.
  - destruct (flexible md (fit x)) eqn:Fx; [|simpl; lra].
    destruct (inside_b _) eqn:Ix; [|simpl; lra]. exfalso. apply inside_b_iff in Ix.
    apply inside_step_frozen in Ix; [|assumption]. exact (J x Hx E Fx Ix).
  - pose proof (Hpos x Hx E). destruct (flexible md (fit x) && inside_b _); lra.
Qed.

Lemma pass_rem_full md avail gap init0 l : 1 <= ufs md l -> pass_rem md avail gap init0 l = free_space avail gap l.
Proof. intros H. unfold pass_rem. destruct (Qlt_le_dec (ufs md l) 1); [lra | reflexivity]. Qed.

Lemma loop_fin_grow avail gap init0 fuel l r : ginv avail gap l -> 0 <= init0 -> Jleft Grow l -> l <> [] ->
  loop Grow avail gap init0 fuel l = Done r -> Fin Grow avail gap r.
Proof.
  revert l. induction fuel as [|f IH]; intros l I H0 J Hne; simpl.
  - destruct (forallb ffrozen l) eqn:Hf; [|discriminate]. intros H. injection H as <-. now apply Fin_of_Jleft.
  - destruct (forallb ffrozen l) eqn:Hf; [intros H; injection H as <-; now apply Fin_of_Jleft|].
    destruct (pass Grow avail gap init0 l) as [l'|] eqn:Hp; [|discriminate].
    pose proof (pass_grow _ _ _ _ _ I H0 Hp) as I'. apply pass_some in Hp.
    set (rem := pass_rem Grow avail gap init0 l) in *.
    assert (Hv : forall x, In x l -> le_max (imin (fit x)) (imax (fit x))).
    { intros x Hx. now destruct (g_valid _ _ _ I x Hx) as (_ & _ & _ & ?). }
    destruct (Qeq_dec (pass_tot Grow rem l) 0) as [T0|T0].
    + (* last pass *)
      pose proof (all_frozen_when_tot_zero Grow rem l T0) as Hf'. rewrite <- Hp in Hf'.
      rewrite (loop_all_frozen _ _ _ _ f l' Hf'). intros H. injection H as <-. split.
      * exists (rem / gsum l). intros y Hy Fy Iy. rewrite Hp in Hy. apply in_map_iff in Hy.
        destruct Hy as (x & <- & Hx). rewrite step1_fit in *. destruct (ffrozen x) eqn:E.
        -- exfalso. apply inside_step_frozen in Iy; [|assumption]. exact (J x Hx E Fy Iy).
        -- rewrite (inside_is_proposed Grow rem l x (Hv x Hx) E Iy), prop1_eq. unfold ratio, weight, Qdiv. ring.
      * intros H1.
        assert (U : 1 <= ufs Grow l).
        { eapply Qle_trans; [exact H1|]. rewrite Hp. apply free_factor_le; [|assumption].
          intros x Hx E. destruct (g_unf _ _ _ I x Hx E). simpl. lra. }
        pose proof (pass_rem_full Grow avail gap init0 l U) as Er. fold rem in Er.
        assert (HD : Dsum Grow rem l == rem).
        { apply Dsum_grow. intros G. now apply pass_rem_zero_when_gsum_zero. }
        pose proof (Ssp_when_tot_zero Grow avail gap rem l T0) as K. rewrite <- Hp in K.
        rewrite (total_Ssp avail gap l'); [|rewrite Hp; now apply map_nonempty | assumption].
        rewrite K, HD, Er. lra.
    + apply IH; try assumption; rewrite Hp; [now apply Jleft_step | now apply map_nonempty].
Qed.

Lemma loop_fin_shrink avail gap init0 fuel l r : sinv avail gap l -> init0 <= 0 -> Jleft Shrink l -> l <> [] ->
  (forall x, In x l -> 0 <= imin (fit x)) ->
  loop Shrink avail gap init0 fuel l = Done r -> Fin Shrink avail gap r.
Proof.
  revert l. induction fuel as [|f IH]; intros l I H0 J Hne Hmin; simpl.
  - destruct (forallb ffrozen l) eqn:Hf; [|discriminate]. intros H. injection H as <-. now apply Fin_of_Jleft.
  - destruct (forallb ffrozen l) eqn:Hf; [intros H; injection H as <-; now apply Fin_of_Jleft|].
    destruct (pass Shrink avail gap init0 l) as [l'|] eqn:Hp; [|discriminate].
    pose proof (pass_shrink _ _ _ _ _ I H0 Hp) as I'. apply pass_some in Hp.
    set (rem := pass_rem Shrink avail gap init0 l) in *.
    assert (Hv : forall x, In x l -> le_max (imin (fit x)) (imax (fit x))).
    { intros x Hx. now destruct (s_valid _ _ _ I x Hx) as (_ & _ & _ & ?). }
    destruct (Qeq_dec (pass_tot Shrink rem l) 0) as [T0|T0].
    + pose proof (all_frozen_when_tot_zero Shrink rem l T0) as Hf'. rewrite <- Hp in Hf'.
      rewrite (loop_all_frozen _ _ _ _ f l' Hf'). intros H. injection H as <-. split.
      * exists (if Qeq_dec (ssum l) 0 then 0 else rem / ssum l). intros y Hy Fy Iy. rewrite Hp in Hy.
        apply in_map_iff in Hy. destruct Hy as (x & <- & Hx). rewrite step1_fit in *. destruct (ffrozen x) eqn:E.
        -- exfalso. apply inside_step_frozen in Iy; [|assumption]. exact (J x Hx E Fy Iy).
        -- rewrite (inside_is_proposed Shrink rem l x (Hv x Hx) E Iy), prop1_eq. unfold ratio, weight.
           destruct (Qeq_dec (ssum l) 0); [ring | unfold Qdiv; ring].
      * intros H1.
        assert (U : 1 <= ufs Shrink l).
        { eapply Qle_trans; [exact H1|]. rewrite Hp. apply free_factor_le; [|assumption].
          intros x Hx E. destruct (s_unf _ _ _ I x Hx E). simpl. lra. }
        pose proof (pass_rem_full Shrink avail gap init0 l U) as Er. fold rem in Er.
        assert (Sn : ~ ssum l == 0).
        { intros S0.
          (* then no item can end strictly inside: every unfrozen base is 0 and min >= 0 *)
          assert (Z : sumQ (free_factor Shrink) l' == 0).
          { rewrite Hp, sumQ_map. apply sumQ_zero. intros x Hx. unfold free_factor. rewrite step1_fit.
            destruct (flexible Shrink (fit x)) eqn:Fx; [|reflexivity].
            destruct (inside_b _) eqn:Ix; [|reflexivity]. exfalso. apply inside_b_iff in Ix.
            destruct (ffrozen x) eqn:E.
            - apply inside_step_frozen in Ix; [|assumption]. exact (J x Hx E Fx Ix).
            - destruct (s_unf _ _ _ I x Hx E) as (Hh & Hs). destruct (s_valid _ _ _ I x Hx) as (_ & _ & Hb & _).
              assert (B0 : ibase (fit x) * ishrink (fit x) == 0).
              { apply (sumQ_nonneg_zero (fun x => if ffrozen x then 0 else ibase (fit x) * ishrink (fit x)) l) in Hx.
                - rewrite E in Hx. exact Hx.
                - intros z Hz. destruct (ffrozen z) eqn:Ez; [lra|].
                  destruct (s_unf _ _ _ I z Hz Ez). destruct (s_valid _ _ _ I z Hz) as (_ & _ & ? & _).
                  apply Qmult_le_0_compat; lra.
                - exact S0. }
              assert (Bz : ibase (fit x) == 0).
              { destruct (Qeq_dec (ibase (fit x)) 0) as [|Nz]; [assumption|]. exfalso.
                apply Qmult_integral in B0. destruct B0; [contradiction | lra]. }
              pose proof (Hmin x Hx) as Hm0. pose proof (hyp_min (fit x)) as Hhm.
              assert (Ep : prop1 Shrink rem l x == 0).
              { rewrite prop1_eq. unfold ratio. destruct (Qeq_dec (ssum l) 0); [lra | contradiction]. }
              destruct Ix as (I1 & I2). destruct (step1_unfrozen Shrink rem (pass_tot Shrink rem l) l x E) as (Efit & Et & _ & _).
              rewrite Efit, Et in I1, I2.
              rewrite (clamp_proper (fit x) _ 0 Ep) in I1.
              assert (clamp (fit x) 0 <= ihyp (fit x)) by (apply clamp_mono; lra). lra. }
          lra. }
        destruct (Dsum_shrink rem l) as (_ & HD). specialize (HD Sn).
        pose proof (Ssp_when_tot_zero Shrink avail gap rem l T0) as K. rewrite <- Hp in K.
        rewrite (total_Ssp avail gap l'); [|rewrite Hp; now apply map_nonempty | assumption].
        rewrite K, HD, Er. lra.
    + apply IH; try assumption; rewrite Hp; [now apply Jleft_step | now apply map_nonempty |].
      intros y Hy. apply in_map_iff in Hy. destruct Hy as (x & <- & Hx). rewrite step1_fit. now apply Hmin.
Qed.

(* flex_fills + proportionality, for every line:
   - the items that were flexible and end strictly between min and max all received k * weight
     (weight = flex-grow when growing, flex-shrink * base size when shrinking) with one common k;
   - if their flex factors sum to at least 1, items + extras + gaps fill the container exactly. *)
Theorem flex_fills_and_proportional items gap avail r : items <> [] -> Forall valid_item items ->
  Forall (fun it => 0 <= imin it) items -> resolve items gap avail = Done r ->
  let md := choose_mode items gap avail in
  proportional md r /\ (1 <= sumQ (free_factor md) r -> total gap r == avail).
Proof.
  intros Hne Hv Hmin H md. unfold resolve in H. fold md in H.
  assert (Hne' : map (init_item md) items <> []) by now apply map_nonempty.
  destruct md eqn:Hm; unfold md in Hm.
  - pose proof (init_ginv items gap avail Hne Hv Hm) as I.
    refine (loop_fin_grow avail gap _ _ _ r I _ (Jleft_init _ _) Hne' H).
    pose proof (free_nonneg_grow _ _ _ I). pose proof (g_S _ _ _ I). lra.
  - pose proof (init_sinv items gap avail Hne Hv Hm) as I.
    refine (loop_fin_shrink avail gap _ _ _ r I _ (Jleft_init _ _) Hne' _ H).
    + pose proof (free_nonpos_shrink _ _ _ I). pose proof (s_S _ _ _ I). lra.
    + rewrite Forall_forall in Hmin. intros y Hy. apply in_map_iff in Hy. destruct Hy as (it & <- & Hit). simpl. now apply Hmin.
Qed.

(* ---- the hypotheses are satisfiable by non-trivial inputs *)
Definition ex_items : list item :=
  [mkItem 50 0 None 1 1 0; mkItem 50 0 (Some 60) 2 1 4; mkItem 20 0 None 0 0 10].

Example ex_items_valid : Forall valid_item ex_items /\ Forall (fun it => 0 <= imin it) ex_items /\ ex_items <> [].
Proof.
  split; [|split; [|discriminate]]; repeat constructor; simpl; try (vm_compute; intro K; discriminate K).
Qed.

(* growing with a max violation: the second item is frozen at 60, the first takes the rest, the line is full *)
Example ex_grow : exists r, resolve ex_items 10 300 = Done r /\
  map (fun x => Qred (ftarget x)) r = [186; 60; 20] /\ choose_mode ex_items 10 300 = Grow /\
  1 <= sumQ (free_factor Grow) r /\ total 10 r == 300.
Proof.
  eexists. split; [vm_compute; reflexivity|]. split; [vm_compute; reflexivity|]. split; [vm_compute; reflexivity|].
  split; [vm_compute; intro K; discriminate K | vm_compute; reflexivity].
Qed.

(* shrinking: 3 x 100 in 240 with a 10px gap, the rigid one keeps 100, the others give 80 in ratio 1:3 *)
Example ex_shrink : exists r,
  resolve [mkItem 100 0 None 0 1 0; mkItem 100 0 None 0 3 0; mkItem 100 0 None 0 0 0] 10 240 = Done r /\
  map (fun x => Qred (ftarget x)) r = [80; 40; 100] /\ 1 <= sumQ (free_factor Shrink) r /\ total 10 r == 240.
Proof.
  eexists. split; [vm_compute; reflexivity|]. split; [vm_compute; reflexivity|].
  split; [vm_compute; intro K; discriminate K | vm_compute; reflexivity].
Qed.
