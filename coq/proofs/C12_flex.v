(* C12 - flex 9.7: the theorems about `resolve` (model of flex.py step 6). *)
From Coq Require Import QArith Qminmax Qabs List Bool ZArith Lia Lqa.
Require Import WV.model.C12Flex WV.proofs.C12_flex_base WV.proofs.C12_flex_inv.
Import ListNotations.
Open Scope Q_scope.

Lemma loop_done_frozen md avail gap init0 fuel l r :
  loop md avail gap init0 fuel l = Done r -> forallb ffrozen r = true.
Proof.
  revert l. induction fuel as [|f IH]; intros l; simpl.
  - destruct (forallb ffrozen l) eqn:E; [intros H; injection H as <-; assumption | discriminate].
  - destruct (forallb ffrozen l) eqn:E; [intros H; injection H as <-; assumption|].
    destruct (pass md avail gap init0 l) as [l'|]; [apply IH | discriminate].
Qed.

Lemma loop_all_frozen md avail gap init0 fuel l : forallb ffrozen l = true -> loop md avail gap init0 fuel l = Done l.
Proof. intros H. destruct fuel; simpl; now rewrite H. Qed.

Lemma loop_fits md avail gap init0 fuel l r :
  loop md avail gap init0 fuel l = Done r -> map fit r = map fit l.
Proof.
  revert l. induction fuel as [|f IH]; intros l; simpl.
  - destruct (forallb ffrozen l); [intros H; now injection H as <- | discriminate].
  - destruct (forallb ffrozen l); [intros H; now injection H as <-|].
    destruct (pass md avail gap init0 l) as [l'|] eqn:Hp; [|discriminate].
    intros H. rewrite (IH _ H). apply pass_some in Hp. rewrite Hp, map_map.
    apply map_ext. intros x. apply step1_fit.
Qed.

Lemma loop_grow avail gap init0 fuel l r : ginv avail gap l -> 0 <= init0 ->
  loop Grow avail gap init0 fuel l = Done r -> ginv avail gap r.
Proof.
  revert l. induction fuel as [|f IH]; intros l I H0; simpl.
  - destruct (forallb ffrozen l); [intros H; now injection H as <- | discriminate].
  - destruct (forallb ffrozen l); [intros H; now injection H as <-|].
    destruct (pass Grow avail gap init0 l) as [l'|] eqn:Hp; [|discriminate].
    apply IH; [now apply (pass_grow avail gap init0 l) | assumption].
Qed.

Lemma loop_shrink avail gap init0 fuel l r : sinv avail gap l -> init0 <= 0 ->
  loop Shrink avail gap init0 fuel l = Done r -> sinv avail gap r.
Proof.
  revert l. induction fuel as [|f IH]; intros l I H0; simpl.
  - destruct (forallb ffrozen l); [intros H; now injection H as <- | discriminate].
  - destruct (forallb ffrozen l); [intros H; now injection H as <-|].
    destruct (pass Shrink avail gap init0 l) as [l'|] eqn:Hp; [|discriminate].
    apply IH; [now apply (pass_shrink avail gap init0 l) | assumption].
Qed.

Lemma map_nonempty {A B} (g : A -> B) l : l <> [] -> map g l <> [].
Proof. destruct l; simpl; congruence. Qed.

Lemma resolve_nonempty items gap avail r : items <> [] -> resolve items gap avail = Done r -> r <> [].
Proof.
  intros Hne H. unfold resolve in H. apply loop_fits in H. rewrite map_map in H. simpl in H.
  intros ->. simpl in H. destruct items; [congruence | discriminate].
Qed.

(* ---- the facts every resolved line satisfies *)
Lemma resolve_grow items gap avail r : items <> [] -> Forall valid_item items ->
  choose_mode items gap avail = Grow -> resolve items gap avail = Done r -> ginv avail gap r.
Proof.
  intros Hne Hv Hm H. unfold resolve in H. rewrite Hm in H.
  pose proof (init_ginv items gap avail Hne Hv Hm) as I.
  apply (loop_grow _ _ _ _ _ _ I) in H; [assumption|].
  pose proof (free_nonneg_grow _ _ _ I). pose proof (g_S _ _ _ I). lra.
Qed.

Lemma resolve_shrink items gap avail r : items <> [] -> Forall valid_item items ->
  choose_mode items gap avail = Shrink -> resolve items gap avail = Done r -> sinv avail gap r.
Proof.
  intros Hne Hv Hm H. unfold resolve in H. rewrite Hm in H.
  pose proof (init_sinv items gap avail Hne Hv Hm) as I.
  apply (loop_shrink _ _ _ _ _ _ I) in H; [assumption|].
  pose proof (free_nonpos_shrink _ _ _ I). pose proof (s_S _ _ _ I). lra.
Qed.

Lemma resolve_items items gap avail r : resolve items gap avail = Done r -> map fit r = items.
Proof.
  intros H. unfold resolve in H. apply loop_fits in H. rewrite H, map_map. simpl. apply map_id.
Qed.

Lemma resolve_frozen items gap avail r : resolve items gap avail = Done r -> forallb ffrozen r = true.
Proof. intros H. unfold resolve in H. now apply loop_done_frozen in H. Qed.

(* min <= target <= max for every item of every line *)
Theorem flex_respects_min_max items gap avail r : Forall valid_item items -> resolve items gap avail = Done r ->
  map fit r = items /\
  forall x, In x r -> imin (fit x) <= ftarget x /\ le_max (ftarget x) (imax (fit x)).
Proof.
  intros Hv H. split; [now apply (resolve_items items gap avail)|].
  destruct items as [|i0 items'].
  - unfold resolve in H. simpl in H. injection H as <-. intros x [].
  - assert (Hne : i0 :: items' <> []) by discriminate.
    pose proof (resolve_frozen _ _ _ _ H) as Hf. rewrite forallb_forall in Hf.
    intros x Hx. destruct (choose_mode (i0 :: items') gap avail) eqn:Hm.
    + pose proof (resolve_grow _ _ _ _ Hne Hv Hm H) as I. destruct (g_frz _ _ _ I x Hx (Hf x Hx)) as (_ & A & B). auto.
    + pose proof (resolve_shrink _ _ _ _ Hne Hv Hm H) as I. destruct (s_frz _ _ _ I x Hx (Hf x Hx)) as (_ & A & B). auto.
Qed.

(* growing never overflows the container and never makes an item smaller than its hypothetical size;
   shrinking never leaves a hole and never makes an item larger than its hypothetical size *)
Theorem flex_right_direction items gap avail r : items <> [] -> Forall valid_item items ->
  resolve items gap avail = Done r ->
  match choose_mode items gap avail with
  | Grow => total gap r <= avail /\ forall x, In x r -> ihyp (fit x) <= ftarget x
  | Shrink => avail <= total gap r /\ forall x, In x r -> ftarget x <= ihyp (fit x)
  end.
Proof.
  intros Hne Hv H. pose proof (resolve_frozen _ _ _ _ H) as Hf.
  pose proof (resolve_nonempty _ _ _ _ Hne H) as Hr.
  pose proof (total_Ssp avail gap r Hr Hf) as T. rewrite forallb_forall in Hf.
  destruct (choose_mode items gap avail) eqn:Hm.
  - pose proof (resolve_grow _ _ _ _ Hne Hv Hm H) as I. pose proof (g_S _ _ _ I). split; [lra|].
    intros x Hx. now destruct (g_frz _ _ _ I x Hx (Hf x Hx)).
  - pose proof (resolve_shrink _ _ _ _ Hne Hv Hm H) as I. pose proof (s_S _ _ _ I). split; [lra|].
    intros x Hx. now destruct (s_frz _ _ _ I x Hx (Hf x Hx)).
Qed.

(* ================================================================= filling and proportionality *)
Definition inside_b (x : fst) : bool :=
  (if Qlt_le_dec (imin (fit x)) (ftarget x) then true else false) &&
  match imax (fit x) with None => true | Some M => if Qlt_le_dec (ftarget x) M then true else false end.

Lemma inside_b_iff x : inside_b x = true <-> inside x.
Proof.
  unfold inside_b, inside, lt_max. destruct (Qlt_le_dec (imin (fit x)) (ftarget x)); simpl.
  - destruct (imax (fit x)) as [M|]; [|tauto]. destruct (Qlt_le_dec (ftarget x) M); split; intros; try tauto; try discriminate.
    destruct H; lra.
  - split; [discriminate | intros (A & _); lra].
Qed.

(* the flex factor of an item that was flexible and ends strictly between its min and max, else 0 *)
Definition free_factor (md : mode) (x : fst) : Q :=
  if flexible md (fit x) && inside_b x then factor md (fit x) else 0.

Definition Jleft (md : mode) (l : list fst) : Prop :=
  forall x, In x l -> ffrozen x = true -> flexible md (fit x) = true -> ~ inside x.

Definition proportional (md : mode) (r : list fst) : Prop :=
  exists k, forall x, In x r -> flexible md (fit x) = true -> inside x ->
                      ftarget x == ibase (fit x) + k * weight md (fit x).
Definition Fin (md : mode) (avail gap : Q) (r : list fst) : Prop :=
  proportional md r /\ (1 <= sumQ (free_factor md) r -> total gap r == avail).

Lemma inside_step_frozen md rem tot l x : ffrozen x = true -> inside (step1 md rem tot l x) -> inside x.
Proof. intros E. unfold inside. destruct (step1_frozen md rem tot l x E) as (-> & _ & ->). tauto. Qed.

Lemma Jleft_init md items : Jleft md (map (init_item md) items).
Proof.
  intros y Hy Ey Fy. apply in_map_iff in Hy. destruct Hy as (it & <- & _). simpl in *.
  rewrite Fy in Ey. discriminate.
Qed.

Lemma Fin_of_Jleft md avail gap l : Jleft md l -> forallb ffrozen l = true -> Fin md avail gap l.
Proof.
  intros J Hf. rewrite forallb_forall in Hf. split.
  - exists 0. intros x Hx Fx Ix. exfalso. exact (J x Hx (Hf x Hx) Fx Ix).
  - intros H. assert (E : sumQ (free_factor md) l == 0).
    { apply sumQ_zero. intros x Hx. unfold free_factor. destruct (flexible md (fit x)) eqn:Fx; [|reflexivity].
      destruct (inside_b x) eqn:Ix; [|reflexivity]. exfalso. apply inside_b_iff in Ix. exact (J x Hx (Hf x Hx) Fx Ix). }
    lra.
Qed.

Lemma Jleft_step md rem l : (forall x, In x l -> le_max (imin (fit x)) (imax (fit x))) -> Jleft md l ->
  ~ pass_tot md rem l == 0 -> Jleft md (map (step1 md rem (pass_tot md rem l) l) l).
Proof.
  intros Hv J Ht y Hy Ey Fy Iy. apply in_map_iff in Hy. destruct Hy as (x & <- & Hx).
  rewrite step1_fit in Fy. destruct (ffrozen x) eqn:E.
  - apply inside_step_frozen in Iy; [|assumption]. exact (J x Hx E Fy Iy).
  - exact (violation_not_inside md rem l x Ht (Hv x Hx) E Ey Iy).
Qed.

(* the sum of the factors of the items that end "free" is at most the unfrozen factor sum of the last pass *)
Lemma free_factor_le md rem l :
  (forall x, In x l -> ffrozen x = false -> 0 <= factor md (fit x)) -> Jleft md l ->
  sumQ (free_factor md) (map (step1 md rem (pass_tot md rem l) l) l) <= ufs md l.
Proof.
  intros Hpos J. rewrite sumQ_map. apply sumQ_le. intros x Hx. unfold free_factor. rewrite step1_fit.
  destruct (ffrozen x) eqn:E.
  - destruct (flexible md (fit x)) eqn:Fx; [|simpl; lra].
    destruct (inside_b _) eqn:Ix; [|simpl; lra]. exfalso. apply inside_b_iff in Ix.
    apply inside_step_frozen in Ix; [|assumption]. exact (J x Hx E Fx Ix).
  - pose proof (Hpos x Hx E). destruct (flexible md (fit x) && inside_b _); lra.
Qed.

Lemma pass_rem_full md avail gap init0 l : 1 <= ufs md l -> pass_rem md avail gap init0 l = free_space avail gap l.
Proof. intros H. unfold pass_rem. destruct (Qlt_le_dec (ufs md l) 1); [lra | reflexivity]. Qed.

Lemma loop_fin_grow avail gap init0 fuel l r : ginv avail gap l -> 0 <= init0 -> Jleft Grow l -> l <> [] ->
  loop Grow avail gap init0 fuel l = Done r -> Fin Grow avail gap r.
Proof.
  revert l. induction fuel as [|f IH]; intros l I H0 J Hne; simpl.
  - destruct (forallb ffrozen l) eqn:Hf; [|discriminate]. intros H. injection H as <-. now apply Fin_of_Jleft.
  - destruct (forallb ffrozen l) eqn:Hf; [intros H; injection H as <-; now apply Fin_of_Jleft|].
    destruct (pass Grow avail gap init0 l) as [l'|] eqn:Hp; [|discriminate].
    pose proof (pass_grow _ _ _ _ _ I H0 Hp) as I'. apply pass_some in Hp.
    set (rem := pass_rem Grow avail gap init0 l) in *.
    assert (Hv : forall x, In x l -> le_max (imin (fit x)) (imax (fit x))).
    { intros x Hx. now destruct (g_valid _ _ _ I x Hx) as (_ & _ & _ & ?). }
    destruct (Qeq_dec (pass_tot Grow rem l) 0) as [T0|T0].
    + (* last pass *)
      pose proof (all_frozen_when_tot_zero Grow rem l T0) as Hf'. rewrite <- Hp in Hf'.
      rewrite (loop_all_frozen _ _ _ _ f l' Hf'). intros H. injection H as <-. split.
      * exists (rem / gsum l). intros y Hy Fy Iy. rewrite Hp in Hy. apply in_map_iff in Hy.
        destruct Hy as (x & <- & Hx). rewrite step1_fit in *. destruct (ffrozen x) eqn:E.
        -- exfalso. apply inside_step_frozen in Iy; [|assumption]. exact (J x Hx E Fy Iy).
        -- rewrite (inside_is_proposed Grow rem l x (Hv x Hx) E Iy), prop1_eq. unfold ratio, weight, Qdiv. ring.
      * intros H1.
        assert (U : 1 <= ufs Grow l).
        { eapply Qle_trans; [exact H1|]. rewrite Hp. apply free_factor_le; [|assumption].
          intros x Hx E. destruct (g_unf _ _ _ I x Hx E). simpl. lra. }
        pose proof (pass_rem_full Grow avail gap init0 l U) as Er. fold rem in Er.
        assert (HD : Dsum Grow rem l == rem).
        { apply Dsum_grow. intros G. now apply pass_rem_zero_when_gsum_zero. }
        pose proof (Ssp_when_tot_zero Grow avail gap rem l T0) as K. rewrite <- Hp in K.
        rewrite (total_Ssp avail gap l'); [|rewrite Hp; now apply map_nonempty | assumption].
        rewrite K, HD, Er. lra.
    + apply IH; try assumption; rewrite Hp; [now apply Jleft_step | now apply map_nonempty].
Qed.

Lemma loop_fin_shrink avail gap init0 fuel l r : sinv avail gap l -> init0 <= 0 -> Jleft Shrink l -> l <> [] ->
  (forall x, In x l -> 0 <= imin (fit x)) ->
  loop Shrink avail gap init0 fuel l = Done r -> Fin Shrink avail gap r.
Proof.
  revert l. induction fuel as [|f IH]; intros l I H0 J Hne Hmin; simpl.
  - destruct (forallb ffrozen l) eqn:Hf; [|discriminate]. intros H. injection H as <-. now apply Fin_of_Jleft.
  - destruct (forallb ffrozen l) eqn:Hf; [intros H; injection H as <-; now apply Fin_of_Jleft|].
    destruct (pass Shrink avail gap init0 l) as [l'|] eqn:Hp; [|discriminate].
    pose proof (pass_shrink _ _ _ _ _ I H0 Hp) as I'. apply pass_some in Hp.
    set (rem := pass_rem Shrink avail gap init0 l) in *.
    assert (Hv : forall x, In x l -> le_max (imin (fit x)) (imax (fit x))).
    { intros x Hx. now destruct (s_valid _ _ _ I x Hx) as (_ & _ & _ & ?). }
    destruct (Qeq_dec (pass_tot Shrink rem l) 0) as [T0|T0].
    + pose proof (all_frozen_when_tot_zero Shrink rem l T0) as Hf'. rewrite <- Hp in Hf'.
      rewrite (loop_all_frozen _ _ _ _ f l' Hf'). intros H. injection H as <-. split.
      * exists (if Qeq_dec (ssum l) 0 then 0 else rem / ssum l). intros y Hy Fy Iy. rewrite Hp in Hy.
        apply in_map_iff in Hy. destruct Hy as (x & <- & Hx). rewrite step1_fit in *. destruct (ffrozen x) eqn:E.
        -- exfalso. apply inside_step_frozen in Iy; [|assumption]. exact (J x Hx E Fy Iy).
        -- rewrite (inside_is_proposed Shrink rem l x (Hv x Hx) E Iy), prop1_eq. unfold ratio, weight.
           destruct (Qeq_dec (ssum l) 0); [ring | unfold Qdiv; ring].
      * intros H1.
        assert (U : 1 <= ufs Shrink l).
        { eapply Qle_trans; [exact H1|]. rewrite Hp. apply free_factor_le; [|assumption].
          intros x Hx E. destruct (s_unf _ _ _ I x Hx E). simpl. lra. }
        pose proof (pass_rem_full Shrink avail gap init0 l U) as Er. fold rem in Er.
        assert (Sn : ~ ssum l == 0).
        { intros S0.
          (* then no item can end strictly inside: every unfrozen base is 0 and min >= 0 *)
          assert (Z : sumQ (free_factor Shrink) l' == 0).
          { rewrite Hp, sumQ_map. apply sumQ_zero. intros x Hx. unfold free_factor. rewrite step1_fit.
            destruct (flexible Shrink (fit x)) eqn:Fx; [|reflexivity].
            destruct (inside_b _) eqn:Ix; [|reflexivity]. exfalso. apply inside_b_iff in Ix.
            destruct (ffrozen x) eqn:E.
            - apply inside_step_frozen in Ix; [|assumption]. exact (J x Hx E Fx Ix).
            - destruct (s_unf _ _ _ I x Hx E) as (Hh & Hs). destruct (s_valid _ _ _ I x Hx) as (_ & _ & Hb & _).
              assert (B0 : ibase (fit x) * ishrink (fit x) == 0).
              { apply (sumQ_nonneg_zero (fun x => if ffrozen x then 0 else ibase (fit x) * ishrink (fit x)) l) in Hx.
                - rewrite E in Hx. exact Hx.
                - intros z Hz. destruct (ffrozen z) eqn:Ez; [lra|].
                  destruct (s_unf _ _ _ I z Hz Ez). destruct (s_valid _ _ _ I z Hz) as (_ & _ & ? & _).
                  apply Qmult_le_0_compat; lra.
                - exact S0. }
              assert (Bz : ibase (fit x) == 0).
              { destruct (Qeq_dec (ibase (fit x)) 0) as [|Nz]; [assumption|]. exfalso.
                apply Qmult_integral in B0. destruct B0; [contradiction | lra]. }
              pose proof (Hmin x Hx) as Hm0. pose proof (hyp_min (fit x)) as Hhm.
              assert (Ep : prop1 Shrink rem l x == 0).
              { rewrite prop1_eq. unfold ratio. destruct (Qeq_dec (ssum l) 0); [lra | contradiction]. }
              destruct Ix as (I1 & I2). destruct (step1_unfrozen Shrink rem (pass_tot Shrink rem l) l x E) as (Efit & Et & _ & _).
              rewrite Efit, Et in I1, I2.
              rewrite (clamp_proper (fit x) _ 0 Ep) in I1.
              assert (clamp (fit x) 0 <= ihyp (fit x)) by (apply clamp_mono; lra). lra. }
          lra. }
        destruct (Dsum_shrink rem l) as (_ & HD). specialize (HD Sn).
        pose proof (Ssp_when_tot_zero Shrink avail gap rem l T0) as K. rewrite <- Hp in K.
        rewrite (total_Ssp avail gap l'); [|rewrite Hp; now apply map_nonempty | assumption].
        rewrite K, HD, Er. lra.
    + apply IH; try assumption; rewrite Hp; [now apply Jleft_step | now apply map_nonempty |].
      intros y Hy. apply in_map_iff in Hy. destruct Hy as (x & <- & Hx). rewrite step1_fit. now apply Hmin.
Qed.

(* flex_fills + proportionality, for every line:
   - the items that were flexible and end strictly between min and max all received k * weight
     (weight = flex-grow when growing, flex-shrink * base size when shrinking) with one common k;
   - if their flex factors sum to at least 1, items + extras + gaps fill the container exactly. *)
Theorem flex_fills_and_proportional items gap avail r : items <> [] -> Forall valid_item items ->
  Forall (fun it => 0 <= imin it) items -> resolve items gap avail = Done r ->
  let md := choose_mode items gap avail in
  proportional md r /\ (1 <= sumQ (free_factor md) r -> total gap r == avail).
Proof.
  intros Hne Hv Hmin H md. unfold resolve in H. fold md in H.
  assert (Hne' : map (init_item md) items <> []) by now apply map_nonempty.
  destruct md eqn:Hm; unfold md in Hm.
  - pose proof (init_ginv items gap avail Hne Hv Hm) as I.
    refine (loop_fin_grow avail gap _ _ _ r I _ (Jleft_init _ _) Hne' H).
    pose proof (free_nonneg_grow _ _ _ I). pose proof (g_S _ _ _ I). lra.
  - pose proof (init_sinv items gap avail Hne Hv Hm) as I.
    refine (loop_fin_shrink avail gap _ _ _ r I _ (Jleft_init _ _) Hne' _ H).
    + pose proof (free_nonpos_shrink _ _ _ I). pose proof (s_S _ _ _ I). lra.
    + rewrite Forall_forall in Hmin. intros y Hy. apply in_map_iff in Hy. destruct Hy as (it & <- & Hit). simpl. now apply Hmin.
Qed.

(* ---- the hypotheses are satisfiable by non-trivial inputs *)
Definition ex_items : list item :=
  [mkItem 50 0 None 1 1 0; mkItem 50 0 (Some 60) 2 1 4; mkItem 20 0 None 0 0 10].

Example ex_items_valid : Forall valid_item ex_items /\ Forall (fun it => 0 <= imin it) ex_items /\ ex_items <> [].
Proof.
  split; [|split; [|discriminate]]; repeat constructor; simpl; try (vm_compute; intro K; discriminate K).
Qed.

(* growing with a max violation: the second item is frozen at 60, the first takes the rest, the line is full *)
Example ex_grow : exists r, resolve ex_items 10 300 = Done r /\
  map (fun x => Qred (ftarget x)) r = [186; 60; 20] /\ choose_mode ex_items 10 300 = Grow /\
  1 <= sumQ (free_factor Grow) r /\ total 10 r == 300.
Proof.
  eexists. split; [vm_compute; reflexivity|]. split; [vm_compute; reflexivity|]. split; [vm_compute; reflexivity|].
  split; [vm_compute; intro K; discriminate K | vm_compute; reflexivity].
Qed.

(* shrinking: 3 x 100 in 240 with a 10px gap, the rigid one keeps 100, the others give 80 in ratio 1:3 *)
Example ex_shrink : exists r,
  resolve [mkItem 100 0 None 0 1 0; mkItem 100 0 None 0 3 0; mkItem 100 0 None 0 0 0] 10 240 = Done r /\
  map (fun x => Qred (ftarget x)) r = [80; 40; 100] /\ 1 <= sumQ (free_factor Shrink) r /\ total 10 r == 240.
Proof.
  eexists. split; [vm_compute; reflexivity|]. split; [vm_compute; reflexivity|].
  split; [vm_compute; intro K; discriminate K | vm_compute; reflexivity].
Qed.

(* ================================================================= factor sums below 1 (nothing clamped) *)
Lemma loop_keeps md avail gap init0 fuel l r : loop md avail gap init0 fuel l = Done r ->
  forall y, In y l -> ffrozen y = true -> exists y', In y' r /\ fit y' = fit y /\ ftarget y' = ftarget y.
Proof.
  revert l. induction fuel as [|f IH]; intros l; simpl.
  - destruct (forallb ffrozen l); [|discriminate]. intros H. injection H as <-. intros y Hy _. exists y. auto.
  - destruct (forallb ffrozen l); [intros H; injection H as <-; intros y Hy _; exists y; auto|].
    destruct (pass md avail gap init0 l) as [l'|] eqn:Hp; [|discriminate]. intros H y Hy Fy.
    apply pass_some in Hp.
    set (st := step1 md (pass_rem md avail gap init0 l) (pass_tot md (pass_rem md avail gap init0 l) l) l) in *.
    destruct (step1_frozen md (pass_rem md avail gap init0 l) (pass_tot md (pass_rem md avail gap init0 l) l) l y Fy)
      as (E1 & E2 & E3). fold st in E1, E2, E3.
    destruct (IH l' H (st y)) as (y' & A & B & C); [rewrite Hp; now apply in_map | assumption|].
    exists y'. rewrite B, C. auto.
Qed.

Lemma cnt_map_lt_ex (g : fst -> fst) l : (cnt (map g l) < cnt l)%nat ->
  exists x, In x l /\ ffrozen x = false /\ ffrozen (g x) = true.
Proof.
  induction l as [|x t IH]; simpl; [lia|]. intros Hd. destruct (ffrozen x) eqn:E.
  - destruct IH as (y & A & B & C); [destruct (ffrozen (g x)); lia | exists y; auto].
  - destruct (ffrozen (g x)) eqn:G; [exists x; auto|].
    destruct IH as (y & A & B & C); [lia | exists y; auto].
Qed.

Definition flex_sum (md : mode) (items : list item) : Q :=
  sumQ (fun it => if flexible md it then factor md it else 0) items.

Lemma ufs_init md items : ufs md (map (init_item md) items) == flex_sum md items.
Proof.
  unfold ufs, flex_sum. rewrite sumQ_map. apply sumQ_ext. intros it _. simpl.
  destruct (flexible md it); simpl; reflexivity.
Qed.

Lemma pass_rem_first md avail gap l : 0 <= ufs md l ->
  pass_rem md avail gap (free_space avail gap l) l == Qmin 1 (ufs md l) * free_space avail gap l.
Proof.
  intros Hu. unfold pass_rem. set (u := ufs md l) in *. set (f := free_space avail gap l).
  destruct (Qlt_le_dec u 1) as [L|L].
  - rewrite (Q.min_r 1 u) by lra. destruct (Qlt_le_dec (Qabs (f * u)) (Qabs f)) as [A|A]; [ring|].
    rewrite Qabs_Qmult, (Qabs_pos u Hu) in A. pose proof (Qabs_nonneg f) as Hf.
    assert (Z : Qabs f == 0).
    { assert (Qabs f * (1 - u) <= 0) by lra. assert (0 <= Qabs f * (1 - u)) by (apply Qmult_le_0_compat; lra).
      assert (E : Qabs f * (1 - u) == 0) by lra. apply Qmult_integral in E. destruct E; [assumption | lra]. }
    assert (H : f == 0).
    { assert (Z' : Qabs f <= 0) by lra. apply Qabs_Qle_condition in Z'. lra. }
    rewrite H. ring.
  - rewrite (Q.min_l 1 u) by lra. ring.
Qed.

(* when no flexible item ends on its min or max, the line is resolved in one pass and
   items + extras + gaps = available - (1 - min(1, sum of flex factors)) * initial free space *)
Theorem flex_fills_fraction items gap avail r : items <> [] -> Forall valid_item items ->
  Forall (fun it => 0 <= imin it) items -> resolve items gap avail = Done r ->
  let md := choose_mode items gap avail in
  (forall x, In x r -> flexible md (fit x) = true -> inside x) ->
  total gap r == avail - (1 - Qmin 1 (flex_sum md items)) * free_space avail gap (map (init_item md) items).
Proof.
  intros Hne Hv Hmin H md Hin. unfold resolve in H. fold md in H. clearbody md.
  set (l0 := map (init_item md) items) in *. set (f0 := free_space avail gap l0) in *.
  assert (Hne0 : l0 <> []) by now apply map_nonempty.
  assert (Hvalid : forall x, In x l0 -> valid_item (fit x) /\ 0 <= imin (fit x)).
  { intros x Hx. apply in_map_iff in Hx. destruct Hx as (it & <- & Hit). simpl.
    rewrite Forall_forall in Hv, Hmin. auto. }
  assert (Hfac : forall x, In x l0 -> ffrozen x = false -> 0 < factor md (fit x)).
  { intros x Hx E. apply in_map_iff in Hx. destruct Hx as (it & <- & Hit). simpl in *.
    apply negb_false_iff in E. unfold flexible in E. apply negb_true_iff, orb_false_iff in E. destruct E as (E & _).
    destruct (Qeq_dec (factor md it) 0) as [Z|Z]; [discriminate|].
    rewrite Forall_forall in Hv. destruct (Hv it Hit) as (G1 & G2 & _).
    assert (0 <= factor md it) by (destruct md; simpl; assumption).
    destruct (Qlt_le_dec 0 (factor md it)); [assumption | exfalso; apply Z; lra]. }
  assert (Hu : 0 <= ufs md l0).
  { apply sumQ_nonneg. intros x Hx. destruct (ffrozen x) eqn:E; [lra|]. pose proof (Hfac x Hx E). lra. }
  rewrite <- (ufs_init md items). fold l0.
  destruct (length items) as [|f] eqn:Len; [destruct items; [congruence | discriminate]|].
  simpl in H. destruct (forallb ffrozen l0) eqn:Hf.
  - (* nothing is flexible *)
    injection H as <-. rewrite (total_Ssp avail gap l0 Hne0 Hf).
    assert (U0 : ufs md l0 == 0).
    { apply sumQ_zero. intros x Hx. rewrite forallb_forall in Hf. now rewrite (Hf x Hx). }
    assert (F0 : f0 == Ssp avail gap l0).
    { unfold f0. rewrite free_space_Ssp.
      assert (Z : sumQ (unf (fun x => ihyp (fit x) - ibase (fit x))) l0 == 0).
      { apply sumQ_zero. intros x Hx. unfold unf. rewrite forallb_forall in Hf. now rewrite (Hf x Hx). }
      rewrite Z. ring. }
    rewrite U0, (Q.min_r 1 0) by lra. rewrite F0. ring.
  - destruct (pass md avail gap f0 l0) as [l'|] eqn:Hp; [|discriminate].
    pose proof Hp as Hp'. apply pass_some in Hp'. set (rem := pass_rem md avail gap f0 l0) in *.
    assert (T0 : pass_tot md rem l0 == 0).
    { destruct (Qeq_dec (pass_tot md rem l0) 0) as [|T]; [assumption|]. exfalso.
      (* some item is frozen by a violation and stays on its bound until the end *)
      pose proof (pass_decreases _ _ _ _ _ _ Hf Hp) as Hd.
      assert (Ex : exists x, In x l0 /\ ffrozen x = false /\ ffrozen (step1 md rem (pass_tot md rem l0) l0 x) = true).
      { rewrite Hp' in Hd. now apply cnt_map_lt_ex. }
      destruct Ex as (x & Hx & E & Fx).
      destruct (Hvalid x Hx) as ((_ & _ & _ & Hvx) & _).
      pose proof (violation_not_inside md rem l0 x T Hvx E Fx) as NI.
      destruct (loop_keeps _ _ _ _ _ _ _ H (step1 md rem (pass_tot md rem l0) l0 x)) as (y' & A & B & C);
        [rewrite Hp'; now apply in_map | assumption|].
      apply NI. assert (Iy : inside y').
      { apply Hin; [assumption|]. rewrite B, step1_fit.
        apply in_map_iff in Hx. destruct Hx as (it & <- & _). simpl in *. now apply negb_false_iff in E. }
      unfold inside in *. now rewrite <- B, <- C. }
    pose proof (all_frozen_when_tot_zero md rem l0 T0) as Hf'. rewrite <- Hp' in Hf'.
    rewrite (loop_all_frozen _ _ _ _ f l' Hf') in H. injection H as <-.
    rewrite (total_Ssp avail gap l'); [|rewrite Hp'; now apply map_nonempty | assumption].
    pose proof (Ssp_when_tot_zero md avail gap rem l0 T0) as K. rewrite <- Hp' in K. rewrite K.
    fold f0. pose proof (pass_rem_first md avail gap l0 Hu) as PR. fold f0 rem in PR.
    assert (HD : Dsum md rem l0 == rem).
    { destruct md.
      - apply Dsum_grow. intros G. now apply pass_rem_zero_when_gsum_zero.
      - destruct (Dsum_shrink rem l0) as (_ & HD). apply HD. intros S0.
        (* a flexible item exists and ends inside, which is impossible when every unfrozen base size is 0 *)
        destruct (forallb_false_ex l0 Hf) as (x & Hx & E).
        destruct (Hvalid x Hx) as ((_ & _ & Hb & Hvx) & Hm0). pose proof (Hfac x Hx E) as Hs. simpl in Hs.
        assert (B0 : ibase (fit x) * ishrink (fit x) == 0).
        { pose proof (sumQ_nonneg_zero (fun x => if ffrozen x then 0 else ibase (fit x) * ishrink (fit x)) l0) as Z.
          specialize (Z ltac:(intros z Hz; cbv beta; destruct (ffrozen z) eqn:Ez; [lra|];
                               destruct (Hvalid z Hz) as ((_ & _ & ? & _) & _); pose proof (Hfac z Hz Ez) as Hz'; simpl in Hz';
                               apply Qmult_le_0_compat; lra) S0 x Hx). cbv beta in Z. now rewrite E in Z. }
        assert (Bz : ibase (fit x) == 0).
        { destruct (Qeq_dec (ibase (fit x)) 0) as [|Nz]; [assumption|]. exfalso.
          apply Qmult_integral in B0. destruct B0; [contradiction | lra]. }
        assert (Ix : inside (step1 Shrink rem (pass_tot Shrink rem l0) l0 x)).
        { apply Hin; [rewrite Hp'; now apply in_map|]. rewrite step1_fit.
          apply in_map_iff in Hx. destruct Hx as (it & <- & _). simpl in *. now apply negb_false_iff in E. }
        destruct Ix as (I1 & _). destruct (step1_unfrozen Shrink rem (pass_tot Shrink rem l0) l0 x E) as (Efit & Et & _ & _).
        rewrite Efit, Et in I1.
        assert (Ep : prop1 Shrink rem l0 x == 0).
        { rewrite prop1_eq. unfold ratio. destruct (Qeq_dec (ssum l0) 0); [lra | contradiction]. }
        rewrite (clamp_proper (fit x) _ 0 Ep) in I1.
        destruct (clamp_cases (fit x) 0 Hvx) as [(Ec & Hc1 & _)|[(Hlt & Ec)|(M & EM & Hlt & Ec)]].
        + lra.
        + lra.
        + pose proof Hvx as Hv2. rewrite EM in Hv2. simpl in Hv2. lra. }
    rewrite HD, PR. ring.
Qed.

(* one item with flex-grow 0.5 in 100px of free space takes half of it *)
Example ex_fraction : exists r, resolve [mkItem 40 0 None (1 # 2) 1 0] 0 140 = Done r /\
  map (fun x => Qred (ftarget x)) r = [90] /\ (forall x, In x r -> flexible Grow (fit x) = true -> inside x) /\
  total 0 r == 140 - (1 - Qmin 1 (1 # 2)) * 100.
Proof.
  eexists. split; [vm_compute; reflexivity|]. split; [vm_compute; reflexivity|]. split.
  - intros x [<-|[]] _. split; simpl; [vm_compute; reflexivity | exact I].
  - vm_compute. reflexivity.
Qed.
