(* C19 - proofs about laying a flex container out again (model/C19Relayout.v). *)
From Coq Require Import QArith Qminmax List Bool Lqa Lia.
Require Import WV.model.C19Relayout.
Import ListNotations.
Open Scope Q_scope.

Definition same_layout (a b : list (Q * Q * list Q)) : Prop :=
  Forall2 (fun x y => fst (fst x) == fst (fst y) /\ snd (fst x) == snd (fst y) /\ snd x = snd y) a b.

(* ---- maximum of a list, up to == ---- *)
Lemma fold_max_ge (l : list Q) : forall x, x <= fold_left Qmax l x /\ Forall (fun y => y <= fold_left Qmax l x) l.
Proof.
  induction l as [|a l IH]; intros x; simpl.
  - split; [apply Qle_refl|constructor].
  - destruct (IH (Qmax x a)) as [A B]. split.
    + eapply Qle_trans; [apply Q.le_max_l|exact A].
    + constructor; [eapply Qle_trans; [apply Q.le_max_r|exact A]|exact B].
Qed.
Lemma fold_max_le (l : list Q) : forall x m, x <= m -> Forall (fun y => y <= m) l -> fold_left Qmax l x <= m.
Proof.
  induction l as [|a l IH]; intros x m X F; simpl; [exact X|].
  inversion F; subst. apply IH; [apply Q.max_lub; assumption|assumption].
Qed.

Lemma maxq_bounds (l : list Q) : Forall (fun y => y <= maxq l) l.
Proof.
  destruct l as [|x r]; simpl; [constructor|]. destruct (fold_max_ge r x) as [A B]. constructor; assumption.
Qed.
Lemma maxq_eq (l : list Q) m : Forall (fun y => y <= m) l -> Exists (fun y => y == m) l -> maxq l == m.
Proof.
  intros F E. destruct l as [|x r]; [inversion E|]. simpl. apply Qle_antisym.
  - inversion F; subst. apply fold_max_le; assumption.
  - destruct (fold_max_ge r x) as [A B]. inversion E as [? ? H|? ? H]; subst.
    + rewrite <- H. exact A.
    + rewrite Forall_forall in B. apply Exists_exists in H. destruct H as [y [I Y]]. rewrite <- Y. exact (B y I).
Qed.

(* ---- items ---- *)
Lemma stretched_write_back L i : stretched (write_back L i) = false.
Proof.
  unfold write_back. destruct (stretched i) eqn:E.
  - unfold stretched. simpl. apply andb_false_r.
  - exact E.
Qed.
Lemma used_write_back L L' i : used L' (write_back L i) = used L i.
Proof.
  unfold used at 1. rewrite stretched_write_back. unfold used, write_back.
  destruct (stretched i); reflexivity.
Qed.
Lemma outer_write_back L i : outer (write_back L i) == (if stretched i then L else outer i).
Proof.
  unfold write_back. destruct (stretched i); [|reflexivity]. unfold outer, height. simpl. ring.
Qed.

Lemma write_back_none_stretched L (l : list item) : existsb stretched l = false -> map (write_back L) l = l.
Proof.
  induction l as [|i l IH]; intros E; [reflexivity|]. simpl in E. apply orb_false_elim in E. destruct E as [A B].
  simpl. unfold write_back at 1. rewrite A. f_equal. exact (IH B).
Qed.

(* a line whose items were written back has the base size it was given, provided that was its own base size *)
Lemma base_line_write_back (l : list item) :
  base_line (map (write_back (base_line l)) l) == base_line l.
Proof.
  set (L := base_line l).
  destruct (existsb stretched l) eqn:EX.
  - unfold base_line at 1. apply maxq_eq.
    + rewrite Forall_forall. intros y Hy. rewrite in_map_iff in Hy. destruct Hy as [j [<- Hj]].
      rewrite in_map_iff in Hj. destruct Hj as [i [<- Hi]]. rewrite outer_write_back.
      destruct (stretched i); [apply Qle_refl|].
      pose proof (maxq_bounds (map outer l)) as B. rewrite Forall_forall in B. apply B. apply in_map. exact Hi.
    + apply existsb_exists in EX. destruct EX as [i [Hi S]]. apply Exists_exists.
      exists (outer (write_back L i)). split; [apply in_map, in_map; exact Hi|].
      rewrite outer_write_back, S. reflexivity.
  - rewrite (write_back_none_stretched L l EX). reflexivity.
Qed.

Lemma starts_proper g (a : list Q) : forall b f f', f == f' -> Forall2 Qeq a b -> Forall2 Qeq (starts f g a) (starts f' g b).
Proof.
  induction a as [|x a IH]; intros b f f' E F; inversion F as [|? y ? b' Exy F']; subst; simpl; constructor; [exact E|].
  apply IH; [|exact F']. rewrite E, Exy. reflexivity.
Qed.

Lemma layout_lines sizes sizes' g (ls : list (list item)) :
  Forall2 Qeq sizes' sizes -> length sizes = length ls ->
  same_layout
    (map (fun p => (fst (fst p), snd (fst p), map (used (fst (fst p))) (snd p)))
         (combine (combine sizes' (starts 0 g sizes')) (map (fun p => map (write_back (fst p)) (snd p)) (combine sizes ls))))
    (map (fun p => (fst (fst p), snd (fst p), map (used (fst (fst p))) (snd p)))
         (combine (combine sizes (starts 0 g sizes)) ls)).
Proof.
  intros F. pose proof (starts_proper g sizes' sizes 0 0 (Qeq_refl 0) F) as S. revert S.
  generalize (starts 0 g sizes') (starts 0 g sizes). revert ls.
  induction F as [|x' x s' s E F IH]; intros ls st' st S L.
  - simpl. constructor.
  - destruct ls as [|l ls]; [simpl in L; discriminate|]. inversion S as [|a b sa sb Eab S']; subst; simpl; [constructor|].
    constructor.
    + simpl. split; [exact E|split; [exact Eab|]].
      rewrite map_map. apply map_ext. intros i. apply used_write_back.
    + apply IH; [exact S'|simpl in L; lia].
Qed.

Lemma layout_nil c : c_lines c = [] -> layout c = [].
Proof. unfold layout. intros ->. rewrite combine_nil. reflexivity. Qed.
Lemma after_lines_nil c : c_lines c = [] -> c_lines (after_shared_style c) = [].
Proof. unfold after_shared_style, laid_out_items. simpl. intros ->. rewrite combine_nil. reflexivity. Qed.

(* ---- even with the shared style: an auto-height or single-line container laid out again from the styles it wrote
   gives the same lines and the same item sizes ---- *)
Theorem shared_style_idempotent_cases (c : container) :
  c_cross c = None \/ (length (c_lines c) <= 1)%nat -> same_layout (layout (after_shared_style c)) (layout c).
Proof.
  intros H.
  destruct (c_lines c) as [|l0 ls0] eqn:EL0.
  { rewrite (layout_nil c EL0), (layout_nil (after_shared_style c) (after_lines_nil c EL0)). constructor. }
  rewrite <- EL0 in H.
  unfold layout, after_shared_style, laid_out_items. simpl.
  destruct (c_cross c) as [d|] eqn:EC.
  - destruct H as [H|H]; [discriminate|].
    destruct (c_lines c) as [|l [|l2 ls]] eqn:EL; [discriminate| |simpl in H; lia].
    + assert (forall lx, line_sizes (cmk (Some d) (c_gap c) [lx]) = [d]) as LS.
      { intros lx. unfold line_sizes. simpl.
        assert (Qeq_bool (d - (d + 0) - (inject_Z 1 - 1) * c_gap c) 0 = true) as ->; [|reflexivity].
        apply Qeq_bool_iff. ring. }
      assert (line_sizes c = [d]) as LC.
      { unfold line_sizes. rewrite EC, EL. simpl.
        assert (Qeq_bool (d - (d + 0) - (inject_Z 1 - 1) * c_gap c) 0 = true) as ->; [|reflexivity].
        apply Qeq_bool_iff. ring. }
      rewrite LC. simpl. rewrite LS. simpl. constructor; [|constructor].
      simpl. split; [reflexivity|split; [reflexivity|]]. rewrite map_map. apply map_ext. intros i. apply used_write_back.
  - assert (forall ls, line_sizes (cmk None (c_gap c) ls) = map base_line ls) as LS.
    { intros ls. unfold line_sizes. simpl. destruct ls as [|? [|? ?]]; reflexivity. }
    assert (line_sizes c = map base_line (c_lines c)) as LC.
    { unfold line_sizes. rewrite EC. destruct (c_lines c) as [|? [|? ?]]; reflexivity. }
    rewrite LS, LC. apply layout_lines; [|apply map_length].
    rewrite map_map. clear EL0 H LC l0 ls0.
    induction (c_lines c) as [|l ls IH]; simpl; constructor; [|exact IH].
    apply base_line_write_back.
Qed.

(* ---- relayout_idempotent: every container laid out again gives the layout it gave the first time, and the styles
   are the ones the caller's boxes had (the stretched sizes live on copies) ---- *)
Lemma same_layout_refl l : same_layout l l.
Proof. induction l as [|x l IH]; constructor; [repeat split; reflexivity|exact IH]. Qed.

Theorem relayout_idempotent (c : container) :
  after c = c /\ same_layout (layout (after c)) (layout c) /\
  (* and what this pass laid out is what the shared-style code laid out: only the place of the write changed *)
  c_lines (after_shared_style c) = laid_out_items c.
Proof. destruct c as [cr g ls]. split; [reflexivity|]. split; [apply same_layout_refl|reflexivity]. Qed.

(* ---- the shared-style variant fails for a multi-line container with a definite cross size: the witness the harness
   replays (it must now give the SAME layout once and twice on the implementation) ----
   container height 100, two lines; item a: height auto (one 10 px line of text), stretched; item b: height 20.
   first pass : lines 10 and 20, 70 px left, +35 each -> 45 / 55; a is 45 high
   second pass from the written styles: lines 45 and 20, 35 px left, +17.5 each -> 62.5 / 37.5 *)
Definition witness : container :=
  cmk (Some 100) 0 [[imk None 10 0 true]; [imk (Some 20) 10 0 false]].

Definition normal (l : list (Q * Q * list Q)) : list (Q * Q * list Q) :=
  map (fun x => (Qred (fst (fst x)), Qred (snd (fst x)), map Qred (snd x))) l.

Theorem shared_style_variant_refuted :
  normal (layout witness) = [(45, 0, [45]); (55, 45, [20])] /\
  normal (layout (after witness)) = [(45, 0, [45]); (55, 45, [20])] /\
  normal (layout (after_shared_style witness)) = [(125 # 2, 0, [45]); (75 # 2, 125 # 2, [20])] /\
  ~ same_layout (layout (after_shared_style witness)) (layout witness).
Proof.
  split; [vm_compute; reflexivity|]. split; [vm_compute; reflexivity|]. split; [vm_compute; reflexivity|].
  intros S. inversion S as [|x y ? ? [E _] _]; subst. vm_compute in E. discriminate.
Qed.

Example relayout_idempotent_example :
  let c := cmk (Some 120) 5 [[imk None 10 2 true; imk (Some 30) 10 4 false; imk None 20 0 true]; [imk None 7 1 true]] in
  map (fun x => Qred (fst (fst x))) (layout c) = [141 # 2; 89 # 2] /\
  map (fun x => map Qred (snd x)) (layout (after c)) = [[137 # 2; 30; 141 # 2]; [87 # 2]].
Proof. split; vm_compute; reflexivity. Qed.
