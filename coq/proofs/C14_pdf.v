(* C14: PDF page boxes - proofs about model/C14Pdf.v *)
From Coq Require Import QArith Qminmax Lqa List Bool.
Require Import WV.model.C14Pdf.
Open Scope Q_scope.

Definition rect_eq (x y : rect) : Prop :=
  let '(a, b, c, d) := x in let '(a', b', c', d') := y in a == a' /\ b == b' /\ c == c' /\ d == d'.
Definition rect_scale (k : Q) (x : rect) : rect := let '(a, b, c, d) := x in (k * a, k * b, k * c, k * d).
Definition rect_in (x y : rect) : Prop :=
  let '(a, b, c, d) := x in let '(a', b', c', d') := y in a' <= a /\ b' <= b /\ c <= c' /\ d <= d'.

(* TrimBox = the page box at scale zoom * 0.75, whatever the bleed *)
Theorem trimbox_is_page w h bl bt br bb zoom :
  let '(_, trim, _) := pdf_boxes w h bl bt br bb zoom in
  rect_eq trim (0, 0, zoom * (3 # 4) * w, zoom * (3 # 4) * h).
Proof. unfold pdf_boxes, rect_eq. repeat split; ring. Qed.

(* MediaBox = page size + bleed on every side, at scale; its width/height are those of the CSS bleed box *)
Theorem mediabox_is_page_times_scale_plus_bleed w h bl bt br bb zoom :
  let '(media, _, _) := pdf_boxes w h bl bt br bb zoom in
  let s := zoom * (3 # 4) in
  rect_eq media (- (s * bl), - (s * bt), s * (w + br), s * (h + bb)).
Proof. unfold pdf_boxes, rect_eq. repeat split; ring. Qed.

(* BleedBox between TrimBox and MediaBox, at most 10pt from the TrimBox *)
Theorem bleedbox_within_10pt w h bl bt br bb zoom :
  0 <= zoom -> 0 <= bl -> 0 <= bt -> 0 <= br -> 0 <= bb ->
  let '(media, trim, bleedbox) := pdf_boxes w h bl bt br bb zoom in
  rect_in trim bleedbox /\ rect_in bleedbox media /\
  let '(t1, t2, t3, t4) := trim in let '(x1, x2, x3, x4) := bleedbox in
  t1 - x1 <= 10 /\ t2 - x2 <= 10 /\ x3 - t3 <= 10 /\ x4 - t4 <= 10.
Proof.
  intros Hz Hl Ht Hr Hb. unfold pdf_boxes, rect_in.
  set (s := zoom * (3 # 4)). assert (Hs : 0 <= s) by (unfold s; nra).
  assert (0 <= bl * s) by nra. assert (0 <= bt * s) by nra. assert (0 <= br * s) by nra. assert (0 <= bb * s) by nra.
  pose proof (Q.le_min_l 10 (bl * s)). pose proof (Q.le_min_r 10 (bl * s)).
  pose proof (Q.le_min_l 10 (bt * s)). pose proof (Q.le_min_r 10 (bt * s)).
  pose proof (Q.le_min_l 10 (br * s)). pose proof (Q.le_min_r 10 (br * s)).
  pose proof (Q.le_min_l 10 (bb * s)). pose proof (Q.le_min_r 10 (bb * s)).
  assert (0 <= Qmin 10 (bl * s)) by (apply Q.min_glb; lra).
  assert (0 <= Qmin 10 (bt * s)) by (apply Q.min_glb; lra).
  assert (0 <= Qmin 10 (br * s)) by (apply Q.min_glb; lra).
  assert (0 <= Qmin 10 (bb * s)) by (apply Q.min_glb; lra).
  repeat split; lra.
Qed.

(* MediaBox and TrimBox are linear in zoom (the statement the code before commit 253a523 falsified: it
   scaled the bleed by 0.75 instead of zoom * 0.75 in TrimBox/BleedBox) *)
Theorem page_boxes_linear_in_zoom w h bl bt br bb zoom k :
  let '(media1, trim1, _) := pdf_boxes w h bl bt br bb zoom in
  let '(mediak, trimk, _) := pdf_boxes w h bl bt br bb (k * zoom) in
  rect_eq mediak (rect_scale k media1) /\ rect_eq trimk (rect_scale k trim1).
Proof. unfold pdf_boxes, rect_eq, rect_scale. repeat split; ring. Qed.

(* the MediaBox covers exactly the painted bleed area iff top and bottom bleed agree ... *)
Theorem mediabox_covers_painted_area_iff_symmetric w h bl bt br bb zoom :
  ~ zoom == 0 ->
  let '(media, _, _) := pdf_boxes w h bl bt br bb zoom in
  rect_eq media (painted_bleed_area w h bl bt br bb zoom) <-> bt == bb.
Proof.
  intros Hz. unfold pdf_boxes, painted_bleed_area, rect_eq. split.
  - intros [_ [H _]].
    assert (E : zoom * (3 # 4) * (bt - bb) == 0) by lra.
    apply Qmult_integral in E. destruct E as [E|E]; [|lra].
    apply Qmult_integral in E. destruct E as [E|E]; [contradiction|discriminate].
  - intros E. split; [ring|]. split; [rewrite E; ring|]. split; [ring|rewrite E; ring].
Qed.

(* ... so for asymmetric top/bottom bleed the property "the page box has the bleed given by the @page rule"
   fails: the top bleed is cut off (open known finding pdf-bleed-top-bottom-swapped; replayed on the
   implementation by the stream pdf-render) *)
Theorem mediabox_covers_painted_area_refuted :
  exists w h bl bt br bb zoom, 0 <= bl /\ 0 <= bt /\ 0 <= br /\ 0 <= bb /\ 0 < zoom /\
    let '(media, _, _) := pdf_boxes w h bl bt br bb zoom in
    ~ rect_in (painted_bleed_area w h bl bt br bb zoom) media.
Proof.
  exists 100, 100, 0, 20, 0, 0, 1. unfold pdf_boxes, painted_bleed_area, rect_in.
  repeat split; try lra.
Qed.

Example pdf_boxes_example :
  pdf_judge ((100, 100), (20, 20, 20, 20), 2, ((-30, -30, 180, 180), (0, 0, 150, 150), (-10, -10, 160, 160))) = 0%nat /\
  (* the former behaviour: bleed scaled by 0.75 only *)
  pdf_judge ((100, 100), (20, 20, 20, 20), 2, ((-30, -30, 180, 180), (-15, -15, 165, 165), (-25, -25, 175, 175))) = 3%nat.
Proof. vm_compute. split; reflexivity. Qed.
