(* C05: min-width / max-width re-resolution (handle_min_max_width around block_level_width). *)
From Coq Require Import QArith Qminmax Lqa List String Bool.
Require Import WV.base.Py WV.gen.GenBlock WV.proofs.PyTac WV.proofs.PyNatural WV.proofs.C05_width WV.model.C05Spec
        WV.model.C05MinMax.
Import ListNotations.
Open Scope string_scope.
Open Scope Q_scope.

(* one call of the regenerated block_level_width, as a function *)
Lemma blw_call_spec is_col ml mr w pl pr bl br px cbw :
  len ml -> len mr -> len w ->
  exists a c d x ic,
    blw_call (mkbox ml mr w pl pr bl br px is_col) (cb_tuple cbw) = Some (mkbox (VNum a) (VNum c) (VNum d) pl pr bl br x ic) /\
    (is_auto w = false -> d == numof w) /\
    (is_auto w = true -> a + bl + pl + d + pr + br + c == cbw) /\
    (is_auto w = false -> (is_auto ml || is_auto mr = true) -> total ml mr w pl pr bl br <= cbw ->
        a + bl + pl + d + pr + br + c == cbw) /\
    x == px.
Proof.
  intros Hml Hmr Hw.
  pose proof (block_level_width_equation_tuple_cb is_col ml mr w pl pr bl br px cbw Hml Hmr Hw) as Hrun.
  apply run_prop_outcome in Hrun. destruct Hrun as (rho' & r & Hout & Hpost).
  destruct Hpost as (a & c & d & x & ic & Hbox & H1 & _ & _ & H4 & H5 & _ & H7).
  exists a, c, d, x, ic. unfold blw_call. rewrite Hout, Hbox. repeat split; auto.
  - intros Hw'. destruct (H4 Hw') as [E _]. exact E.
  - intros Hw' Ha Hfit. destruct (H5 Hw' Ha Hfit) as [E _]. exact E.
Qed.

Lemma restore_mkbox ml mr w pl pr bl br px is_col a c d x ic m :
  restore (mkbox ml mr w pl pr bl br px is_col) (setf "width" (VNum m) (mkbox (VNum a) (VNum c) (VNum d) pl pr bl br x ic))
  = mkbox ml mr (VNum m) pl pr bl br px ic.
Proof. reflexivity. Qed.
Lemma qfield_width a c d pl pr bl br x ic : qfield (mkbox a c (VNum d) pl pr bl br x ic) "width" = Some d.
Proof. reflexivity. Qed.

(* After min/max re-resolution: the used width respects min-width, and max-width whenever max >= min (min wins);
   the result is the plain resolution with the clamped width as the specified one. *)
Theorem min_max_width_respected is_col ml mr w pl pr bl br px cbw minw maxw :
  len ml -> len mr -> len w ->
  exists a c d x ic,
    with_min_max (mkbox ml mr w pl pr bl br px is_col) (cb_tuple cbw) minw maxw
      = Some (mkbox (VNum a) (VNum c) (VNum d) pl pr bl br x ic) /\
    minw <= d /\
    (forall m, maxw = Some m -> minw <= m -> d <= m) /\
    x == px.
Proof.
  intros Hml Hmr Hw.
  destruct (blw_call_spec is_col ml mr w pl pr bl br px cbw Hml Hmr Hw) as (a1 & c1 & d1 & x1 & ic1 & E1 & _ & _ & _ & Hx1).
  unfold with_min_max. rewrite E1, qfield_width.
  (* step 2: max-width *)
  assert (Hstep2 : exists a2 c2 d2 x2 ic2,
            match maxw with
            | Some m => if Qle_bool d1 m then Some (mkbox (VNum a1) (VNum c1) (VNum d1) pl pr bl br x1 ic1)
                        else blw_call (restore (mkbox ml mr w pl pr bl br px is_col)
                                               (setf "width" (VNum m) (mkbox (VNum a1) (VNum c1) (VNum d1) pl pr bl br x1 ic1)))
                                      (cb_tuple cbw)
            | None => Some (mkbox (VNum a1) (VNum c1) (VNum d1) pl pr bl br x1 ic1)
            end = Some (mkbox (VNum a2) (VNum c2) (VNum d2) pl pr bl br x2 ic2) /\
            (forall m, maxw = Some m -> d2 <= m) /\ x2 == px).
  { destruct maxw as [m|].
    - destruct (Qle_bool d1 m) eqn:E.
      + exists a1, c1, d1, x1, ic1. split; [reflexivity|]. split; [|exact Hx1].
        intros m' Hm. injection Hm as <-. now apply Qle_bool_iff.
      + rewrite restore_mkbox.
        destruct (blw_call_spec ic1 ml mr (VNum m) pl pr bl br px cbw Hml Hmr I) as (a2 & c2 & d2 & x2 & ic2 & E2 & Hd2 & _ & _ & Hx2).
        exists a2, c2, d2, x2, ic2. split; [exact E2|]. split; [|exact Hx2].
        intros m' Hm. injection Hm as <-. specialize (Hd2 eq_refl). simpl in Hd2. rewrite Hd2. apply Qle_refl.
    - exists a1, c1, d1, x1, ic1. split; [reflexivity|]. split; [intros m' Hm; discriminate|exact Hx1]. }
  destruct Hstep2 as (a2 & c2 & d2 & x2 & ic2 & E2 & Hmax2 & Hx2). rewrite E2, qfield_width.
  (* step 3: min-width *)
  destruct (Qle_bool minw d2) eqn:Emin.
  - exists a2, c2, d2, x2, ic2. split; [reflexivity|]. apply Qle_bool_iff in Emin. split; [exact Emin|].
    split; [|exact Hx2]. intros m Hm _. now apply Hmax2.
  - rewrite restore_mkbox.
    destruct (blw_call_spec ic2 ml mr (VNum minw) pl pr bl br px cbw Hml Hmr I) as (a3 & c3 & d3 & x3 & ic3 & E3 & Hd3 & _ & _ & Hx3).
    exists a3, c3, d3, x3, ic3. split; [exact E3|]. specialize (Hd3 eq_refl). simpl in Hd3.
    split; [rewrite Hd3; apply Qle_refl|]. split; [|exact Hx3].
    intros m Hm Hle. rewrite Hd3. exact Hle.
Qed.
Print Assumptions min_max_width_respected.

Example min_max_example :
  with_min_max (mkbox (VStr "auto") (VStr "auto") (VStr "auto") 0 0 0 0 0 false) (cb_tuple 100) 0 (Some 40)
  = Some (mkbox (VNum ((100 - (0 + 0 + 0 + 0) - 40) / 2)) (VNum ((100 - (0 + 0 + 0 + 0) - 40) / 2)) (VNum 40) 0 0 0 0 0 false).
Proof. vm_compute. reflexivity. Qed.
