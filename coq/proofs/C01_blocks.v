(* C01: complete fragments, find_earlier_page_break conserves content. *)
From Coq Require Import ZArith List Bool Lia Arith.
Require Import WV.model.Frag2 WV.proofs.C01_defs WV.proofs.C01_lines.
Import ListNotations.
Open Scope nat_scope.

Definition skip_idx (sk : option skip) : nat := match sk with Some (SChild i _) => i | _ => 0 end.
Definition skip_sub (sk : option skip) : option skip := match sk with Some (SChild _ s) => s | _ => None end.
Definition words_res (b : box) (r : option skip) : list Z :=
  match r with None => [] | Some s => words_from b (Some s) end.
Definition wf_res (b : box) (r : option skip) : Prop :=
  match r with None => True | Some s => wf_skip b (Some s) end.

(* [cinv b sk f]: f is a COMPLETE fragment of b started at sk (nothing of b remains after it), and it remembers
   where it came from the way the implementation's fragments do (child index, line resume numbers) *)
Inductive cinv : box -> option skip -> frag -> Prop :=
| cinv_para st ids r sk st' i y mt mb pt pb bt bb h fk :
    skip_idx sk = 0 ->
    lines_ok ids (s_orphans st) (s_widows st) (start_line (skip_sub sk)) fk ->
    start_line (skip_sub sk) + length fk = length ids ->
    cinv (Blk st [Lines ids] r) sk (FBlk st' i y mt mb pt pb bt bb h fk)
| cinv_blk st kids r sk st' i y mt mb pt pb bt bb h fk :
    forallb is_blk kids = true ->
    (forall j f, nth_error fk j = Some f ->
       exists kid, nth_error kids (skip_idx sk + j) = Some kid /\ frag_index f = skip_idx sk + j /\
                   wf_skip kid (if j =? 0 then skip_sub sk else None) /\
                   cinv kid (if j =? 0 then skip_sub sk else None) f) ->
    skip_idx sk + length fk = length kids ->
    fwords_l fk = words_from_kids words_from kids (skip_idx sk) (skip_sub sk) ->
    cinv (Blk st kids r) sk (FBlk st' i y mt mb pt pb bt bb h fk).

(* coverage of the children [i0 ..] of a block container by complete child fragments *)
Definition covers (kids : list box) (i0 : nat) (sub0 : option skip) (fk : list frag) : Prop :=
  forall j f, nth_error fk j = Some f ->
    exists kid, nth_error kids (i0 + j) = Some kid /\ frag_index f = i0 + j /\
                wf_skip kid (if j =? 0 then sub0 else None) /\
                cinv kid (if j =? 0 then sub0 else None) f.

Lemma covers_tail kids i0 sub0 f fk : covers kids i0 sub0 (f :: fk) -> covers kids (S i0) None fk.
Proof.
  intros H j g Hg. destruct (H (S j) g Hg) as (kid & H1 & H2 & H3 & H4).
  exists kid. replace (S i0 + j) with (i0 + S j) by lia. simpl in H3, H4.
  destruct (j =? 0); auto.
Qed.
Lemma covers_snoc kids i0 sub0 fk f kid :
  covers kids i0 sub0 fk -> nth_error kids (i0 + length fk) = Some kid -> frag_index f = i0 + length fk ->
  wf_skip kid (if length fk =? 0 then sub0 else None) -> cinv kid (if length fk =? 0 then sub0 else None) f ->
  covers kids i0 sub0 (fk ++ [f]).
Proof.
  intros H Hk Hi Hw Hc j g Hg. destruct (lt_dec j (length fk)) as [Hlt|Hge].
  - rewrite nth_error_app1 in Hg by assumption. now apply H.
  - assert (j = length fk).
    { assert (j < length (fk ++ [f])) by (apply nth_error_Some; congruence). rewrite app_length in *. simpl in *. lia. }
    subst j. rewrite nth_error_app2, Nat.sub_diag in Hg by lia. simpl in Hg. inversion Hg; subst g. eauto.
Qed.

Lemma wfk_step kids : forall i sub kid, nth_error kids i = Some kid ->
  words_from_kids words_from kids i sub = words_from kid sub ++ words_from_kids words_from kids (S i) None.
Proof.
  induction kids as [|k l IH]; intros [|i] sub kid H; simpl in *; try discriminate.
  - inversion H; subst. now rewrite wfk_0_none.
  - rewrite (IH i sub kid H). destruct l; [destruct i; discriminate|reflexivity].
Qed.

Lemma cinv_words b sk f : cinv b sk f -> wf_skip b sk -> fwords f = words_from b sk.
Proof.
  intros H Hwf. destruct H as [st ids r sk st' i y mt mb pt pb bt bb h fk Hi Hok Hlen
                              |st kids r sk st' i y mt mb pt pb bt bb h fk Hb Hcov Hlen Hw].
  - rewrite fwords_blk, (lines_ok_words _ _ _ _ _ Hok).
    replace (length fk) with (length ids - start_line (skip_sub sk)) by lia.
    rewrite <- skipn_length, firstn_all.
    destruct sk as [[k|i0 sub]|]; simpl in *; try contradiction.
    + subst i0. simpl. destruct sub as [[k|? ?]|]; simpl in *; try contradiction; now rewrite app_nil_r.
    + now rewrite app_nil_r.
  - rewrite fwords_blk, Hw. destruct sk as [[k|i0 sub]|]; try (simpl in Hwf; contradiction).
    + now rewrite words_from_child.
    + cbn [skip_idx skip_sub]. rewrite wfk_0_none, words_from_none, bwords_blk. reflexivity.
Qed.

(* complete child fragments account for all the words of their children *)
Lemma covers_words kids : forall fk i0 sub0, covers kids i0 sub0 fk -> fk <> [] ->
  fwords_l fk ++ words_from_kids words_from kids (i0 + length fk) None = words_from_kids words_from kids i0 sub0.
Proof.
  induction fk as [|f fk IH]; intros i0 sub0 H Hne; [congruence|].
  destruct (H 0 f eq_refl) as (kid & Hk & _ & Hwf & Hc). rewrite Nat.add_0_r in Hk. simpl in Hwf, Hc.
  rewrite (wfk_step _ _ _ _ Hk), <- (cinv_words _ _ _ Hc Hwf).
  rewrite fwords_l_cons, <- app_assoc. f_equal.
  destruct fk as [|g fk'].
  - simpl. now rewrite Nat.add_1_r.
  - replace (i0 + length (f :: g :: fk')) with (S i0 + length (g :: fk')) by (simpl; lia).
    apply IH; [eapply covers_tail; eassumption|congruence].
Qed.

Lemma cinv_is_fblk b sk f : cinv b sk f -> exists st i y mt mb pt pb bt bb h fk, f = FBlk st i y mt mb pt pb bt bb h fk.
Proof. intros []; eauto 12. Qed.

Lemma skipn_add {A} (l : list A) : forall a b, skipn a (skipn b l) = skipn (b + a) l.
Proof.
  induction l as [|x l IH]; intros a b; [now rewrite !skipn_nil|].
  destruct b; simpl; [reflexivity|]. apply IH.
Qed.

(* ---- find_earlier_page_break ---- *)
Definition FE (b : box) : Prop :=
  forall sk f kept res, wf_box b = true -> wf_skip b sk -> cinv b sk f ->
    find_earlier_f f = Some (kept, res) ->
    fwords_l kept ++ words_from b (Some res) = fwords f /\ wf_skip b (Some res).

Lemma Forall_nth {A} (P : A -> Prop) l i x : Forall P l -> nth_error l i = Some x -> P x.
Proof. intros H. revert i. induction H as [|a l Ha Hl IH]; intros [|i] E; simpl in E; try discriminate; [now inversion E; subst|eauto]. Qed.
Lemma forallb_nth {A} (p : A -> bool) l i x : forallb p l = true -> nth_error l i = Some x -> p x = true.
Proof. revert i. induction l as [|a l IH]; intros [|i] H E; simpl in *; try discriminate; apply andb_prop in H; destruct H; [now inversion E; subst|eauto]. Qed.

Lemma wf_skip_kids_nth kids : forall i sub kid, nth_error kids i = Some kid -> wf_skip kid sub -> wf_skip_kids kids i sub.
Proof. induction kids as [|k l IH]; intros [|i] sub kid H Hw; simpl in *; try discriminate; [now inversion H; subst|eauto]. Qed.
Lemma wf_skip_kids_inv kids : forall i sub, wf_skip_kids kids i sub -> exists kid, nth_error kids i = Some kid /\ wf_skip kid sub.
Proof. induction kids as [|k l IH]; intros [|i] sub H; simpl in *; try contradiction; eauto. Qed.

Lemma fe_go_spec kids : Forall FE kids -> forallb wf_box kids = true ->
  forall fk i0 sub0 kept res, covers kids i0 sub0 fk ->
    fe_go find_earlier_f fk = Some (kept, res) ->
    exists jj x, res = SChild jj x /\ wf_skip_kids kids jj x /\
      fwords_l kept ++ words_from_kids words_from kids jj x =
      fwords_l fk ++ words_from_kids words_from kids (i0 + length fk) None.
Proof.
  intros HFE Hwfk. induction fk as [|ch rest IH]; intros i0 sub0 kept res Hcov Hgo; [discriminate|].
  simpl in Hgo.
  destruct (Hcov 0 ch eq_refl) as (kid & Hk & Hidx & Hwf & Hc). rewrite Nat.add_0_r in Hk, Hidx. simpl in Hwf, Hc.
  pose proof (covers_tail _ _ _ _ _ Hcov) as Hcov'.
  assert (Hrestw : rest <> [] -> fwords_l rest ++ words_from_kids words_from kids (S i0 + length rest) None
                                 = words_from_kids words_from kids (S i0) None)
    by (intros Hne; now apply covers_words).
  replace (i0 + length (ch :: rest)) with (S i0 + length rest) by (simpl; lia).
  destruct (fe_go find_earlier_f rest) as [[kept' res']|] eqn:Erest.
  - injection Hgo as <- <-. destruct (IH _ _ _ _ Hcov' eq_refl) as (jj & x & -> & Hwx & Hw).
    exists jj, x. repeat split; auto. rewrite !fwords_l_cons, <- !app_assoc. now rewrite Hw.
  - (* no opportunity further right: between ch and its successor, or inside ch *)
    assert (Hinside : forall kept res,
      (if negb (avoid (frag_st_bi ch)) then
         match find_earlier_f ch with
         | Some (ngc, res) => Some ([set_kids ch ngc], SChild (frag_index ch) (Some res))
         | None => None end
       else None) = Some (kept, res) ->
      exists jj x, res = SChild jj x /\ wf_skip_kids kids jj x /\
        fwords_l kept ++ words_from_kids words_from kids jj x =
        fwords_l (ch :: rest) ++ words_from_kids words_from kids (S i0 + length rest) None).
    { intros kept0 res0 Hin. destruct (negb (avoid (frag_st_bi ch))); [|discriminate].
      destruct (find_earlier_f ch) as [[ngc res1]|] eqn:Efe; [|discriminate]. injection Hin as <- <-.
      pose proof (Forall_nth _ _ _ _ HFE Hk) as HFEk.
      destruct (HFEk _ _ _ _ (forallb_nth _ _ _ _ Hwfk Hk) Hwf Hc Efe) as [Hw1 Hw2].
      exists i0, (Some res1). rewrite Hidx. repeat split; auto.
      - eapply wf_skip_kids_nth; eassumption.
      - destruct (cinv_is_fblk _ _ _ Hc) as (st & i & y & mt & mb & pt & pb & bt & bb & h & fk0 & ->).
        rewrite (wfk_step _ _ _ _ Hk), fwords_l_one, fwords_set_kids, fwords_l_cons.
        rewrite app_assoc, Hw1, <- app_assoc. f_equal.
        destruct rest as [|p rest']; [simpl; now rewrite Nat.add_0_r|].
        symmetry. apply Hrestw. congruence. }
    destruct rest as [|p rest'].
    + apply Hinside in Hgo. exact Hgo.
    + match type of Hgo with (if ?cnd then _ else _) = _ => destruct cnd end.
      * injection Hgo as <- <-.
        destruct (Hcov 1 p eq_refl) as (kidp & Hkp & Hidxp & _ & _).
        exists (S i0), None. rewrite Hidxp. replace (i0 + 1) with (S i0) in * by lia. repeat split; auto.
        -- eapply wf_skip_kids_nth; [eassumption|apply wf_skip_none].
        -- rewrite fwords_l_one, fwords_l_cons, <- app_assoc. f_equal.
           symmetry. apply Hrestw. congruence.
      * apply Hinside in Hgo. exact Hgo.
Qed.

Theorem find_earlier_conserves : forall b, FE b.
Proof.
  induction b as [ids|st kids r IH] using box_ind'; intros sk f kept res Hwfb Hwfs Hc Hfe.
  - inversion Hc.
  - rewrite wf_box_blk in Hwfb. apply andb_prop in Hwfb. destruct Hwfb as [Hwfb Hwfk].
    apply andb_prop in Hwfb. destruct Hwfb as [Hwfb _]. apply andb_prop in Hwfb. destruct Hwfb as [Ho Hw].
    apply Nat.leb_le in Ho. apply Nat.leb_le in Hw.
    inversion Hc as [st0 ids r0 sk0 st' i y mt mb pt pb bt bb h fk Hi Hok Hlen
                    |st0 kids0 r0 sk0 st' i y mt mb pt pb bt bb h fk Hb Hcov Hlen Hwd]; subst.
    + (* a paragraph: orphans / widows *)
      simpl in Hfe.
      destruct fk as [|[wid ly lh lr lo lw|] fk'] eqn:Efk; try discriminate; [|contradiction].
      simpl in Hok. destruct Hok as (Hn & Hr & -> & -> & Hrest).
      set (fk0 := FLine wid ly lh lr (s_orphans st) (s_widows st) :: fk') in *.
      assert (Hok : lines_ok ids (s_orphans st) (s_widows st) (start_line (skip_sub sk)) fk0)
        by (simpl; repeat split; auto).
      change (length (FLine wid ly lh lr (s_orphans st) (s_widows st) :: fk')) with (length fk0) in *.
      destruct ((length fk0 <? s_widows st) || (length fk0 - s_widows st <? s_orphans st)) eqn:Econd; [discriminate|].
      apply orb_false_elim in Econd. destruct Econd as [E1 E2]. apply Nat.ltb_ge in E1. apply Nat.ltb_ge in E2.
      set (idx := length fk0 - s_widows st) in *.
      injection Hfe as <- <-.
      set (k0 := start_line (skip_sub sk)) in *.
      assert (Hkeep : lines_ok ids (s_orphans st) (s_widows st) k0 (firstn idx fk0)) by now apply lines_ok_firstn.
      assert (Hlk : length (firstn idx fk0) = idx) by (rewrite firstn_length; lia).
      assert (Hne : firstn idx fk0 <> []) by (intro X; rewrite X in Hlk; simpl in Hlk; lia).
      rewrite (lines_ok_last_resume _ _ _ _ _ Hkeep Hne), Hlk.
      assert (Hlt : k0 + idx < length ids) by lia.
      apply Nat.ltb_lt in Hlt. rewrite Hlt. apply Nat.ltb_lt in Hlt.
      split.
      * rewrite fwords_blk, (lines_ok_words _ _ _ _ _ Hok).
        rewrite words_from_child. cbn [words_from_kids words_from bwords_l flat_map]. rewrite app_nil_r.
        rewrite (lines_ok_words _ _ _ _ _ Hkeep), Hlk.
        replace (length fk0) with (length (skipn k0 ids)) by (rewrite skipn_length; lia).
        rewrite firstn_all. rewrite <- (firstn_skipn idx (skipn k0 ids)) at 2. f_equal.
        now rewrite skipn_add.
      * rewrite wf_skip_child. simpl. exact Hlt.
    + (* block children *)
      assert (Hgo : fe_go find_earlier_f fk = Some (kept, res)).
      { simpl in Hfe. destruct fk as [|f0 fk']; [exact Hfe|].
        destruct (Hcov 0 f0 eq_refl) as (kid & _ & _ & _ & Hc0).
        destruct (cinv_is_fblk _ _ _ Hc0) as (st1 & i1 & y1 & mt1 & mb1 & pt1 & pb1 & bt1 & bb1 & h1 & fk1 & ->).
        exact Hfe. }
      destruct (fe_go_spec kids IH Hwfk fk (skip_idx sk) (skip_sub sk) kept res Hcov Hgo) as (jj & x & -> & Hwx & Hwd').
      split.
      * rewrite words_from_child, Hwd', Hlen, wfk_beyond by lia. now rewrite app_nil_r, fwords_blk.
      * now rewrite wf_skip_child.
Qed.
