(* C10: the loop "Max- and min-content widths for span > 1" of table_and_columns_preferred_widths
   (model/C10Preferred.v): after the loop every colspan cell lying inside the grid fits in the columns it spans
   plus the HORIZONTAL spacings between them, for the min-content and for the max-content widths; the loop never
   raises and never shrinks a column. *)
From Coq Require Import QArith Qminmax Lqa Lia List Bool Arith.
Require Import WV.model.C10Distribute WV.model.C10Layout WV.model.C10Preferred.
Require Import WV.proofs.C10_distribute WV.proofs.C10_fixed.
Import ListNotations.
Open Scope Q_scope.

Definition mins (st : list pcol) : list Q := map p_min st.
Definition maxs (st : list pcol) : list Q := map p_max st.

(* ---------------------------------------------------------------- dist_slice on the slice itself *)
Lemma dist_slice_length a b e cols r : dist_slice a b e cols = Some r -> length r = length cols.
Proof.
  unfold dist_slice. destruct (dist e (in_slice a b cols)) as [ws|] eqn:E; [|discriminate]. intro H. injection H as <-.
  pose proof (dist_length _ _ _ E) as L.
  rewrite <- (map_length c_w cols). rewrite (slice_split_w a b cols). rewrite !app_length, !map_length. lia.
Qed.

Lemma qslice_map_w a b cols : qslice a b (map c_w cols) = map c_w (in_slice a b cols).
Proof. unfold qslice, in_slice. now rewrite skipn_map, firstn_map. Qed.

Lemma dist_slice_mid a b e cols r :
  dist_slice a b e cols = Some r -> in_slice a b cols <> [] ->
  qsum (qslice a b r) == qsum (qslice a b (map c_w cols)) + e.
Proof.
  unfold dist_slice. intros H Hne. destruct (dist e (in_slice a b cols)) as [ws|] eqn:E; [|discriminate].
  injection H as <-. pose proof (dist_length _ _ _ E) as L.
  assert (La : (a < length cols)%nat).
  { destruct (le_lt_dec (length cols) a) as [G|G]; [|exact G]. exfalso. apply Hne. unfold in_slice.
    rewrite skipn_all2 by lia. now rewrite firstn_nil. }
  assert (Lp : length (map c_w (firstn a cols)) = a) by (rewrite map_length, firstn_length; lia).
  unfold qslice. rewrite skipn_app, Lp, Nat.sub_diag. rewrite (skipn_all2 (map c_w (firstn a cols))) by lia.
  cbn [app skipn].
  assert (Lm : length (in_slice a b cols) = Nat.min (b - a) (length cols - a))
    by (unfold in_slice; now rewrite firstn_length, skipn_length).
  assert (Ew : firstn (b - a) (ws ++ map c_w (skipn (a + length (in_slice a b cols)) cols)) = ws).
  { destruct (le_lt_dec (b - a) (length cols - a)) as [G|G].
    - apply firstn_app_exact. lia.
    - rewrite (skipn_all2 cols) by lia. cbn [map]. rewrite app_nil_r. apply firstn_all2. lia. }
  rewrite Ew. rewrite (dist_excess_is_distributed _ _ _ Hne E).
  fold (qslice a b (map c_w cols)). now rewrite qslice_map_w.
Qed.

Lemma Forall2_le_map {X} (h : X -> Q) l ws : Forall2 (fun x w => h x <= w) l ws -> Forall2 Qle (map h l) ws.
Proof. induction 1; simpl; constructor; auto. Qed.
Lemma Forall2_le_refl l : Forall2 Qle l l.
Proof. induction l; constructor; [lra|assumption]. Qed.
Lemma Forall2_le_trans a b c : Forall2 Qle a b -> Forall2 Qle b c -> Forall2 Qle a c.
Proof.
  intros H. revert c. induction H as [|x y a b Hxy _ IH]; intros c Hc; inversion Hc; subst; constructor; [lra|auto].
Qed.
Lemma Forall2_le_sum a b : Forall2 Qle a b -> qsum a <= qsum b.
Proof. induction 1; simpl; lra. Qed.
Lemma qslice_sum_mono a b l l' : Forall2 Qle l l' -> qsum (qslice a b l) <= qsum (qslice a b l').
Proof. intro H. apply Forall2_le_sum. unfold qslice. now apply Forall2_firstn, Forall2_skipn. Qed.

(* ---------------------------------------------------------------- the state updates *)
Lemma set_mins_mins st ws : length ws = length st -> mins (set_mins st ws) = ws.
Proof.
  unfold mins, set_mins. revert ws. induction st as [|p st IH]; intros [|w ws] H; simpl in *; try discriminate; [reflexivity|].
  f_equal. apply IH. lia.
Qed.
Lemma set_mins_maxs st ws : length ws = length st -> maxs (set_mins st ws) = maxs st.
Proof.
  unfold maxs, set_mins. revert ws. induction st as [|p st IH]; intros [|w ws] H; simpl in *; try discriminate; [reflexivity|].
  f_equal. apply IH. lia.
Qed.
Lemma set_maxs_maxs st ws : length ws = length st -> maxs (set_maxs st ws) = ws.
Proof.
  unfold maxs, set_maxs. revert ws. induction st as [|p st IH]; intros [|w ws] H; simpl in *; try discriminate; [reflexivity|].
  f_equal. apply IH. lia.
Qed.
Lemma set_maxs_mins st ws : length ws = length st -> mins (set_maxs st ws) = mins st.
Proof.
  unfold mins, set_maxs. revert ws. induction st as [|p st IH]; intros [|w ws] H; simpl in *; try discriminate; [reflexivity|].
  f_equal. apply IH. lia.
Qed.
Lemma cols_for_min_w st : map c_w (cols_for_min st) = mins st.
Proof. unfold cols_for_min, mins. rewrite map_map. reflexivity. Qed.
Lemma cols_for_max_w st : map c_w (cols_for_max st) = maxs st.
Proof. unfold cols_for_max, maxs. rewrite map_map. reflexivity. Qed.

(* ---------------------------------------------------------------- one cell *)
(* the cell lies inside the grid *)
Definition inside (c : scell) (n : nat) : Prop := (1 <= s_span c)%nat /\ (s_gx c + s_span c <= n)%nat.
Definition spacing_of (h : Q) (c : scell) : Q := (qnat (s_span c) - 1) * h.
Definition fits_min (h : Q) (st : list pcol) (c : scell) : Prop :=
  s_min c <= qsum (qslice (s_gx c) (s_gx c + s_span c) (mins st)) + spacing_of h c.
Definition fits_max (h : Q) (st : list pcol) (c : scell) : Prop :=
  s_max c <= qsum (qslice (s_gx c) (s_gx c + s_span c) (maxs st)) + spacing_of h c.
Definition grows (st st' : list pcol) : Prop :=
  length st' = length st /\ Forall2 Qle (mins st) (mins st') /\ Forall2 Qle (maxs st) (maxs st').

Lemma grows_refl st : grows st st.
Proof. repeat split; apply Forall2_le_refl. Qed.
Lemma grows_trans a b c : grows a b -> grows b c -> grows a c.
Proof. intros [L1 [M1 X1]] [L2 [M2 X2]]. repeat split; [lia| |]; eapply Forall2_le_trans; eassumption. Qed.

Lemma in_slice_inside (f : pcol -> col) c st :
  inside c (length st) -> in_slice (s_gx c) (s_gx c + s_span c) (map f st) <> [].
Proof. intros [H1 H2]. apply in_slice_nonempty; [lia|rewrite map_length; lia]. Qed.

Lemma step_ok h c st : exists st', colspan_step h c st = Some st'.
Proof.
  unfold colspan_step. fold (mins st). fold (maxs st).
  destruct (Qlt_bool _ (s_min c)).
  - destruct (dist_slice_never_raises (s_gx c) (s_gx c + s_span c)
               (s_min c - (qsum (qslice (s_gx c) (s_gx c + s_span c) (mins st)) + (qnat (s_span c) - 1) * h))
               (cols_for_min st)) as [ws Hws].
    rewrite Hws. destruct (Qlt_bool _ (s_max c)); [|eauto].
    match goal with |- context [dist_slice ?a ?b ?e ?cs] => destruct (dist_slice_never_raises a b e cs) as [ws2 H2] end.
    rewrite H2. eauto.
  - destruct (Qlt_bool _ (s_max c)); [|eauto].
    match goal with |- context [dist_slice ?a ?b ?e ?cs] => destruct (dist_slice_never_raises a b e cs) as [ws2 H2] end.
    rewrite H2. eauto.
Qed.

Lemma half_step_min h c st :
  inside c (length st) ->
  exists st1, (if Qlt_bool (qsum (qslice (s_gx c) (s_gx c + s_span c) (mins st)) + spacing_of h c) (s_min c)
               then match dist_slice (s_gx c) (s_gx c + s_span c)
                                     (s_min c - (qsum (qslice (s_gx c) (s_gx c + s_span c) (mins st)) + spacing_of h c))
                                     (cols_for_min st) with
                    | Some ws => Some (set_mins st ws) | None => None end
               else Some st) = Some st1 /\
              fits_min h st1 c /\ grows st st1 /\ maxs st1 = maxs st.
Proof.
  intros Hin.
  set (S := qsum (qslice (s_gx c) (s_gx c + s_span c) (mins st))). destruct (Qlt_bool (S + spacing_of h c) (s_min c)) eqn:E.
  - apply Qlt_bool_iff in E.
    destruct (dist_slice_never_raises (s_gx c) (s_gx c + s_span c)%nat (s_min c - (S + spacing_of h c)) (cols_for_min st)) as [ws Hws].
    rewrite Hws. exists (set_mins st ws).
    pose proof (dist_slice_length _ _ _ _ _ Hws) as L. unfold cols_for_min in L. rewrite map_length in L.
    split; [reflexivity|]. split; [|split].
    + unfold fits_min. rewrite (set_mins_mins _ _ L).
      rewrite (dist_slice_mid _ _ _ _ _ Hws (in_slice_inside _ c st Hin)). rewrite cols_for_min_w. fold S. lra.
    + split; [unfold set_mins; rewrite map_length, combine_length; lia|]. split.
      * rewrite (set_mins_mins _ _ L). rewrite <- cols_for_min_w. apply Forall2_le_map.
        apply (dist_slice_widths_never_decrease (s_gx c) (s_gx c + s_span c)%nat (s_min c - (S + spacing_of h c))); [lra|exact Hws].
      * rewrite (set_mins_maxs _ _ L). apply Forall2_le_refl.
    + apply set_mins_maxs. exact L.
  - exists st. split; [reflexivity|]. split; [|split; [apply grows_refl|reflexivity]].
    unfold fits_min. fold S. apply Qnot_lt_le. intro H. apply Qlt_bool_iff in H. congruence.
Qed.

Lemma half_step_max h c st :
  inside c (length st) ->
  exists st1, (if Qlt_bool (qsum (qslice (s_gx c) (s_gx c + s_span c) (maxs st)) + spacing_of h c) (s_max c)
               then match dist_slice (s_gx c) (s_gx c + s_span c)
                                     (s_max c - (qsum (qslice (s_gx c) (s_gx c + s_span c) (maxs st)) + spacing_of h c))
                                     (cols_for_max st) with
                    | Some ws => Some (set_maxs st ws) | None => None end
               else Some st) = Some st1 /\
              fits_max h st1 c /\ grows st st1 /\ mins st1 = mins st.
Proof.
  intros Hin.
  set (S := qsum (qslice (s_gx c) (s_gx c + s_span c) (maxs st))). destruct (Qlt_bool (S + spacing_of h c) (s_max c)) eqn:E.
  - apply Qlt_bool_iff in E.
    destruct (dist_slice_never_raises (s_gx c) (s_gx c + s_span c)%nat (s_max c - (S + spacing_of h c)) (cols_for_max st)) as [ws Hws].
    rewrite Hws. exists (set_maxs st ws).
    pose proof (dist_slice_length _ _ _ _ _ Hws) as L. unfold cols_for_max in L. rewrite map_length in L.
    split; [reflexivity|]. split; [|split].
    + unfold fits_max. rewrite (set_maxs_maxs _ _ L).
      rewrite (dist_slice_mid _ _ _ _ _ Hws (in_slice_inside _ c st Hin)). rewrite cols_for_max_w. fold S. lra.
    + split; [unfold set_maxs; rewrite map_length, combine_length; lia|]. split.
      * rewrite (set_maxs_mins _ _ L). apply Forall2_le_refl.
      * rewrite (set_maxs_maxs _ _ L). rewrite <- cols_for_max_w. apply Forall2_le_map.
        apply (dist_slice_widths_never_decrease (s_gx c) (s_gx c + s_span c)%nat (s_max c - (S + spacing_of h c))); [lra|exact Hws].
    + apply set_maxs_mins. exact L.
  - exists st. split; [reflexivity|]. split; [|split; [apply grows_refl|reflexivity]].
    unfold fits_max. fold S. apply Qnot_lt_le. intro H. apply Qlt_bool_iff in H. congruence.
Qed.

Lemma step_fits h c st st' :
  inside c (length st) -> colspan_step h c st = Some st' ->
  fits_min h st' c /\ fits_max h st' c /\ grows st st'.
Proof.
  intros Hin H. unfold colspan_step in H. fold (mins st) in H. fold (maxs st) in H. fold (spacing_of h c) in H.
  destruct (half_step_min h c st Hin) as [st1 [E1 [F1 [G1 X1]]]]. rewrite E1 in H.
  assert (Hin1 : inside c (length st1)) by (destruct G1 as [L _]; now rewrite L).
  destruct (half_step_max h c st1 Hin1) as [st2 [E2 [F2 [G2 M2]]]].
  fold (maxs st1) in E2. rewrite X1 in E2. rewrite E2 in H. injection H as <-.
  split; [|split; [exact F2|eapply grows_trans; eassumption]].
  unfold fits_min. rewrite M2. exact F1.
Qed.

(* what does not depend on the cell being inside the grid: the step never shrinks anything *)
Lemma step_grows h c st st' : colspan_step h c st = Some st' -> grows st st'.
Proof.
  intros H. unfold colspan_step in H. fold (mins st) in H. fold (maxs st) in H.
  set (b := (s_gx c + s_span c)%nat) in *. set (a := s_gx c) in *.
  assert (A : forall st0 e ws, 0 <= e -> dist_slice a b e (cols_for_min st0) = Some ws -> grows st0 (set_mins st0 ws)).
  { intros st0 e ws He Hws. pose proof (dist_slice_length _ _ _ _ _ Hws) as L. unfold cols_for_min in L. rewrite map_length in L.
    split; [unfold set_mins; rewrite map_length, combine_length; lia|]. split.
    - rewrite (set_mins_mins _ _ L). rewrite <- cols_for_min_w. apply Forall2_le_map.
      now apply (dist_slice_widths_never_decrease a b e).
    - rewrite (set_mins_maxs _ _ L). apply Forall2_le_refl. }
  assert (B : forall st0 e ws, 0 <= e -> dist_slice a b e (cols_for_max st0) = Some ws -> grows st0 (set_maxs st0 ws)).
  { intros st0 e ws He Hws. pose proof (dist_slice_length _ _ _ _ _ Hws) as L. unfold cols_for_max in L. rewrite map_length in L.
    split; [unfold set_maxs; rewrite map_length, combine_length; lia|]. split.
    - rewrite (set_maxs_mins _ _ L). apply Forall2_le_refl.
    - rewrite (set_maxs_maxs _ _ L). rewrite <- cols_for_max_w. apply Forall2_le_map.
      now apply (dist_slice_widths_never_decrease a b e). }
  assert (C : forall st0 st1 smax,
             (if Qlt_bool (smax + (qnat (s_span c) - 1) * h) (s_max c)
              then match dist_slice a b (s_max c - (smax + (qnat (s_span c) - 1) * h)) (cols_for_max st0) with
                   | Some ws => Some (set_maxs st0 ws) | None => None end
              else Some st0) = Some st1 -> grows st0 st1).
  { intros st0 st1 smax K.
    match type of K with context [Qlt_bool ?u ?v] => destruct (Qlt_bool u v) eqn:E end.
    - apply Qlt_bool_iff in E.
      match type of K with context [dist_slice ?x ?y ?e ?cs] => destruct (dist_slice x y e cs) as [ws|] eqn:Ew end.
      2:{ discriminate K. }
      injection K as <-. refine (B _ _ _ _ Ew). lra.
    - injection K as <-. apply grows_refl. }
  match type of H with context [Qlt_bool ?u (s_min c)] => destruct (Qlt_bool u (s_min c)) eqn:E end.
  - apply Qlt_bool_iff in E.
    match type of H with context [dist_slice ?x ?y ?e (cols_for_min st)] => destruct (dist_slice x y e (cols_for_min st)) as [ws|] eqn:Ew end; [|discriminate].
    eapply grows_trans; [refine (A _ _ _ _ Ew); lra|]. eapply C. exact H.
  - eapply C. exact H.
Qed.

(* ---------------------------------------------------------------- the loop *)
Theorem colspan_loop_never_raises h cells st : exists st', colspan_loop h cells st = Some st'.
Proof.
  revert st. induction cells as [|c cells IH]; intros st; simpl; [eauto|].
  destruct (step_ok h c st) as [st1 H1]. rewrite H1. apply IH.
Qed.

Lemma fits_min_mono h c st st' : grows st st' -> fits_min h st c -> fits_min h st' c.
Proof.
  intros [_ [M _]] F. unfold fits_min in *.
  pose proof (qslice_sum_mono (s_gx c) (s_gx c + s_span c) _ _ M). lra.
Qed.
Lemma fits_max_mono h c st st' : grows st st' -> fits_max h st c -> fits_max h st' c.
Proof.
  intros [_ [_ M]] F. unfold fits_max in *.
  pose proof (qslice_sum_mono (s_gx c) (s_gx c + s_span c) _ _ M). lra.
Qed.

Theorem colspan_cells_fit h cells : forall st st',
  colspan_loop h cells st = Some st' ->
  grows st st' /\
  forall c, In c cells -> inside c (length st) -> fits_min h st' c /\ fits_max h st' c.
Proof.
  induction cells as [|c0 cells IH]; intros st st' H; simpl in H.
  - injection H as <-. split; [apply grows_refl|intros c []].
  - destruct (colspan_step h c0 st) as [st1|] eqn:E1; [|discriminate].
    pose proof (step_grows _ _ _ _ E1) as G1. destruct (IH _ _ H) as [G2 F2].
    split; [eapply grows_trans; eassumption|].
    intros c [<-|Hc] Hin.
    + destruct (step_fits _ _ _ _ Hin E1) as [Fm [Fx _]].
      split; [eapply fits_min_mono; eassumption|eapply fits_max_mono; eassumption].
    + apply F2; [exact Hc|]. destruct G1 as [L _]. now rewrite L.
Qed.

(* the last step: max >= min in every column, nothing else changes, nothing shrinks *)
Lemma order_min_max_mins st : mins (order_min_max st) = mins st.
Proof. unfold mins, order_min_max. rewrite map_map. reflexivity. Qed.
Lemma order_min_max_grows st : grows st (order_min_max st).
Proof.
  split; [unfold order_min_max; apply map_length|]. split.
  - rewrite order_min_max_mins. apply Forall2_le_refl.
  - unfold maxs, order_min_max. rewrite map_map. induction st as [|p st IH]; simpl; constructor; [apply Q.le_max_l|exact IH].
Qed.
Lemma order_min_max_ordered st : Forall (fun p => p_min p <= p_max p) (order_min_max st).
Proof. unfold order_min_max. induction st as [|p st IH]; simpl; constructor; [simpl; apply Q.le_max_r|exact IH]. Qed.

(* the whole column part *)
Theorem preferred_columns_correct h columns cells :
  exists st, preferred_columns h columns cells = Some st /\
    length st = length columns /\
    Forall (fun p => p_min p <= p_max p) st /\
    forall c, In c cells -> inside c (length columns) -> fits_min h st c /\ fits_max h st c.
Proof.
  unfold preferred_columns.
  destruct (colspan_loop_never_raises h cells (clamp_pcts 0 (map base_col columns))) as [st H]. rewrite H.
  exists (order_min_max st). split; [reflexivity|]. destruct (colspan_cells_fit _ _ _ _ H) as [[L _] F].
  assert (L0 : forall l q, length (clamp_pcts q l) = length l)
    by (induction l as [|p l IHl]; intros q; simpl; [reflexivity|now rewrite IHl]).
  rewrite L0, map_length in L. split; [unfold order_min_max; rewrite map_length; exact L|].
  split; [apply order_min_max_ordered|].
  intros c Hc Hin. destruct (F c Hc) as [Fm Fx]; [now rewrite L0, map_length|].
  pose proof (order_min_max_grows st) as G.
  split; [eapply fits_min_mono; eassumption|eapply fits_max_mono; eassumption].
Qed.

(* with the VERTICAL spacing in place of the horizontal one the statement is false: two-value border-spacing
   2px 30px, a colspan cell of min-content 100 over two columns of min-content 10 *)
Example vertical_spacing_would_not_fit :
  let cells := [mkscell 0 2 100 100] in
  let columns := [[mkcontrib 10 10 0 false]; [mkcontrib 10 10 0 false]] in
  exists st, preferred_columns 30 columns cells = Some st /\ ~ fits_min 2 st (mkscell 0 2 100 100).
Proof.
  cbv zeta. eexists. split; [reflexivity|]. unfold fits_min. vm_compute. intro H. apply H. reflexivity.
Qed.
Example preferred_example :
  exists st, preferred_columns 2 [[mkcontrib 10 10 0 false]; [mkcontrib 10 10 0 false]] [mkscell 0 2 100 100] = Some st
             /\ qlist_eqb (mins st) [49; 49] = true.
Proof. eexists. split; [reflexivity|]. vm_compute. reflexivity. Qed.
