(* C15 - the head of step 3 of CounterStyle.render_value (weasyprint/css/counters.py), from `initial = None` up to
   the chain `if system == 'cyclic': ..`, as REGENERATED from the source on every run (gen/GenCounters.v: rv_neg_body;
   slice option ('<until-chain>', 'system', 'initial')): is_negative, the negative prefix / suffix (the symbols of
   counter['negative'], or '-' and ''), use_negative (the four systems that use a negative sign) and the absolute
   value.  For every integer, every system keyword and every pair of negative symbols (or None) it binds what
   [render_resolved] / [finish] of model/C15Style.v use: is_negative = (v < 0), use_negative = uses_negative sys,
   counter_value = |v| exactly when both hold, the two strings of `orelse (c_negative c) default_negative`. *)
From Coq Require Import ZArith QArith List String Bool Lia.
Require Import WV.model.C15Style WV.model.C15Builtins WV.proofs.C15_gen_base WV.proofs.C15_gen_symbolic.
Require Import WV.base.Py WV.gen.GenCounters.
Import ListNotations.
Open Scope string_scope.
Open Scope list_scope.

(* counter['negative']: None, or the pair of symbols *)
Definition vneg (o : option (psym * psym)) : val :=
  match o with Some (a, b) => VList [vsym a; vsym b] | None => VNone end.
Definition mneg (o : option (psym * psym)) : option (sym * sym) :=
  match o with Some (a, b) => Some (msym a, msym b) | None => None end.
Definition neg_syms (o : option (psym * psym)) : psym * psym :=
  match o with Some pp => pp | None => (PStr "-", PStr "") end.
Lemma neg_syms_model o c : c_negative c = mneg o ->
  orelse (c_negative c) default_negative = (msym (fst (neg_syms o)), msym (snd (neg_syms o))).
Proof. intros ->. destruct o as [[a b]|]; reflexivity. Qed.

Definition neg_inner : list stmt := match nth 2 rv_neg_body SPass with SIf _ th _ => th | _ => [] end.

Section Neg.
Variable O : qops.
Hypothesis HO : ops_ok O.
Hypothesis HS : forall p, ocall O "symbol" [vsym p] = VStr (psym_str p).

(* the dict `counter`: 'negative' after four entries that hold anything, and any other entries *)
Variables (sy fbv ad pd : val) (oneg : option (psym * psym)) (rest : list (string * val)).
Definition ncounter : val :=
  VObj (("symbols", sy) :: ("fallback", fbv) :: ("additive_symbols", ad) :: ("pad", pd) ::
        ("negative", vneg oneg) :: rest).

Ltac ev := lazy -[qadd qsub qmul qdiv qmax qmin qleb qeqb ocall wfuel prim_apply inject_Z Z.abs Z.leb Z.ltb negb
                  uses_negative].
Ltac unseal :=
  rewrite ?(qadd_eq _ HO), ?(qsub_eq _ HO), ?(qmul_eq _ HO), ?(qdiv_eq _ HO), ?(qmax_eq _ HO), ?(qmin_eq _ HO),
          ?(qleb_eq _ HO), ?(qeqb_eq _ HO) in *.

Lemma eval_in4 A kerr rho a b c d s (k : val -> A) : Py.lookup "system" rho = VStr s ->
  eval O A kerr rho (EIn false (EVar "system")
                       (ETuple [EConst (VStr a); EConst (VStr b); EConst (VStr c); EConst (VStr d)])) k =
  k (VBool (String.eqb a s || String.eqb b s || String.eqb c s || String.eqb d s)).
Proof.
  intros Hs. lazy -[String.eqb Py.lookup]. rewrite Hs.
  destruct (String.eqb a s), (String.eqb b s), (String.eqb c s), (String.eqb d s); reflexivity.
Qed.

Definition nenv0 (v : Z) (sys : string) : env :=
  [("counter", ncounter); ("counter_value", vint v); ("system", VStr sys)].
Definition nenv2 (v : Z) (sys : string) (neg : bool) : env :=
  nenv0 v sys ++ [("initial", VNone); ("is_negative", VBool neg)].
Definition nenv3 (v : Z) (sys : string) : env :=
  nenv2 v sys true ++ [("negative_prefix", VStr (psym_str (fst (neg_syms oneg))));
                       ("negative_suffix", VStr (psym_str (snd (neg_syms oneg))))].
Definition nenv4 (v : Z) (sys : string) (u : bool) : env := nenv3 v sys ++ [("use_negative", VBool u)].

Section NStmts.
Variables (A : Type) (kret : env -> val -> A) (kerr : string -> A).
Lemma n0_step v sys k : exec O A kret kerr (nth 0 neg_inner SPass) (nenv2 v sys true) k = k (nenv3 v sys).
Proof.
  unfold nenv3, nenv2, nenv0, ncounter. destruct oneg as [[pn ps]|]; cbn [neg_syms fst snd vneg].
  - pose proof (HS pn) as H1. pose proof (HS ps) as H2.
    destruct pn, ps; cbn [vsym psym_str] in *; ev; rewrite H1; ev; rewrite H2; reflexivity.
  - pose proof (HS (PStr "-")) as H1. pose proof (HS (PStr "")) as H2. cbn [vsym psym_str] in *.
    ev. rewrite H1. ev. rewrite H2. reflexivity.
Qed.
Lemma n1_step v sys k :
  exec O A kret kerr (nth 1 neg_inner SPass) (nenv3 v sys) k = k (nenv4 v sys (uses_negative sys)).
Proof.
  change (nth 1 neg_inner SPass) with
    (SAssign [TVar "use_negative"]
       (EIn false (EVar "system") (ETuple [EConst (VStr "symbolic"); EConst (VStr "alphabetic");
                                           EConst (VStr "numeric"); EConst (VStr "additive")]))).
  rewrite (exec_assign1 O), (eval_in4 _ _ _ _ _ _ _ sys) by reflexivity.
  unfold uses_negative. rewrite !(String.eqb_sym sys). reflexivity.
Qed.
Lemma n2_step v sys u k :
  exec O A kret kerr (nth 2 neg_inner SPass) (nenv4 v sys u) k =
  k (update "counter_value" (vint (if u then Z.abs v else v)) (nenv4 v sys u)).
Proof. destruct u; ev; [rewrite prim_abs|]; reflexivity. Qed.
End NStmts.

Definition neg_post (v : Z) (sys : string) (rho : env) : Prop :=
  Py.lookup "initial" rho = VNone /\ Py.lookup "is_negative" rho = VBool (v <? 0)%Z /\
  Py.lookup "counter_value" rho = vint (if (v <? 0)%Z && uses_negative sys then Z.abs v else v) /\
  Py.lookup "counter" rho = ncounter /\ Py.lookup "system" rho = VStr sys /\
  ((v < 0)%Z -> Py.lookup "use_negative" rho = VBool (uses_negative sys) /\
               Py.lookup "negative_prefix" rho = VStr (psym_str (fst (neg_syms oneg))) /\
               Py.lookup "negative_suffix" rho = VStr (psym_str (snd (neg_syms oneg)))).

Theorem gen_neg v sys :
  run O rv_neg_body (nenv0 v sys) (fun rho r => r = None /\ neg_post v sys rho) (fun _ => False).
Proof.
  unfold run.
  change rv_neg_body with [nth 0 rv_neg_body SPass; nth 1 rv_neg_body SPass; SIf (EVar "is_negative") neg_inner []].
  rewrite exec_block_cons.
  change (exec O Prop ?kr ?ke (nth 0 rv_neg_body SPass) (nenv0 v sys) ?k0) with
    (k0 (nenv0 v sys ++ [("initial", VNone)])). cbv beta.
  change (flowing (nenv0 v sys ++ [("initial", VNone)])) with false. cbv iota.
  rewrite exec_block_cons.
  assert (H1 : forall (k : env -> Prop) kr ke,
    exec O Prop kr ke (nth 1 rv_neg_body SPass) (nenv0 v sys ++ [("initial", VNone)]) k = k (nenv2 v sys (v <? 0)%Z)).
  { intros. ev. unseal. change (0 # 1) with (inject_Z 0). rewrite Qle_bool_vint, (Z.ltb_antisym 0 v).
    destruct (0 <=? v)%Z; reflexivity. }
  rewrite H1. clear H1. change (flowing (nenv2 v sys (v <? 0)%Z)) with false. cbv iota.
  rewrite exec_block_cons, exec_if, (eval_var O). change (Py.lookup "is_negative" (nenv2 v sys (v <? 0)%Z)) with (VBool (v <? 0)%Z).
  destruct (Z.ltb_spec v 0) as [Hv|Hv]; cbn [bool_k andb].
  - change neg_inner with [nth 0 neg_inner SPass; nth 1 neg_inner SPass; nth 2 neg_inner SPass].
    rewrite exec_block_cons, n0_step. change (flowing (nenv3 v sys)) with false. cbv iota.
    rewrite exec_block_cons, n1_step. change (flowing (nenv4 v sys (uses_negative sys))) with false. cbv iota.
    rewrite exec_block_cons, n2_step.
    split; [reflexivity|]. unfold neg_post. replace (v <? 0)%Z with true by (symmetry; apply Z.ltb_lt; exact Hv).
    cbn [andb]. repeat split; reflexivity.
  - split; [reflexivity|]. unfold neg_post. replace (v <? 0)%Z with false by (symmetry; apply Z.ltb_ge; exact Hv).
    cbn [andb]. repeat split; try reflexivity; intros; lia.
Qed.
End Neg.
Print Assumptions gen_neg.
