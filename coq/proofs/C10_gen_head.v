(* C10 - the head of fixed_table_layout (weasyprint/layout/table.py) as REGENERATED from the source on every run
   (gen/GenTable.v, fixed_head_sizes: the statements  num_columns = max(len(all_columns), sum(cell.colspan for cell
   in first_row_cells))  and  column_widths = [None] * num_columns): for EVERY list of <col> elements and EVERY list
   of first-row cells (any colspans) the two statements never raise, num_columns is the number of columns of the
   hand model (the length of fixed_init of model/C10Layout.v: the larger of the number of <col> elements and of the
   sum of the colspans) and column_widths is the fresh list of that many None, i.e. fixed_init before any <col>
   width is known.  These are the values of the free variables num_columns / column_widths from which the tied
   slice fixed_cells_finish (C10_gen_fixed.v) starts, once the <col> loop between the two (not translated) has
   stored the <col> widths. *)
From Coq Require Import QArith Qminmax Lqa Lia List String Bool ZArith Arith.
Require Import WV.base.Py WV.gen.GenTable WV.model.C10Distribute WV.model.C10Layout WV.proofs.C10_distribute WV.proofs.C10_fixed.
Require Import WV.proofs.C10_gen_env WV.proofs.C10_gen_fixed_model WV.proofs.C10_gen_fixed_run WV.proofs.C10_gen_fixed.
Require WV.proofs.PyNatural.
Import ListNotations.
Open Scope string_scope.
Open Scope list_scope.
Open Scope Q_scope.

Lemma Qred_inject z : Qred (inject_Z z) = inject_Z z.
Proof.
  unfold Qred, inject_Z.
  pose proof (Z.ggcd_gcd z 1) as Hg. pose proof (Z.ggcd_correct_divisors z 1) as Hd.
  destruct (Z.ggcd z 1) as [g [aa bb]]. cbn [fst snd] in *. rewrite Z.gcd_1_r in Hg. subst g.
  destruct Hd as [Ha Hb]. rewrite Z.mul_1_l in Ha, Hb. subst. reflexivity.
Qed.
Lemma as_int_inject z : as_int (inject_Z z) = Some z.
Proof. unfold as_int. rewrite Qred_inject. reflexivity. Qed.

Lemma Qplus_inject a b : Qplus (inject_Z a) (inject_Z b) = inject_Z (a + b).
Proof. unfold Qplus, inject_Z. cbn [Qnum Qden]. rewrite !Z.mul_1_r. reflexivity. Qed.

Lemma Qmax_inject a b : Qmax (inject_Z a) (inject_Z b) = inject_Z (Z.max a b).
Proof.
  unfold Qmax, GenericMinMax.gmax, Z.max, Qcompare, inject_Z. cbn [Qnum Qden]. rewrite !Z.mul_1_r.
  destruct (a ?= b)%Z; reflexivity.
Qed.

Lemma list_repeat_none n : list_repeat n [VNone] = repeat VNone n.
Proof. induction n as [|n IH]; [reflexivity|]. cbn [list_repeat repeat app]. now rewrite IH. Qed.

Section Head.
Variable T : Type.
Variable cin : T -> list (string * val).       (* a first-row cell as the head of the function finds it *)
Variable rc : T -> rcell.                      (* colspan (and what the later loop reads of the cell) *)
Hypothesis Hcs : forall t, lookup "colspan" (cin t) = VNum (qnat (r_span (rc t))).

Definition vcells (cells : list T) : val := VList (map (fun t => VObj (cin t)) cells).

Lemma sum_spans cells : forall z,
  sum_vals (inject_Z z) (map (fun t => VNum (qnat (r_span (rc t)))) cells)
  = VNum (inject_Z (z + Z.of_nat (spansT T rc cells))).
Proof.
  induction cells as [|t cells IH]; intros z.
  - cbn [map sum_vals spansT fold_right]. now rewrite Z.add_0_r.
  - cbn [map sum_vals]. unfold qnat at 1. rewrite Qplus_inject, IH. unfold spansT. cbn [fold_right].
    rewrite Nat2Z.inj_add. f_equal. f_equal. lia.
Qed.

Lemma collect_cells {R} (f : val -> (option val -> R) -> R) (g : T -> val) :
  (forall t kk, f (VObj (cin t)) kk = kk (Some (g t))) ->
  forall cells acc k, gen_collect f (map (fun t => VObj (cin t)) cells) acc k = k (rev acc ++ map g cells).
Proof.
  intros Hf. induction cells as [|t cells IH]; intros acc k.
  - cbn [map gen_collect]. now rewrite app_nil_r.
  - cbn [map gen_collect]. rewrite Hf, IH. cbn [rev]. now rewrite <- app_assoc.
Qed.

Definition ncols (cols : list val) (cells : list T) : nat := Nat.max (List.length cols) (spansT T rc cells).

Definition e_num : expr :=
  EMaxGen (EVar "_x") "_x" (ETuple [(EPrim PSeqLen [(EVar "all_columns")]); (EPrim PSum [(EListComp (EAttr (EVar "cell") "colspan") "cell" (EVar "first_row_cells") None)])]) None.
Definition e_cw : expr := EPrim PSeqMul [(ETuple [(EConst VNone)]); (EVar "num_columns")].

Lemma eval_num {R} (err : string -> R) oc fuel (cols : list val) (cells : list T) (k : val -> R) :
  eval (mkOps Qplus Qminus Qmult Qdiv Qmax Qmin Qle_bool Qeq_bool oc fuel) R err
       [("all_columns", VList cols); ("first_row_cells", vcells cells)] e_num k
  = k (VNum (qnat (ncols cols cells))).
Proof.
  unfold e_num, vcells.
  cbn [eval lookup String.eqb Ascii.eqb Bool.eqb rev app].
  change (prim_apply PSeqLen [VList cols]) with (VNum (inject_Z (Z.of_nat (List.length cols)))).
  cbv beta iota.
  rewrite (collect_cells _ (fun t => VNum (qnat (r_span (rc t)))))
    by (intros t kk; cbn [update lookup String.eqb Ascii.eqb Bool.eqb]; rewrite Hcs; reflexivity).
  cbn [rev app].
  change (prim_apply PSum [VList (map (fun t : T => VNum (qnat (r_span (rc t)))) cells)])
    with (sum_vals (inject_Z 0) (map (fun t : T => VNum (qnat (r_span (rc t)))) cells)).
  rewrite sum_spans. cbv beta iota. cbn [Z.add rev app gen_collect eval lookup update String.eqb Ascii.eqb Bool.eqb minmax_k qmax].
  rewrite Qmax_inject, <- Nat2Z.inj_max. reflexivity.
Qed.

Lemma eval_cw {R} (err : string -> R) O rho n (k : val -> R) :
  lookup "num_columns" rho = VNum (qnat n) ->
  eval O R err rho e_cw k = k (VList (repeat VNone n)).
Proof.
  intros H. unfold e_cw. cbn [eval rev app]. rewrite H. cbv beta iota.
  unfold qnat. cbn [prim_apply]. rewrite as_int_inject, Nat2Z.id, list_repeat_none. reflexivity.
Qed.

Theorem gen_head_sizes O (HO : ops_ok O) (cols : list val) (cells : list T) :
  run O fixed_head_sizes_body [("all_columns", VList cols); ("first_row_cells", vcells cells)]
      (fun rho r => r = None /\ lookup "num_columns" rho = VNum (qnat (ncols cols cells)) /\
                    lookup "column_widths" rho = VList (repeat VNone (ncols cols cells)) /\
                    lookup "all_columns" rho = VList cols /\ lookup "first_row_cells" rho = vcells cells)
      (fun _ => False).
Proof.
  destruct O as [qa qs qm qd qmx qmn ql qe oc fuel]. destruct HO as [E1 E2 E3 E4 E5 E6 E7 E8].
  cbn [qadd qsub qmul qdiv qmax qmin qleb qeqb ocall] in *. subst.
  unfold run, fixed_head_sizes_body. fold e_num. fold e_cw.
  cbn [exec_block exec].
  rewrite eval_num.
  cbn [fold_left assign1 update String.eqb Ascii.eqb Bool.eqb flowing lookup].
  rewrite (eval_cw _ _ _ (ncols cols cells)) by reflexivity.
  cbn [fold_left assign1 update String.eqb Ascii.eqb Bool.eqb flowing lookup].
  repeat split; reflexivity.
Qed.

(* ... and these are the hand model's values: num_columns is the length of fixed_init (for whatever widths the <col>
   elements declare) and the fresh list is fixed_init when no <col> width is known yet; the <col> loop that follows
   in the source (not translated) stores resolve d W at the index of each <col> element whose width is not 'auto',
   which makes it fixed_init W decls, the list from which the tied slice starts (gen_fixed_layout) *)
Lemma fixed_init_auto W m cells : fixed_init W (repeat DAuto m) cells = repeat None (Nat.max m (spans cells)).
Proof.
  unfold fixed_init. rewrite repeat_length.
  replace (map (fun d => resolve d W) (repeat DAuto m)) with (repeat (@None Q) m).
  - rewrite <- repeat_app. f_equal. lia.
  - induction m as [|m IH]; [reflexivity|]. cbn [repeat map resolve]. now rewrite <- IH.
Qed.

Theorem gen_head_init O (HO : ops_ok O) W (decls : list decl) (cols : list val) (cells : list T) :
  List.length decls = List.length cols ->
  run O fixed_head_sizes_body [("all_columns", VList cols); ("first_row_cells", vcells cells)]
      (fun rho r => r = None /\
         lookup "num_columns" rho = VNum (qnat (List.length (fixed_init W decls (fcells T rc cells)))) /\
         lookup "column_widths" rho = VList (map voq (fixed_init W (repeat DAuto (List.length decls)) (fcells T rc cells))) /\
         lookup "all_columns" rho = VList cols /\ lookup "first_row_cells" rho = vcells cells)
      (fun _ => False).
Proof.
  intros Hl. pose proof (gen_head_sizes O HO cols cells) as H.
  rewrite WV.proofs.PyNatural.run_natural in *.
  destruct (WV.proofs.PyNatural.run_out O fixed_head_sizes_body _) as [rho r|m]; [|exact H].
  destruct H as [Hr [Hn [Hc [Ha Hf]]]]. split; [exact Hr|].
  rewrite fixed_init_length, fixed_init_auto, spans_fcells, Hl. fold (ncols cols cells).
  split; [exact Hn|]. split; [|split; assumption].
  rewrite Hc. f_equal. generalize (ncols cols cells) as n. induction n as [|n IH]; [reflexivity|].
  cbn [repeat map voq]. now rewrite IH.
Qed.
End Head.

(* the head feeds the tied slice: num_columns and first_row_cells after the head are the values of these free
   variables in the environment env0 from which gen_fixed_layout runs the rest of the function (column_widths there
   is fixed_init W decls: the fresh list of the head after the <col> loop) *)
Theorem gen_head_feeds_slice T cin rc tf O (HO : ops_ok O)
  (Hcs : forall t, lookup "colspan" (cin t) = VNum (qnat (r_span (rc t))))
  W (decls : list decl) (cols : list val) (cells : list T) :
  List.length decls = List.length cols ->
  run O fixed_head_sizes_body [("all_columns", VList cols); ("first_row_cells", vcells T cin cells)]
      (fun rho r => r = None /\
         let e0 := env0 T cin tf cells (fixed_init W decls (fcells T rc cells)) in
         lookup "num_columns" rho = lookup "num_columns" e0 /\
         lookup "first_row_cells" rho = lookup "first_row_cells" e0 /\
         List.length (fixed_init W decls (fcells T rc cells)) = List.length (fixed_init W (repeat DAuto (List.length decls)) (fcells T rc cells)) /\
         lookup "column_widths" rho = VList (map voq (fixed_init W (repeat DAuto (List.length decls)) (fcells T rc cells))))
      (fun _ => False).
Proof.
  intros Hl. pose proof (gen_head_init T cin rc Hcs O HO W decls cols cells Hl) as H.
  rewrite WV.proofs.PyNatural.run_natural in *.
  destruct (WV.proofs.PyNatural.run_out O fixed_head_sizes_body _) as [rho r|m]; [|exact H].
  destruct H as [Hr [Hn [Hc [Ha Hf]]]]. split; [exact Hr|]. cbv zeta.
  split; [exact Hn|]. split; [exact Hf|]. split; [|exact Hc].
  rewrite !fixed_init_length, repeat_length. reflexivity.
Qed.
