(* C05 - layout/percent.py percentage(value, refer_to), as REGENERATED from the source on every run:
   None and 'auto' pass through, px lengths give their number, percentages give refer_to * value / 100, any
   other unit trips the assert; a percentage of a non-number ('auto' containing block height) raises TypeError. *)
From Coq Require Import QArith Lqa List String Bool.
Require Import WV.base.Py WV.gen.GenPercent WV.proofs.PyTac.
Import ListNotations.
Open Scope string_scope.
Open Scope Q_scope.

Definition dim (v : Q) (u : string) : val := VObj [("value", VNum v); ("unit", VStr u)].
Definition returns (x : val) (_ : env) (r : option val) : Prop := r = Some x.

Lemma percentage_none O refer :
  run O percentage_body [("value", VNone); ("refer_to", refer)] (returns VNone) (fun _ => False).
Proof. vm_compute. reflexivity. Qed.
Lemma percentage_auto O refer :
  run O percentage_body [("value", VStr "auto"); ("refer_to", refer)] (returns (VStr "auto")) (fun _ => False).
Proof. vm_compute. reflexivity. Qed.
Lemma percentage_px O v refer :
  run O percentage_body [("value", dim v "px"); ("refer_to", refer)] (returns (VNum v)) (fun _ => False).
Proof. vm_compute. reflexivity. Qed.
Lemma percentage_percent O (HO : ops_ok O) v r :
  run O percentage_body [("value", dim v "%"); ("refer_to", VNum r)]
    (fun _ res => exists x, res = Some (VNum x) /\ x == r * v / 100) (fun _ => False).
Proof.
  unfold run, percentage_body, dim.
  lazy -[qadd qsub qmul qdiv qmax qmin qleb qeqb].
  unseal HO. change (Qeq_bool 100 0) with false. cbv iota.
  eexists; split; [reflexivity|reflexivity].
Qed.
(* a unit that is neither px nor % trips the assert (the computed values that reach it have only those two) *)
Lemma percentage_other_unit O v u refer :
  String.eqb u "px" = false -> String.eqb u "%" = false ->
  run O percentage_body [("value", dim v u); ("refer_to", refer)] (fun _ _ => False) (fun m => m = "AssertionError").
Proof.
  intros H1 H2. unfold run, percentage_body, dim. cbn. rewrite H1. cbn. rewrite H2. reflexivity.
Qed.
(* 'auto' reference (height of a containing block that depends on its content): a percentage raises *)
Lemma percentage_percent_of_auto O v :
  run O percentage_body [("value", dim v "%"); ("refer_to", VStr "auto")] (fun _ _ => False) (fun m => m = "TypeError").
Proof. vm_compute. reflexivity. Qed.

Theorem percentage_spec (v r : Q) (refer : val) :
  run real_ops percentage_body [("value", VNone); ("refer_to", refer)] (returns VNone) (fun _ => False) /\
  run real_ops percentage_body [("value", VStr "auto"); ("refer_to", refer)] (returns (VStr "auto")) (fun _ => False) /\
  run real_ops percentage_body [("value", dim v "px"); ("refer_to", refer)] (returns (VNum v)) (fun _ => False) /\
  run real_ops percentage_body [("value", dim v "%"); ("refer_to", VNum r)]
    (fun _ res => exists x, res = Some (VNum x) /\ x == r * v / 100) (fun _ => False).
Proof.
  refine (conj (percentage_none _ _) (conj (percentage_auto _ _) (conj (percentage_px _ _ _) _))).
  apply percentage_percent, real_ok.
Qed.
