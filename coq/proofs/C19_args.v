(* C19 - proofs about the caller's argument containers (model/C19Args.v). *)
From Coq Require Import ZArith List Bool Lia.
Require Import WV.model.C19Args.
Import ListNotations.
Open Scope Z_scope.

(* ---- arguments_are_read_only: the effect of a render_call on the caller's list is the identity ---- *)
Theorem arguments_are_read_only (env : Z) (sheets : list sheet) : fst (render_call env sheets) = sheets.
Proof. reflexivity. Qed.

Lemma calls_state (envs : list Z) : forall sheets, fst (render_calls render_call envs sheets) = sheets.
Proof.
  induction envs as [|e r IH]; intros sheets; simpl; [reflexivity|].
  specialize (IH sheets). destruct (render_calls render_call r sheets) as [s2 os]. exact IH.
Qed.

Lemma calls_outputs (envs : list Z) : forall sheets,
  snd (render_calls render_call envs sheets) = map (fun e => snd (render_call e sheets)) envs.
Proof.
  induction envs as [|e r IH]; intros sheets; simpl; [reflexivity|].
  specialize (IH sheets). destruct (render_calls render_call r sheets) as [s2 os]. simpl in *. rewrite IH. reflexivity.
Qed.

(* the output of a render_call for an sheet of the list *)
Lemma effect_parse env i :
  effect env (parse env i) = match i with Raw s => (s, true) | Parsed s e => (s, e =? env) end.
Proof. destruct i as [s|s e]; simpl; [rewrite Z.eqb_refl|]; reflexivity. Qed.

(* two render_calls agree when their environments are indistinguishable for the CSS objects already in the list: both are the
   environment those objects were parsed against, or neither is (fresh font configurations) *)
Definition alike (sheets : list sheet) (e1 e2 : Z) : Prop :=
  forall e, In e (envs_in sheets) -> (e =? e1) = (e =? e2).

Lemma call_output_alike sheets e1 e2 : alike sheets e1 e2 -> snd (render_call e1 sheets) = snd (render_call e2 sheets).
Proof.
  unfold render_call. simpl. rewrite !map_map. intros A. apply map_ext_in. intros i Hi. rewrite !effect_parse.
  destruct i as [s|s e]; [reflexivity|]. f_equal. apply A. unfold envs_in. apply in_flat_map. exists (Parsed s e).
  split; [exact Hi|left; reflexivity].
Qed.

(* ---- history independence, the corollary: the k-th render_call with the same list object gives what the first gave,
   whatever happened in between, as long as the environments are alike (all fresh, or all the shared one) ---- *)
Theorem output_is_history_independent (sheets : list sheet) (e1 : Z) (envs : list Z) :
  Forall (alike sheets e1) envs ->
  Forall (fun o => o = snd (render_call e1 sheets)) (snd (render_calls render_call (e1 :: envs) sheets)) /\
  fst (render_calls render_call (e1 :: envs) sheets) = sheets.
Proof.
  intros A. split; [|apply calls_state].
  rewrite calls_outputs. simpl. constructor; [reflexivity|].
  rewrite Forall_forall in *. intros o Ho. rewrite in_map_iff in Ho. destruct Ho as [e [<- He]].
  symmetry. apply call_output_alike. exact (A e He).
Qed.

(* sources only (file names, URLs): any environments at all *)
Corollary sources_render_the_same_every_time (srcs : list Z) (e1 : Z) (envs : list Z) :
  Forall (fun o => o = map (fun s => (s, true)) srcs) (snd (render_calls render_call (e1 :: envs) (map Raw srcs))).
Proof.
  assert (forall e, snd (render_call e (map Raw srcs)) = map (fun s => (s, true)) srcs) as E.
  { intros e. unfold render_call. simpl. rewrite !map_map. apply map_ext. intros s. simpl. rewrite Z.eqb_refl. reflexivity. }
  rewrite calls_outputs. rewrite Forall_forall. intros o Ho. rewrite in_map_iff in Ho. destruct Ho as [e [<- _]]. apply E.
Qed.

(* ---- the in-place variant breaks both: the list [file name] and two renders with their own font configuration ---- *)
Theorem in_place_variant_refuted :
  fst (render_call_in_place 1 [Raw 7]) = [Parsed 7 1] /\
  snd (render_calls render_call_in_place [1; 2] [Raw 7]) = [[(7, true)]; [(7, false)]] /\
  snd (render_calls render_call [1; 2] [Raw 7]) = [[(7, true)]; [(7, true)]].
Proof. repeat split. Qed.

Example history_independent_example :
  let sheets := [Raw 3; Parsed 4 0; Raw 5] in
  Forall (alike sheets 0) [0; 0] /\ Forall (alike sheets 1) [2; 3] /\
  snd (render_calls render_call [0; 0; 0] sheets) = [[(3, true); (4, true); (5, true)]; [(3, true); (4, true); (5, true)]; [(3, true); (4, true); (5, true)]] /\
  snd (render_calls render_call [1; 2; 3] sheets) = [[(3, true); (4, false); (5, true)]; [(3, true); (4, false); (5, true)]; [(3, true); (4, false); (5, true)]].
Proof.
  repeat split; try (repeat constructor; intros e H; simpl in H; destruct H as [<-|[]]; reflexivity).
Qed.
