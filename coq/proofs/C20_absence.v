(* C20 - proofs about the resource state machine, part 2: a failing reference is an absent reference.
   effects (run of d in world W with URL u failing in mode m)
     = effects (run of the document and the world from which every reference to u has been removed). *)
From Coq Require Import List String Bool Arith ZArith Lia Permutation.
Require Import WV.model.C20Url WV.model.C20Doc WV.proofs.C20_url WV.proofs.C20_doc.
Import ListNotations.
Open Scope string_scope.
Open Scope list_scope.

Lemma effects_app l1 l2 : effects (l1 ++ l2) = effects l1 ++ effects l2.
Proof. unfold effects. apply flat_map_app. Qed.

Definition ckind (c : content) : nat :=
  match c with CSheet _ => 0 | CRaster => 1 | CSvg _ => 2 | CFont => 3 | CBlob => 4 end.

Section Absence.
  Variable W : world.
  Variable fails : fails_t.
  Variable u : string.
  Variable m : mode.

  Let fails' := upd fails u m.
  Let W' := remove_world u W.

  Lemma upd_other v : (v =? u) = false -> fails' v = fails v.
  Proof. intros H. unfold fails', upd. rewrite H. reflexivity. Qed.
  Lemma upd_same : fails' u = Some m.
  Proof. unfold fails', upd. rewrite String.eqb_refl. reflexivity. Qed.

  Lemma remove_content_kind b c : ckind (remove_content b u c) = ckind c.
  Proof. destruct c; reflexivity. Qed.

  Lemma lookup_remove_kind w v :
    option_map ckind (lookup (remove_world u w) v) = option_map ckind (lookup w v).
  Proof.
    induction w as [|[k c] w IH]; [reflexivity|]. simpl.
    destruct (fetched_string k =? v); [simpl; rewrite remove_content_kind; reflexivity|exact IH].
  Qed.

  Lemma img_ok_other v : (v =? u) = false -> img_ok W fails' v = img_ok W' fails v.
  Proof.
    intros H. unfold img_ok. rewrite (upd_other v H). destruct (fails v); [reflexivity|].
    pose proof (lookup_remove_kind W v) as K. fold W' in K.
    destruct (lookup W' v) as [c'|]; destruct (lookup W v) as [c|]; simpl in K; try discriminate; auto.
    inversion K as [K']. destruct c, c'; simpl in K'; try discriminate; reflexivity.
  Qed.
  Lemma img_ok_same : img_ok W fails' u = false.
  Proof. unfold img_ok. rewrite upd_same. reflexivity. Qed.

  Lemma font_ok_other v : (v =? u) = false -> font_ok W fails' v = font_ok W' fails v.
  Proof.
    intros H. unfold font_ok. rewrite (upd_other v H). destruct (fails v); [reflexivity|].
    pose proof (lookup_remove_kind W v) as K. fold W' in K.
    destruct (lookup W' v) as [c'|]; destruct (lookup W v) as [c|]; simpl in K; try discriminate; auto.
    inversion K as [K']. destruct c, c'; simpl in K'; try discriminate; reflexivity.
  Qed.
  Lemma font_ok_same : font_ok W fails' u = false.
  Proof. unfold font_ok. rewrite upd_same. reflexivity. Qed.

  Lemma att_ok_other v : (v =? u) = false -> att_ok W fails' v = att_ok W' fails v.
  Proof.
    intros H. unfold att_ok. rewrite (upd_other v H).
    pose proof (lookup_remove_kind W v) as K. fold W' in K.
    destruct (lookup W' v) as [c'|]; destruct (lookup W v) as [c|]; simpl in K; try discriminate; auto.
  Qed.

  Definition clear_a (a : option aurl) : option aurl :=
    match a with
    | Some a => if fetched_string a =? u then None else Some a
    | None => None
    end.
  Definition clear_img (c : cssimg) : cssimg := let '(k, id, a) := c in (k, id, clear_a a).
  Definition clear_q (q : img_req) : img_req := let '(k, id, a, al, o) := q in (k, id, clear_a a, al, o).

  (* ---- fonts *)
  Lemma font_srcs_effects Wx fx b srcs : effects (fst (font_srcs Wx fx b srcs)) = [].
  Proof.
    induction srcs as [|rf r IH]; [reflexivity|]. simpl.
    destruct (url_join b rf false) as [a|].
    - destruct (font_ok Wx fx (fetched_string a)); [reflexivity|].
      destruct (font_srcs Wx fx b r) as [e ok]. simpl in *. exact IH.
    - destruct (font_srcs Wx fx b r) as [e ok]. simpl in *. exact IH.
  Qed.

  Lemma font_srcs_abs b srcs :
    snd (font_srcs W fails' b srcs) =
    snd (font_srcs W' fails b (filter (fun r => negb (ref_is b false u r)) srcs)).
  Proof.
    induction srcs as [|rf r IH]; [reflexivity|]. simpl. unfold ref_is at 1.
    destruct (url_join b rf false) as [a|] eqn:E.
    - destruct (fetched_string a =? u) eqn:Eu; simpl.
      + apply String.eqb_eq in Eu. rewrite Eu, font_ok_same.
        destruct (font_srcs W fails' b r) as [e ok]. simpl in *. exact IH.
      + rewrite E. rewrite (font_ok_other _ Eu).
        destruct (font_ok W' fails (fetched_string a)); [reflexivity|].
        destruct (font_srcs W fails' b r) as [e ok].
        destruct (font_srcs W' fails b (filter (fun r0 => negb (ref_is b false u r0)) r)) as [e2 ok2].
        simpl in *. exact IH.
    - simpl. rewrite E.
      destruct (font_srcs W fails' b r) as [e ok].
      destruct (font_srcs W' fails b (filter (fun r0 => negb (ref_is b false u r0)) r)) as [e2 ok2].
      simpl in *. exact IH.
  Qed.

  Lemma font_face_abs b id srcs :
    effects (font_face W fails' b id srcs) =
    effects (font_face W' fails b id (filter (fun r => negb (ref_is b false u r)) srcs)).
  Proof.
    unfold font_face. pose proof (font_srcs_abs b srcs) as H.
    pose proof (font_srcs_effects W fails' b srcs) as H1.
    pose proof (font_srcs_effects W' fails b (filter (fun r => negb (ref_is b false u r)) srcs)) as H2.
    destruct (font_srcs W fails' b srcs) as [e ok].
    destruct (font_srcs W' fails b (filter (fun r => negb (ref_is b false u r)) srcs)) as [e2 ok2].
    simpl in *. subst ok2. rewrite !effects_app, H1, H2. destruct ok; reflexivity.
  Qed.

  (* ---- sheets *)
  Definition load_rel (l1 l2 : aurl -> list ev * list cssimg) : Prop :=
    forall a,
      ((fetched_string a =? u) = false ->
         effects (fst (l1 a)) = effects (fst (l2 a)) /\ map clear_img (snd (l1 a)) = snd (l2 a)) /\
      ((fetched_string a =? u) = true -> effects (fst (l1 a)) = [] /\ snd (l1 a) = []).

  Lemma run_items_abs l1 l2 b : load_rel l1 l2 ->
    forall items ign,
      effects (fst (run_items W fails' l1 b ign items)) =
      effects (fst (run_items W' fails l2 b ign (flat_map (remove_sitem b u) items))) /\
      map clear_img (snd (run_items W fails' l1 b ign items)) =
      snd (run_items W' fails l2 b ign (flat_map (remove_sitem b u) items)).
  Proof.
    intros Hl. induction items as [|s r IH]; intros ign; [split; reflexivity|].
    destruct s as [id|rf mo|id srcs|k id rf].
    - simpl. destruct (IH true) as [A B].
      destruct (run_items W fails' l1 b true r) as [e i].
      destruct (run_items W' fails l2 b true (flat_map (remove_sitem b u) r)) as [e2 i2].
      simpl in *. split; [rewrite A; reflexivity|exact B].
    - cbn [flat_map remove_sitem]. unfold ref_is.
      destruct (IH ign) as [A B].
      destruct (url_join b rf false) as [a|] eqn:E.
      + destruct (fetched_string a =? u) eqn:Eu.
        * (* the import of u: dropped on the right, loads nothing on the left *)
          simpl app. cbn [run_items]. rewrite E.
          destruct (Hl a) as [_ H2]. destruct (H2 Eu) as [H2a H2b].
          destruct (run_items W fails' l1 b ign r) as [e i].
          destruct (run_items W' fails l2 b ign (flat_map (remove_sitem b u) r)) as [e2' i2'].
          simpl in A, B.
          destruct ign; simpl.
          -- split; [exact A|exact B].
          -- destruct mo.
             ++ destruct (l1 a) as [e1 i1]. simpl in *. subst i1.
                rewrite effects_app, H2a. simpl. split; [exact A|exact B].
             ++ simpl. split; [exact A|exact B].
        * simpl app. cbn [run_items]. rewrite E.
          destruct (Hl a) as [H1 _]. destruct (H1 Eu) as [H1a H1b].
          destruct (run_items W fails' l1 b ign r) as [e i].
          destruct (run_items W' fails l2 b ign (flat_map (remove_sitem b u) r)) as [e2' i2'].
          simpl in A, B.
          destruct ign; simpl.
          -- split; [exact A|exact B].
          -- destruct mo.
             ++ destruct (l1 a) as [e1 i1]. destruct (l2 a) as [e1' i1']. simpl in *.
                rewrite !effects_app, H1a, A, map_app, H1b, B. split; reflexivity.
             ++ simpl. split; [exact A|exact B].
      + simpl app. cbn [run_items]. rewrite E.
        destruct (run_items W fails' l1 b ign r) as [e i].
        destruct (run_items W' fails l2 b ign (flat_map (remove_sitem b u) r)) as [e2' i2'].
        simpl in A, B. destruct ign; simpl; split; assumption.
    - cbn [flat_map remove_sitem]. simpl app. cbn [run_items].
      destruct (IH true) as [A B].
      destruct (run_items W fails' l1 b true r) as [e i].
      destruct (run_items W' fails l2 b true (flat_map (remove_sitem b u) r)) as [e2 i2].
      simpl in *. rewrite !effects_app, font_face_abs, A. split; [reflexivity|exact B].
    - destruct (IH true) as [A B].
      destruct rf as [rf|].
      + cbn [flat_map remove_sitem]. unfold ref_is.
        destruct (url_join b rf false) as [a|] eqn:E.
        * destruct (fetched_string a =? u) eqn:Eu; simpl app; cbn [run_items]; try rewrite E;
            destruct (run_items W fails' l1 b true r) as [e i];
            destruct (run_items W' fails l2 b true (flat_map (remove_sitem b u) r)) as [e2 i2];
            simpl in *; rewrite Eu; split; try exact A; rewrite B; reflexivity.
        * simpl app. cbn [run_items]. rewrite E.
          destruct (run_items W fails' l1 b true r) as [e i].
          destruct (run_items W' fails l2 b true (flat_map (remove_sitem b u) r)) as [e2 i2].
          simpl in *. split; [exact A|rewrite B; reflexivity].
      + cbn [flat_map remove_sitem]. simpl app. cbn [run_items].
        destruct (run_items W fails' l1 b true r) as [e i].
        destruct (run_items W' fails l2 b true (flat_map (remove_sitem b u) r)) as [e2 i2].
        simpl in *. split; [exact A|rewrite B; reflexivity].
  Qed.

  Lemma sheet_fail_log_effects link x v : effects (sheet_fail_log link x v) = [].
  Proof. destruct x; reflexivity. Qed.

  Lemma load_sheet_abs w : forall link,
    load_rel (load_sheet W fails' w link) (load_sheet W' fails (remove_world u w) link).
  Proof.
    induction w as [|[k c] w IH]; intros link a.
    - simpl. split; intros _; split; reflexivity.
    - simpl. destruct (fetched_string k =? fetched_string a) eqn:Ek; [|apply IH].
      split; intros Eu.
      + rewrite (upd_other _ Eu). destruct (fails (fetched_string a)) as [x|].
        * simpl. rewrite !sheet_fail_log_effects. split; reflexivity.
        * destruct c as [items| |kids| |]; try (simpl; split; reflexivity).
          simpl remove_content. cbv iota.
          destruct (run_items_abs _ _ (base_of k) (IH false) items false) as [A B].
          destruct (run_items W fails' (load_sheet W fails' w false) (base_of k) false items) as [e i].
          destruct (run_items W' fails (load_sheet W' fails (remove_world u w) false) (base_of k) false
                      (flat_map (remove_sitem (base_of k) u) items)) as [e2 i2].
          simpl in *. split; [exact A|exact B].
      + apply String.eqb_eq in Eu. rewrite Eu, upd_same. simpl.
        rewrite sheet_fail_log_effects. split; reflexivity.
  Qed.

  Lemma sheets_of_abs b items :
    effects (fst (sheets_of W fails' b items)) =
    effects (fst (sheets_of W' fails b (flat_map (remove_item b u) items))) /\
    map clear_img (snd (sheets_of W fails' b items)) =
    snd (sheets_of W' fails b (flat_map (remove_item b u) items)).
  Proof.
    induction items as [|it r IH]; [split; reflexivity|].
    destruct IH as [A B].
    destruct it as [rf|its|k id rf al o|k id rf|rf].
    - cbn [flat_map remove_item]. unfold ref_is.
      destruct (url_join b rf false) as [a|] eqn:E.
      + destruct (load_sheet_abs W true a) as [H1 H2]. fold W' in H1.
        destruct (fetched_string a =? u) eqn:Eu.
        * destruct (H2 eq_refl) as [H2a H2b]. simpl app. cbn [sheets_of]. rewrite E.
          destruct (load_sheet W fails' W true a) as [e1 i1].
          destruct (sheets_of W fails' b r) as [e i].
          destruct (sheets_of W' fails b (flat_map (remove_item b u) r)) as [e2 i2].
          simpl in *. subst i1. rewrite effects_app, H2a. split; [exact A|exact B].
        * destruct (H1 eq_refl) as [H1a H1b]. simpl app. cbn [sheets_of]. rewrite E.
          destruct (load_sheet W fails' W true a) as [e1 i1].
          destruct (load_sheet W' fails W' true a) as [e1' i1'].
          destruct (sheets_of W fails' b r) as [e i].
          destruct (sheets_of W' fails b (flat_map (remove_item b u) r)) as [e2 i2].
          simpl in *. rewrite !effects_app, H1a, A, map_app, H1b, B. split; reflexivity.
      + simpl app. cbn [sheets_of]. rewrite E.
        destruct (sheets_of W fails' b r) as [e i].
        destruct (sheets_of W' fails b (flat_map (remove_item b u) r)) as [e2 i2].
        simpl in *. split; assumption.
    - cbn [flat_map remove_item]. simpl app. cbn [sheets_of].
      destruct (run_items_abs _ _ b (load_sheet_abs W false) its false) as [A1 B1]. fold W' in A1, B1.
      destruct (run_items W fails' (load_sheet W fails' W false) b false its) as [e1 i1].
      destruct (run_items W' fails (load_sheet W' fails W' false) b false
                  (flat_map (remove_sitem b u) its)) as [e1' i1'].
      destruct (sheets_of W fails' b r) as [e i].
      destruct (sheets_of W' fails b (flat_map (remove_item b u) r)) as [e2 i2].
      simpl in *. rewrite !effects_app, A1, A, map_app, B1, B. split; reflexivity.
    - cbn [flat_map remove_item].
      destruct rf as [rf|]; [destruct (ref_is b false u rf)|]; simpl; split; assumption.
    - cbn [flat_map remove_item].
      destruct (ref_is b match k with AAnchor => true | _ => false end u rf); simpl; split; assumption.
    - simpl. split; assumption.
  Qed.

  (* ---- image requests *)
  Lemma image_items_abs b items :
    image_items b (flat_map (remove_item b u) items) = map clear_q (image_items b items).
  Proof.
    induction items as [|it r IH]; [reflexivity|].
    destruct it as [rf|its|k id rf al o|k id rf|rf]; cbn [flat_map remove_item].
    - destruct (ref_is b false u rf); simpl; exact IH.
    - simpl. exact IH.
    - destruct rf as [rf|].
      + unfold ref_is. destruct (url_join b rf false) as [a|] eqn:E.
        * destruct (fetched_string a =? u) eqn:Eu; simpl; rewrite ?E; simpl; rewrite Eu, IH; reflexivity.
        * simpl. rewrite E, IH. reflexivity.
      + simpl. rewrite IH. reflexivity.
    - destruct (ref_is b match k with AAnchor => true | _ => false end u rf); simpl; exact IH.
    - simpl. exact IH.
  Qed.

  Lemma css_reqs_abs ci : css_reqs (map clear_img ci) = map clear_q (css_reqs ci).
  Proof.
    unfold css_reqs. rewrite !map_map. apply map_ext. intros [[k id] a]. reflexivity.
  Qed.

  Lemma sem_req_abs q : effects (sem_req W fails' q) = effects (sem_req W' fails (clear_q q)).
  Proof.
    destruct q as [[[[k id] a] al] o]. destruct a as [a|]; [|reflexivity].
    simpl. destruct (fetched_string a =? u) eqn:Eu.
    - apply String.eqb_eq in Eu. rewrite Eu, img_ok_same. reflexivity.
    - simpl. rewrite (img_ok_other _ Eu). reflexivity.
  Qed.

  Lemma sem_kids_abs rec1 rec2 owner oo b : (forall v, effects (rec1 v) = effects (rec2 v)) ->
    forall kids, effects (sem_kids W fails' rec1 owner oo b kids) =
                 effects (sem_kids W' fails rec2 owner oo b (flat_map (remove_vref b u) kids)).
  Proof.
    intros Hrec. induction kids as [|v r IH]; [reflexivity|].
    destruct v as [rf|rf]; cbn [flat_map remove_vref].
    - unfold ref_is. destruct (url_join b rf true) as [a|] eqn:E.
      + destruct (fetched_string a =? u) eqn:Eu.
        * simpl. rewrite E. apply String.eqb_eq in Eu. rewrite Eu, img_ok_same. simpl. exact IH.
        * simpl. rewrite E. rewrite (img_ok_other _ Eu).
          change (Req (RkImg (fetched_string a) 0) :: ?x) with ([Req (RkImg (fetched_string a) 0)] ++ x).
          rewrite !effects_app, IH.
          destruct (img_ok W' fails (fetched_string a)); [rewrite Hrec|]; reflexivity.
      + simpl. rewrite E. exact IH.
    - unfold ref_is. destruct (url_join b rf true) as [a|] eqn:E.
      + destruct (fetched_string a =? u); simpl; rewrite ?E; exact IH.
      + simpl. rewrite E. exact IH.
  Qed.

  Lemma sem_draw_abs w : forall v o,
    effects (sem_draw W fails' w v o) = effects (sem_draw W' fails (remove_world u w) v o).
  Proof.
    induction w as [|[k c] w IH]; intros v o; [reflexivity|].
    simpl. destruct (fetched_string k =? v); [|apply IH].
    destruct c; try reflexivity. simpl. apply sem_kids_abs. intros v'. apply IH.
  Qed.

  Lemma sem_draw_req_abs q :
    effects (sem_draw_req W fails' q) = effects (sem_draw_req W' fails (clear_q q)).
  Proof.
    destruct q as [[[[k id] a] al] o]. destruct a as [a|]; [|reflexivity].
    simpl. destruct (fetched_string a =? u) eqn:Eu.
    - apply String.eqb_eq in Eu. rewrite Eu, img_ok_same. reflexivity.
    - simpl. rewrite (img_ok_other _ Eu).
      destruct (img_ok W' fails (fetched_string a)); [apply sem_draw_abs|reflexivity].
  Qed.

  Lemma effects_flat_map_map {A} (f1 f2 : A -> list ev) (g : A -> A) l :
    (forall q, effects (f1 q) = effects (f2 (g q))) ->
    effects (flat_map f1 l) = effects (flat_map f2 (map g l)).
  Proof.
    intros H. induction l as [|x l IH]; [reflexivity|].
    simpl. rewrite !effects_app, H, IH. reflexivity.
  Qed.

  (* ---- attachments: the failure must be one for an attachment (an exception; any bytes are a payload) *)
  Definition attaches (b : option base) (it : item) : bool :=
    match it with
    | IAttach k _ r => ref_is b (match k with AAnchor => true | _ => false end) u r
    | _ => false
    end.

  Lemma attach_items_abs b anchors items :
    (existsb (attaches b) items = true -> att_ok W fails' u = false) ->
    forall seen1 seen2,
      (forall v, (v =? u) = false -> existsb (String.eqb v) seen1 = existsb (String.eqb v) seen2) ->
      effects (attach_items W fails' b anchors seen1 items) =
      effects (attach_items W' fails b anchors seen2 (flat_map (remove_item b u) items)).
  Proof.
    induction items as [|it r IH]; intros Hatt seen1 seen2 Hseen; [reflexivity|].
    assert (Hr : existsb (attaches b) r = true -> att_ok W fails' u = false).
    { intros H. apply Hatt. simpl. rewrite H. apply orb_true_r. }
    destruct it as [rf|its|k id rf al o|k id rf|rf]; cbn [flat_map remove_item].
    - destruct (ref_is b false u rf); simpl; apply IH; assumption.
    - simpl. apply IH; assumption.
    - destruct rf as [rf|]; [destruct (ref_is b false u rf)|]; simpl; apply IH; assumption.
    - set (isa := match k with AAnchor => true | _ => false end).
      assert (Hk : attaches b (IAttach k id rf) = ref_is b isa u rf) by reflexivity.
      unfold ref_is in *.
      destruct (Bool.eqb isa anchors) eqn:Ea.
      + apply Bool.eqb_prop in Ea.
        assert (Eallow : (if anchors then true else false) = isa) by (rewrite <- Ea; destruct isa; reflexivity).
        destruct (url_join b rf isa) as [a|] eqn:E.
        * destruct (fetched_string a =? u) eqn:Eu.
          -- (* a reference to u: removed on the right; on the left it embeds nothing *)
             simpl app. cbn [attach_items]. fold isa. rewrite Ea, Bool.eqb_reflx, Eallow.
             rewrite <- Ea, E.
             assert (Hfail : att_ok W fails' u = false).
             { apply Hatt. cbn [existsb]. rewrite Hk. reflexivity. }
             apply String.eqb_eq in Eu. rewrite Eu.
             destruct (isa && existsb (String.eqb u) seen1); [rewrite Ea; apply IH; assumption|].
             unfold attach_one. rewrite Hfail. simpl. rewrite Ea. apply IH; [assumption|].
             intros v Hv. simpl. rewrite Hv. simpl. apply Hseen. exact Hv.
          -- simpl app. cbn [attach_items]. fold isa. rewrite Ea, Bool.eqb_reflx, Eallow.
             rewrite <- Ea, E. rewrite (Hseen _ Eu).
             destruct (isa && existsb (String.eqb (fetched_string a)) seen2); [rewrite Ea; apply IH; assumption|].
             unfold attach_one. rewrite (att_ok_other _ Eu).
             change (Fetch ChAttach (fetched_string a) :: ?x ++ ?y)
               with (([Fetch ChAttach (fetched_string a)] ++ x) ++ y).
             rewrite !effects_app. f_equal. rewrite Ea. apply IH; [assumption|].
             intros v Hv. simpl. rewrite (Hseen _ Hv). reflexivity.
        * simpl app. cbn [attach_items]. fold isa. rewrite Ea, Bool.eqb_reflx, Eallow.
          rewrite <- Ea, E. simpl. rewrite Ea. apply IH; assumption.
      + destruct (match url_join b rf isa with Some a => fetched_string a =? u | None => false end);
          simpl app; cbn [attach_items]; fold isa; try rewrite Ea; apply IH; assumption.
    - simpl. apply IH; assumption.
  Qed.

  (* ---- the theorem, on the stateless semantics *)
  Theorem sem_failure_equals_absence d :
    (existsb (attaches (d_base d)) (d_items d) = true -> att_ok W fails' u = false) ->
    effects (sem_doc W fails' d) = effects (sem_doc W' fails (remove_doc u d)).
  Proof.
    intros Hatt. unfold sem_doc, remove_doc. cbn [d_base d_items].
    destruct (sheets_of_abs (d_base d) (d_items d)) as [A B].
    destruct (sheets_of W fails' (d_base d) (d_items d)) as [es ci].
    destruct (sheets_of W' fails (d_base d) (flat_map (remove_item (d_base d) u) (d_items d))) as [es2 ci2].
    simpl in A, B. subst ci2.
    rewrite image_items_abs, css_reqs_abs, <- map_app.
    rewrite !effects_app. rewrite A. f_equal.
    rewrite (effects_flat_map_map (sem_req W fails') (sem_req W' fails) clear_q _ sem_req_abs). f_equal.
    rewrite (effects_flat_map_map (sem_draw_req W fails') (sem_draw_req W' fails) clear_q _ sem_draw_req_abs).
    f_equal.
    rewrite (attach_items_abs (d_base d) true (d_items d) Hatt [] [] (fun _ _ => eq_refl)).
    rewrite (attach_items_abs (d_base d) false (d_items d) Hatt [] [] (fun _ _ => eq_refl)).
    reflexivity.
  Qed.
End Absence.

(* ---- the same on the machine (any two caches that are sound for their own run) *)
Theorem failure_equals_absence W fails u m d c1 c2 :
  cache_ok W (upd fails u m) c1 -> cache_ok (remove_world u W) fails c2 ->
  (existsb (attaches u (d_base d)) (d_items d) = true -> att_ok W (upd fails u m) u = false) ->
  effects (snd (m_doc W (upd fails u m) c1 d)) =
  effects (snd (m_doc (remove_world u W) fails c2 (remove_doc u d))).
Proof.
  intros H1 H2 Hatt. rewrite (machine_effects _ _ _ _ H1), (machine_effects _ _ _ _ H2).
  apply sem_failure_equals_absence. exact Hatt.
Qed.

Lemma att_ok_raise W fails u : att_ok W (upd fails u MRaise) u = false.
Proof. unfold att_ok, upd. rewrite String.eqb_refl. reflexivity. Qed.

Lemma cache_ok_nil W fails : cache_ok W fails [].
Proof. intros u v H. discriminate. Qed.

(* ---- every string handed to the fetcher is an absolute URL *)
Definition abs_ev (e : ev) : Prop :=
  match e with
  | Fetch _ u => url_is_absolute u = true
  | Req k => url_is_absolute (key_url k) = true
  | _ => True
  end.
Definition abs_url (u : string) : Prop := url_is_absolute u = true.
(* a reference is fine under a hierarchical base with a scheme; without one (content of a data: URL) it must
   itself be absolute *)
Definition abs_join (b : option base) (r : ref) : Prop :=
  ref_ok r = true /\
  match b with
  | Some b => scheme_ok (b_scheme b) = true
  | None => url_is_absolute (show_ref r) = true
  end.

Lemma abs_join_sound b r allow a : abs_join b r -> url_join b r allow = Some a -> abs_url (fetched_string a).
Proof.
  intros [Hr Hb] E. destruct b as [b|].
  - eapply url_join_absolute; eassumption.
  - unfold url_join in E. rewrite Hb in E. inversion E; subst a. unfold abs_url, fetched_string.
    apply absolute_iri. destruct r; simpl in *; exact Hb.
Qed.

Lemma sem_doc_absolute W fails d : wf_world abs_join W -> wf_doc abs_join d ->
  Forall abs_ev (sem_doc W fails d).
Proof.
  intros Hw Hd. unfold sem_doc.
  assert (HL : forall lv u, abs_ev (Log lv u)) by (intros; exact I).
  assert (HE : forall x, abs_ev (Eff x)) by (intros; exact I).
  assert (HF : forall ch u, ch <> ChImage -> ch <> ChUse -> abs_url u -> abs_ev (Fetch ch u))
    by (intros ch u _ _ H; exact H).
  assert (HR : forall k, abs_url (key_url k) -> abs_ev (Req k)) by (intros k H; exact H).
  pose proof (sheets_of_P W fails abs_ev abs_url abs_join HL HE HF abs_join_sound (d_base d) Hw (d_items d) Hd) as Hs.
  pose proof (sheets_of_I W fails abs_url abs_join abs_join_sound (d_base d) Hw (d_items d) Hd) as Hi.
  destruct (sheets_of W fails (d_base d) (d_items d)) as [es ci]. simpl in Hs, Hi.
  assert (Hq : Forall (fun q => forall k, req_key q = Some k -> abs_url (key_url k))
                      (image_items (d_base d) (d_items d) ++ css_reqs ci)).
  { apply Forall_app. split.
    - apply (image_items_ok abs_url abs_join abs_join_sound). exact Hd.
    - unfold css_reqs. apply Forall_forall. intros q Hq. apply in_map_iff in Hq as [[[k id] a] [E Hin]].
      subst q. rewrite Forall_forall in Hi. specialize (Hi _ Hin). simpl in Hi.
      intros u Hu. simpl in Hu. destruct a as [a|]; [|discriminate]. inversion Hu; subst. simpl. exact Hi. }
  apply Forall_app. split; [exact Hs|].
  apply Forall_app. split.
  { apply Forall_forall. intros e He. apply in_flat_map in He as [q [Hin He]].
    rewrite Forall_forall in Hq.
    pose proof (sem_req_P W fails abs_ev abs_url HE HR q (Hq _ Hin)) as H.
    rewrite Forall_forall in H. exact (H _ He). }
  apply Forall_app. split.
  { apply Forall_forall. intros e He. apply in_flat_map in He as [q [_ He]].
    pose proof (sem_draw_req_P W fails abs_ev abs_url abs_join HE abs_join_sound HR q Hw) as H.
    rewrite Forall_forall in H. exact (H _ He). }
  apply Forall_app. split; apply (attach_items_P W fails abs_ev abs_url abs_join HL HE HF abs_join_sound); exact Hd.
Qed.

Lemma abs_ev_fetches l : Forall abs_ev l ->
  Forall abs_url (fetches l) /\ Forall abs_url (map key_url (requests l)).
Proof.
  induction l as [|e l IH]; intros H; [split; constructor|].
  inversion H as [|x y Hx Hy]; subst. destruct (IH Hy) as [A B].
  destruct e as [ch u|u|lv u|x]; simpl; split; try assumption; constructor; assumption.
Qed.

Theorem fetched_urls_absolute W fails d : wf_world abs_join W -> wf_doc abs_join d ->
  Forall abs_url (fetches (snd (m_doc W fails [] d))).
Proof.
  intros Hw Hd. pose proof (expected_fetches W fails d) as Hp.
  destruct (abs_ev_fetches _ (sem_doc_absolute W fails d Hw Hd)) as [A B].
  apply Forall_forall. intros u Hu.
  apply (Permutation_in _ Hp) in Hu. apply in_app_or in Hu as [Hu|Hu].
  - rewrite Forall_forall in A. exact (A _ Hu).
  - apply in_map_iff in Hu as [k [Ek Hk]]. subst u.
    destruct (dedup_spec (requests (sem_doc W fails d)) []) as [_ [H2 _]].
    destruct (H2 _ Hk) as [_ Hin]. rewrite Forall_forall in B. apply B. apply in_map. exact Hin.
Qed.

(* ---- examples: the hypotheses are satisfiable by non-trivial inputs, and the statements compute *)
Definition ex_base : base := {| b_scheme := "http"; b_auth := "h0"; b_segs := ["d1"; "doc.html"] |}.
Definition ex_key (segs : list string) : aurl := AHier {| b_scheme := "http"; b_auth := "h0"; b_segs := segs |} "".
Definition ex_world : world :=
  [ (ex_key ["d1"; "s.css"], CSheet [SImport (RRel ["sub"; "i.css"] "") true; SRule 1;
                                      SImport (RRel ["late.css"] "") true;
                                      SFont 2 [RRel ["f1.otf"] ""; RPath ["fonts"; "f2.otf"] ""]]);
    (ex_key ["d1"; "sub"; "i.css"], CSheet [SRule 3; SImage KBg 4 (Some (RRel [".."; "p.png"] ""))]);
    (ex_key ["d1"; "v.svg"], CSvg [VImage (RRel ["p.png"] ""); VUse (RRel ["o.svg"] "#a")]);
    (ex_key ["d1"; "p.png"], CRaster);
    (ex_key ["d1"; "f1.otf"], CFont); (ex_key ["fonts"; "f2.otf"], CFont);
    (ex_key ["d1"; "a.bin"], CBlob) ].
Definition ex_doc : doc :=
  {| d_base := Some ex_base;
     d_items := [ILink (RRel ["s.css"] ""); IImage KImg 5 (Some (RRel ["p.png"] "")) AltText 0;
                 IImage KImg 8 (Some (RRel ["p.png"] "")) AltNone 1;
                 IImage KEmbed 6 (Some (RRel ["v.svg"] "")) AltNone 0;
                 IAttach ALink 7 (RRel ["a.bin"] ""); INoFetch (RRel ["favicon.ico"] "")] |}.
Definition no_fail : fails_t := fun _ => None.

Example ex_wf : wf_world abs_join ex_world /\ wf_doc abs_join ex_doc.
Proof. split; repeat constructor. Qed.

Example ex_run :
  fetches (snd (m_doc ex_world no_fail [] ex_doc)) =
    ["http://h0/d1/s.css"; "http://h0/d1/sub/i.css"; "http://h0/d1/f1.otf"; "http://h0/d1/p.png";
     "http://h0/d1/p.png"; "http://h0/d1/v.svg"; "http://h0/d1/o.svg#a"; "http://h0/d1/a.bin"] /\
  effects (snd (m_doc ex_world (upd no_fail "http://h0/d1/p.png" MHtml) [] ex_doc)) =
    [ERule 3; ERule 1; EFont 2 true; EShown 5 ShAlt; EShown 8 ShNothing; EShown 6 ShImage; EShown 4 ShNothing;
     EAttach "http://h0/d1/a.bin"] /\
  effects (snd (m_doc (remove_world "http://h0/d1/p.png" ex_world) no_fail []
                      (remove_doc "http://h0/d1/p.png" ex_doc))) =
    [ERule 3; ERule 1; EFont 2 true; EShown 5 ShAlt; EShown 8 ShNothing; EShown 6 ShImage; EShown 4 ShNothing;
     EAttach "http://h0/d1/a.bin"].
Proof. repeat split; vm_compute; reflexivity. Qed.
