(* C11 - get_clearance of weasyprint/layout/float.py as REGENERATED from the source on every run
   (gen/GenFloat.v): for every list of excluded shapes, every clear value and position it returns the value of
   the model get_clearance of model/C11Float.v (None, or a number == the model's), so that C11_clear_moves_below
   speaks about the source.  excluded_shape.margin_height() is answered by [ocall] (hypothesis HM; the method's
   own regenerated body is in gen/GenBoxes.v). *)
From Coq Require Import QArith Qminmax Lqa List String Bool.
Require Import WV.base.Py WV.gen.GenFloat WV.model.C11Float.
Require WV.proofs.PyNatural.
Import ListNotations.
Open Scope string_scope.
Open Scope list_scope.
Open Scope Q_scope.

Definition clear_name (c : clear_t) : string :=
  match c with ClearNone => "none" | ClearLeft => "left" | ClearRight => "right" | ClearBoth => "both" end.
(* a placed float as the loop reads it: style['float'], position_y; [extra s] are its other attributes (the box
   dimensions that margin_height() adds up, see the linked corollary below) *)
Section Shapes.
Variable T : Type.                       (* the placed floats, with whatever attributes they have *)
Variable sh_of : T -> shape.             (* what the model reads of them *)
Variable extra : T -> list (string * val).
Definition vshape (t : T) : val :=
  VObj (("style", VObj [("float", VStr (if s_left (sh_of t) then "left" else "right"))]) ::
        ("position_y", VNum (s_y (sh_of t))) :: extra t).
Definition vbox (c : clear_t) (py : Q) : val :=
  VObj [("style", VObj [("clear", VStr (clear_name c))]); ("position_y", VNum py)].
Definition voq (o : oq) : val := match o with Some q => VNum q | None => VNone end.

(* the loop body on values, exactly as the interpreter computes it (`clearance or 0` yields the literal 0 when the
   clearance is a zero rational) *)
Definition or0 (o : oq) : Q := match o with Some v => if Qeq_bool v 0 then 0 else v | None => 0 end.
Definition stepv (c : clear_t) (hyp : Q) (cl : oq) (s : shape) : oq :=
  if names c s then
    if Qlt_b hyp (s_y s + s_h s) then Some (Qmax (or0 cl) (s_y s + s_h s - hyp)) else cl
  else cl.

Definition loop_body : list stmt :=
  match get_clearance_body with
  | [_; _; _; SFor _ _ body; _] => body
  | _ => []
  end.

(* the three shapes the environment goes through *)
Definition E0 ctx c py cm (cl : oq) hyp : env :=
  [("context", ctx); ("box", vbox c py); ("collapsed_margin", VNum cm); ("clearance", voq cl);
   ("hypothetical_position", VNum hyp)].
Definition E1 ctx c py cm cl hyp (es : val) : env := E0 ctx c py cm cl hyp ++ [("excluded_shape", es)].
Definition E2 ctx c py cm cl hyp (es y h : val) : env := E1 ctx c py cm cl hyp es ++ [("y", y); ("h", h)].

Section Clear.
Variable O : qops.
Hypothesis HO : ops_ok O.
Hypothesis HM : forall t, ocall O ".margin_height" [vshape t] = VNum (s_h (sh_of t)).

Ltac unseal :=
  rewrite ?(qadd_eq _ HO), ?(qsub_eq _ HO), ?(qmul_eq _ HO), ?(qdiv_eq _ HO), ?(qmax_eq _ HO), ?(qmin_eq _ HO),
          ?(qleb_eq _ HO), ?(qeqb_eq _ HO) in *.
Ltac ev := lazy -[qadd qsub qmul qdiv qmax qmin qleb qeqb ocall Qplus Qminus Qmax Qle_bool Qeq_bool].

(* the environment goes through three shapes: before the loop, after an iteration that did not enter the `if`
   (excluded_shape bound), after one that did (y and h bound too) *)
Inductive eshape := S0 | S1 (es : val) | S2 (es y h : val).
Definition mk ctx c py cm cl hyp (sh : eshape) : env :=
  match sh with
  | S0 => E0 ctx c py cm cl hyp
  | S1 es => E1 ctx c py cm cl hyp es
  | S2 es y h => E2 ctx c py cm cl hyp es y h
  end.
Definition next_shape (c : clear_t) (t : T) (sh : eshape) : eshape :=
  if names c (sh_of t) then S2 (vshape t) (VNum (s_y (sh_of t))) (VNum (s_h (sh_of t)))
  else match sh with S0 | S1 _ => S1 (vshape t) | S2 _ y h => S2 (vshape t) y h end.

Lemma body_step (A : Type) kret kerr ctx c py cm hyp cl t sh (k : env -> A) :
  exec_block O A kret kerr loop_body (update "excluded_shape" (vshape t) (mk ctx c py cm cl hyp sh)) k =
  k (mk ctx c py cm (stepv c hyp cl (sh_of t)) hyp (next_shape c t sh)).
Proof.
  unfold stepv, next_shape, names, or0, Qlt_b.
  pose proof (HM t) as Hm.
  unfold vshape in *. set (X := extra t) in *. clearbody X.
  destruct (sh_of t) as [sl sx sy sw sh0]. cbn [s_left s_y s_h] in *.
  destruct sh as [|es|es y h], c, sl, cl as [v|];
    unfold loop_body, get_clearance_body, mk, E0, E1, E2, vbox, clear_name, voq; cbn [app];
    ev; rewrite ?Hm; ev; unseal;
    repeat match goal with |- context [Qle_bool ?a ?b] => destruct (Qle_bool a b) eqn:? end;
    repeat match goal with |- context [Qeq_bool ?a ?b] => destruct (Qeq_bool a b) eqn:? end;
    cbn [negb]; reflexivity.
Qed.

(* the whole loop *)
Definition fold_shape (c : clear_t) (l : list T) (sh : eshape) : eshape :=
  fold_left (fun sh t => next_shape c t sh) l sh.

Lemma loop_spec (A : Type) kret kerr ctx c py cm hyp : forall (l : list T) cl sh (k : env -> A),
  gen_iter (fun v rho k' => exec_block O A kret kerr loop_body (update "excluded_shape" v rho) k')
           (map vshape l) (mk ctx c py cm cl hyp sh) k =
  k (mk ctx c py cm (fold_left (stepv c hyp) (map sh_of l) cl) hyp (fold_shape c l sh)).
Proof.
  induction l as [|t l IH]; intros cl sh k; [reflexivity|].
  cbn [map gen_iter fold_left fold_shape]. rewrite body_step. apply IH.
Qed.

Lemma lookup_clearance ctx c py cm cl hyp sh : lookup "clearance" (mk ctx c py cm cl hyp sh) = voq cl.
Proof. destruct sh; reflexivity. Qed.

Definition vctx (shapes : list T) : val := VObj [("excluded_shapes", VList (map vshape shapes))].
Definition returns (x : val) (_ : env) (r : option val) : Prop := r = Some x.

Theorem gen_get_clearance_fold shapes c py cm :
  run O get_clearance_body [("context", vctx shapes); ("box", vbox c py); ("collapsed_margin", VNum cm)]
    (returns (voq (fold_left (stepv c (py + cm)) (map sh_of shapes) None))) (fun _ => False).
Proof.
  unfold run.
  set (R := voq (fold_left (stepv c (py + cm)) (map sh_of shapes) None)).
  (* the two assignments and the `for`, by conversion; then the loop lemma *)
  change (gen_iter (fun v rho k' => exec_block O Prop (fun rho v0 => returns R rho (Some v0)) (fun _ => False)
                                      loop_body (update "excluded_shape" v rho) k')
                   (map vshape shapes) (mk (vctx shapes) c py cm None (qadd O py cm) S0)
                   (fun rho => if flowing rho then returns R rho None
                               else returns R rho (Some (lookup "clearance" rho)))).
  rewrite (qadd_eq _ HO).
  rewrite loop_spec. rewrite lookup_clearance.
  replace (flowing _) with false by (destruct (fold_shape _ _ _); reflexivity). reflexivity.
Qed.
End Clear.
End Shapes.

(* ---- the interpreter-level fold is the model's get_clearance, up to == on the number *)
Definition oq_eq (a b : oq) : Prop :=
  match a, b with Some x, Some y => x == y | None, None => True | _, _ => False end.

Lemma or0_eq a b : oq_eq a b -> or0 a == match b with Some v => v | None => 0 end.
Proof.
  destruct a as [x|], b as [y|]; cbn; try contradiction; try reflexivity.
  intros E. destruct (Qeq_bool x 0) eqn:Z; [apply Qeq_bool_iff in Z; rewrite <- E, Z; reflexivity|exact E].
Qed.

Lemma stepv_model c hyp a b s :
  oq_eq a b ->
  oq_eq (stepv c hyp a s)
        (if names c s then
           if Qlt_b hyp (s_bottom s) then Some (Qmax (match b with Some v => v | None => 0 end) (s_bottom s - hyp)) else b
         else b).
Proof.
  intros E. unfold stepv, s_bottom. destruct (names c s); [|exact E].
  destruct (Qlt_b hyp (s_y s + s_h s)); [|exact E].
  cbn. rewrite (or0_eq a b E). reflexivity.
Qed.

Lemma fold_stepv_model c hyp l : forall a b, oq_eq a b ->
  oq_eq (fold_left (stepv c hyp) l a)
        (fold_left (fun (clearance : oq) (s : shape) =>
                      if names c s then
                        if Qlt_b hyp (s_bottom s)
                        then Some (Qmax (match clearance with Some v => v | None => 0 end) (s_bottom s - hyp))
                        else clearance
                      else clearance) l b).
Proof.
  induction l as [|s l IH]; intros a b E; [exact E|]. cbn [fold_left]. apply IH. now apply stepv_model.
Qed.

(* get_clearance of the source returns None exactly when the model does, else a number == the model's *)
Theorem gen_get_clearance T sh_of extra O (HO : ops_ok O)
        (HM : forall t : T, ocall O ".margin_height" [vshape T sh_of extra t] = VNum (s_h (sh_of t))) shapes c py cm :
  run O get_clearance_body [("context", vctx T sh_of extra shapes); ("box", vbox c py); ("collapsed_margin", VNum cm)]
    (fun _ r => exists v, r = Some (voq v) /\ oq_eq v (get_clearance (map sh_of shapes) c (py + cm))) (fun _ => False).
Proof.
  pose proof (gen_get_clearance_fold T sh_of extra O HO HM shapes c py cm) as H.
  rewrite WV.proofs.PyNatural.run_natural in *.
  destruct (WV.proofs.PyNatural.run_out O get_clearance_body _) as [rho r|m]; [|exact H].
  unfold returns in H. subst r. eexists. split; [reflexivity|].
  unfold get_clearance. apply fold_stepv_model. exact I.
Qed.

(* ---- linked: excluded_shape.margin_height() answered by the Box methods regenerated from
   formatting_structure/boxes.py (margin_height -> border_height -> padding_height) *)
Require Import WV.base.PyLink WV.gen.GenBoxes.

Record dims := mk_dims { d_h : Q; d_pt : Q; d_pb : Q; d_bt : Q; d_bb : Q; d_mt : Q; d_mb : Q }.
Definition margin_height_of (d : dims) : Q := d_h d + d_pt d + d_pb d + d_bt d + d_bb d + d_mt d + d_mb d.
Definition dims_fields (d : dims) : list (string * val) :=
  [("height", VNum (d_h d)); ("padding_top", VNum (d_pt d)); ("padding_bottom", VNum (d_pb d));
   ("border_top_width", VNum (d_bt d)); ("border_bottom_width", VNum (d_bb d));
   ("margin_top", VNum (d_mt d)); ("margin_bottom", VNum (d_mb d))].

(* a placed float with its box dimensions: s_h is what margin_height() returns *)
Definition shape_of (lf : bool) (x y w : Q) (d : dims) : shape := mk_shape lf x y w (margin_height_of d).

Lemma margin_height_linked n (lf : bool) y (d : dims) :
  ocall (linked GenBoxes_table (S (S (S n)))) ".margin_height"
    [VObj (("style", VObj [("float", VStr (if lf then "left" else "right"))]) :: ("position_y", VNum y) :: dims_fields d)]
  = VNum (margin_height_of d).
Proof.
  destruct d as [h pt pb bt bb mt mb]. destruct lf;
    lazy -[Qplus]; reflexivity.
Qed.

(* floats given by their side, position and box dimensions *)
Record pfloat := mk_pfloat { pf_left : bool; pf_x : Q; pf_y : Q; pf_w : Q; pf_d : dims }.
Definition pf_shape (p : pfloat) : shape := shape_of (pf_left p) (pf_x p) (pf_y p) (pf_w p) (pf_d p).


(* nothing left abstract but the floats themselves: get_clearance of float.py calling margin_height / border_height /
   padding_height of boxes.py, all regenerated from the source, returns the model's clearance, where the model's
   margin-box height of a float is the sum of its dimensions *)
Theorem gen_get_clearance_linked n (floats : list pfloat) c py cm :
  run (linked GenBoxes_table (S (S (S n)))) get_clearance_body
    [("context", vctx pfloat pf_shape (fun p => dims_fields (pf_d p)) floats); ("box", vbox c py);
     ("collapsed_margin", VNum cm)]
    (fun _ r => exists v, r = Some (voq v) /\ oq_eq v (get_clearance (map pf_shape floats) c (py + cm)))
    (fun _ => False).
Proof.
  apply gen_get_clearance; [apply linked_ok|].
  intros [lf x y w d]. apply (margin_height_linked n lf y d).
Qed.
