(* C06 - inheritance / initial values: proofs about model/C06Inherit.v *)
From Coq Require Import ZArith List Bool Lia.
Require Import WV.model.C06Inherit.
Import ListNotations.
Open Scope Z_scope.

Section InheritFacts.
  Variable V : Type.
  Variables (initial : Z -> V) (inherited not_computed : Z -> bool)
            (compute : Z -> option (Z -> V) -> V -> V) (preset_zero : Z -> option V).

  Notation missing := (missing V initial inherited not_computed compute).
  Notation element_style := (element_style V initial inherited not_computed compute preset_zero).
  Notation style_at := (style_at V initial inherited not_computed compute preset_zero).
  Notation initial_value := (initial_value V initial not_computed compute).

  Lemma lookup_some_nonempty (c : list (Z * cval V)) k x : lookup c k = Some x -> c <> [].
  Proof. destruct c; simpl; congruence. Qed.

  (* no winning declaration: inherited properties take the parent's computed value, the others the initial
     value; on the root everything takes the initial value *)
  Theorem no_declaration parent casc k :
    lookup casc k = None -> preset_zero k = None -> not_computed k = false ->
    element_style parent casc k =
    match parent with
    | Some p => if inherited k then p k else initial k
    | None => initial k
    end.
  Proof.
    intros Hl Hp Hn. unfold element_style, anonymous, missing, C06Inherit.initial_value.
    destruct parent as [p|]; [destruct casc as [|a r]|]; rewrite ?Hp, ?Hl, ?Hn;
      destruct (inherited k); auto; rewrite ?Hn; auto.
  Qed.

  (* ... for the properties of INITIAL_NOT_COMPUTED, when the element has some cascaded declaration *)
  Theorem no_declaration_computed_initial parent casc k :
    lookup casc k = None -> casc <> [] ->
    element_style parent casc k =
    match parent with
    | Some p => if inherited k then p k else initial_value parent k
    | None => initial_value parent k
    end.
  Proof.
    intros Hl Hne. unfold element_style, missing.
    destruct parent as [p|]; [destruct casc as [|a r]; [congruence|]|]; rewrite Hl;
      destruct (inherited k); auto.
  Qed.

  Theorem inherit_keyword parent casc k :
    lookup casc k = Some CInherit ->
    element_style parent casc k =
    match parent with Some p => p k | None => initial_value None k end.
  Proof.
    intros Hl. pose proof (lookup_some_nonempty _ _ _ Hl) as Hne. unfold element_style, missing.
    destruct parent as [p|]; [destruct casc as [|a r]; [congruence|]|]; rewrite Hl; auto.
  Qed.

  Theorem initial_keyword parent casc k :
    lookup casc k = Some CInitial -> element_style parent casc k = initial_value parent k.
  Proof.
    intros Hl. pose proof (lookup_some_nonempty _ _ _ Hl) as Hne. unfold element_style, missing.
    destruct parent as [p|]; [destruct casc as [|a r]; [congruence|]|]; rewrite Hl; auto.
  Qed.

  Theorem declared_value parent casc k v :
    lookup casc k = Some (CVal v) -> element_style parent casc k = compute k parent v.
  Proof.
    intros Hl. pose proof (lookup_some_nonempty _ _ _ Hl) as Hne. unfold element_style, missing.
    destruct parent as [p|]; [destruct casc as [|a r]; [congruence|]|]; rewrite Hl; auto.
  Qed.

  Lemma transparent_step p (c : tree V) k :
    inherited k = true -> preset_zero k = None -> transparent c k -> element_style (Some p) (t_casc c) k = p k.
  Proof.
    intros Hi Hp [Ht|Ht].
    - unfold element_style, anonymous, missing. destruct (t_casc c) as [|a r] eqn:E.
      + rewrite Hp, Hi; auto.
      + rewrite Ht, Hi; auto.
    - rewrite (inherit_keyword (Some p) _ k Ht); auto.
  Qed.

  (* by induction on the depth: an inherited property without declaration on the way down has the ancestor's
     computed value *)
  Theorem inherited_along_path (path : list nat) : forall (t : tree V) parent k s,
    inherited k = true -> preset_zero k = None ->
    transparent_below t path k -> style_at parent t path = Some s ->
    s k = element_style parent (t_casc t) k.
  Proof.
    induction path as [|i r IH]; intros t parent k s Hi Hp Ht Hs; simpl in *.
    - inversion Hs; auto.
    - destruct (nth_error (t_kids t) i) as [c|] eqn:E; [|discriminate].
      destruct Ht as [Hc Hr].
      rewrite (IH c _ k s Hi Hp Hr Hs). apply transparent_step; auto.
  Qed.

  (* the same for the explicit 'inherit' keyword on any property (inherited or not) *)
  Fixpoint inherit_below (t : tree V) (path : list nat) (k : Z) : Prop :=
    match path with
    | [] => True
    | i :: r => match nth_error (t_kids t) i with
                | Some c => lookup (t_casc c) k = Some CInherit /\ inherit_below c r k
                | None => True
                end
    end.
  Theorem inherit_keyword_along_path (path : list nat) : forall (t : tree V) parent k s,
    inherit_below t path k -> style_at parent t path = Some s ->
    s k = element_style parent (t_casc t) k.
  Proof.
    induction path as [|i r IH]; intros t parent k s Ht Hs; simpl in *.
    - inversion Hs; auto.
    - destruct (nth_error (t_kids t) i) as [c|] eqn:E; [|discriminate].
      destruct Ht as [Hc Hr].
      rewrite (IH c _ k s Hr Hs). rewrite (inherit_keyword _ _ k Hc); auto.
  Qed.

  (* the shortcut for elements without any cascaded declaration agrees with ComputedStyle.__missing__ except
     on INITIAL_NOT_COMPUTED keys *)
  Theorem anonymous_shortcut_sound p k :
    not_computed k = false -> preset_zero k = None ->
    element_style (Some p) [] k = missing (Some p) [] k.
  Proof.
    intros Hn Hp. unfold element_style, anonymous, missing, C06Inherit.initial_value. simpl.
    rewrite Hp, Hn. destruct (inherited k); auto.
  Qed.
End InheritFacts.

(* a non-trivial instance: color (1) inherited, z-index (2) not; html{color:7} > body{} > p{z-index:5; color:inherit}
   > span (nothing) *)
Example inherit_example :
  let ini := fun k => 0 in let inh := fun k => k =? 1 in
  let t := Node [(1, CVal 7)] [Node [] [Node [(2, CVal 5); (1, CInherit)] [Node [] []]]] in
  option_map (fun s => (s 1, s 2))
    (style_at Z ini inh (fun _ => false) (fun _ _ v => v) (fun _ => None) None t [0%nat; 0%nat; 0%nat])
  = Some (7, 0)
  /\ transparent_below t [0%nat; 0%nat; 0%nat] 1.
Proof. split; [vm_compute; reflexivity | simpl; unfold transparent; simpl; intuition]. Qed.
