(* C19 - proofs about resource naming (model/C19Names.v). *)
From Coq Require Import ZArith List Bool Permutation Lia Sorting.Sorted.
Require Import WV.model.C19Names.
Import ListNotations.
Open Scope Z_scope.

(* ---- max() over a set does not depend on the iteration order ---- *)
Lemma fold_max_ge (l : list Z) : forall x, x <= fold_left Z.max l x /\ Forall (fun y => y <= fold_left Z.max l x) l.
Proof.
  induction l as [|a l IH]; intros x; simpl.
  - split; [lia|constructor].
  - destruct (IH (Z.max x a)) as [A B]. split; [lia|]. constructor; [lia|exact B].
Qed.
Lemma fold_max_in (l : list Z) : forall x, fold_left Z.max l x = x \/ In (fold_left Z.max l x) l.
Proof.
  induction l as [|a l IH]; intros x; simpl; [left; reflexivity|].
  destruct (IH (Z.max x a)) as [E|I].
  - destruct (Z.max_spec x a) as [[_ M]|[_ M]]; rewrite M in *; [right; left; symmetry; exact E|left; exact E].
  - right; right; exact I.
Qed.

Lemma maxl_spec (l : list Z) m : maxl l = Some m <-> In m l /\ Forall (fun y => y <= m) l.
Proof.
  destruct l as [|x r]; simpl.
  - split; [discriminate|intros [[] _]].
  - split.
    + intros E; inversion E; subst; clear E. destruct (fold_max_ge r x) as [A B].
      split; [destruct (fold_max_in r x) as [E|I]; [left; symmetry; exact E|right; exact I]|constructor; assumption].
    + intros [I F]. f_equal. destruct (fold_max_ge r x) as [A B].
      assert (fold_left Z.max r x <= m) as U.
      { destruct (fold_max_in r x) as [E|J].
        - rewrite E. inversion F; assumption.
        - inversion F as [|? ? ? Fr]; subst. rewrite Forall_forall in Fr. exact (Fr _ J). }
      assert (m <= fold_left Z.max r x) as V.
      { destruct I as [I|I]; [subst; exact A|]. rewrite Forall_forall in B. exact (B _ I). }
      lia.
Qed.

Lemma maxl_perm (l l' : list Z) : Permutation l l' -> maxl l = maxl l'.
Proof.
  intros P. destruct (maxl l) as [m|] eqn:E.
  - symmetry. apply maxl_spec. apply maxl_spec in E. destruct E as [I F]. split.
    + exact (Permutation_in _ P I).
    + rewrite Forall_forall in *. intros y Hy. apply F. exact (Permutation_in _ (Permutation_sym P) Hy).
  - destruct l as [|x r]; [|discriminate]. apply Permutation_nil in P. subst. reflexivity.
Qed.

(* ---- names_deterministic: the names, the dictionaries and the image ratios depend on the call sequence only: any
   two executions (any two iteration orders of the ratio sets) agree ---- *)
Theorem names_deterministic (order1 order2 : list Z -> list Z) (cs : list call) :
  (forall l, Permutation (order1 l) l) -> (forall l, Permutation (order2 l) l) ->
  outcome order1 cs = outcome order2 cs.
Proof.
  intros P1 P2. unfold outcome. destruct (run doc0 cs) as [[d ns]|]; [|reflexivity].
  f_equal. f_equal. unfold image_ratios. apply map_ext. intros [n rs]. simpl. f_equal.
  apply maxl_perm. eapply Permutation_trans; [apply P1|apply Permutation_sym; apply P2].
Qed.

(* a name handed out is never revised by later calls: the names of a prefix of the call sequence are a prefix *)
Lemma run_app (cs more : list call) : forall d d2 ns,
  run d (cs ++ more) = Some (d2, ns) ->
  exists d1 ns1 ns2, run d cs = Some (d1, ns1) /\ run d1 more = Some (d2, ns2) /\ ns = ns1 ++ ns2.
Proof.
  induction cs as [|c cs IH]; intros d d2 ns E; simpl in *.
  - exists d, [], ns. auto.
  - destruct (step d c) as [[d1 n]|]; [|discriminate].
    destruct (run d1 (cs ++ more)) as [[d3 ns3]|] eqn:E3; [|discriminate]. inversion E; subst; clear E.
    destruct (IH _ _ _ E3) as [d4 [ns1 [ns2 [A [B C]]]]]. rewrite A.
    exists d4, (n :: ns1), ns2. subst. auto.
Qed.
Lemma run_length (cs : list call) : forall d d1 ns, run d cs = Some (d1, ns) -> length ns = length cs.
Proof.
  induction cs as [|c cs IH]; intros d d1 ns E; simpl in *.
  - inversion E; reflexivity.
  - destruct (step d c) as [[d2 n]|]; [|discriminate].
    destruct (run d2 cs) as [[d3 ns3]|] eqn:E3; [|discriminate]. inversion E; subst. simpl. f_equal. exact (IH _ _ _ E3).
Qed.

Theorem names_depend_on_earlier_calls_only (cs more : list call) d ns :
  run doc0 (cs ++ more) = Some (d, ns) ->
  exists d1, run doc0 cs = Some (d1, firstn (length cs) ns).
Proof.
  intros E. destruct (run_app _ _ _ _ _ E) as [d1 [ns1 [ns2 [A [B C]]]]]. exists d1. rewrite A. f_equal. f_equal.
  subst. rewrite <- (run_length _ _ _ _ A). rewrite firstn_app, Nat.sub_diag, firstn_all. simpl. rewrite app_nil_r. reflexivity.
Qed.

(* ---- sorted(): whatever order a container delivered the destinations in, the name tree is the same ---- *)
Definition keys_lt (a b : Z * Z) : Prop := fst a < fst b.

Lemma insert_perm x l : Permutation (insert x l) (x :: l).
Proof.
  induction l as [|y l IH]; simpl; [apply Permutation_refl|].
  destruct (fst x <=? fst y); [apply Permutation_refl|].
  eapply Permutation_trans; [apply perm_skip; exact IH|apply perm_swap].
Qed.
Lemma isort_perm l : Permutation (isort l) l.
Proof.
  induction l as [|x l IH]; simpl; [constructor|].
  eapply Permutation_trans; [apply insert_perm|apply perm_skip; exact IH].
Qed.

Lemma insert_sorted x l :
  StronglySorted keys_lt l -> ~ In (fst x) (map fst l) -> StronglySorted keys_lt (insert x l).
Proof.
  induction l as [|y l IH]; intros S N; simpl.
  - constructor; constructor.
  - inversion S as [|? ? Sl Fy]; subst.
    assert (fst x <> fst y) as D by (intros E; apply N; left; symmetry; exact E).
    destruct (fst x <=? fst y) eqn:E.
    + apply Z.leb_le in E. constructor; [exact S|]. constructor; [unfold keys_lt; lia|].
      rewrite Forall_forall in *. intros z Hz. specialize (Fy z Hz). unfold keys_lt in *. lia.
    + apply Z.leb_gt in E. constructor.
      * apply IH; [exact Sl|]. intros K. apply N. right; exact K.
      * rewrite Forall_forall in *. intros z Hz.
        apply (Permutation_in _ (insert_perm x l)) in Hz. destruct Hz as [Hz|Hz]; [subst; exact E|exact (Fy z Hz)].
Qed.

Lemma isort_sorted l : NoDup (map fst l) -> StronglySorted keys_lt (isort l).
Proof.
  induction l as [|x l IH]; intros N; simpl; [constructor|].
  inversion N as [|? ? Nx Nl]; subst. apply insert_sorted; [exact (IH Nl)|].
  intros K. apply Nx. apply (Permutation_in _ (Permutation_map fst (isort_perm l))). exact K.
Qed.

Lemma sorted_perm_unique (a : list (Z * Z)) : forall b,
  StronglySorted keys_lt a -> StronglySorted keys_lt b -> Permutation a b -> a = b.
Proof.
  induction a as [|x a IH]; intros b Sa Sb P.
  - apply Permutation_nil in P. subst; reflexivity.
  - destruct b as [|y b]; [apply Permutation_sym, Permutation_nil in P; discriminate|].
    inversion Sa as [|? ? Sa' Fa]; inversion Sb as [|? ? Sb' Fb]; subst.
    rewrite Forall_forall in Fa, Fb.
    assert (x = y) as ->.
    { assert (In x (y :: b)) as Ix by (apply (Permutation_in _ P); left; reflexivity).
      assert (In y (x :: a)) as Iy by (apply (Permutation_in _ (Permutation_sym P)); left; reflexivity).
      destruct Ix as [Ix|Ix]; [symmetry; exact Ix|]. destruct Iy as [Iy|Iy]; [exact Iy|].
      specialize (Fa _ Iy). specialize (Fb _ Ix). unfold keys_lt in *. lia. }
    f_equal. apply IH; [exact Sa'|exact Sb'|exact (Permutation_cons_inv P)].
Qed.

Theorem sorted_is_canonical (l l' : list (Z * Z)) :
  Permutation l l' -> NoDup (map fst l) -> isort l = isort l'.
Proof.
  intros P N. apply sorted_perm_unique.
  - exact (isort_sorted l N).
  - apply isort_sorted. exact (Permutation_NoDup (Permutation_map fst P) N).
  - eapply Permutation_trans; [apply isort_perm|]. eapply Permutation_trans; [exact P|apply Permutation_sym, isort_perm].
Qed.

(* ---- fonts: named by the digest of the description, in first-use order: the salt of hash() plays no part ---- *)
Theorem font_names_ignore_hash_salt (Desc : Type) (desc_eqb : Desc -> Desc -> bool) (digest : Desc -> Z)
        (salt1 salt2 : Z) (uses : list Desc) :
  font_names Desc desc_eqb digest salt1 uses = font_names Desc desc_eqb digest salt2 uses.
Proof. reflexivity. Qed.

(* ---- examples: the hypotheses are satisfiable by non-trivial inputs ---- *)
Definition example_calls : list call :=
  [CSetAlpha 0 5 false; CAddGroup 0; CSetState 1; CAddImage 1 42 true 3; CAddImage 0 42 true 7; CAddPattern 0;
   CAddShading 2; CAddImage 0 42 true 1; CSetState 0; CAddGroup 1].

Example names_deterministic_example :
  outcome (fun l => l) example_calls = outcome (@rev Z) example_calls /\
  outcome (fun l => l) example_calls =
  Some ([NA false 5; NX 0; NS 0; NI 42 true; NI 42 true; NP 0; NSh 0; NI 42 true; NS 1; NX 1],
        [([NA false 5; NS 1], [NX 0; NI 42 true], [NP 0], []); ([NS 0], [NI 42 true; NX 1], [], []); ([], [], [], [NSh 0]); ([], [], [], [])],
        [(NI 42 true, Some 7)]).
Proof.
  split; [|reflexivity].
  apply names_deterministic; intros l; [apply Permutation_refl|apply Permutation_sym, Permutation_rev].
Qed.

Example sorted_is_canonical_example :
  isort [(3, 30); (1, 10); (2, 20)] = isort [(2, 20); (3, 30); (1, 10)] /\ isort [(3, 30); (1, 10); (2, 20)] = [(1, 10); (2, 20); (3, 30)].
Proof. split; reflexivity. Qed.
