(* C13 - orientation is a bijection of the pixel grid, `<angle> [flip]` is the stated EXIF code, and the /Decode rule:
   the painted CMYK sample is the source ink iff /Decode is inverted exactly for sources with the Adobe marker. *)
From Coq Require Import ZArith Lia List Bool.
Require Import WV.model.C13XObject.
Import ListNotations.
Open Scope Z_scope.

Theorem src_in_range o w h x y :
  let '(ow, oh) := out_dims o w h in
  0 <= x < ow -> 0 <= y < oh ->
  let '(sx, sy) := src_of o w h x y in 0 <= sx < w /\ 0 <= sy < h.
Proof. destruct o; cbn; lia. Qed.

Theorem dst_in_range o w h x y :
  0 <= x < w -> 0 <= y < h ->
  let '(ow, oh) := out_dims o w h in
  let '(dx, dy) := dst_of o w h x y in 0 <= dx < ow /\ 0 <= dy < oh.
Proof. destruct o; cbn; lia. Qed.

(* every source pixel is shown exactly once *)
Theorem src_dst_inverse o w h x y :
  (let '(dx, dy) := dst_of o w h x y in src_of o w h dx dy) = (x, y) /\
  (let '(sx, sy) := src_of o w h x y in dst_of o w h sx sy) = (x, y).
Proof. destruct o; cbn; split; f_equal; lia. Qed.

(* `<angle> [flip]`: q quarter turns to the right, then a horizontal flip *)
Definition idv : view := fun x y => (x, y).
Theorem quarter_code_correct w h x y :
  src_of (quarter_code 0 false) w h x y = idv x y /\
  src_of (quarter_code 1 false) w h x y = rot_cw idv h x y /\
  src_of (quarter_code 2 false) w h x y = rot_cw (rot_cw idv h) w x y /\
  src_of (quarter_code 3 false) w h x y = rot_cw (rot_cw (rot_cw idv h) w) h x y /\
  src_of (quarter_code 0 true) w h x y = flip_h idv w x y /\
  src_of (quarter_code 1 true) w h x y = flip_h (rot_cw idv h) h x y /\
  src_of (quarter_code 2 true) w h x y = flip_h (rot_cw (rot_cw idv h) w) w x y /\
  src_of (quarter_code 3 true) w h x y = flip_h (rot_cw (rot_cw (rot_cw idv h) w) h) h x y.
Proof. unfold rot_cw, flip_h, idv. cbn. repeat split; f_equal; lia. Qed.

(* four quarter turns are the identity; the code only depends on the angle modulo a full turn *)
Lemma quarter_code_mod q flip : quarter_code (q + 4) flip = quarter_code q flip.
Proof. unfold quarter_code. replace (q + 4) with (q + 1 * 4) by lia. now rewrite Z_mod_plus_full. Qed.

(* EXIF 6 is the clockwise quarter turn, EXIF 8 the counter-clockwise one, and they are each other's twin *)
Lemma ccw_twin_quarter flip : ccw_twin (quarter_code 1 flip) = quarter_code 3 flip /\
                              ccw_twin (quarter_code 3 flip) = quarter_code 1 flip /\
                              ccw_twin (quarter_code 0 flip) = quarter_code 0 flip /\
                              ccw_twin (quarter_code 2 flip) = quarter_code 2 flip.
Proof. destruct flip; cbn; auto. Qed.

(* ---- /Decode: whatever happened to the picture on the way (passed through or re-encoded by Pillow after a
   transposition, an optimisation or a quality change), the consumer paints the source ink iff /Decode is inverted
   exactly when the source has the Adobe marker *)
Theorem decode_iff_app14 reencoded app14 dec t :
  0 <= t <= 255 -> (painted dec (embedded reencoded app14 t) = t <-> dec = app14).
Proof.
  intro R. unfold painted, embedded, stored, pillow_write, pillow_view.
  destruct reencoded, app14, dec; split; intro H; try reflexivity; try discriminate; try lia.
Qed.

(* the model's /Decode flag is that rule, for every orientation, mode and dimensions *)
Theorem expected_decode_rule m trns app14 jpeg o w h :
  xa_decode_inverted (expected_attrs m trns app14 jpeg o w h) = true <-> (truth_mode m trns = MCMYK /\ app14 = true).
Proof.
  unfold expected_attrs. destruct (out_dims o w h). cbn.
  destruct (truth_mode m trns); split; intro H; try discriminate; try (destruct H; discriminate); auto.
  destruct H; assumption.
Qed.

Theorem expected_attrs_painted_cmyk trns app14 jpeg o w h reencoded t :
  0 <= t <= 255 -> truth_mode MCMYK trns = MCMYK ->
  painted (xa_decode_inverted (expected_attrs MCMYK trns app14 jpeg o w h)) (embedded reencoded app14 t) = t.
Proof.
  intros R T. apply decode_iff_app14; [exact R|]. unfold expected_attrs. destruct (out_dims o w h). cbn. now rewrite T.
Qed.

(* dimensions are swapped exactly for the four codes with a quarter turn *)
Theorem expected_dims m trns app14 jpeg o w h :
  let e := expected_attrs m trns app14 jpeg o w h in
  (xa_w e, xa_h e) = if swaps o then (h, w) else (w, h).
Proof. unfold expected_attrs, out_dims. destruct (swaps o); reflexivity. Qed.

Example orientation_example : src_of O6 3 2 0 0 = (0, 1) /\ out_dims O6 3 2 = (2, 3).
Proof. split; reflexivity. Qed.
Example grid_example :
  grid_ok 0 O6 2 1 [[1]; [2]] [[1]; [2]] = true /\ grid_ok 0 O8 2 1 [[1]; [2]] [[1]; [2]] = false.
Proof. split; reflexivity. Qed.
