(* C15 - steps 4 to 6 of CounterStyle.render_value (weasyprint/css/counters.py), the statements AFTER the chain
   `if system == 'cyclic': .. elif ..`, as REGENERATED from the source on every run (gen/GenCounters.v:
   rv_finish_body; slice option ('<after-chain>', 'system')): `assert initial is not None`, the pad descriptor
   (`len(initial)`, `pad_difference * symbol(pad[1]) + initial`), the negative prefix / suffix, `return initial`.
   For every initial representation, pad descriptor (or None), negative symbols and both flags the returned string
   is [finish] of the hand model model/C15Style.v, and nothing is raised. *)
From Coq Require Import ZArith QArith List String Bool Lia.
Require Import WV.model.C15Style WV.model.C15Builtins WV.proofs.C15_gen_base WV.proofs.C15_gen_symbolic.
Require Import WV.base.Py WV.gen.GenCounters.
Import ListNotations.
Open Scope string_scope.
Open Scope list_scope.

Lemma string_app_assoc a b c : ((a ++ b) ++ c)%string = (a ++ (b ++ c))%string.
Proof. induction a as [|x a IH]; simpl; [reflexivity|]. now rewrite IH. Qed.
Lemma zlen_symbol_msym p : zlen (symbol (msym p)) = Z.of_nat (String.length (psym_str p)).
Proof. unfold zlen. now rewrite <- symbol_msym, length_enc. Qed.
Lemma Qle_bool_eq_0 q d : (q == inject_Z d)%Q -> Qle_bool q (0 # 1) = (d <=? 0)%Z.
Proof.
  intros E. change (0 # 1) with (inject_Z 0). rewrite <- Qle_bool_vint.
  destruct (Qle_bool q (inject_Z 0)) eqn:E1, (Qle_bool (inject_Z d) (inject_Z 0)) eqn:E2; try reflexivity.
  - apply Qle_bool_iff in E1. rewrite E in E1. apply Qle_bool_iff in E1. congruence.
  - apply Qle_bool_iff in E2. rewrite <- E in E2. apply Qle_bool_iff in E2. congruence.
Qed.

(* counter['pad'] and counter['negative'] as the Python code holds them *)
Definition vpad (o : option (Z * psym)) : val :=
  match o with Some (w, p) => VList [vint w; vsym p] | None => VNone end.
Definition mpad (o : option (Z * psym)) : option (Z * sym) :=
  match o with Some (w, p) => Some (w, msym p) | None => None end.

(* steps 4-6 on Python strings *)
Definition slen (s : string) : Z := Z.of_nat (String.length s).
Definition fin_str (w : Z) (padsym : string) (use : bool) (np ns s : string) : string :=
  let d := (w - slen s - (if use then slen np + slen ns else 0))%Z in
  let padded := if (d >? 0)%Z then (str_repeat (Z.to_nat d) padsym ++ s)%string else s in
  if use then (np ++ padded ++ ns)%string else padded.

Section Finish.
Variable O : qops.
Hypothesis HO : ops_ok O.
Hypothesis HS : forall p, ocall O "symbol" [vsym p] = VStr (psym_str p).

Ltac unseal :=
  rewrite ?(qadd_eq _ HO), ?(qsub_eq _ HO), ?(qmul_eq _ HO), ?(qdiv_eq _ HO), ?(qmax_eq _ HO), ?(qmin_eq _ HO),
          ?(qleb_eq _ HO), ?(qeqb_eq _ HO) in *.
Ltac evf := lazy -[qadd qsub qmul qdiv qmax qmin qleb qeqb ocall wfuel inject_Z as_int Z.of_nat String.length
                   String.append str_repeat Z.to_nat Qplus Qminus enc Z.sub Z.add Z.opp Z.leb slen].

Lemma eval_or A kerr rho a b (k : val -> A) :
  eval O A kerr rho (EOr a b) k =
  eval O A kerr rho a (fun va => bool_k O A kerr va (fun t => if t then k va else eval O A kerr rho b k)).
Proof. reflexivity. Qed.
Lemma eval_subscr A kerr rho e key (k : val -> A) :
  eval O A kerr rho (ESubscr e key) k =
  eval O A kerr rho e (fun v => match v with VObj f => k (Py.lookup key f) | VErr m => kerr m
                                          | _ => kerr "TypeError" end).
Proof. reflexivity. Qed.

(* the names bound only when the value is negative *)
Definition negenv (neg un : bool) (np ns : string) : env :=
  if neg then [("use_negative", VBool un); ("negative_prefix", VStr np); ("negative_suffix", VStr ns)] else [].
Definition finenv (cf : list (string * val)) (s : string) (neg un : bool) (np ns : string) : env :=
  [("counter", VObj cf); ("initial", VStr s); ("is_negative", VBool neg)] ++ negenv neg un np ns.
Definition padval (opad : option (Z * psym)) : val :=
  match opad with Some (w, p) => VList [vint w; vsym p] | None => VList [VNum (0 # 1); VStr ""] end.

Lemma inj_sub2 w a b c :
  (inject_Z w - inject_Z a - (inject_Z b + inject_Z c) == inject_Z (w - a - (b + c)))%Q.
Proof. unfold Qeq, Qminus, Qplus, Qopp, inject_Z. simpl. ring. Qed.
Lemma inj_sub1 w a : (inject_Z w - inject_Z a == inject_Z (w - a))%Q.
Proof. unfold Qeq, Qminus, Qplus, Qopp, inject_Z. simpl. ring. Qed.
Lemma gtb_leb d : (d >? 0)%Z = negb (d <=? 0)%Z.
Proof. rewrite Z.gtb_ltb. apply Z.ltb_antisym. Qed.

Lemma inj_sub1' w a : (inject_Z w - inject_Z a == inject_Z (w - a - 0))%Q.
Proof. unfold Qeq, Qminus, Qplus, Qopp, inject_Z. simpl. ring. Qed.

Lemma fin_rest A kret kerr (k : env -> A) cf w p np ns s neg un :
  exists rho',
  exec_block O A kret kerr (skipn 2 rv_finish_body) (finenv cf s neg un np ns ++ [("pad", VList [vint w; vsym p])]) k =
  kret rho' (VStr (fin_str w (psym_str p) (neg && un) np ns s)).
Proof.
  pose proof (HS p) as Hp.
  assert (Hq2 := inj_sub2 w (slen s) (slen np) (slen ns)). assert (Hq1 := inj_sub1' w (slen s)).
  destruct neg, un; cbn [finenv negenv app andb]; unfold fin_str; cbv zeta; rewrite gtb_leb.
  1: rename Hq2 into Hq. 2-4: rename Hq1 into Hq.
  all: destruct (_ <=? 0)%Z eqn:Hd; destruct p; eexists; cbn [vsym psym_str] in Hp; evf; rewrite ?Hp; unseal;
      fold (slen s) (slen np) (slen ns);
      rewrite (Qle_bool_eq_0 _ _ Hq), Hd; cbv iota; rewrite ?(as_int_eq _ _ Hq); cbv iota beta; cbn [negb];
      rewrite ?string_app_assoc; reflexivity.
Qed.

(* counter['pad'] is None: pad = (0, ''), nothing is prepended (and symbol('') is never called) *)
Lemma fin_rest_nopad A kret kerr (k : env -> A) cf np ns s neg un :
  exists rho',
  exec_block O A kret kerr (skipn 2 rv_finish_body)
    (finenv cf s neg un np ns ++ [("pad", VList [VNum (0 # 1); VStr ""])]) k =
  kret rho' (VStr (fin_str 0 "" (neg && un) np ns s)).
Proof.
  assert (Hq2 := inj_sub2 0 (slen s) (slen np) (slen ns)). assert (Hq1 := inj_sub1' 0 (slen s)).
  assert (H0 : (0 <= slen s)%Z) by apply Nat2Z.is_nonneg.
  assert (H1 : (0 <= slen np)%Z) by apply Nat2Z.is_nonneg.
  assert (H2 : (0 <= slen ns)%Z) by apply Nat2Z.is_nonneg.
  destruct neg, un; cbn [finenv negenv app andb]; unfold fin_str; cbv zeta; rewrite gtb_leb.
  1: rename Hq2 into Hq. 2-4: rename Hq1 into Hq.
  all: destruct (_ <=? 0)%Z eqn:Hd; [|apply Z.leb_gt in Hd; lia].
  all: eexists; evf; unseal; fold (slen s) (slen np) (slen ns);
       change (0 # 1) with (inject_Z 0) at 1; rewrite (Qle_bool_eq_0 _ _ Hq), Hd; cbv iota; cbn [negb];
       rewrite ?string_app_assoc; reflexivity.
Qed.

Theorem gen_finish cf opad pn ps t neg un c :
  Py.lookup "pad" cf = vpad opad -> c_pad c = mpad opad ->
  orelse (c_negative c) default_negative = (msym pn, msym ps) ->
  run O rv_finish_body (finenv cf (enc t) neg un (psym_str pn) (psym_str ps))
    (fun _ r => r = Some (VStr (enc (finish c (neg && un) t)))) (fun _ => False).
Proof.
  intros Hpad Hcp Hneg.
  assert (Hfin : enc (finish c (neg && un) t) =
                 match opad with
                 | Some (w, p) => fin_str w (psym_str p) (neg && un) (psym_str pn) (psym_str ps) (enc t)
                 | None => fin_str 0 "" (neg && un) (psym_str pn) (psym_str ps) (enc t)
                 end).
  { unfold finish, fin_str. rewrite Hneg, Hcp. unfold slen. rewrite !length_enc.
    rewrite !zlen_symbol_msym. fold (zlen t).
    destruct opad as [[w p]|]; cbn [mpad orelse fst snd]; cbv zeta;
      destruct (neg && un); destruct (_ >? 0)%Z;
      rewrite ?enc_app, ?enc_rep_text, ?symbol_msym; reflexivity. }
  rewrite Hfin. clear Hfin. unfold run.
  change rv_finish_body with (nth 0 rv_finish_body SPass :: nth 1 rv_finish_body SPass :: skipn 2 rv_finish_body).
  set (rho0 := finenv cf (enc t) neg un (psym_str pn) (psym_str ps)).
  rewrite exec_block_cons.
  assert (H0 : forall A kret kerr (k : env -> A), exec O A kret kerr (nth 0 rv_finish_body SPass) rho0 k = k rho0).
  { intros. subst rho0. destruct neg; reflexivity. }
  rewrite H0. clear H0.
  replace (flowing rho0) with false by (subst rho0; destruct neg; reflexivity).
  rewrite exec_block_cons.
  assert (H1 : forall A kret kerr (k : env -> A),
    exec O A kret kerr (nth 1 rv_finish_body SPass) rho0 k = k (rho0 ++ [("pad", padval opad)])).
  { intros. change (nth 1 rv_finish_body SPass) with
      (SAssign [TVar "pad"] (EOr (ESubscr (EVar "counter") "pad") (ETuple [EConst (VNum (0 # 1)); EConst (VStr "")]))).
    rewrite exec_assign1, eval_or, eval_subscr, eval_var.
    change (Py.lookup "counter" rho0) with (VObj cf). cbv iota. rewrite Hpad.
    subst rho0. destruct opad as [[w p]|]; [destruct p|]; destruct neg; reflexivity. }
  rewrite H1. clear H1.
  replace (flowing (rho0 ++ [("pad", padval opad)])) with false by (subst rho0; destruct neg; reflexivity).
  subst rho0. destruct opad as [[w p]|]; cbn [padval].
  - match goal with |- exec_block O Prop ?kr ?ke _ _ ?k =>
      destruct (fin_rest Prop kr ke k cf w p (psym_str pn) (psym_str ps) (enc t) neg un) as (rho' & E) end.
    rewrite E. reflexivity.
  - match goal with |- exec_block O Prop ?kr ?ke _ _ ?k =>
      destruct (fin_rest_nopad Prop kr ke k cf (psym_str pn) (psym_str ps) (enc t) neg un) as (rho' & E) end.
    rewrite E. reflexivity.
Qed.
End Finish.
Print Assumptions gen_finish.
