(* C12 - _intersect_with_children of weasyprint/layout/grid.py as regenerated (gen/GenGrid.v) is the model's
   intersect_with_children: see proofs/C12_gen_grid_base.v for the conventions. *)
From Coq Require Import ZArith QArith Qminmax List String Bool Lia.
Require Import WV.base.Py WV.base.PyLink WV.proofs.PyNatural WV.gen.GenGrid WV.model.C12Grid.
Require Import WV.proofs.C12_gen_ext WV.proofs.C12_gen_grid_base.
Import ListNotations.
Open Scope string_scope.
Open Scope list_scope.

Section Callers.
Variable O0 : qops.
Hypothesis HO : ops_ok O0.
Variable c : string -> list val -> val.
Let O := with_calls O0 (cspec O0 c).
(* ---- _intersect_with_children: the loop over the placed areas *)
Definition varea (a : area) : val := let '(x, y, w, h) := a in VList [vint x; vint y; vint w; vint h].
Definition iwc_loop_body : list stmt :=
  match grid_intersect_with_children_body with [SFor _ _ body; _] => body | _ => [] end.
(* the two shapes of the environment: before the first iteration, and after one (the seven locals bound) *)
Inductive ishape := I0 | I1 (v1 v2 v3 v4 v5 v6 v7 : val).
Definition imk (x y w h : Z) (pos : val) (sh : ishape) : env :=
  [("x", vint x); ("y", vint y); ("width", vint w); ("height", vint h); ("positions", pos)] ++
  match sh with
  | I0 => []
  | I1 v1 v2 v3 v4 v5 v6 v7 =>
      [("%item", v1); ("full_x", v2); ("full_y", v3); ("full_width", v4); ("full_height", v5);
       ("x_intersect", v6); ("y_intersect", v7)]
  end.
Definition inext (x y w h : Z) (p : area) : ishape :=
  let '(fx, fy, fw, fh) := p in
  I1 (varea p) (vint fx) (vint fy) (vint fw) (vint fh) (VBool (intersect x w fx fw)) (VBool (intersect y h fy fh)).

Lemma iwc_step A (Q : val -> A) kerr x y w h pos sh p k :
  exec_block O A (fun _ v => Q v) kerr iwc_loop_body (update "%item" (varea p) (imk x y w h pos sh)) k
  = if area_meets (x, y, w, h) p then Q (VBool true) else k (imk x y w h pos (inext x y w h p)).
Proof.
  destruct p as [[[fx fy] fw] fh].
  unfold O, iwc_loop_body, grid_intersect_with_children_body, area_meets, inext, imk, varea, vint.
  destruct sh; cbn [app];
    lazy -[qadd qsub qleb qeqb inject_Z intersect_q intersect andb];
    rewrite !(intersect_q_Z O0 HO);
    destruct (intersect x w fx fw), (intersect y h fy fh); reflexivity.
Qed.

Lemma iwc_loop A (Q : val -> A) kerr x y w h pos : forall ps sh k,
  exists sh',
    gen_iter (fun v rho k' => exec_block O A (fun _ v => Q v) kerr iwc_loop_body (update "%item" v rho) k')
             (map varea ps) (imk x y w h pos sh) k
    = if intersect_with_children (x, y, w, h) ps then Q (VBool true) else k (imk x y w h pos sh').
Proof.
  induction ps as [|p ps IH]; intros sh k; [exists sh; reflexivity|].
  cbn [map gen_iter]. rewrite iwc_step. unfold intersect_with_children. cbn [existsb].
  destruct (area_meets (x, y, w, h) p); [exists sh; reflexivity|]. apply IH.
Qed.

Lemma gen_intersect_with_children_c x y w h (ps : list area) :
  run O grid_intersect_with_children_body
    [("x", vint x); ("y", vint y); ("width", vint w); ("height", vint h); ("positions", VList (map varea ps))]
    (fun _ r => r = Some (VBool (intersect_with_children (x, y, w, h) ps))) (fun _ => False).
Proof.
  unfold run, grid_intersect_with_children_body.
  set (R := VBool _).
  set (rho0 := [("x", vint x); ("y", vint y); ("width", vint w); ("height", vint h);
                ("positions", VList (map varea ps))]).
  change (exec O Prop (fun _ v0 => Some v0 = Some R) (fun _ => False)
            (SFor "%item" (EVar "positions") iwc_loop_body) rho0
            (fun rho => if flowing rho then None = Some R else Some (VBool false) = Some R)).
  rewrite (exec_for O0 (cspec O0 c) Prop _ _ "%item" "positions" iwc_loop_body rho0 _ (map varea ps) eq_refl).
  destruct (iwc_loop Prop (fun v => Some v = Some R) (fun _ => False) x y w h (VList (map varea ps)) ps I0
              (fun rho => if flowing rho then None = Some R else Some (VBool false) = Some R)) as [sh' E].
  change (imk x y w h (VList (map varea ps)) I0) with rho0 in E.
  cbv beta in E. unfold O in *. refine (eq_ind_r (fun P : Prop => P) _ E). subst R.
  destruct (intersect_with_children (x, y, w, h) ps); [reflexivity|].
  destruct sh'; reflexivity.
Qed.
End Callers.

(* _intersect_with_children of the source, its calls of _intersect answered by the source's own _intersect (linked),
   is the model's intersect_with_children, for every area and every list of placed areas *)
Theorem gen_intersect_with_children n x y w h (ps : list area) :
  run (linked T (S n)) grid_intersect_with_children_body
    [("x", vint x); ("y", vint y); ("width", vint w); ("height", vint h); ("positions", VList (map varea ps))]
    (fun _ r => r = Some (VBool (intersect_with_children (x, y, w, h) ps))) (fun _ => False).
Proof.
  unfold linked. rewrite <- (run_ext real_ops (cspec real_ops (link T (S n))) (link T (S n))); [|apply cspec_linked].
  apply gen_intersect_with_children_c. apply real_ok.
Qed.
