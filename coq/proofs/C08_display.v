(* C08 - proofs about the display / float / box class model (model/C08Display.v). *)
From Coq Require Import Bool List.
Require Import WV.model.C08Display.
Import ListNotations.

(* computed display is the CSS 2.1 9.7 table for every value whose inner display type survives *)
Lemma css21_9_7_table p f root v :
  keeps_inner v = true -> display p f root v = css_display p f root v.
Proof.
  destruct p, f, root, v as [|t|[] [] li]; simpl; intros H; try reflexivity; discriminate.
Qed.

Example css21_9_7_table_ex :
  display PAbsolute FNone false (DPart Cell) = DPair OBlock Flow false /\
  display PStatic FLeft false (DPair OInline FlowRoot false) = DPair OBlock Flow false /\
  display PStatic FNone true (DPair OInline Flow true) = DPair OBlock Flow true /\
  display PRelative FNone false (DPair OInline Flow false) = DPair OInline Flow false.
Proof. repeat split. Qed.

(* ... and it is not for inline-table / inline-flex / inline-grid: the inner display type is lost *)
Lemma css21_9_7_table_refuted :
  exists p f root v, display p f root v <> css_display p f root v /\
                     box_class (display p f root v) = Some BlockBox /\ box_class (css_display p f root v) = Some FlexBox.
Proof.
  exists PStatic, FLeft, false, (DPair OInline Flex false). simpl. split; [discriminate|auto].
Qed.

(* the only values on which they differ *)
Lemma css21_9_7_table_differs_only p f root v :
  display p f root v <> css_display p f root v -> keeps_inner v = false /\ blockifies p f root = true.
Proof.
  intros H. destruct (keeps_inner v) eqn:E; [exfalso; apply H; apply css21_9_7_table; exact E|].
  split; [reflexivity|]. destruct (blockifies p f root) eqn:B; [reflexivity|]. exfalso. apply H.
  unfold display. rewrite B. destruct p, f, root, v as [|t|[] [] li]; simpl in *; try reflexivity; discriminate.
Qed.

Lemma float_9_7 p f :
  compute_float p f = match p with PAbsolute | PFixed | PRunning => FNone | _ => f end.
Proof. reflexivity. Qed.

(* after the computation an out-of-flow or root box is never inline-level nor an internal table box *)
Lemma blockified_is_block_level p f root v c :
  blockifies p f root = true -> box_class (display p f root v) = Some c -> block_level c = true.
Proof.
  unfold display. intros -> H. destruct v as [|t|[] [] li]; simpl in H; try discriminate; injection H as <-; reflexivity.
Qed.

(* BOX_TYPE_FROM_DISPLAY: outer display type <-> level of the class, inner display type <-> kind of container *)
Lemma box_class_level o i li c :
  box_class (DPair o i li) = Some c ->
  match o with
  | OBlock => block_level c = true /\ inline_level c = false
  | OInline => match i with ITable => c = InlineTableBox | _ => inline_level c = true /\ block_level c = false end
  end.
Proof. destruct o, i; simpl; intros H; injection H as <-; auto. Qed.

Example box_class_ex : box_class (DPair OInline Grid false) = Some InlineGridBox /\ box_class (DPart HeaderGroup) = Some TableRowGroupBox.
Proof. split; reflexivity. Qed.
