(* C08 - proofs about the display / float / box class model (model/C08Display.v). *)
From Coq Require Import Bool List.
Require Import WV.model.C08Display.
Import ListNotations.

(* computed display is the CSS 2.1 9.7 table (with the later values: CSS Display 3 2.7) for every value the validator
   can produce *)
Lemma css21_9_7_table p f root v :
  valid_disp v = true -> display p f root v = css_display p f root v.
Proof.
  destruct p, f, root, v as [|t|[] [] []]; simpl; intros H; try reflexivity; discriminate.
Qed.

Example css21_9_7_table_ex :
  display PAbsolute FNone false (DPart Cell) = DPair OBlock Flow false /\
  display PStatic FLeft false (DPair OInline FlowRoot false) = DPair OBlock Flow false /\
  display PStatic FNone true (DPair OInline Flow true) = DPair OBlock Flow true /\
  display PStatic FLeft false (DPair OInline Flex false) = DPair OBlock Flex false /\
  display PFixed FNone false (DPair OInline ITable false) = DPair OBlock ITable false /\
  display PRelative FNone false (DPair OInline Flow false) = DPair OInline Flow false.
Proof. repeat split. Qed.

(* in particular a floated / absolutely positioned / root inline-flex, inline-grid, inline-table box keeps its inner
   display type and gets the flex / grid / table box class (repaired defect F153) *)
Lemma blockified_keeps_inner p f root i :
  blockifies p f root = true ->
  box_class (display p f root (DPair OInline i false)) = box_class (DPair OBlock (match i with FlowRoot => Flow | _ => i end) false).
Proof. unfold display. intros ->. destruct i; reflexivity. Qed.

Lemma float_9_7 p f :
  compute_float p f = match p with PAbsolute | PFixed | PRunning => FNone | _ => f end.
Proof. reflexivity. Qed.

(* after the computation an out-of-flow or root box is never inline-level nor an internal table box *)
Lemma blockified_is_block_level p f root v c :
  blockifies p f root = true -> box_class (display p f root v) = Some c -> block_level c = true.
Proof.
  unfold display. intros -> H. destruct v as [|t|[] [] []]; simpl in H; try discriminate; injection H as <-; reflexivity.
Qed.

(* BOX_TYPE_FROM_DISPLAY: outer display type <-> level of the class, inner display type <-> kind of container *)
Lemma box_class_level o i li c :
  box_class (DPair o i li) = Some c ->
  match o with
  | OBlock => block_level c = true /\ inline_level c = false
  | OInline => match i with ITable => c = InlineTableBox | _ => inline_level c = true /\ block_level c = false end
  end.
Proof. destruct o, i; simpl; intros H; injection H as <-; auto. Qed.

Example box_class_ex : box_class (DPair OInline Grid false) = Some InlineGridBox /\ box_class (DPart HeaderGroup) = Some TableRowGroupBox.
Proof. split; reflexivity. Qed.
