(* C17 - the contribution of a subtree, expressed with the collections of the specification:
   child contexts = parts, block_level_boxes = flow_blocks, float_contexts = flow_floats,
   blocks_and_cells = flow_containers, remaining children = those that stay. *)
From Coq Require Import ZArith List Bool Lia.
Require Import WV.model.C17Stacking WV.model.C17Spec WV.proofs.C17_dispatch.
Import ListNotations.
Open Scope Z_scope.

Definition nk_of (b : box) : list pnode := fst (fd_children b).
Definition d_of (b : box) : dst := snd (fd_children b).
Definition real_node (b : box) : pnode :=
  mk_ctx (binfo b) (nk_of b) (s_cc (d_of b)) (s_bl (d_of b)) (s_fl (d_of b)) (s_bc (d_of b)).
Definition fake_node (b : box) : pnode :=
  mk_ctx (binfo b) (nk_of b) [] (s_bl (d_of b)) (s_fl (d_of b)) (s_bc (d_of b)).
Definition node_of (b : box) : pnode := if creates_ctx (binfo b) then real_node b else fake_node b.
Definition pb_of (b : box) : pnode := PB (binfo b) (nk_of b).
Definition tree_of (b : box) : pnode := if atomic (binfo b) then fake_node b else pb_of b.

Lemma creates_defines i : creates_ctx i = defines_ctx i.
Proof. reflexivity. Qed.

Lemma from_box_real b : from_box b = real_node b.
Proof. rewrite from_box_fd. reflexivity. Qed.

Lemma map_opt_cons {A B} (f : A -> B) (c : bool) x l :
  opt_cons (if c then Some (f x) else None) (map f l) = map f (if c then x :: l else l).
Proof. destruct c; reflexivity. Qed.

Definition shape (b : box) : option pnode * dst :=
  (if stays b then Some (tree_of b) else None,
   mkS (map node_of (parts b)) (map pb_of (flow_blocks b)) (map fake_node (flow_floats b))
       (map pb_of (flow_containers b))).
Definition shape_l (l : list box) : list pnode * dst :=
  (map tree_of (filter stays l),
   mkS (map node_of (flat_map parts l)) (map pb_of (flat_map flow_blocks l))
       (map fake_node (flat_map flow_floats l)) (map pb_of (flat_map flow_containers l))).

Lemma fdl_shape_from l : Forall (fun b => fd b = shape b) l -> fdl l = shape_l l.
Proof.
  induction 1 as [|k r Hk _ IHr]; [reflexivity|].
  simpl fdl. rewrite Hk, IHr. unfold shape, shape_l, sapp. simpl.
  rewrite !flat_map_cons || idtac. rewrite !map_app.
  destruct (stays k); reflexivity.
Qed.

Theorem fd_shape b : fd b = shape b.
Proof.
  induction b as [i kids IH] using box_ind'.
  pose proof (fdl_shape_from kids IH) as L. clear IH.
  rewrite fd_eq. unfold shape.
  assert (Hch : fd_children (Box i kids) = (nk_of (Box i kids), d_of (Box i kids))).
  { unfold nk_of, d_of. now destruct (fd_children (Box i kids)). }
  assert (Hd : is_parent (knd i) = true -> d_of (Box i kids) = snd (shape_l kids)).
  { intros Hp. unfold d_of, fd_children. simpl. rewrite Hp, L. reflexivity. }
  assert (Hd0 : is_parent (knd i) = false -> d_of (Box i kids) = st0).
  { intros Hp. unfold d_of, fd_children. simpl. now rewrite Hp. }
  assert (Hcc : s_cc (d_of (Box i kids)) = map node_of (if is_parent (knd i) then flat_map parts kids else [])).
  { destruct (is_parent (knd i)) eqn:Hp; [now rewrite (Hd eq_refl)|now rewrite (Hd0 eq_refl)]. }
  assert (Hbl : s_bl (d_of (Box i kids)) = map pb_of (if is_parent (knd i) then flat_map flow_blocks kids else [])).
  { destruct (is_parent (knd i)) eqn:Hp; [now rewrite (Hd eq_refl)|now rewrite (Hd0 eq_refl)]. }
  assert (Hfl : s_fl (d_of (Box i kids)) = map fake_node (if is_parent (knd i) then flat_map flow_floats kids else [])).
  { destruct (is_parent (knd i)) eqn:Hp; [now rewrite (Hd eq_refl)|now rewrite (Hd0 eq_refl)]. }
  assert (Hbc : s_bc (d_of (Box i kids)) = map pb_of (if is_parent (knd i) then flat_map flow_containers kids else [])).
  { destruct (is_parent (knd i)) eqn:Hp; [now rewrite (Hd eq_refl)|now rewrite (Hd0 eq_refl)]. }
  assert (Nreal : defines_ctx i = true -> node_of (Box i kids) = real_node (Box i kids)).
  { intros H. unfold node_of. simpl binfo. change (creates_ctx i) with (defines_ctx i). now rewrite H. }
  assert (Nfake : defines_ctx i = false -> node_of (Box i kids) = fake_node (Box i kids)).
  { intros H. unfold node_of. simpl binfo. change (creates_ctx i) with (defines_ctx i). now rewrite H. }
  unfold fd_node, stays, tree_of, in_flow, atomic, is_float, out_of_flow.
  change (fst (fd_children (Box i kids))) with (nk_of (Box i kids)).
  change (snd (fd_children (Box i kids))) with (d_of (Box i kids)).
  simpl binfo. simpl parts. simpl flow_blocks. simpl flow_floats. simpl flow_containers.
  unfold in_flow, is_float, out_of_flow, positioned. change (creates_ctx i) with (defines_ctx i).
  destruct (defines_ctx i) eqn:Hc; simpl.
  { rewrite (Nreal eq_refl). reflexivity. }
  destruct (static i) eqn:Hs; simpl.
  2:{ rewrite (Nfake eq_refl), Hcc. reflexivity. }
  destruct (flt i) eqn:Hf; simpl.
  { rewrite Hcc. reflexivity. }
  destruct (stacking_class (knd i)) eqn:Hk; simpl.
  { rewrite Hcc. reflexivity. }
  rewrite Hcc, Hbl, Hfl, Hbc. unfold pb_of at 1 2 3. simpl binfo.
  destruct (block_level (knd i)); simpl; [reflexivity|]. destruct (is_cell (knd i)); reflexivity.
Qed.

Lemma fdl_shape l : fdl l = shape_l l.
Proof. apply fdl_shape_from. apply Forall_forall. intros b _. apply fd_shape. Qed.

(* the children and the four lists of the context made for a box *)
Lemma children_shape b :
  is_parent (knd (binfo b)) = true ->
  nk_of b = map tree_of (filter stays (bkids b)) /\
  s_cc (d_of b) = map node_of (flat_map parts (bkids b)) /\
  s_bl (d_of b) = map pb_of (flat_map flow_blocks (bkids b)) /\
  s_fl (d_of b) = map fake_node (flat_map flow_floats (bkids b)) /\
  s_bc (d_of b) = map pb_of (flat_map flow_containers (bkids b)).
Proof.
  intros Hp. unfold nk_of, d_of, fd_children. rewrite Hp, fdl_shape. repeat split.
Qed.

Lemma children_shape_leaf b :
  is_parent (knd (binfo b)) = false ->
  nk_of b = map embed (bkids b) /\ d_of b = st0.
Proof. intros Hp. unfold nk_of, d_of, fd_children. rewrite Hp. split; reflexivity. Qed.
