(* C06 - the hypotheses of the cascade theorems are satisfiable by non-trivial inputs. *)
From Coq Require Import ZArith List Bool String Lia.
Require Import WV.model.C06Cascade WV.proofs.C06_cascade WV.proofs.C06_order.
Import ListNotations.
Open Scope Z_scope.

(* one element, property 1:
   style="p1: 10"                                     (author, +inf)
   sheet 0 (user agent)      *   { p1: 20 !important }   order 1
   sheet 1 (author <style>)  #a  { p1: 30 }              order 2,  .c { p1: 31 }  order 1,  .d { p1: 32; p1: 33 } order 3
   sheet 2 (author <link>)   .e  { p1: 40 }              order 1
   sheet 3 (user)            #a  { p1: 50 }              order 1
   -> the style attribute wins; without it  #a {p1: 30}; among the class rules the <link> one, then .d's second. *)
Definition r (v : Z) (i : bool) : rdecl Z := mkr 1 v i.
Definition ex_sheets : list (sheet Z) :=
  [ (UA, None, [(sel 0 0 0, 1, 0, [r 20 true])]);
    (Author, None, [(sel 1 0 0, 2, 0, [r 30 false]); (sel 0 1 0, 1, 0, [r 31 false]);
                    (sel 0 1 0, 3, 0, [r 32 false; r 33 false])]);
    (Author, None, [(sel 0 1 0, 1, 0, [r 40 false])]);
    (User, None, [(sel 1 0 0, 1, 0, [r 50 false])]) ].

Example ex_style_attr_wins :
  cascaded_value (element_cascade 0 [(style_attr_spec, [r 10 false])] ex_sheets) 1 = Some 10.
Proof. reflexivity. Qed.
Example ex_id_wins : cascaded_value (element_cascade 0 [] ex_sheets) 1 = Some 30.
Proof. reflexivity. Qed.
Example ex_orders_distinct : orders_distinct ex_sheets.
Proof. unfold orders_distinct, ex_sheets. repeat constructor; simpl; intuition; discriminate. Qed.

(* equal weights across sheets and rules: later sheet wins *)
Definition ex_classes : list (sheet Z) :=
  [ (Author, None, [(sel 0 1 0, 1, 0, [r 31 false]); (sel 0 1 0, 3, 0, [r 32 false; r 33 false])]);
    (Author, None, [(sel 0 1 0, 1, 0, [r 40 false])]) ].
Example ex_later_sheet_wins : cascaded_value (element_cascade 0 [] ex_classes) 1 = Some 40.
Proof. reflexivity. Qed.
Example ex_later_declaration_wins :
  cascaded_value (element_cascade 0 [] [hd (UA, None, []) ex_classes]) 1 = Some 33.
Proof. reflexivity. Qed.
Example ex_equal_weights_exist :
  exists d w, In d (app_seq 0 [] ex_classes) /\ get (element_cascade 0 [] ex_classes) 1 = Some w /\
              d <> w /\ d_name d = 1 /\ weight_of d = weight_of w /\ pos_le d w.
Proof.
  eexists (mkdecl Author false (sel 0 1 0) 0 (sel 0 1 0) 3 1 1 33), _.
  split; [simpl; auto 10|]. split; [reflexivity|]. split; [discriminate|]. split; [reflexivity|].
  split; [reflexivity|]. unfold pos_le; simpl. left; lia.
Qed.

(* an important author declaration beats the style attribute; the user's important one beats both *)
Example ex_important :
  cascaded_value
    (element_cascade 0 [(style_attr_spec, [r 10 false])]
       [(Author, None, [(sel 0 0 1, 1, 0, [r 60 true])]); (User, None, [(sel 0 0 0, 1, 0, [r 70 true])])]) 1
  = Some 70 /\
  cascaded_value
    (element_cascade 0 [(style_attr_spec, [r 10 false])] [(Author, None, [(sel 0 0 1, 1, 0, [r 60 true])])]) 1
  = Some 60.
Proof. split; reflexivity. Qed.

(* presentational hints: attribute hints and the hints sheet weigh (0,0,0); a later author `*` rule wins, and
   selectors of the hints sheet do not count *)
Example ex_hints :
  cascaded_value
    (element_cascade 0 [(hint_spec, [r 80 false])]
       [(Author, Some hint_spec, [(sel 0 1 1, 1, 0, [r 81 false])]); (Author, None, [(sel 0 0 0, 1, 0, [r 82 false])])]) 1
  = Some 82.
Proof. reflexivity. Qed.

(* a pseudo-element has its own cascade and does not see the style attribute *)
Example ex_pseudo :
  cascaded_value
    (element_cascade 1 [(style_attr_spec, [r 10 false])]
       [(Author, None, [(sel 0 0 2, 1, 1, [r 90 false]); (sel 1 0 0, 2, 0, [r 91 false])])]) 1 = Some 90.
Proof. reflexivity. Qed.

(* @page: margin-top (1) from  @page {1: 5}  @page :first {1: 6} (matches)  @page :left {1: 7} (does not match) *)
Example ex_page :
  cascaded_value
    (page_cascade 0 [(Author, None, [([(sel 0 1 0, 0, true)], [r 6 false]); ([(sel 0 0 0, 0, true)], [r 5 false]);
                                     ([(sel 0 0 1, 0, false)], [r 7 true])])]) 1 = Some 6.
Proof. reflexivity. Qed.
