(* C09 - proofs about line offsets (text_align, justification, rtl mirror) and vertical stacking. *)
From Coq Require Import ZArith QArith Qminmax Lqa List Bool Lia.
Require Import WV.model.C09Align.
Import ListNotations.
Open Scope Q_scope.

Lemma Qle_bool_false a b : Qle_bool a b = false -> b < a.
Proof.
  intros H. destruct (Qlt_le_dec b a) as [Hlt|Hle]; [exact Hlt|].
  apply Qle_bool_iff in Hle. congruence.
Qed.

(* ------------------------------------------------------------------------------------------ text_align *)
Lemma text_align_bounds w av a l rtl col last :
  let o := fst (text_align w av a l rtl col last) in
  0 <= o /\ (w <= av -> o <= av - w) /\ (av <= w -> o == 0).
Proof.
  unfold text_align. destruct (Qle_bool av w) eqn:E.
  - apply Qle_bool_iff in E. simpl. repeat split; intros; lra.
  - apply Qle_bool_false in E.
    set (a1 := if last then match l with LAuto => a | LSome x => x end else a).
    destruct a1, rtl; simpl; repeat split; intros; try lra;
      try (apply Qle_shift_div_l; lra); try (apply Qle_shift_div_r; lra); try (field_simplify; lra).
    all: try (unfold Qdiv; nra).
Qed.

Definition effective (a : align) (l : align_last) (last : bool) : align :=
  if last then match l with LAuto => a | LSome x => x end else a.

Lemma text_align_center w av a l rtl col last :
  effective a l last = ACenter -> w < av ->
  let o := fst (text_align w av a l rtl col last) in
  o == (av - w) / 2 /\ o + w + o == av.
Proof.
  unfold effective, text_align. intros He Hlt.
  destruct (Qle_bool av w) eqn:E. { apply Qle_bool_iff in E. lra. }
  rewrite He. simpl. split; [reflexivity | field].
Qed.

Lemma text_align_end w av a l col last :
  w < av -> (effective a l last = AEnd \/ effective a l last = ARight) ->
  fst (text_align w av a l false col last) + w == av.
Proof.
  unfold effective, text_align. intros Hlt He.
  destruct (Qle_bool av w) eqn:E. { apply Qle_bool_iff in E. lra. }
  destruct He as [He|He]; rewrite He; simpl; ring.
Qed.

(* left/right are physical: in rtl `left` is the end side and `right` the start side *)
Lemma text_align_left_right_physical w av l col rtl :
  w < av ->
  line_left rtl (if rtl then av else 0) (fst (text_align w av ALeft l rtl col false)) w == 0 /\
  line_left rtl (if rtl then av else 0) (fst (text_align w av ARight l rtl col false)) w + w == av.
Proof.
  intros Hlt. unfold text_align, line_left.
  destruct (Qle_bool av w) eqn:E. { apply Qle_bool_iff in E. lra. }
  destruct rtl; simpl; split; ring.
Qed.

(* the line box lies inside [left bound, left bound + available] in both directions *)
Lemma line_inside_block rtl x w av a l col last :
  w <= av ->
  let o := fst (text_align w av a l rtl col last) in
  let left := line_left rtl (if rtl then x + av else x) o w in
  x <= left /\ left + w <= x + av.
Proof.
  intros Hw o left.
  destruct (text_align_bounds w av a l rtl col last) as (H0 & H1 & _). fold o in H0, H1.
  specialize (H1 Hw). unfold left, line_left. destruct rtl; split; lra.
Qed.

(* rtl is the mirror image of ltr: same distance from the start edge *)
Lemma rtl_mirror x w av o :
  line_left true (x + av) o w + w == x + av - o /\ line_left false x o w == x + o.
Proof. unfold line_left. split; ring. Qed.

(* ------------------------------------------------------------------------------------ add_word_spacing *)
Section ibox_induction.
  Variable P : ibox -> Prop.
  Hypothesis HT : forall n x w js, P (T n x w js).
  Hypothesis HI : forall rtl x w kids, Forall P kids -> P (I rtl x w kids).
  Hypothesis HA : forall x w ins, Forall P ins -> P (A x w ins).
  Hypothesis HF : forall x w, P (F x w).
  Fixpoint ibox_ind' (b : ibox) : P b :=
    match b with
    | T n x w js => HT n x w js
    | I rtl x w kids =>
        HI rtl x w kids ((fix go (l : list ibox) : Forall P l :=
                            match l with [] => Forall_nil P | k :: r => Forall_cons k (ibox_ind' k) (go r) end) kids)
    | A x w ins =>
        HA x w ins ((fix go (l : list ibox) : Forall P l :=
                       match l with [] => Forall_nil P | k :: r => Forall_cons k (ibox_ind' k) (go r) end) ins)
    | F x w => HF x w
    end.
End ibox_induction.

Definition nq (n : nat) : Q := inject_Z (Z.of_nat n).
Lemma nq_add a b : nq (a + b) == nq a + nq b.
Proof. unfold nq. rewrite Nat2Z.inj_add, inject_Z_plus. reflexivity. Qed.

Definition moved (b : ibox) : bool := match b with F _ _ => false | _ => true end.

Definition aws_ok (b : ibox) : Prop :=
  forall js adv, let '(b', a') := add_word_spacing b js adv in
    a' == adv + js * nq (count_spaces b) /\
    box_w b' == box_w b + js * nq (count_spaces b) /\
    (if moved b then box_x b' == box_x b + adv else box_x b' == box_x b) /\
    count_spaces b' = count_spaces b /\ moved b' = moved b.

Definition awsf (js : Q) := fun k a => add_word_spacing k js a.
Lemma aws_I rtl x w kids js adv :
  add_word_spacing (I rtl x w kids) js adv =
  let '(kids', a') := if rtl then rtl_go (awsf js) kids adv else ltr_go (awsf js) kids adv in
  (I rtl (x + adv) (w + (a' - adv)) kids', a').
Proof. reflexivity. Qed.

Definition count_list (l : list ibox) : nat := fold_right (fun k acc => (count_spaces k + acc)%nat) O l.

Lemma ltr_go_spec js l : Forall aws_ok l -> forall a,
  let '(l', a') := ltr_go (awsf js) l a in a' == a + js * nq (count_list l) /\ count_list l' = count_list l.
Proof.
  induction 1 as [|k r Hk Hr IH]; intros a; simpl.
  - split; [unfold nq; simpl; ring | reflexivity].
  - specialize (Hk js a). change (awsf js k a) with (add_word_spacing k js a).
    destruct (add_word_spacing k js a) as [k' a1].
    destruct Hk as (Ha1 & _ & _ & Hc & _).
    specialize (IH a1). destruct (ltr_go (awsf js) r a1) as [r' a2]. destruct IH as (Ha2 & Hc2).
    split. { rewrite Ha2, Ha1, nq_add. ring. } simpl. congruence.
Qed.
Lemma rtl_go_spec js l : Forall aws_ok l -> forall a,
  let '(l', a') := rtl_go (awsf js) l a in a' == a + js * nq (count_list l) /\ count_list l' = count_list l.
Proof.
  induction 1 as [|k r Hk Hr IH]; intros a; simpl.
  - split; [unfold nq; simpl; ring | reflexivity].
  - specialize (IH a). destruct (rtl_go (awsf js) r a) as [r' a1]. destruct IH as (Ha1 & Hc1).
    specialize (Hk js a1). change (awsf js k a1) with (add_word_spacing k js a1).
    destruct (add_word_spacing k js a1) as [k' a2].
    destruct Hk as (Ha2 & _ & _ & Hc & _).
    split. { rewrite Ha2, Ha1, nq_add. ring. } simpl. congruence.
Qed.

Lemma aws_spec : forall b, aws_ok b.
Proof.
  induction b using ibox_ind'; unfold aws_ok; intros js0 adv.
  - simpl. destruct (0 <? n)%nat eqn:E; simpl.
    + repeat split; try reflexivity.
    + apply Nat.ltb_ge in E. assert (n = O) by lia. subst. unfold nq. simpl. repeat split; try reflexivity; ring.
  - rewrite aws_I. destruct rtl.
    + pose proof (rtl_go_spec js0 kids H adv) as S. destruct (rtl_go (awsf js0) kids adv) as [kids' a'].
      destruct S as (Ha & Hc). simpl. fold (count_list kids). fold (count_list kids').
      repeat split; try reflexivity; try assumption. rewrite Ha. ring.
    + pose proof (ltr_go_spec js0 kids H adv) as S. destruct (ltr_go (awsf js0) kids adv) as [kids' a'].
      destruct S as (Ha & Hc). simpl. fold (count_list kids). fold (count_list kids').
      repeat split; try reflexivity; try assumption. rewrite Ha. ring.
  - simpl. unfold nq. simpl. repeat split; try reflexivity; ring.
  - simpl. unfold nq. simpl. repeat split; try reflexivity; ring.
Qed.

(* after justification the content of the line fills the available width *)
Lemma justify_fills line extra :
  (0 < count_spaces line)%nat -> box_w (justify_line line extra) == box_w line + extra.
Proof.
  intros Hn. unfold justify_line. destruct (0 <? count_spaces line)%nat eqn:E.
  2:{ apply Nat.ltb_ge in E. lia. }
  pose proof (aws_spec line (extra / inject_Z (Z.of_nat (count_spaces line))) 0) as S.
  destruct (add_word_spacing line _ 0) as [b' a']. destruct S as (_ & Hw & _). simpl. rewrite Hw.
  unfold nq. assert (0 < inject_Z (Z.of_nat (count_spaces line))).
  { change 0 with (inject_Z 0). rewrite <- Zlt_Qlt. lia. }
  field. lra.
Qed.

Lemma justify_no_space line extra :
  count_spaces line = O -> justify_line line extra = line.
Proof. intros H. unfold justify_line. rewrite H. reflexivity. Qed.

(* siblings laid side by side stay side by side (ltr inline box): no gap, no overlap is introduced *)
Fixpoint adjacent (x : Q) (l : list ibox) : Prop :=
  match l with
  | [] => True
  | k :: r => (if moved k then box_x k == x /\ adjacent (x + box_w k) r else adjacent x r)
  end.

Lemma ltr_go_adjacent js l : forall x a,
  adjacent x l -> adjacent (x + a) (fst (ltr_go (awsf js) l a)).
Proof.
  induction l as [|k r IH]; intros x a Hadj; simpl; [exact Logic.I|].
  pose proof (aws_spec k js a) as S. change (awsf js k a) with (add_word_spacing k js a).
  destruct (add_word_spacing k js a) as [k' a1].
  destruct S as (Ha1 & Hw & Hx & _ & Hm).
  specialize (IH (if moved k then x + box_w k else x) a1).
  destruct (ltr_go (awsf js) r a1) as [r' a2]. simpl in *. rewrite Hm.
  destruct (moved k) eqn:Em.
  - destruct Hadj as (Hkx & Hr). split. { rewrite Hx, Hkx. reflexivity. }
    specialize (IH Hr). simpl in IH.
    assert (E : x + a + box_w k' == x + box_w k + a1) by (rewrite Hw, Ha1; ring).
    clear - IH E. revert IH. generalize (x + box_w k + a1) (x + a + box_w k') E. clear.
    induction r' as [|q r IHr]; intros u v E H; simpl in *; [exact Logic.I|].
    destruct (moved q).
    + destruct H as (H1 & H2). split. { rewrite H1. symmetry. exact E. }
      eapply IHr; [|exact H2]. rewrite E. reflexivity.
    + eapply IHr; eauto.
  - specialize (IH Hadj). simpl in IH.
    assert (E : x + a == x + a1).
    { rewrite Ha1. destruct k; simpl in Em; try discriminate. unfold nq. simpl. ring. }
    clear - IH E. revert IH. generalize (x + a1) (x + a) E. clear.
    induction r' as [|q r IHr]; intros u v E H; simpl in *; [exact Logic.I|].
    destruct (moved q).
    + destruct H as (H1 & H2). split. { rewrite H1. symmetry. exact E. }
      eapply IHr; [|exact H2]. rewrite E. reflexivity.
    + eapply IHr; eauto.
Qed.

(* ------------------------------------------------------------ descendants of atomic boxes move with their box *)
Fixpoint nested_list (l : list ibox) : Prop := match l with [] => True | k :: r => well_nested k /\ nested_list r end.
Fixpoint inside_list (x w : Q) (l : list ibox) : Prop :=
  match l with
  | [] => True
  | d :: r => (x <= box_x d /\ box_x d + box_w d <= x + w /\ well_nested d) /\ inside_list x w r
  end.
Lemma well_nested_A x w ins : well_nested (A x w ins) = inside_list x w ins.
Proof. simpl. induction ins; [reflexivity|]. simpl. rewrite IHins. reflexivity. Qed.
Lemma well_nested_I r x w kids : well_nested (I r x w kids) = nested_list kids.
Proof. simpl. induction kids; [reflexivity|]. simpl. rewrite IHkids. reflexivity. Qed.

Lemma shift_x d b : box_x (shift d b) = box_x b + d.
Proof. destruct b; reflexivity. Qed.
Lemma shift_w d b : box_w (shift d b) = box_w b.
Proof. destruct b; reflexivity. Qed.

(* translate keeps everything that is inside a box inside it *)
Lemma well_nested_shift d : forall b, well_nested b -> well_nested (shift d b).
Proof.
  induction b using ibox_ind'; intros Hb; try exact Logic.I.
  - cbn [shift]. rewrite well_nested_I in *. induction H as [|k r Hk Hr IH]; [exact Logic.I|].
    destruct Hb as [Hk1 Hr1]. cbn [map nested_list]. split; [apply Hk; exact Hk1|apply IH; exact Hr1].
  - cbn [shift]. rewrite well_nested_A in *. induction H as [|k r Hk Hr IH]; [exact Logic.I|].
    destruct Hb as [(Hx1 & Hx2 & Hk1) Hr1]. cbn [map inside_list]. split; [|apply IH; exact Hr1].
    rewrite shift_x, shift_w. repeat split; [lra|lra|apply Hk; exact Hk1].
Qed.

(* the offsets of the descendants relative to their box are unchanged by add_word_spacing *)
Lemma aws_atomic_moves_descendants x w ins js adv :
  fst (add_word_spacing (A x w ins) js adv) = A (x + adv) w (map (shift adv) ins) /\
  map (fun d => box_x d - (x + adv)) (map (shift adv) ins) = map (fun d => box_x d + adv - (x + adv)) ins.
Proof. split; [reflexivity|]. rewrite map_map. apply map_ext. intros d. rewrite shift_x. reflexivity. Qed.

Lemma go_nested js l : Forall (fun k => forall adv, well_nested k -> well_nested (fst (add_word_spacing k js adv))) l ->
  forall a, nested_list l -> nested_list (fst (ltr_go (awsf js) l a)) /\ nested_list (fst (rtl_go (awsf js) l a)).
Proof.
  induction 1 as [|k r Hk Hr IH]; intros a Hn; [split; exact Logic.I|].
  destruct Hn as [Hk1 Hr1]. cbn [ltr_go rtl_go]. split.
  - change (awsf js k a) with (add_word_spacing k js a). pose proof (Hk a Hk1) as Hka.
    destruct (add_word_spacing k js a) as [k' a1]. destruct (IH a1 Hr1) as [IHl _].
    destruct (ltr_go (awsf js) r a1) as [r' a2]. cbn [fst nested_list] in *. split; assumption.
  - destruct (IH a Hr1) as [_ IHr]. destruct (rtl_go (awsf js) r a) as [r' a1].
    change (awsf js k a1) with (add_word_spacing k js a1). pose proof (Hk a1 Hk1) as Hka.
    destruct (add_word_spacing k js a1) as [k' a2]. cbn [fst nested_list] in *. split; assumption.
Qed.

(* after add_word_spacing / justification every descendant of every atomic box of the line is still inside its box *)
Lemma aws_well_nested : forall b js adv, well_nested b -> well_nested (fst (add_word_spacing b js adv)).
Proof.
  induction b using ibox_ind'; intros js0 adv Hb.
  - simpl. destruct (0 <? n)%nat; exact Logic.I.
  - rewrite aws_I. rewrite well_nested_I in Hb.
    assert (HF : Forall (fun k => forall adv, well_nested k -> well_nested (fst (add_word_spacing k js0 adv))) kids).
    { apply Forall_forall. intros k Hin a Hk. rewrite Forall_forall in H. apply (H k Hin). exact Hk. }
    destruct (go_nested js0 kids HF adv Hb) as [Hl Hr]. destruct rtl.
    + destruct (rtl_go (awsf js0) kids adv) as [kids' a']. cbn [fst] in *. rewrite well_nested_I. exact Hr.
    + destruct (ltr_go (awsf js0) kids adv) as [kids' a']. cbn [fst] in *. rewrite well_nested_I. exact Hl.
  - cbn [add_word_spacing fst]. apply well_nested_shift. exact Hb.
  - exact Logic.I.
Qed.

Lemma justify_well_nested line extra : well_nested line -> well_nested (justify_line line extra).
Proof.
  intros H. unfold justify_line. destruct (0 <? count_spaces line)%nat; [|exact H]. apply aws_well_nested. exact H.
Qed.

(* --------------------------------------------------------------------------------------------- stacking *)
Lemma stack_consecutive hs : forall y i yi hi yj hj,
  nth_error (stack y hs) i = Some (yi, hi) -> nth_error (stack y hs) (S i) = Some (yj, hj) -> yj = yi + hi.
Proof.
  induction hs as [|h r IH]; intros y i yi hi yj hj Hi Hj; [destruct i; discriminate|].
  destruct i; simpl in *.
  - inversion Hi; subst. destruct r; simpl in Hj; [discriminate|]. inversion Hj; subst. reflexivity.
  - eapply IH; eauto.
Qed.

Lemma stack_first y hs y0 h0 : nth_error (stack y hs) 0 = Some (y0, h0) -> y0 = y.
Proof. destruct hs; simpl; [discriminate|]. intros H; inversion H; reflexivity. Qed.

Lemma stack_heights y hs : map snd (stack y hs) = hs.
Proof. revert y. induction hs; intros; simpl; [reflexivity|]. rewrite IHhs. reflexivity. Qed.

Lemma fold_vert_mono children : forall mx mn,
  let '(mx', mn') := fold_left vert_child children (mx, mn) in mx <= mx' /\ mn' <= mn.
Proof.
  induction children as [|c r IH]; intros mx mn; simpl; [split; lra|].
  specialize (IH (Qmax mx (- fst c + snd c)) (Qmin mn (- fst c))).
  destruct (fold_left vert_child r _) as [mx' mn']. destruct IH as (H1 & H2).
  pose proof (Q.le_max_l mx (- fst c + snd c)). pose proof (Q.le_min_l mn (- fst c)). split; lra.
Qed.

(* a line box is never lower than the line-height of its block (the strut) *)
Lemma line_height_ge_strut strut children : snd strut <= line_height_of strut children.
Proof.
  unfold line_height_of, verticality.
  pose proof (fold_vert_mono children (- fst strut + snd strut) (- fst strut)) as H.
  destruct (fold_left vert_child children _) as [mx mn]. destruct H. lra.
Qed.

(* one font size in the paragraph: every child has the strut's baseline and margin height, and then the line
   is exactly one line-height high *)
Lemma fold_vert_uniform b h children : Forall (fun c => fst c == b /\ snd c == h) children ->
  let '(mx, mn) := fold_left vert_child children (- b + h, - b) in mx == - b + h /\ mn == - b.
Proof.
  assert (G : forall mx mn, mx == - b + h -> mn == - b -> Forall (fun c => fst c == b /\ snd c == h) children ->
          let '(mx', mn') := fold_left vert_child children (mx, mn) in mx' == - b + h /\ mn' == - b).
  { induction children as [|c r IH]; intros mx mn Hmx Hmn HF; simpl; [split; assumption|].
    inversion HF as [|? ? (Hb & Hh) HF']; subst. apply IH; [| |exact HF'].
    - apply Q.max_case_strong; [intros u v E Hu; rewrite <- E; exact Hu | intros _; exact Hmx |
        intros _; rewrite Hb, Hh; reflexivity].
    - apply Q.min_case_strong; [intros u v E Hu; rewrite <- E; exact Hu | intros _; exact Hmn |
        intros _; rewrite Hb; reflexivity]. }
  intros HF. apply G; [reflexivity|reflexivity|exact HF].
Qed.

Lemma line_height_uniform strut children :
  Forall (fun c => fst c == fst strut /\ snd c == snd strut) children ->
  line_height_of strut children == snd strut.
Proof.
  intros HF. unfold line_height_of, verticality.
  pose proof (fold_vert_uniform (fst strut) (snd strut) children HF) as H.
  destruct (fold_left vert_child children _) as [mx mn]. destruct H as (H1 & H2). rewrite H1, H2. ring.
Qed.

(* with one font size, line i of a paragraph starts at y0 + i * line-height *)
Lemma stack_uniform lh : forall n y i yi hi,
  nth_error (stack y (repeat lh n)) i = Some (yi, hi) -> yi == y + inject_Z (Z.of_nat i) * lh /\ hi = lh.
Proof.
  induction n as [|n IH]; intros y i yi hi H; [destruct i; discriminate|].
  destruct i; simpl in H.
  - inversion H; subst. split; [simpl; ring|reflexivity].
  - apply IH in H. destruct H as (H1 & H2). split; [|exact H2]. rewrite H1.
    rewrite Nat2Z.inj_succ. unfold Z.succ. rewrite inject_Z_plus. ring.
Qed.

Lemma uniform_lines strut children lh n y i yi hi :
  Forall (fun c => fst c == fst strut /\ snd c == snd strut) children ->
  line_height_of strut children == snd strut /\
  (nth_error (stack y (repeat lh n)) i = Some (yi, hi) -> yi == y + inject_Z (Z.of_nat i) * lh /\ hi = lh).
Proof. intros H. split; [exact (line_height_uniform strut children H) | exact (stack_uniform lh n y i yi hi)]. Qed.

(* ---- the hypotheses are satisfiable *)
Example ex_center : effective ACenter LAuto false = ACenter /\ 30 < 100 /\ fst (text_align 30 100 ACenter LAuto false true false) == 35.
Proof. repeat split; reflexivity. Qed.
Example ex_justify : (0 < count_spaces (I false 0 70 [T 2 0 50 0; A 50 20 []]))%nat /\
  box_w (justify_line (I false 0 70 [T 2 0 50 0; A 50 20 []]) 30) == 100.
Proof. split; [simpl; lia|vm_compute; reflexivity]. Qed.
Example ex_stack : stack 5 [10; 12; 10] = [(5, 10); (5 + 10, 12); (5 + 10 + 12, 10)].
Proof. reflexivity. Qed.
Example ex_uniform : Forall (fun c => fst c == fst (8, 10) /\ snd c == snd (8, 10)) [(8, 10); (8, 10)].
Proof. repeat constructor; reflexivity. Qed.

Example ex_well_nested :
  well_nested (I false 0 70 [T 1 0 30 0; A 30 40 [I false 35 30 [T 0 35 30 0]]]) /\
  justify_line (I false 0 70 [T 1 0 30 0; A 30 40 [I false 35 30 [T 0 35 30 0]]]) 30 =
    fst (add_word_spacing (I false 0 70 [T 1 0 30 0; A 30 40 [I false 35 30 [T 0 35 30 0]]]) (30 / 1) 0).
Proof. split; [simpl; repeat split; try lra; exact Logic.I|reflexivity]. Qed.
