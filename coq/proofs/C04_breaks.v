(* C04: forced breaks stop the page, orphans/widows accounting, page sides. *)
From Coq Require Import ZArith List Bool Lia Arith.
Require Import WV.model.Frag2.
Import ListNotations.
Open Scope nat_scope.

(* ---- orphans / widows: _break_line ---- *)
(* [break_line st n rem pie]: n lines are placed, the current line does not fit, rem lines follow it.
   Some drop: keep n - drop lines on this page; None: the whole paragraph moves (abort). *)
Theorem orphans_widows_kept st n rem pie drop :
  break_line st n rem pie = Some drop -> pie = false ->
  s_orphans st <= n - drop /\ s_widows st <= drop + 1 + rem /\ drop <= n.
Proof.
  intros H ->. unfold break_line in H. cbn [negb] in H. rewrite !andb_true_r in H.
  destruct (Z.of_nat n - Z.of_nat (s_orphans st) <? 0)%Z eqn:E1; [discriminate|].
  apply Z.ltb_ge in E1.
  set (needed := s_widows st - 1 - Nat.min (s_widows st - 1) rem) in *.
  destruct (Z.of_nat n - Z.of_nat (s_orphans st) <? Z.of_nat needed)%Z eqn:E2; [discriminate|].
  apply Z.ltb_ge in E2.
  destruct (negb (needed =? 0) && (Z.of_nat needed <=? Z.of_nat n - Z.of_nat (s_orphans st))%Z) eqn:E3;
    injection H as <-.
  - apply andb_prop in E3. destruct E3 as [_ E3]. apply Z.leb_le in E3. subst needed. lia.
  - apply andb_false_iff in E3. destruct E3 as [E3|E3].
    + apply negb_false_iff, Nat.eqb_eq in E3. subst needed. lia.
    + apply Z.leb_gt in E3. subst needed. lia.
Qed.

(* the constraints are given up only when the page is empty *)
Theorem override_only_when_empty st n rem drop :
  break_line st n rem true = Some drop ->
  (s_orphans st <= n - drop /\ s_widows st <= drop + 1 + rem) \/ drop = 0.
Proof.
  unfold break_line. cbn [negb]. rewrite !andb_false_r.
  set (needed := s_widows st - 1 - Nat.min (s_widows st - 1) rem).
  destruct (negb (needed =? 0) && (Z.of_nat needed <=? Z.of_nat n - Z.of_nat (s_orphans st))%Z) eqn:E3;
    intros H; injection H as <-; [left|right; reflexivity].
  apply andb_prop in E3. destruct E3 as [_ E3]. apply Z.leb_le in E3. subst needed. lia.
Qed.

(* when the paragraph cannot keep [orphans] lines before and [widows] lines after the cut and the page is not
   empty, no line stays: the paragraph is aborted and goes to the next page as a whole *)
Theorem unsatisfiable_moves_whole_paragraph st n rem :
  (n < s_orphans st \/ n + 1 + rem < s_orphans st + s_widows st) -> break_line st n rem false = None.
Proof.
  intros H. unfold break_line. cbn [negb]. rewrite !andb_true_r.
  destruct (Z.of_nat n - Z.of_nat (s_orphans st) <? 0)%Z eqn:E1; [reflexivity|].
  apply Z.ltb_ge in E1.
  destruct (Z.of_nat n - Z.of_nat (s_orphans st) <? Z.of_nat (s_widows st - 1 - Nat.min (s_widows st - 1) rem))%Z eqn:E2;
    [reflexivity|].
  apply Z.ltb_ge in E2. lia.
Qed.

Example break_line_example :
  break_line (mkStyle 0 0 0 0 0 0 BAuto BAuto BAuto 2 3 false) 5 1 false = Some 1.
Proof. reflexivity. Qed.

(* ---- a forced break between two siblings stops the page before the second one ---- *)
Theorem forced_break_stops c rec child cst is_root pie bs index sub s lastf :
  ls_newc s <> [] -> lastf = last (ls_newc s) (FLine 0 0 0 None 0 0) ->
  force (fold_breaks (before_chain (Some lastf) ++ after_chain_box child)) = true ->
  exists s', blk_step c rec child cst is_root pie bs index sub s = SStop (Some (SChild index None)) s' /\
             ls_newc s' = ls_newc s /\
             ls_np s' = Some (fold_breaks (before_chain (Some lastf) ++ after_chain_box child)).
Proof.
  intros Hne -> Hf. unfold blk_step.
  destruct (ls_newc s) as [|f l] eqn:E; [congruence|].
  cbv zeta. rewrite Hf. eexists. split; [reflexivity|]. split; reflexivity.
Qed.

(* ---- page sides ---- *)
(* a blank page is inserted only when the requested side differs from the side of the next page, and the page
   after a blank page is never blank: at most one blank page per forced side break *)
Theorem blank_only_for_side_mismatch ltr np right :
  is_blank ltr np right = true ->
  exists w, want_side ltr np = Some w /\ w <> right.
Proof.
  unfold is_blank. destruct (want_side ltr np) as [w|]; [|discriminate].
  intros H. exists w. split; [reflexivity|]. destruct w, right; simpl in H; congruence.
Qed.

Theorem no_two_blank_pages ltr np right :
  is_blank ltr np right = true -> is_blank ltr np (negb right) = false.
Proof. unfold is_blank. destruct (want_side ltr np) as [[|]|], right; simpl; congruence. Qed.

Theorem forced_side_honoured ltr np right w :
  want_side ltr np = Some w ->
  (* the first non-blank page from here has the requested side *)
  (is_blank ltr np right = false -> right = w) /\
  (is_blank ltr np right = true -> is_blank ltr np (negb right) = false /\ negb right = w).
Proof.
  intros Hw. unfold is_blank. rewrite Hw. destruct w, right; simpl; split; intros H; try discriminate; auto.
Qed.

Theorem recto_verso_sides ltr :
  want_side ltr (Some BRecto) = Some ltr /\ want_side ltr (Some BVerso) = Some (negb ltr) /\
  want_side ltr (Some BRight) = Some true /\ want_side ltr (Some BLeft) = Some false /\
  want_side ltr (Some BPage) = None /\ want_side ltr None = None.
Proof. repeat split. Qed.
