(* C17 - z_ties_by_tree_order: the three buckets are sorted by z-index and, among equal z-index, keep tree order
   (stable sort + "insert at the index seen before the children": a positioned box precedes the contexts found
   among its descendants). *)
From Coq Require Import ZArith List Bool Lia Permutation Sorted.
Require Import WV.model.C17Stacking WV.model.C17Spec.
Require Import WV.proofs.C17_sort WV.proofs.C17_dispatch WV.proofs.C17_partition WV.proofs.C17_collect WV.proofs.C17_aux
  WV.proofs.C17_order.
Import ListNotations.
Open Scope Z_scope.

Lemma subseq_refl {A} (l : list A) : subseq l l.
Proof. induction l; [apply subseq_nil|now apply subseq_take]. Qed.
Lemma subseq_app {A} (a b c d : list A) : subseq a c -> subseq b d -> subseq (a ++ b) (c ++ d).
Proof.
  intros H1 H2. induction H1 as [l|x l1 l2 _ IH|x l1 l2 _ IH]; simpl.
  - induction l; simpl; [exact H2|]. now apply subseq_skip.
  - apply subseq_skip. exact IH.
  - apply subseq_take. exact IH.
Qed.
Lemma subseq_nil_r {A} (l : list A) : subseq [] l.
Proof. constructor. Qed.
Lemma subseq_flat_map {A B} (f g : A -> list B) l :
  Forall (fun x => subseq (f x) (g x)) l -> subseq (flat_map f l) (flat_map g l).
Proof. induction 1; simpl; [apply subseq_nil|now apply subseq_app]. Qed.

Lemma parts_tree_order b : subseq (parts b) (preorder b).
Proof.
  induction b as [i kids IH] using box_ind'. simpl.
  destruct (creates_ctx i); [apply subseq_take, subseq_nil|].
  assert (K : subseq (if is_parent (knd i) then flat_map parts kids else []) (flat_map preorder kids)).
  { destruct (is_parent (knd i)); [now apply subseq_flat_map|apply subseq_nil]. }
  destruct (positioned i); simpl; [now apply subseq_take|now apply subseq_skip].
Qed.

Lemma child_contexts_tree_order t : subseq (flat_map parts (kids_of t)) (preorder t).
Proof.
  destruct t as [i kids]. unfold kids_of. simpl. apply subseq_skip.
  destruct (is_parent (knd i)); [|apply subseq_nil].
  apply subseq_flat_map, Forall_forall. intros k _. apply parts_tree_order.
Qed.

Section Buckets.
Context {A : Type} (key : A -> Z).
Definition buckets (cs : list A) : list A :=
  sort_z key (filter (fun c => key c <? 0) cs) ++ filter (fun c => key c =? 0) cs ++
  sort_z key (filter (fun c => negb (key c <? 0) && negb (key c =? 0)) cs).

Lemma filter_filter_eq (p q : A -> bool) l : filter p (filter q l) = filter (fun x => q x && p x) l.
Proof. induction l as [|x r IH]; simpl; [reflexivity|]. destruct (q x); simpl; [destruct (p x)|]; now rewrite IH. Qed.

Lemma filter_none (p : A -> bool) l : (forall x, In x l -> p x = false) -> filter p l = [].
Proof.
  induction l as [|x r IH]; intros H; simpl; [reflexivity|].
  rewrite (H x (or_introl eq_refl)). apply IH. intros; apply H; now right.
Qed.
Lemma filter_ext_in' (p q : A -> bool) l : (forall x, In x l -> p x = q x) -> filter p l = filter q l.
Proof.
  induction l as [|x r IH]; intros H; simpl; [reflexivity|].
  rewrite (H x (or_introl eq_refl)), IH; [reflexivity|]. intros; apply H; now right.
Qed.

(* ties: for every z, the contexts with that z-index appear in the buckets in their original (tree) order *)
Lemma buckets_stable k cs : filter (fun c => key c =? k) (buckets cs) = filter (fun c => key c =? k) cs.
Proof.
  unfold buckets. rewrite !filter_app', !sort_z_stable, !filter_filter_eq.
  destruct (Z.ltb_spec k 0); [|destruct (Z.eqb_spec k 0)].
  - rewrite (filter_none (fun x => (key x =? 0) && (key x =? k))),
            (filter_none (fun x => negb (key x <? 0) && negb (key x =? 0) && (key x =? k))), !app_nil_r.
    + apply filter_ext_in'. intros x _. destruct (Z.eqb_spec (key x) k); [|now rewrite andb_false_r].
      rewrite andb_true_r. apply Z.ltb_lt. lia.
    + intros x _. destruct (Z.eqb_spec (key x) k); [|now rewrite andb_false_r].
      destruct (Z.ltb_spec (key x) 0); [reflexivity|lia].
    + intros x _. destruct (Z.eqb_spec (key x) k); [|now rewrite andb_false_r].
      destruct (Z.eqb_spec (key x) 0); [lia|reflexivity].
  - subst k.
    rewrite (filter_none (fun x => (key x <? 0) && (key x =? 0))),
            (filter_none (fun x => negb (key x <? 0) && negb (key x =? 0) && (key x =? 0))), !app_nil_r.
    + simpl. apply filter_ext_in'. intros x _. now destruct (key x =? 0).
    + intros x _. destruct (key x =? 0); [now rewrite andb_false_r|now rewrite andb_false_r].
    + intros x _. destruct (Z.eqb_spec (key x) 0); [|now rewrite andb_false_r].
      destruct (Z.ltb_spec (key x) 0); [lia|reflexivity].
  - rewrite (filter_none (fun x => (key x <? 0) && (key x =? k))),
            (filter_none (fun x => (key x =? 0) && (key x =? k))). simpl.
    + apply filter_ext_in'. intros x _. destruct (Z.eqb_spec (key x) k); [|now rewrite andb_false_r].
      rewrite andb_true_r. destruct (Z.ltb_spec (key x) 0); [lia|]. destruct (Z.eqb_spec (key x) 0); [lia|reflexivity].
    + intros x _. destruct (Z.eqb_spec (key x) k); [|now rewrite andb_false_r].
      destruct (Z.eqb_spec (key x) 0); [lia|reflexivity].
    + intros x _. destruct (Z.eqb_spec (key x) k); [|now rewrite andb_false_r].
      destruct (Z.ltb_spec (key x) 0); [lia|reflexivity].
Qed.

Lemma sorted_app (l1 l2 : list A) :
  StronglySorted (le_key key) l1 -> StronglySorted (le_key key) l2 ->
  (forall x y, In x l1 -> In y l2 -> key x <= key y) -> StronglySorted (le_key key) (l1 ++ l2).
Proof.
  induction 1 as [|x r Hs IH Hall]; intros H2 H; simpl; [exact H2|].
  constructor.
  - apply IH; [exact H2|]. intros a b Ha Hb. apply H; [now right|exact Hb].
  - apply Forall_app. split; [exact Hall|]. apply Forall_forall. intros y Hy. apply H; [now left|exact Hy].
Qed.

Lemma sorted_const (l : list A) k : (forall x, In x l -> key x = k) -> StronglySorted (le_key key) l.
Proof.
  induction l as [|x r IH]; intros H; constructor.
  - apply IH. intros; apply H; now right.
  - apply Forall_forall. intros y Hy. unfold le_key. rewrite (H x (or_introl eq_refl)), (H y (or_intror Hy)). lia.
Qed.

Lemma buckets_sorted cs : StronglySorted (le_key key) (buckets cs).
Proof.
  unfold buckets. apply sorted_app; [apply sort_z_sorted| |].
  - apply sorted_app; [apply (sorted_const _ 0)|apply sort_z_sorted|].
    + intros x Hx. apply filter_In in Hx. now apply Z.eqb_eq.
    + intros x y Hx Hy. apply filter_In in Hx. apply sort_z_in, filter_In in Hy.
      destruct Hx as [_ Hx]. destruct Hy as [_ Hy]. apply Z.eqb_eq in Hx. apply andb_true_iff in Hy.
      destruct Hy as [Hy _]. apply negb_true_iff, Z.ltb_ge in Hy. lia.
  - intros x y Hx Hy. apply sort_z_in, filter_In in Hx. destruct Hx as [_ Hx]. apply Z.ltb_lt in Hx.
    apply in_app_or in Hy. destruct Hy as [Hy|Hy].
    + apply filter_In in Hy. destruct Hy as [_ Hy]. apply Z.eqb_eq in Hy. lia.
    + apply sort_z_in, filter_In in Hy. destruct Hy as [_ Hy]. apply andb_true_iff in Hy.
      destruct Hy as [Hy _]. apply negb_true_iff, Z.ltb_ge in Hy. lia.
Qed.
End Buckets.

Theorem z_ties_by_tree_order t :
  let c := from_box t in
  let cs := flat_map parts (kids_of t) in
  (* the child contexts are the positioned / context-forming descendants, listed in tree order *)
  subseq cs (preorder t) /\
  ctx_neg c ++ ctx_zero c ++ ctx_pos c = buckets ctx_z (map node_of cs) /\
  Forall (fun x => ctx_z x < 0) (ctx_neg c) /\ Forall (fun x => ctx_z x = 0) (ctx_zero c) /\
  Forall (fun x => 0 < ctx_z x) (ctx_pos c) /\
  (* painted in increasing z-index *)
  StronglySorted (fun a b => ctx_z a <= ctx_z b) (ctx_neg c ++ ctx_zero c ++ ctx_pos c) /\
  (* and, for each z-index, in tree order *)
  (forall k, filter (fun x => ctx_z x =? k) (ctx_neg c ++ ctx_zero c ++ ctx_pos c) =
             map node_of (filter (fun x => zkey x =? k) cs)).
Proof.
  intros c cs. split; [apply child_contexts_tree_order|].
  unfold c. rewrite from_box_real. unfold real_node.
  destruct (d_of_shape t) as [Hcc _]. rewrite Hcc. fold cs.
  unfold mk_ctx, ctx_neg, ctx_zero, ctx_pos.
  split; [reflexivity|]. split; [|split; [|split; [|split]]].
  - apply Forall_forall. intros x Hx. apply sort_z_in, filter_In in Hx. now apply Z.ltb_lt.
  - apply Forall_forall. intros x Hx. apply filter_In in Hx. now apply Z.eqb_eq.
  - apply Forall_forall. intros x Hx. apply sort_z_in, filter_In in Hx. destruct Hx as [_ Hx].
    apply andb_true_iff in Hx. destruct Hx as [H1 H2]. apply negb_true_iff in H1, H2.
    apply Z.ltb_ge in H1. apply Z.eqb_neq in H2. lia.
  - apply (buckets_sorted ctx_z).
  - intros k. change (sort_z ctx_z (filter (fun c0 => ctx_z c0 <? 0) (map node_of cs)) ++ filter (fun c0 => ctx_z c0 =? 0) (map node_of cs) ++ sort_z ctx_z (filter (fun c0 => negb (ctx_z c0 <? 0) && negb (ctx_z c0 =? 0)) (map node_of cs))) with (buckets ctx_z (map node_of cs)).
    rewrite (buckets_stable ctx_z k (map node_of cs)).
    apply filter_map_comm. intros a. now rewrite ctx_z_node_of.
Qed.
