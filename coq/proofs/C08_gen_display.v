(* C08 - the computers `display` and `break_before_after` of weasyprint/css/computed_values.py and the table
   BOX_TYPE_FROM_DISPLAY of weasyprint/formatting_structure/build.py as REGENERATED from the source on every run
   (gen/GenComputed.v, gen/GenBuild.v; interpreter base/Py.v) compute exactly the hand models of
   model/C08Display.v (display, box_class) on which the C08 theorems about CSS 2.1 9.7 rest: for every display value
   the validator can produce (one, two or three keywords) and a few it cannot, every float, every position
   (running() with any name included), on the root element or not.

   `len` is the primitive PLen of base/Py.v.  Two more builtins the source uses are calls the translator prints by a
   name that is not a Python name; their meaning is given here ([builtin]), not in the printer: "%startswith"
   (str.startswith with a str argument) and "%getitem" (x[0] where x is a tuple or a str: target option str_index). *)
From Coq Require Import QArith List String Bool ZArith.
Require Import WV.base.Py WV.base.PyLink WV.gen.GenComputed WV.gen.GenBuild WV.model.C08Display WV.proofs.C08_display.
Import ListNotations.
Open Scope string_scope.
Open Scope list_scope.

(* ------------------------------------------------------------------ builtins *)
(* the index the printer writes: a literal n#1, n >= 0 *)
Definition index_of (q : Q) : option nat :=
  match Qnum q, Qden q with Z0, xH => Some 0%nat | Zpos p, xH => Some (Pos.to_nat p) | _, _ => None end.
Definition builtin (f : string) (args : list val) : val :=
  if String.eqb f "%startswith" then
    match args with
    | [VStr s; VStr p] => VBool (String.prefix p s)
    | [VStr _; _] => VErr "TypeError"
    | _ => VErr "AttributeError"
    end
  else if String.eqb f "%getitem" then        (* x[n], n a literal 0, 1, 2 ..: element of a tuple, character of a str *)
    match args with
    | [c; VNum q] =>
        match index_of q with
        | Some n => match c with
                    | VList l => nth n l (VErr "IndexError")
                    | VStr s => match String.get n s with
                                | Some a => VStr (String a EmptyString) | None => VErr "IndexError" end
                    | _ => VErr "TypeError"
                    end
        | None => VErr "TypeError"
        end
    | _ => VErr "TypeError"
    end
  else VErr "NameError".
(* the interpreter's operations: exact rationals, calls answered by the builtins (len is a primitive of base/Py.v) *)
Definition bops : qops := with_calls real_ops builtin.

Example builtin_ex :
  builtin "%startswith" [VStr "table-cell"; VStr "table-"] = VBool true /\
  builtin "%startswith" [VStr "table"; VStr "table-"] = VBool false /\
  builtin "%startswith" [VStr "inline"; VStr "table-"] = VBool false /\
  builtin "%getitem" [VStr "static"; VNum 0] = VStr "s" /\
  builtin "%getitem" [VList [VStr "running()"; VStr "header"]; VNum 0] = VStr "running()" /\
  builtin "%getitem" [VStr ""; VNum 0] = VErr "IndexError".
Proof. repeat split. Qed.

(* ------------------------------------------------------------------ the values as the validator writes them *)
Definition outer_name (o : outer) : string := match o with OBlock => "block" | OInline => "inline" end.
Definition inner_name (i : inner) : string :=
  match i with Flow => "flow" | FlowRoot => "flow-root" | ITable => "table" | Flex => "flex" | Grid => "grid" end.
Definition part_name (t : tpart) : string :=
  match t with
  | Caption => "table-caption" | RowGroup => "table-row-group" | HeaderGroup => "table-header-group"
  | FooterGroup => "table-footer-group" | Row => "table-row" | Cell => "table-cell"
  | ColGroup => "table-column-group" | Col => "table-column"
  end.
(* the tuple of keywords: ('none',), ('table-cell',), ('inline', 'flow-root'), ('block', 'flow', 'list-item') *)
Definition disp_val (v : disp) : val :=
  match v with
  | DNone => VList [VStr "none"]
  | DPart t => VList [VStr (part_name t)]
  | DPair o i li => VList (VStr (outer_name o) :: VStr (inner_name i) :: if li then [VStr "list-item"] else [])
  end.
Definition float_val (f : floatv) : val :=
  VStr (match f with FNone => "none" | FLeft => "left" | FRight => "right" | FFootnote => "footnote" end).
(* position: a keyword, or the pair ('running()', name) *)
Definition pos_val (running_name : string) (p : posv) : val :=
  match p with
  | PStatic => VStr "static" | PRelative => VStr "relative" | PAbsolute => VStr "absolute" | PFixed => VStr "fixed"
  | PRunning => VList [VStr "running()"; VStr running_name]
  end.
(* the style object as far as the computers read it: style.specified['float'], style.specified['position'],
   style.is_root_element; whatever else it holds (more_specified, more_attributes) is not looked at *)
Definition style_val (running_name : string) (p : posv) (f : floatv) (root : bool)
           (more_specified more_attributes : list (string * val)) : val :=
  VObj (("specified", VObj (("float", float_val f) :: ("position", pos_val running_name p) :: more_specified))
        :: ("is_root_element", VBool root) :: more_attributes).

Lemma disp_val_inj a b : disp_val a = disp_val b -> a = b.
Proof.
  destruct a as [|[]|[] [] []], b as [|[]|[] [] []]; intros H; try reflexivity; discriminate H.
Qed.

(* ------------------------------------------------------------------ display *)
Definition display_fn : fn := (display_args, display_body).

(* the regenerated computer returns the model's value: for all 29 display values x 5 positions x 4 floats x root *)
Theorem gen_display_value (rn : string) (p : posv) (f : floatv) (root : bool) (v : disp)
        (ms ma : list (string * val)) (name : val) :
  call_body bops display_fn [style_val rn p f root ms ma; name; disp_val v] = disp_val (display p f root v).
Proof.
  destruct p, f, root, v as [|[]|[] [] []]; vm_compute; reflexivity.
Qed.

(* ... and for ANY value whatsoever it is returned as it is on an element that is in flow and not the root *)
Theorem gen_display_in_flow_identity (rn : string) (p : posv) (f : floatv) (root : bool) (value : val)
        (ms ma : list (string * val)) (name : val) :
  blockifies p f root = false ->
  call_body bops display_fn [style_val rn p f root ms ma; name; value] = value.
Proof.
  destruct p, f, root; simpl; intros H; try discriminate H; vm_compute; reflexivity.
Qed.

(* the clause of the property: the computed display is the table of CSS 2.1 9.7 *)
Theorem gen_display_css21_9_7 (rn : string) (p : posv) (f : floatv) (root : bool) (v : disp)
        (ms ma : list (string * val)) (name : val) :
  valid_disp v = true ->
  call_body bops display_fn [style_val rn p f root ms ma; name; disp_val v] = disp_val (css_display p f root v).
Proof. intros H. rewrite gen_display_value, (css21_9_7_table p f root v H). reflexivity. Qed.

(* the mutant the task names: were table-caption exempted from blockification, the statement would be false *)
Example gen_display_blockifies_caption :
  call_body bops display_fn [style_val "" PStatic FLeft false [] []; VStr "display"; disp_val (DPart Caption)] =
  VList [VStr "block"; VStr "flow"].
Proof. vm_compute. reflexivity. Qed.

(* ------------------------------------------------------------------ float *)
Definition float_fn : fn := (compute_float_args, compute_float_body).

(* the regenerated computer of float returns the model's value: 5 positions (running() with any name) x 4 floats *)
Theorem gen_compute_float_value (rn : string) (p : posv) (f : floatv) (root : bool)
        (ms ma : list (string * val)) (name : val) :
  call_body bops float_fn [style_val rn p f root ms ma; name; float_val f] = float_val (compute_float p f).
Proof. destruct p, f; vm_compute; reflexivity. Qed.

(* CSS 2.1 9.7 step 2, for ANY value handed in: an absolutely positioned / fixed / running element does not float,
   any other keeps the value *)
Theorem gen_compute_float_any (rn : string) (p : posv) (f : floatv) (root : bool) (value : val)
        (ms ma : list (string * val)) (name : val) :
  call_body bops float_fn [style_val rn p f root ms ma; name; value] =
  match p with PAbsolute | PFixed | PRunning => VStr "none" | _ => value end.
Proof. destruct p; vm_compute; reflexivity. Qed.

(* ------------------------------------------------------------------ BOX_TYPE_FROM_DISPLAY *)
Definition class_name (c : boxcls) : string :=
  match c with
  | BlockBox => "BlockBox" | InlineBox => "InlineBox" | InlineBlockBox => "InlineBlockBox" | TableBox => "TableBox"
  | InlineTableBox => "InlineTableBox" | FlexBox => "FlexBox" | InlineFlexBox => "InlineFlexBox" | GridBox => "GridBox"
  | InlineGridBox => "InlineGridBox" | TableRowBox => "TableRowBox" | TableRowGroupBox => "TableRowGroupBox"
  | TableColumnBox => "TableColumnBox" | TableColumnGroupBox => "TableColumnGroupBox" | TableCellBox => "TableCellBox"
  | TableCaptionBox => "TableCaptionBox"
  end.
Lemma class_name_inj a b : class_name a = class_name b -> a = b.
Proof. destruct a, b; intros H; try reflexivity; discriminate H. Qed.

(* TABLE[key]: the dict lookup by a tuple of strings (None: KeyError) *)
Fixpoint table_get (key : val) (t : list (val * string)) : option string :=
  match t with
  | [] => None
  | (k, c) :: r => if veq_deep real_ops k key then Some c else table_get key r
  end.
(* value[:2] *)
Definition first_two (v : val) : val := match v with VList l => VList (firstn 2 l) | _ => VErr "TypeError" end.

(* make_box: BOX_TYPE_FROM_DISPLAY[style['display'][:2]] is the model's class; display: none has no entry
   (element_to_box returns before make_box) *)
Theorem gen_box_type (v : disp) :
  table_get (first_two (disp_val v)) box_type_from_display = option_map class_name (box_class v).
Proof. destruct v as [|[]|[] [] []]; vm_compute; reflexivity. Qed.

(* nothing else is in the table: every row is the row of a display value *)
Ltac row_of v := exists v; eexists; split; [reflexivity | split; reflexivity].
Theorem gen_box_type_rows :
  Forall (fun row => exists v c, fst row = first_two (disp_val v) /\ box_class v = Some c /\ snd row = class_name c)
         box_type_from_display.
Proof.
  unfold box_type_from_display.
  repeat (apply Forall_cons; [
    first [ row_of (DPair OBlock Flow false) | row_of (DPair OInline Flow false) | row_of (DPair OBlock FlowRoot false)
          | row_of (DPair OInline FlowRoot false) | row_of (DPair OBlock ITable false) | row_of (DPair OInline ITable false)
          | row_of (DPair OBlock Flex false) | row_of (DPair OInline Flex false) | row_of (DPair OBlock Grid false)
          | row_of (DPair OInline Grid false) | row_of (DPart Row) | row_of (DPart RowGroup) | row_of (DPart HeaderGroup)
          | row_of (DPart FooterGroup) | row_of (DPart Col) | row_of (DPart ColGroup) | row_of (DPart Cell)
          | row_of (DPart Caption) ] |]).
  apply Forall_nil.
Qed.

(* ------------------------------------------------------------------ the clause, end to end on the regenerated text:
   the class of the box an element generates is the one the CSS 2.1 9.7 computed display prescribes, and a float, an
   absolutely positioned element and the root generate a block-level box *)
Theorem gen_box_of_element (rn : string) (p : posv) (f : floatv) (root : bool) (v : disp)
        (ms ma : list (string * val)) (name : val) :
  valid_disp v = true ->
  table_get (first_two (call_body bops display_fn [style_val rn p f root ms ma; name; disp_val v])) box_type_from_display
  = option_map class_name (box_class (css_display p f root v)).
Proof. intros H. rewrite (gen_display_css21_9_7 rn p f root v ms ma name H). apply gen_box_type. Qed.

Theorem gen_out_of_flow_box_is_block_level (rn : string) (p : posv) (f : floatv) (root : bool) (v : disp)
        (ms ma : list (string * val)) (name : val) :
  blockifies p f root = true -> v <> DNone ->
  exists c, table_get (first_two (call_body bops display_fn [style_val rn p f root ms ma; name; disp_val v]))
                      box_type_from_display = Some (class_name c) /\ block_level c = true.
Proof.
  intros Hb Hv. rewrite gen_display_value, gen_box_type. unfold display. rewrite Hb.
  destruct v as [|t|[] [] []]; try (exfalso; apply Hv; reflexivity); eexists; split; reflexivity.
Qed.

Example gen_box_of_element_ex :
  table_get (first_two (call_body bops display_fn
     [style_val "" PAbsolute FNone false [] []; VStr "display"; disp_val (DPair OInline Flex false)])) box_type_from_display
  = Some "FlexBox" /\
  table_get (first_two (call_body bops display_fn
     [style_val "" PStatic FNone false [] []; VStr "display"; disp_val (DPair OInline Flex false)])) box_type_from_display
  = Some "InlineFlexBox".
Proof. split; vm_compute; reflexivity. Qed.

(* ------------------------------------------------------------------ break-before / break-after *)
Definition break_fn : fn := (break_before_after_args, break_before_after_body).

(* for every value at all: 'always' computes to 'page', anything else to itself (an error value stands for itself:
   the call raises it) *)
Theorem gen_break_before_after (style name value : val) :
  call_body bops break_fn [style; name; value] =
  match value with VStr s => if String.eqb s "always" then VStr "page" else value | _ => value end.
Proof.
  unfold call_body, break_fn, break_before_after_args, break_before_after_body. cbn [fst snd bind].
  destruct value as [q|s| | | | |m]; reflexivity.
Qed.

(* the eleven keywords of the validator: the computed value is one of the ten that layout/block.py folds (C04) *)
Definition break_keywords : list string :=
  ["auto"; "avoid"; "avoid-page"; "page"; "left"; "right"; "recto"; "verso"; "avoid-column"; "column"; "always"].
Definition layout_break_keywords : list string :=
  ["auto"; "avoid"; "avoid-page"; "page"; "left"; "right"; "recto"; "verso"; "avoid-column"; "column"].
Theorem gen_break_computed_keywords (style name : val) :
  Forall (fun s => exists s', call_body bops break_fn [style; name; VStr s] = VStr s' /\ In s' layout_break_keywords /\
                              (s <> "always" -> s' = s) /\ (s = "always" -> s' = "page"))
         break_keywords.
Proof.
  unfold break_keywords.
  repeat (apply Forall_cons; [
    eexists; rewrite gen_break_before_after; cbn;
    split; [reflexivity | split; [unfold layout_break_keywords; simpl; tauto | split; intros H; try reflexivity; try discriminate H; try (exfalso; apply H; reflexivity)]] |]).
  apply Forall_nil.
Qed.
