(* The interpreter of base/Py.v depends on the answers of [ocall] only pointwise: two operation records that
   differ only in their [ocall] fields, by functions that agree on every name and argument list, run every body to
   the same answer.  (No extensionality principle is used: the statement is proved by induction on the syntax, like
   the naturality theorem of proofs/PyNatural.v.)  Used to replace the linked callee of a call by its proved value
   while a caller is evaluated. *)
From Coq Require Import QArith List String Bool.
Require Import WV.base.Py.
Import ListNotations.
Open Scope string_scope.
Open Scope list_scope.

Section Ext.
Variable O0 : qops.
Variables c1 c2 : string -> list val -> val.
Hypothesis Hc : forall f args, c1 f args = c2 f args.
Let O1 := with_calls O0 c1.
Let O2 := with_calls O0 c2.
Variable R : Type.
Variable err : string -> R.

Definition kext {T} (k k' : T -> R) : Prop := forall v, k v = k' v.

Ltac split_if := repeat match goal with |- context [if ?c then _ else _] => destruct c end; auto.

Lemma bool_k_ext v k k' : kext k k' -> bool_k O1 R err v k = bool_k O2 R err v k'.
Proof. intros Hk. destruct v; simpl; auto; split_if. Qed.
Lemma arith_k_ext o a b k k' : kext k k' -> arith_k O1 R err o a b k = arith_k O2 R err o a b k'.
Proof. intros Hk. destruct a, b; simpl; auto; destruct o; auto; split_if. Qed.
Lemma veq_k_ext a b k k' : kext k k' -> veq_k O1 R err a b k = veq_k O2 R err a b k'.
Proof. intros Hk. destruct a, b; simpl; auto; split_if. Qed.
Lemma cmp_k_ext o a b k k' : kext k k' -> cmp_k O1 R err o a b k = cmp_k O2 R err o a b k'.
Proof.
  intros Hk. destruct o; simpl; try (apply veq_k_ext; auto; fail).
  - apply veq_k_ext. intros v. apply Hk.
  - destruct a, b; simpl; auto; split_if.
  - destruct a, b; simpl; auto; split_if.
  - destruct a, b; simpl; auto; split_if.
  - destruct a, b; simpl; auto; split_if.
Qed.
Lemma minmax_k_ext ismax vs k k' : kext k k' -> minmax_k O1 R err ismax vs k = minmax_k O2 R err ismax vs k'.
Proof.
  intros Hk. destruct vs as [|v0 vs]; simpl; auto. revert v0. induction vs as [|v vs IH]; intros v0; simpl; auto.
  destruct v0, v; auto.
Qed.
Lemma gen_collect_ext (f f' : val -> (option val -> R) -> R) :
  (forall v kk kk', kext kk kk' -> f v kk = f' v kk') ->
  forall l acc k k', kext k k' -> gen_collect f l acc k = gen_collect f' l acc k'.
Proof.
  intros Hf. induction l as [|v l IH]; intros acc k k' Hk; simpl; auto.
  apply Hf. intros [ve|]; apply IH; auto.
Qed.
Lemma gen_iter_ext {E} (f f' : val -> E -> (E -> R) -> R) :
  (forall v rho kk kk', kext kk kk' -> f v rho kk = f' v rho kk') ->
  forall l rho k k', kext k k' -> gen_iter f l rho k = gen_iter f' l rho k'.
Proof.
  intros Hf. induction l as [|v l IH]; intros rho k k' Hk; simpl; auto.
  apply Hf. intros rho'. apply IH; auto.
Qed.

Fixpoint eval_ext (e : expr) : forall rho k k', kext k k' -> eval O1 R err rho e k = eval O2 R err rho e k'.
Proof.
  destruct e as [v|x|e a|o a b|a rest|a b|a b|a|c a b|elt x it cond|elt x it cond|e key|e n|e|es|neg e c|f args|a b|elt x it cond|p args];
    intros rho k k' Hk; simpl.
  - apply Hk.
  - apply Hk.
  - apply eval_ext. intros [ | | | | |f| ]; auto.
  - apply eval_ext. intros va. apply eval_ext. intros vb. now apply arith_k_ext.
  - apply eval_ext. intros va. revert va. induction rest as [|[o e1] rest IH]; intros va; [apply Hk|].
    apply eval_ext. intros r. apply cmp_k_ext. intros [|]; [apply IH|apply Hk].
  - apply eval_ext. intros va. apply bool_k_ext. intros [|]; [now apply eval_ext|apply Hk].
  - apply eval_ext. intros va. apply bool_k_ext. intros [|]; [apply Hk|now apply eval_ext].
  - apply eval_ext. intros va. apply bool_k_ext. intros t. apply Hk.
  - apply eval_ext. intros vc. apply bool_k_ext. intros [|]; now apply eval_ext.
  - apply eval_ext. intros vit. destruct vit; auto.
    apply gen_collect_ext; [|intros vs; now apply minmax_k_ext].
    intros v kk kk' Hkk. destruct cond as [c|].
    + apply eval_ext. intros vc. apply bool_k_ext. intros [|]; [|apply Hkk].
      apply eval_ext. intros ve. apply Hkk.
    + apply eval_ext. intros ve. apply Hkk.
  - apply eval_ext. intros vit. destruct vit; auto.
    apply gen_collect_ext; [|intros vs; now apply minmax_k_ext].
    intros v kk kk' Hkk. destruct cond as [c|].
    + apply eval_ext. intros vc. apply bool_k_ext. intros [|]; [|apply Hkk].
      apply eval_ext. intros ve. apply Hkk.
    + apply eval_ext. intros ve. apply Hkk.
  - apply eval_ext. intros [ | | | | |f| ]; auto.
  - apply eval_ext. intros [ | | | |l| | ]; auto.
  - apply eval_ext. intros [ | | | | |f| ]; auto.
  - generalize (@nil val) as acc. induction es as [|e1 es IH]; intros acc; [apply Hk|].
    apply eval_ext. intros v. apply IH.
  - apply eval_ext. intros v. apply eval_ext. intros vc. destruct vc; auto.
    induction l as [|x l IH]; [apply Hk|]. apply veq_k_ext. intros [|]; [apply Hk|apply IH].
  - generalize (@nil val) as acc. induction args as [|e1 es IH]; intros acc.
    + change (ocall O1 f (rev acc)) with (c1 f (rev acc)). change (ocall O2 f (rev acc)) with (c2 f (rev acc)).
      rewrite Hc. destruct (c2 f (rev acc)); auto; apply Hk.
    + apply eval_ext. intros v. destruct v; auto; apply IH.
  - apply eval_ext. intros va. apply eval_ext. intros vb. destruct va, vb; auto; apply Hk.
  - apply eval_ext. intros vit. destruct vit; auto.
    apply gen_collect_ext; [|intros vs; apply Hk].
    intros v kk kk' Hkk. destruct cond as [c|].
    + apply eval_ext. intros vc. apply bool_k_ext. intros [|]; [|apply Hkk].
      apply eval_ext. intros ve. apply Hkk.
    + apply eval_ext. intros ve. apply Hkk.
  - generalize (@nil val) as acc. induction args as [|e1 es IH]; intros acc.
    + destruct (prim_apply p (rev acc)); auto; apply Hk.
    + apply eval_ext. intros v. destruct v; auto; apply IH.
Qed.

Variable kret : env -> val -> R.

Fixpoint exec_ext (s : stmt) : forall rho k k', kext k k' ->
  exec O1 R kret err s rho k = exec O2 R kret err s rho k'.
Proof.
  destruct s as [ts e|t o e|c th el|x e|e|x it body|e|ts e|c body| | |x e| |x i e]; intros rho k k' Hk; simpl.
  - apply eval_ext. intros v. apply Hk.
  - apply eval_ext. intros v. apply arith_k_ext. intros r. apply Hk.
  - apply eval_ext. intros vc. apply bool_k_ext. intros [|].
    + generalize rho. induction th as [|s1 th IH]; intros rho0; [apply Hk|]. apply exec_ext. intros rho'.
      destruct (flowing rho'); [apply Hk|apply IH].
    + generalize rho. induction el as [|s1 el IH]; intros rho0; [apply Hk|]. apply exec_ext. intros rho'.
      destruct (flowing rho'); [apply Hk|apply IH].
  - apply eval_ext. intros v. destruct (lookup x rho); auto. destruct v; auto.
  - apply eval_ext. intros v. reflexivity.
  - apply eval_ext. intros vit. destruct vit; auto.
    apply gen_iter_ext; [|exact Hk]. intros v rho0 kk kk' Hkk.
    generalize (update x v rho0). induction body as [|s1 body IH]; intros rho1; [apply Hkk|].
    apply exec_ext. intros rho'. destruct (flowing rho'); [apply Hkk|apply IH].
  - apply eval_ext. intros v. apply bool_k_ext. intros [|]; [apply Hk|reflexivity].
  - apply eval_ext. intros v. destruct v; auto. destruct (Nat.eqb _ _); auto; apply Hk.
  - (* while *)
    assert (Hb : forall (kk kk' : env -> R), kext kk kk' -> forall rho1,
      (fix block (l : list stmt) (rho : env) (k : env -> R) : R :=
            match l with [] => k rho
            | s :: l' => exec O1 R kret err s rho (fun rho' => if flowing rho' then k rho' else block l' rho' k) end)
           body rho1 kk =
      (fix block (l : list stmt) (rho : env) (k : env -> R) : R :=
            match l with [] => k rho
            | s :: l' => exec O2 R kret err s rho (fun rho' => if flowing rho' then k rho' else block l' rho' k) end)
           body rho1 kk').
    { intros kk kk' Hkk. induction body as [|s1 body IH]; intros rho1; [apply Hkk|].
      apply exec_ext. intros rho'. destruct (flowing rho'); [apply Hkk|apply IH]. }
    change (wfuel O1) with (wfuel O0). change (wfuel O2) with (wfuel O0).
    generalize rho. generalize (wfuel O0) as n. induction n as [|n IHn]; intros rho0; [reflexivity|].
    simpl. apply eval_ext. intros vc. apply bool_k_ext. intros [|]; [|apply Hk].
    apply Hb. intros rho'. destruct (lookup "%flow" rho'); try apply IHn.
    destruct (String.eqb s "break"); [apply Hk|apply IHn].
  - apply Hk.
  - apply Hk.
  - apply eval_ext. intros v. destruct (lookup x rho); auto; apply Hk.
  - apply Hk.
  - apply eval_ext. intros v. apply eval_ext. intros vi.
    destruct v; auto; destruct (setitem (lookup x rho) vi _); auto; apply Hk.
Qed.

Lemma exec_block_ext : forall l rho k k', kext k k' ->
  exec_block O1 R kret err l rho k = exec_block O2 R kret err l rho k'.
Proof.
  induction l as [|s l IH]; intros rho k k' Hk; simpl; [apply Hk|].
  apply exec_ext. intros rho'. destruct (flowing rho'); [apply Hk|now apply IH].
Qed.
End Ext.

Theorem run_ext (O0 : qops) (c1 c2 : string -> list val -> val) {A} (body : list stmt) (rho : env)
        (obs : env -> option val -> A) (kerr : string -> A) :
  (forall f args, c1 f args = c2 f args) ->
  run (with_calls O0 c1) body rho obs kerr = run (with_calls O0 c2) body rho obs kerr.
Proof.
  intros Hc. unfold run. apply exec_block_ext; [exact Hc|]. intros rho'. reflexivity.
Qed.

(* a `for` loop over a list held by a variable is the traversal [gen_iter] of the body run as a block *)
Section ForLoop.
Variable O0 : qops.
Variable c : string -> list val -> val.
Let O := with_calls O0 c.
Variable A : Type.
Variables (kret : env -> val -> A) (kerr : string -> A).

Lemma exec_for x itv body rho k l :
  lookup itv rho = VList l ->
  exec O A kret kerr (SFor x (EVar itv) body) rho k
  = gen_iter (fun v rho k' => exec_block O A kret kerr body (update x v rho) k') l rho k.
Proof.
  intros H. simpl. rewrite H.
  apply (gen_iter_ext A); [|intros v; reflexivity].
  intros v rho0 kk kk' Hkk. generalize (update x v rho0).
  induction body as [|s1 body IH]; intros rho1; [apply Hkk|].
  simpl. apply (exec_ext O0 c c (fun _ _ => eq_refl)). intros rho'. destruct (flowing rho'); [apply Hkk|apply IH].
Qed.
End ForLoop.
