(* C09 - proofs about the model of split_first_line (model/C09Line.v) with the reference breaker G. *)
From Coq Require Import ZArith QArith Lqa List Bool Lia.
Require Import WV.model.C09Line WV.model.C09Spec WV.model.C09Judge WV.proofs.C09_pango.
Import ListNotations.
Open Scope Z_scope.

(* ------------------------------------------------------------ paragraphs: the text before the first newline *)
Lemma para_no_nl t : has_ch is_nl (para t) = false.
Proof. induction t as [|c t IH]; [reflexivity|]. simpl. destruct (is_nl c) eqn:E; [reflexivity|]. simpl. rewrite E. exact IH. Qed.
Lemma para_fix t : has_ch is_nl t = false -> para t = t.
Proof.
  induction t as [|c t IH]; [reflexivity|]. simpl. destruct (is_nl c); [discriminate|]. simpl. intros H. rewrite (IH H). reflexivity.
Qed.
Lemma find_nl_none t : has_ch is_nl t = false -> find_ch is_nl t = None.
Proof.
  induction t as [|c t IH]; [reflexivity|]. simpl. destruct (is_nl c); [discriminate|]. simpl. intros H. rewrite (IH H). reflexivity.
Qed.
Lemma find_nl_some t : has_ch is_nl t = true -> find_ch is_nl t = Some (length (para t)).
Proof.
  induction t as [|c t IH]; [discriminate|]. simpl. destruct (is_nl c); [reflexivity|]. simpl. intros H. rewrite (IH H). reflexivity.
Qed.
Lemma para_firstn t : firstn (length (para t)) t = para t.
Proof. induction t as [|c t IH]; [reflexivity|]. simpl. destruct (is_nl c); [reflexivity|]. simpl. rewrite IH. reflexivity. Qed.
Lemma para_firstn_more t k : (length (para t) <= k)%nat -> para (firstn k t) = para t.
Proof.
  revert k. induction t as [|c t IH]; intros k Hk; [destruct k; reflexivity|].
  simpl in *. destruct (is_nl c) eqn:E.
  - destruct k; [reflexivity|]. simpl. rewrite E. reflexivity.
  - destruct k; [simpl in Hk; lia|]. simpl. rewrite E. rewrite IH; [reflexivity|simpl in Hk; lia].
Qed.
Lemma has_nl_firstn t k : (length (para t) < k)%nat -> has_ch is_nl (firstn k t) = has_ch is_nl t.
Proof.
  revert k. induction t as [|c t IH]; intros k Hk; [destruct k; reflexivity|].
  simpl in *. destruct (is_nl c) eqn:E.
  - destruct k; [lia|]. simpl. rewrite E. reflexivity.
  - destruct k; [lia|]. simpl. rewrite E. simpl. apply IH. simpl in Hk. lia.
Qed.
Lemma nbytes_firstn_S_para t : has_ch is_nl t = true ->
  nbytes (firstn (S (length (para t))) t) = nbytes (para t) + 1.
Proof.
  induction t as [|c t IH]; [discriminate|]. cbn [has_ch existsb para]. destruct (is_nl c) eqn:E.
  - intros _. destruct c; try discriminate. reflexivity.
  - cbn [orb]. intros H. specialize (IH H). cbn [length]. 
    change (firstn (S (S (length (para t)))) (c :: t)) with (c :: firstn (S (length (para t))) t).
    cbn [nbytes]. rewrite IH. lia.
Qed.
Lemma nbytes_nonneg t : 0 <= nbytes t.
Proof. induction t as [|d l IHl]; cbn [nbytes]; [lia|]. destruct d; cbn [nbytes_ch]; lia. Qed.
Lemma bytes_prefix_firstn t : forall k, bytes_prefix t (nbytes (firstn k t)) = Some (firstn k t).
Proof.
  induction t as [|c t IH]; intros k; [destruct k; reflexivity|].
  destruct k as [|k]; [reflexivity|]. cbn [firstn nbytes bytes_prefix].
  assert (Hc : 1 <= nbytes_ch c) by (destruct c; simpl; lia).
  pose proof (nbytes_nonneg (firstn k t)) as Hn.
  destruct (nbytes_ch c + nbytes (firstn k t) <=? 0) eqn:E1; [apply Z.leb_le in E1; lia|].
  destruct (nbytes_ch c + nbytes (firstn k t) <? nbytes_ch c) eqn:E2; [apply Z.ltb_lt in E2; lia|].
  replace (nbytes_ch c + nbytes (firstn k t) - nbytes_ch c) with (nbytes (firstn k t)) by lia.
  rewrite IH. reflexivity.
Qed.
Lemma rstrip_no_nl t : has_ch is_nl t = false -> has_ch is_nl (rstrip t) = false.
Proof.
  induction t as [|c t IH]; [reflexivity|]. simpl. destruct (is_nl c) eqn:E; [discriminate|]. simpl. intros H.
  specialize (IH H). destruct (rstrip t) as [|d r] eqn:Er.
  - destruct (is_sp c); [reflexivity|]. simpl. rewrite E. reflexivity.
  - simpl. rewrite E. simpl. exact IH.
Qed.

Lemma G_nowidth fs ins t : has_ch is_nl t = false ->
  G fs ins t None false = (length t, None, (inject_Z (visw t) * fs)%Q).
Proof. intros H. unfold G. rewrite (para_fix t H), H. reflexivity. Qed.

(* white-space: nowrap | pre, or no width at all: the line is the first paragraph whatever its width; the text is
   only ever broken at a preserved newline.  For ALL texts of the alphabet. *)
Theorem no_wrap_only_newline st t mw ils mini :
  text_wrap (st_ws st) = false \/ mw = None ->
  let fs := st_fs st in
  let p := para t in
  sfl_model st t mw ils mini =
  if has_ch is_nl t then
    let p' := if space_collapse (st_ws st) then rstrip p else p in
    Out p' (nbytes p') (Some (nbytes p + 1)) (inject_Z (visw p') * fs)%Q
  else Out t (nbytes t) None (inject_Z (visw t) * fs)%Q.
Proof.
  intros Hnw fs p. unfold sfl_model, split_first_line.
  assert (Hmw : (if text_wrap (st_ws st) then mw else None) = None).
  { destruct Hnw as [-> | ->]; [reflexivity|]. destruct (text_wrap (st_ws st)); reflexivity. }
  rewrite Hmw.
  assert (Hpw : match mw with
                | Some w => if text_wrap (st_ws st) && negb (Qle_bool two21 w)
                            then Some (if Qle_bool 0 w then w else 0%Q) else None
                | None => None end = None).
  { destruct Hnw as [-> | ->]; [destruct mw; reflexivity|reflexivity]. }
  rewrite Hpw. unfold mk_layout, first. cbn [l_text l_w l_wc].
  destruct (has_ch is_nl t) eqn:Hnl.
  - (* a newline: the layout holds the first line plus one character *)
    unfold truncate. rewrite (find_nl_some t Hnl).
    set (n := length (para t)).
    assert (Hp : para (firstn (n + 2) t) = p) by (apply para_firstn_more; unfold n; lia).
    assert (Hh : has_ch is_nl (firstn (n + 2) t) = true) by (rewrite has_nl_firstn; [exact Hnl|unfold n; lia]).
    unfold Gpango, G. rewrite Hp, Hh. fold n. cbn [option_map].
    assert (Hf1 : firstn n (firstn (n + 2) t) = p).
    { rewrite firstn_firstn. replace (Nat.min n (n + 2)) with n by lia. apply para_firstn. }
    assert (Hf2 : firstn (S n) (firstn (n + 2) t) = firstn (S n) t).
    { rewrite firstn_firstn. replace (Nat.min (S n) (n + 2)) with (S n) by lia. reflexivity. }
    assert (Hlen : length p = n) by reflexivity. rewrite Hlen, Hf1, Hf2.
    unfold n. rewrite (nbytes_firstn_S_para t Hnl). fold p.
    unfold first_line_metrics. cbn [fst snd].
    assert (Hz : (nbytes p + 1 =? 0) = false) by (apply Z.eqb_neq; pose proof (nbytes_nonneg p); lia).
    rewrite Hz.
    assert (Hbp : bytes_prefix t (nbytes p) = Some p).
    { unfold p. rewrite <- (para_firstn t) at 1. rewrite bytes_prefix_firstn, para_firstn. reflexivity. }
    rewrite Hbp.
    set (p' := if space_collapse (st_ws st) then rstrip p else p).
    assert (Hp'nl : has_ch is_nl p' = false).
    { unfold p'. destruct (space_collapse (st_ws st)); [apply rstrip_no_nl|]; apply para_no_nl. }
    unfold set_text, set_width, first. cbn [l_text l_w l_wc].
    unfold truncate, Gpango. rewrite (find_nl_none p' Hp'nl). rewrite ?(G_nowidth _ _ p' Hp'nl), ?(para_fix p' Hp'nl).
    cbn [fst snd option_map]. rewrite firstn_all. reflexivity.
  - unfold truncate, Gpango. rewrite (find_nl_none t Hnl), (G_nowidth _ _ t Hnl). cbn [option_map first_line_metrics fst snd].
    rewrite firstn_all. reflexivity.
Qed.

(* -------------------------------------------------------------- formerly refuted clauses, now repaired in /repo
   (F110-F115): on the witnesses of the old refutations the model of the repaired split_first_line gives the greedy
   line of the specification (spec_mask = 0).  Instances only: soft hyphens and breaks inside words are outside the
   guard of first_line_is_greedy. *)
Definition st_normal (ow : overflow_wrap) (break_all : bool) : style :=
  {| st_ws := WsNormal; st_ow := ow; st_break_all := break_all; st_hyph_manual := true; st_fs := 10 |}.
From Coq Require Import String.
Open Scope string_scope.
Definition greedy_on (st : style) (t : text) (w : Q) (o : outcome) : Prop :=
  sfl_model st t (Some w) true false = o /\ spec_mask st t (Some w) true false o = 0%nat.

(* F112: a first word wider than the line with a soft hyphen further on: the line is the first word alone *)
Lemma overflowing_word_stops_before_later_soft_hyphen :
  greedy_on (st_normal OwNormal false) (tx "aaaaaaaaaa bbb ccc ddd ee-ff gg") 70 (Out (tx "aaaaaaaaaa") 10 (Some 11) 100).
Proof. vm_compute. split; reflexivity. Qed.
(* F111: a line broken at a soft hyphen shows the hyphen, whatever follows *)
Lemma soft_hyphen_break_shows_hyphen :
  greedy_on (st_normal OwNormal false) (tx "aaaaaa-bb cc") 70 (Out (tx "aaaaaa-=") 8 (Some 8) 70).
Proof. vm_compute. split; reflexivity. Qed.
(* F110: word-break: break-all fills the line, no room is kept for a hyphen *)
Lemma break_all_fills_the_line :
  greedy_on (st_normal OwNormal true) (tx "aaaaaaa") 30 (Out (tx "aaa") 3 (Some 3) 30).
Proof. vm_compute. split; reflexivity. Qed.
(* F114: a text that fits without its trailing space is not hyphenated *)
Lemma text_fitting_without_trailing_space_is_not_hyphenated :
  greedy_on (st_normal OwNormal false) (tx "gb-g ") 30 (Out (tx "gb-g ") 6 None 40).
Proof. vm_compute. split; reflexivity. Qed.
(* F115: under overflow-wrap: anywhere a soft hyphen keeps room for its hyphen *)
Lemma soft_hyphen_keeps_room_under_overflow_wrap :
  greedy_on (st_normal OwAnywhere false) (tx "aa aaaa-bbb cc") 70 (Out (tx "aa") 2 (Some 3) 20).
Proof. vm_compute. split; reflexivity. Qed.

(* ---------------------------------------------- the hypotheses of the theorems are satisfiable (examples) *)
Example ex_words : words [tx "aaa"; tx "bbbb"; tx "c"] /\ [tx "aaa"; tx "bbbb"; tx "c"] <> [].
Proof. split; [repeat constructor|discriminate]. Qed.
Example ex_G_words :
  G 10 true (join [tx "aaa"; tx "bbbb"; tx "c"]) (Some 85%Q) false = (9%nat, Some 9%nat, 80%Q) /\
  wlen [tx "aaa"; tx "bbbb"; tx "c"] 2 = 8%nat.
Proof. vm_compute. split; reflexivity. Qed.
Example ex_G_stable :
  simple (tx "aaa bbb ccc ddd") /\
  G 10 true (firstn 6 (tx "aaa bbb ccc ddd")) (Some 45%Q) false = (4%nat, Some 4%nat, 30%Q) /\
  G 10 true (tx "aaa bbb ccc ddd") (Some 45%Q) false = (4%nat, Some 4%nat, 30%Q).
Proof. vm_compute. repeat split; reflexivity. Qed.
Example ex_no_wrap :
  sfl_model {| st_ws := WsPre; st_ow := OwNormal; st_break_all := false; st_hyph_manual := true; st_fs := 10 |}
            (tx "aaa bbb/cc") (Some 20%Q) true false = Out (tx "aaa bbb") 7 (Some 8) 70.
Proof. vm_compute. reflexivity. Qed.

(* beyond Pango's limit (max_width >= 2^21 px) create_layout sets no width at all: a breakable text wider than the
   available width stays on one line *)
Lemma greedy_refuted_beyond_pango_width_limit :
  exists st t w, let o := sfl_model st t (Some w) true false in
    o = Out (tx "a b") 3 None 6291456 /\ (w < 6291456)%Q /\
    sp_end (spec_first_line st t (Some w) true false) = 1%nat /\
    spec_mask st t (Some w) true false o <> 0%nat.
Proof.
  exists {| st_ws := WsNormal; st_ow := OwNormal; st_break_all := false; st_hyph_manual := true; st_fs := 2097152 # 1 |},
         (tx "a b"), (2097152 # 1)%Q.
  vm_compute. repeat split; try reflexivity; discriminate.
Qed.

(* ---- inputs outside the guard of first_line_is_greedy and outside the refuted classes: checked on instances only
   (and per case by the correspondence run); what is missing for a theorem is said in each comment *)
Definition st_ws_ow (ws : white_space) (ow : overflow_wrap) : style :=
  {| st_ws := ws; st_ow := ow; st_break_all := false; st_hyph_manual := true; st_fs := 10 |}.
(* preserved newlines (pre-line / pre-wrap): missing = the induction of C09_greedy.v redone on the first paragraph,
   with Layout.set_text's truncation after the newline (G and Gattrs see only the paragraph plus one character) *)
Example greedy_with_newline_partial :
  sfl_model (st_ws_ow WsPreLine OwNormal) (tx "aa bb/cc dd") (Some 60%Q) true false = Out (tx "aa bb") 5 (Some 6) 50 /\
  sfl_model (st_ws_ow WsPreLine OwNormal) (tx "aa bb/cc dd") (Some 40%Q) true false = Out (tx "aa") 2 (Some 3) 20.
Proof. vm_compute. split; reflexivity. Qed.
(* a word wider than the line under overflow-wrap: anywhere at a line start (step 5, WRAP_CHAR with insert_hyphens
   off): missing = the characterisation of G in character-wrap mode (every position is a candidate) *)
Example overflow_wrap_char_break_partial :
  let o := sfl_model (st_ws_ow WsNormal OwAnywhere) (tx "aaaaaaa bb") (Some 30%Q) true false in
  o = Out (tx "aaa") 3 (Some 3) 30 /\ spec_mask (st_ws_ow WsNormal OwAnywhere) (tx "aaaaaaa bb") (Some 30%Q) true false o = 0%nat.
Proof. vm_compute. split; reflexivity. Qed.
(* a space at the start (text box after an inline box) or at the end of the text, several spaces in a row
   (pre-wrap): missing = G_words and the look-ahead lemma for word lists with empty words *)
Example edge_spaces_partial :
  let o := sfl_model (st_ws_ow WsNormal OwNormal) (tx " aaa bb") (Some 30%Q) false false in
  o = Out [] 0 (Some 1) 0 /\ spec_mask (st_ws_ow WsNormal OwNormal) (tx " aaa bb") (Some 30%Q) false false o = 0%nat.
Proof. vm_compute. split; reflexivity. Qed.

(* the guard of first_line_is_greedy / lines_cover_text is satisfied by ordinary text *)
Example ex_greedy_guard :
  greedy_guard (st_ws_ow WsNormal OwNormal) (tx "aaa bbbb cc dd") 75 true false = true /\
  greedy_guard (st_ws_ow WsPreWrap OwAnywhere) (tx "aaa bbbb cc dd") 75 true false = true /\
  greedy_guard_all (st_ws_ow WsNormal OwNormal) (tx "aaa bbbb cc dd") 75 false = true /\
  sfl_model (st_ws_ow WsNormal OwNormal) (tx "aaa bbbb cc dd") (Some 75%Q) true false = Out (tx "aaa") 3 (Some 4) 30 /\
  split_lines 15 (st_ws_ow WsNormal OwNormal) (tx "aaa bbbb cc dd") 75 false =
    Some [(tx "aaa", [Sp]); (tx "bbbb cc", [Sp]); (tx "dd", [])].
Proof. vm_compute. repeat split; reflexivity. Qed.
