(* C06 - the cascade theorems on declarations: instantiation of the fold facts with CSS weights, origin and
   importance, style attribute, and source order (the application sequence is sorted by position). *)
From Coq Require Import ZArith List Bool String Lia Sorted Permutation.
Require Import WV.model.C06Cascade WV.proofs.C06_cascade.
Import ListNotations.
Open Scope Z_scope.

Lemma weight_ltb_true v w : weight_ltb v w = true <-> weight_lt v w.
Proof.
  unfold weight_ltb. pose proof (weight_compare_spec v w) as H.
  destruct (weight_compare v w); split; intros; auto; try discriminate.
  - subst. exfalso; exact (weight_lt_irrefl _ H0).
  - exfalso; exact (weight_lt_irrefl _ (weight_lt_trans _ _ _ H H0)).
Qed.

Lemma spec_compare_refl s : spec_compare s s = Eq.
Proof.
  pose proof (spec_compare_spec s s) as H. destruct (spec_compare s s); auto;
    exfalso; exact (spec_lt_irrefl _ H).
Qed.

Lemma spec_trichotomy s t : spec_lt s t \/ s = t \/ spec_lt t s.
Proof. pose proof (spec_compare_spec s t) as H. destruct (spec_compare s t); auto. Qed.

(* ================================================================ generic list facts *)
Lemma ss_app {A} (R : A -> A -> Prop) l1 l2 :
  StronglySorted R l1 -> StronglySorted R l2 -> (forall x y, In x l1 -> In y l2 -> R x y) ->
  StronglySorted R (l1 ++ l2).
Proof.
  induction l1 as [|a r IH]; intros H1 H2 Hc; simpl; auto.
  inversion H1; subst. constructor.
  - apply IH; auto. intros; apply Hc; simpl; auto.
  - apply Forall_forall. intros y Hy. apply in_app_or in Hy. destruct Hy as [Hy|Hy].
    + rewrite Forall_forall in H4. auto.
    + apply Hc; simpl; auto.
Qed.

Lemma ss_weaken {A} (Q R : A -> A -> Prop) l :
  (forall a b, In a l -> In b l -> Q a b -> R a b) -> StronglySorted Q l -> StronglySorted R l.
Proof.
  induction l as [|x r IH]; intros Hi H; constructor; inversion H; subst.
  - apply IH; auto. intros; apply Hi; simpl; auto.
  - rewrite Forall_forall in *. intros y Hy. apply Hi; simpl; auto.
Qed.

Lemma ss_map {A B} (g : A -> B) (R : B -> B -> Prop) l :
  StronglySorted (fun a b => R (g a) (g b)) l -> StronglySorted R (map g l).
Proof.
  induction 1; simpl; constructor; auto.
  rewrite Forall_forall in *. intros y Hy. apply in_map_iff in Hy. destruct Hy as [z [<- Hz]]. auto.
Qed.

Lemma ss_flat_map {A B} (Q : A -> A -> Prop) (R : B -> B -> Prop) (f : A -> list B) l :
  StronglySorted Q l -> (forall a, In a l -> StronglySorted R (f a)) ->
  (forall a b x y, In a l -> In b l -> Q a b -> In x (f a) -> In y (f b) -> R x y) ->
  StronglySorted R (flat_map f l).
Proof.
  induction 1 as [|a r Hr IH Ha]; intros Hs Hc; simpl; [constructor|].
  apply ss_app.
  - apply Hs; simpl; auto.
  - apply IH; [intros a0 H0; apply Hs; simpl; auto
              | intros a0 b x y H1 H2 H3 H4 H5; apply (Hc a0 b x y); simpl; auto].
  - intros x y Hx Hy. apply in_flat_map in Hy. destruct Hy as [b [Hb Hy]].
    rewrite Forall_forall in Ha. eapply (Hc a b); simpl; eauto.
Qed.

Lemma ss_before {A} (R : A -> A -> Prop) l1 x l2 y :
  StronglySorted R (l1 ++ x :: l2) -> In y l1 -> R y x.
Proof.
  induction l1 as [|a r IH]; simpl; intros H Hy; [contradiction|].
  inversion H; subst. destruct Hy as [->|Hy]; auto.
  rewrite Forall_forall in H3. apply H3. apply in_elt.
Qed.

Lemma in_number {A} (l : list A) : forall k i x, In (i, x) (number k l) -> k <= i /\ In x l.
Proof.
  induction l as [|a r IH]; simpl; intros k i x H; [contradiction|].
  destruct H as [H|H].
  - inversion H; subst; split; auto; lia.
  - destruct (IH _ _ _ H); split; auto; lia.
Qed.
Lemma number_sorted {A} (l : list A) : forall k, StronglySorted (fun a b => fst a < fst b) (number k l).
Proof.
  induction l as [|a r IH]; simpl; intros k; constructor; auto.
  apply Forall_forall. intros [i x] H. destruct (in_number _ _ _ _ H); simpl; lia.
Qed.

Lemma ss_nodup {A} (f : A -> Z) (R : A -> A -> Prop) l :
  NoDup (map f l) -> StronglySorted R l -> StronglySorted (fun a b => R a b /\ f a <> f b) l.
Proof.
  induction l as [|x r IH]; simpl; intros Hn Hs; constructor; inversion Hn; inversion Hs; subst; auto.
  rewrite Forall_forall in *. intros y Hy. split; auto.
  intros E. apply H1. rewrite E. apply in_map; auto.
Qed.

(* ================================================================ the theorems *)
Section Thms.
  Variable V : Type.
  Notation decl := (decl V).
  Notation rdecl := (rdecl V).

  Definition prec (d : decl) : Z := declaration_precedence (d_origin d) (d_imp d).
  Definition wle (d e : decl) : Prop := weight_leb (weight_of d) (weight_of e) = true.
  Definition wlt (d e : decl) : Prop := weight_ltb (weight_of d) (weight_of e) = true.

  Lemma wlt_not_leb d e : weight_leb (weight_of e) (weight_of d) = false -> wlt d e.
  Proof. intros H. apply weight_ltb_true, weight_leb_false; auto. Qed.

  Theorem fold_picks_max (ds : list decl) (n : Z) :
    match get (cascade ds) n with
    | None => forall d, In d ds -> d_name d <> n
    | Some w => exists l1 l2, ds = l1 ++ w :: l2 /\ d_name w = n /\
                  (forall d, In d l1 -> d_name d = n -> wle d w) /\
                  (forall d, In d l2 -> d_name d = n -> wlt d w)
    end.
  Proof.
    pose proof (fold_picks decl weight d_name weight_of weight_leb weight_leb_total weight_leb_trans ds n) as H.
    unfold cascade. inversion H as [l Hl E1 E2 | l1 w l2 Hw H1 H2 E1 E2]; auto.
    exists l1, l2. repeat split; auto.
    intros d Hd Hn. apply wlt_not_leb. auto.
  Qed.

  Theorem fold_is_stable_sort_max (ds : list decl) (n : Z) :
    get (cascade ds) n = last_opt (stable_sort weight_of weight_leb (named d_name n ds)).
  Proof.
    exact (fold_is_spec_winner decl weight d_name weight_of weight_leb weight_leb_total weight_leb_trans ds n).
  Qed.

  Lemma wlt_wle d e : wlt d e -> wle d e.
  Proof. unfold wlt, wle. rewrite weight_ltb_true, weight_leb_true. auto. Qed.

  (* the winner is one of the declarations for that name and no declaration for it weighs more *)
  Theorem winner_max (ds : list decl) n w :
    get (cascade ds) n = Some w ->
    In w ds /\ d_name w = n /\ forall d, In d ds -> d_name d = n -> wle d w.
  Proof.
    intros G. pose proof (fold_picks_max ds n) as H. rewrite G in H.
    destruct H as [l1 [l2 [E [Hn [H1 H2]]]]]. subst ds. split; [apply in_elt|]. split; auto.
    intros d Hd Hdn. apply in_app_or in Hd. destruct Hd as [Hd|[->|Hd]]; auto.
    - unfold wle. apply weight_leb_refl.
    - apply wlt_wle; auto.
  Qed.

  Theorem some_declaration_wins (ds : list decl) n d :
    In d ds -> d_name d = n -> exists w, get (cascade ds) n = Some w.
  Proof.
    intros Hd Hn. pose proof (fold_picks_max ds n) as H.
    destruct (get (cascade ds) n) as [w|]; eauto. exfalso. exact (H d Hd Hn).
  Qed.

  (* ---- origin and importance *)
  Theorem precedence_order (i j : bool) :
    declaration_precedence UA i = declaration_precedence UA j /\
    declaration_precedence UA i < declaration_precedence User false /\
    declaration_precedence User false < declaration_precedence Author false /\
    declaration_precedence Author false < declaration_precedence Author true /\
    declaration_precedence Author true < declaration_precedence User true.
  Proof. destruct i, j; simpl; lia. Qed.

  Lemma precedence_str_origin o i :
    declaration_precedence_str (origin_str o) i = Some (declaration_precedence o i).
  Proof. destruct o, i; reflexivity. Qed.

  Lemma wle_prec d e : wle d e -> prec d <= prec e.
  Proof.
    unfold wle. rewrite weight_leb_true. intros [[H|[H _]]|H]; unfold prec, weight_of in *; simpl in *; try lia.
    inversion H. lia.
  Qed.

  Theorem origin_importance_first (ds : list decl) n w d :
    get (cascade ds) n = Some w -> In d ds -> d_name d = n -> prec d <= prec w.
  Proof. intros G Hd Hn. apply wle_prec. destruct (winner_max ds n w G) as [_ [_ H]]; auto. Qed.

  (* ---- specificity; the style attribute *)
  Theorem specificity_second (ds : list decl) n w d :
    get (cascade ds) n = Some w -> In d ds -> d_name d = n -> prec d = prec w ->
    spec_lt (d_spec d) (d_spec w) \/ d_spec d = d_spec w.
  Proof.
    intros G Hd Hn Hp. destruct (winner_max ds n w G) as [_ [_ H]]. specialize (H d Hd Hn).
    unfold wle in H. rewrite weight_leb_true in H. unfold prec, weight_of, weight_lt in *; simpl in *.
    destruct H as [[H|[_ H]]|H]; auto; [lia|]. inversion H; auto.
  Qed.

  Lemma selector_below_style_attr a b c : spec_lt (sel a b c) style_attr_spec.
  Proof. simpl; auto. Qed.

  Theorem style_attr_above_selectors (ds : list decl) n w d :
    get (cascade ds) n = Some w -> In d ds -> d_name d = n -> prec d = prec w ->
    d_spec d = style_attr_spec -> forall a b c, d_spec w <> sel a b c.
  Proof.
    intros G Hd Hn Hp Hs a b c E.
    destruct (specificity_second ds n w d G Hd Hn Hp) as [H|H]; rewrite Hs, E in H.
    - simpl in H. destruct H as [[]|[H _]]. discriminate.
    - discriminate.
  Qed.

  (* ---- position: the application sequence of an element is sorted by position *)
  Lemma in_decls_of o eff selsp sh ord (ds : list rdecl) d :
    In d (decls_of o eff selsp sh ord ds) ->
    d_origin d = o /\ d_spec d = eff /\ d_selspec d = selsp /\ d_sheet d = sh /\ d_order d = ord.
  Proof.
    unfold decls_of. rewrite in_map_iff. intros [[i r] [<- _]]. simpl. auto.
  Qed.

  Lemma decls_of_sorted o eff selsp sh ord (ds : list rdecl) :
    StronglySorted pos_le (decls_of o eff selsp sh ord ds).
  Proof.
    unfold decls_of. apply ss_map. eapply ss_weaken; [|apply number_sorted].
    intros [i r] [j r'] _ _ H. simpl in H. unfold pos_le; simpl.
    right; split; auto. right; split; auto. right; split; auto. lia.
  Qed.

  Definition mle (a b : smatch V) : Prop :=
    spec_lt (m_spec a) (m_spec b) \/ (m_spec a = m_spec b /\ m_order a <= m_order b).
  Lemma match_leb_true (a b : smatch V) : match_leb a b = true <-> mle a b.
  Proof.
    unfold match_leb, mle, lex. pose proof (spec_compare_spec (m_spec a) (m_spec b)) as H.
    destruct (spec_compare (m_spec a) (m_spec b)).
    - rewrite H. destruct (Z.compare_spec (m_order a) (m_order b)); split; intros; auto; try discriminate;
        try (right; split; auto; lia).
      destruct H1 as [H1|[_ H1]]; [exfalso; exact (spec_lt_irrefl _ H1) | lia].
    - split; auto.
    - split; [discriminate|]. intros [H1|[H1 _]].
      + exfalso; exact (spec_lt_irrefl _ (spec_lt_trans _ _ _ H H1)).
      + rewrite H1 in H. exfalso; exact (spec_lt_irrefl _ H).
  Qed.
  Lemma mle_total (a b : smatch V) : mle a b \/ mle b a.
  Proof.
    unfold mle. destruct (spec_trichotomy (m_spec a) (m_spec b)) as [H|[H|H]]; auto.
    destruct (Z.le_ge_cases (m_order a) (m_order b)); [left|right]; right; split; auto; lia.
  Qed.
  Lemma mle_trans (a b c : smatch V) : mle a b -> mle b c -> mle a c.
  Proof.
    unfold mle. intros [H|[E H]] [H'|[E' H']].
    - left; eapply spec_lt_trans; eauto.
    - left; rewrite <- E'; auto.
    - left; rewrite E; auto.
    - right; split; [congruence | lia].
  Qed.

  Lemma in_insert_match (m y : smatch V) s : In y (insert_match m s) <-> y = m \/ In y s.
  Proof.
    induction s as [|z r IH]; simpl; [intuition|].
    destruct (match_leb m z); simpl; [intuition|]. rewrite IH; intuition.
  Qed.
  Lemma insert_match_sorted (m : smatch V) s : StronglySorted mle s -> StronglySorted mle (insert_match m s).
  Proof.
    induction 1 as [|z r Hr IH Hz]; simpl.
    - repeat constructor.
    - destruct (match_leb m z) eqn:E.
      + apply match_leb_true in E. constructor; [constructor; auto|].
        constructor; auto. rewrite Forall_forall in *. intros y Hy. eapply mle_trans; eauto.
      + constructor; auto. rewrite Forall_forall in *. intros y Hy. apply in_insert_match in Hy.
        destruct Hy as [->|Hy]; auto.
        destruct (mle_total z m) as [H|H]; auto. apply match_leb_true in H. congruence.
  Qed.
  Lemma sort_matches_sorted (ms : list (smatch V)) : StronglySorted mle (sort_matches ms).
  Proof. induction ms; simpl; [constructor | apply insert_match_sorted; auto]. Qed.
  Lemma insert_match_perm (m : smatch V) s : Permutation (m :: s) (insert_match m s).
  Proof.
    induction s as [|z r IH]; simpl; auto. destruct (match_leb m z); auto.
    eapply perm_trans; [apply perm_swap|]. constructor; auto.
  Qed.
  Lemma sort_matches_perm (ms : list (smatch V)) : Permutation ms (sort_matches ms).
  Proof.
    induction ms as [|m r IH]; simpl; auto.
    eapply perm_trans; [|apply insert_match_perm]. constructor; auto.
  Qed.

  Definition orders_distinct (sheets : list (sheet V)) : Prop :=
    Forall (fun sh => NoDup (map m_order (snd sh))) sheets.

  Lemma sheet_seq_sorted p i (sh : sheet V) :
    NoDup (map m_order (snd sh)) -> StronglySorted pos_le (sheet_seq p i sh).
  Proof.
    destruct sh as [[o ss] ms]; simpl. intros Hn.
    assert (Hs : StronglySorted (fun a b => mle a b /\ m_order a <> m_order b) (sort_matches ms)).
    { apply ss_nodup; [|apply sort_matches_sorted].
      eapply Permutation_NoDup; [|exact Hn]. apply Permutation_map, sort_matches_perm. }
    eapply ss_flat_map; [exact Hs | |].
    - intros m _. destruct (m_pseudo m =? p); [apply decls_of_sorted | constructor].
    - intros a b x y _ _ [Hab Hne] Hx Hy.
      destruct (m_pseudo a =? p); [|contradiction]. destruct (m_pseudo b =? p); [|contradiction].
      apply in_decls_of in Hx, Hy.
      destruct Hx as [_ [_ [Hx1 [Hx2 Hx3]]]], Hy as [_ [_ [Hy1 [Hy2 Hy3]]]].
      unfold pos_le. rewrite Hx1, Hx2, Hx3, Hy1, Hy2, Hy3. right; split; auto.
      destruct Hab as [H|[H H']]; auto. right; split; auto. left; lia.
  Qed.

  Lemma in_sheet_seq p i (sh : sheet V) (d : decl) : In d (sheet_seq p i sh) -> d_sheet d = i.
  Proof.
    destruct sh as [[o ss] ms]; simpl. rewrite in_flat_map. intros [m [_ H]].
    destruct (m_pseudo m =? p); [|contradiction]. apply in_decls_of in H. tauto.
  Qed.

  Lemma attr_seq_sorted attrs : StronglySorted pos_le (attr_seq (V:=V) attrs).
  Proof.
    unfold attr_seq. eapply ss_flat_map; [apply (number_sorted attrs 0) | |].
    - intros a _. apply decls_of_sorted.
    - intros [i a] [j b] x y _ _ H Hx Hy. simpl in *.
      apply in_decls_of in Hx, Hy.
      destruct Hx as [_ [_ [Hx1 [Hx2 Hx3]]]], Hy as [_ [_ [Hy1 [Hy2 Hy3]]]].
      unfold pos_le. rewrite Hx1, Hx2, Hx3, Hy1, Hy2, Hy3.
      right; split; [reflexivity|]. right; split; [reflexivity|]. left; exact H.
  Qed.
  Lemma in_attr_seq attrs (d : decl) : In d (attr_seq (V:=V) attrs) -> d_sheet d = -1.
  Proof.
    unfold attr_seq. rewrite in_flat_map. intros [[i a] [_ H]]. apply in_decls_of in H. tauto.
  Qed.

  Theorem app_seq_sorted p attrs (sheets : list (sheet V)) :
    orders_distinct sheets -> StronglySorted pos_le (app_seq p attrs sheets).
  Proof.
    intros Hd. unfold app_seq. apply ss_app.
    - destruct (p =? 0); [apply attr_seq_sorted | constructor].
    - eapply ss_flat_map; [apply (number_sorted sheets 0) | |].
      + intros [i sh] Hi. apply in_number in Hi. destruct Hi as [_ Hi]. simpl.
        apply sheet_seq_sorted. unfold orders_distinct in Hd. rewrite Forall_forall in Hd. auto.
      + intros [i a] [j b] x y _ _ H Hx Hy. simpl in *.
        apply in_sheet_seq in Hx, Hy. unfold pos_le. left; lia.
    - intros x y Hx Hy. apply in_flat_map in Hy. destruct Hy as [[i sh] [Hi Hy]].
      apply in_number in Hi. simpl in Hy. apply in_sheet_seq in Hy.
      destruct (p =? 0); [|contradiction]. apply in_attr_seq in Hx. unfold pos_le. left; lia.
  Qed.

  (* equal weight: nothing positioned after the winner *)
  Theorem source_order_across_sheets p attrs (sheets : list (sheet V)) n w d :
    orders_distinct sheets ->
    get (element_cascade p attrs sheets) n = Some w ->
    In d (app_seq p attrs sheets) -> d_name d = n -> weight_of d = weight_of w ->
    pos_le d w.
  Proof.
    intros Ho G Hd Hn Hw. unfold element_cascade in G.
    pose proof (fold_picks_max (app_seq p attrs sheets) n) as H. rewrite G in H.
    destruct H as [l1 [l2 [E [_ [_ H2]]]]].
    pose proof (app_seq_sorted p attrs sheets Ho) as Hs. rewrite E in Hs, Hd.
    apply in_app_or in Hd. destruct Hd as [Hd|[<-|Hd]].
    - eapply ss_before; eauto.
    - unfold pos_le. right; split; auto. right; split; auto. right; split; auto. lia.
    - exfalso. specialize (H2 d Hd Hn). unfold wlt in H2. rewrite Hw in H2.
      apply weight_ltb_true in H2. exact (weight_lt_irrefl _ H2).
  Qed.

  (* ... read for ordinary sheets (no sheet specificity override: the weight uses the selector's specificity) *)
  Corollary later_sheet_later_rule_wins p attrs (sheets : list (sheet V)) n w d :
    orders_distinct sheets ->
    get (element_cascade p attrs sheets) n = Some w ->
    In d (app_seq p attrs sheets) -> d_name d = n -> weight_of d = weight_of w ->
    d_selspec d = d_spec d -> d_selspec w = d_spec w ->
    d_sheet d < d_sheet w \/
    (d_sheet d = d_sheet w /\ (d_order d < d_order w \/ (d_order d = d_order w /\ d_idx d <= d_idx w))).
  Proof.
    intros Ho G Hd Hn Hw Hsd Hsw.
    destruct (source_order_across_sheets p attrs sheets n w d Ho G Hd Hn Hw) as [H|[H1 [H|[_ H]]]]; auto.
    exfalso. rewrite Hsd, Hsw in H. assert (E : d_spec d = d_spec w) by (unfold weight_of in Hw; congruence).
    rewrite E in H. exact (spec_lt_irrefl _ H).
  Qed.

  (* add_page_declarations is the same fold on the page rules in list order *)
  Theorem page_declarations_pick_max p (sheets : list (page_sheet V)) n :
    match get (page_cascade p sheets) n with
    | None => forall d, In d (page_seq p sheets) -> d_name d <> n
    | Some w => exists l1 l2, page_seq p sheets = l1 ++ w :: l2 /\ d_name w = n /\
                  (forall d, In d l1 -> d_name d = n -> wle d w) /\
                  (forall d, In d l2 -> d_name d = n -> wlt d w)
    end.
  Proof. exact (fold_picks_max (page_seq p sheets) n). Qed.
End Thms.
Arguments prec {V}. Arguments wle {V}. Arguments wlt {V}. Arguments orders_distinct {V}.
