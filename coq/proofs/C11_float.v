(* C11 - floats: theorems about the models of get_clearance, avoid_collisions, find_float_position and
   relative_positioning (model/C11Float.v). *)
From Coq Require Import QArith Qminmax Lqa List Bool Lia.
Require Import WV.model.C11Float.
Import ListNotations.
Open Scope Q_scope.

(* ------------------------------------------------------------------------------------------ basic facts *)
Lemma Qlt_b_iff a b : Qlt_b a b = true <-> a < b.
Proof.
  unfold Qlt_b. rewrite negb_true_iff. split.
  - intro H. apply Qnot_le_lt. intro Hle. apply Qle_bool_iff in Hle. congruence.
  - intro H. destruct (Qle_bool b a) eqn:E; [|reflexivity]. apply Qle_bool_iff in E. lra.
Qed.

Lemma Qlt_b_false a b : Qlt_b a b = false <-> b <= a.
Proof.
  unfold Qlt_b. rewrite negb_false_iff. apply Qle_bool_iff.
Qed.

Lemma Qmax_cases a b : (Qmax a b == a /\ b <= a) \/ (Qmax a b == b /\ a <= b).
Proof.
  destruct (Q.max_spec a b) as [[H1 H2]|[H1 H2]]; [right|left]; split; try assumption; lra.
Qed.

Lemma Qmin_cases a b : (Qmin a b == a /\ a <= b) \/ (Qmin a b == b /\ b <= a).
Proof.
  destruct (Q.min_spec a b) as [[H1 H2]|[H1 H2]]; [left|right]; split; try assumption; lra.
Qed.

Lemma fold_max_spec l : forall l0,
  let m := fold_left Qmax l l0 in
  l0 <= m /\ (forall v, In v l -> v <= m) /\ (m == l0 \/ exists v, In v l /\ m == v).
Proof.
  induction l as [|a t IH]; intro l0; simpl.
  - split; [lra|]. split; [intros v []|]. left; reflexivity.
  - destruct (IH (Qmax l0 a)) as [H1 [H2 H3]].
    destruct (Qmax_cases l0 a) as [[E Hle]|[E Hle]].
    + split; [lra|]. split.
      * intros v [Hv|Hv]; [subst v; lra | apply H2; exact Hv].
      * destruct H3 as [H3|[v [Hv H3]]]; [left; lra | right; exists v; split; [right; exact Hv | exact H3]].
    + split; [lra|]. split.
      * intros v [Hv|Hv]; [subst v; lra | apply H2; exact Hv].
      * destruct H3 as [H3|[v [Hv H3]]]; [right; exists a; split; [left; reflexivity | lra]
                                         | right; exists v; split; [right; exact Hv | exact H3]].
Qed.

Lemma fold_min_spec l : forall r0,
  let m := fold_left Qmin l r0 in
  m <= r0 /\ (forall v, In v l -> m <= v) /\ (m == r0 \/ exists v, In v l /\ m == v).
Proof.
  induction l as [|a t IH]; intro r0; simpl.
  - split; [lra|]. split; [intros v []|]. left; reflexivity.
  - destruct (IH (Qmin r0 a)) as [H1 [H2 H3]].
    destruct (Qmin_cases r0 a) as [[E Hle]|[E Hle]].
    + split; [lra|]. split.
      * intros v [Hv|Hv]; [subst v; lra | apply H2; exact Hv].
      * destruct H3 as [H3|[v [Hv H3]]]; [left; lra | right; exists v; split; [right; exact Hv | exact H3]].
    + split; [lra|]. split.
      * intros v [Hv|Hv]; [subst v; lra | apply H2; exact Hv].
      * destruct H3 as [H3|[v [Hv H3]]]; [right; exists a; split; [left; reflexivity | lra]
                                         | right; exists v; split; [right; exact Hv | exact H3]].
Qed.

(* ---------------------------------------------------------------------------------------- get_clearance *)
Definition oval (o : oq) : Q := match o with Some v => v | None => 0 end.

Definition clear_step (c : clear_t) (hyp : Q) (clearance : oq) (s : shape) : oq :=
  if names c s then
    if Qlt_b hyp (s_bottom s)
    then Some (Qmax (match clearance with Some v => v | None => 0 end) (s_bottom s - hyp))
    else clearance
  else clearance.

Lemma get_clearance_fold shapes c hyp : get_clearance shapes c hyp = fold_left (clear_step c hyp) shapes None.
Proof. reflexivity. Qed.

Lemma clearance_fold c hyp shapes : forall acc,
  (forall a, acc = Some a -> 0 < a) ->
  let r := fold_left (clear_step c hyp) shapes acc in
  oval acc <= oval r /\
  (forall v, r = Some v -> 0 < v) /\
  (forall s, In s shapes -> names c s = true -> s_bottom s <= hyp + oval r) /\
  (r = None -> acc = None) /\
  (forall v, r = Some v -> (exists a, acc = Some a /\ v == a) \/
                           (exists s, In s shapes /\ names c s = true /\ s_bottom s == hyp + v)).
Proof.
  induction shapes as [|s t IH]; intros acc Hpos; simpl.
  - split; [lra|]. split; [exact Hpos|]. split; [intros s []|]. split; [auto|].
    intros v Hv. left. exists v. split; [exact Hv | reflexivity].
  - assert (Hpos' : forall a, clear_step c hyp acc s = Some a -> 0 < a).
    { intros a Ha. unfold clear_step in Ha. destruct (names c s); [|apply Hpos; exact Ha].
      destruct (Qlt_b hyp (s_bottom s)) eqn:E; [|apply Hpos; exact Ha].
      apply Qlt_b_iff in E. injection Ha as Ha. subst a.
      destruct (Qmax_cases (match acc with Some v => v | None => 0 end) (s_bottom s - hyp)) as [[E1 E2]|[E1 E2]]; lra. }
    destruct (IH (clear_step c hyp acc s) Hpos') as [H1 [H2 [H3 [H4 H5]]]].
    assert (Hstep : oval acc <= oval (clear_step c hyp acc s) /\
                    (names c s = true -> s_bottom s <= hyp + oval (clear_step c hyp acc s))).
    { unfold clear_step. destruct (names c s) eqn:En.
      - destruct (Qlt_b hyp (s_bottom s)) eqn:E.
        + apply Qlt_b_iff in E. simpl.
          destruct (Qmax_cases (match acc with Some v => v | None => 0 end) (s_bottom s - hyp)) as [[E1 E2]|[E1 E2]];
            destruct acc; simpl in *; split; intros; lra.
        + apply Qlt_b_false in E. split; [lra|]. intros _.
          assert (0 <= oval acc) by (destruct acc as [a|]; simpl; [specialize (Hpos a eq_refl); lra | lra]). lra.
      - split; [lra | discriminate]. }
    destruct Hstep as [Hs1 Hs2].
    split; [lra|]. split; [exact H2|]. split.
    + intros s' [Hs'|Hs'] Hn; [subst s'; specialize (Hs2 Hn); lra | apply H3; assumption].
    + split.
      * intro Hr. specialize (H4 Hr). unfold clear_step in H4.
        destruct (names c s); [|exact H4]. destruct (Qlt_b hyp (s_bottom s)); [discriminate H4 | exact H4].
      * intros v Hv. destruct (H5 v Hv) as [[a [Ha Hva]]|[s' [Hin [Hn Hb]]]].
        -- unfold clear_step in Ha. destruct (names c s) eqn:En.
           ++ destruct (Qlt_b hyp (s_bottom s)) eqn:E.
              ** apply Qlt_b_iff in E. injection Ha as Ha. subst a.
                 destruct (Qmax_cases (match acc with Some v => v | None => 0 end) (s_bottom s - hyp)) as [[E1 E2]|[E1 E2]].
                 --- destruct acc as [a0|].
                     +++ left. exists a0. split; [reflexivity | lra].
                     +++ right. exists s. split; [left; reflexivity|]. split; [exact En | lra].
                 --- right. exists s. split; [left; reflexivity|]. split; [exact En | lra].
              ** left. exists a. split; assumption.
           ++ left. exists a. split; assumption.
        -- right. exists s'. split; [right; exact Hin|]. split; assumption.
Qed.

(* clear moves below: no clearance iff the top border edge is already below every float named by `clear`;
   otherwise the clearance is positive, puts the top border edge below all of them and exactly at the bottom
   margin edge of one of them *)
Theorem clear_moves_below shapes c hyp :
  match get_clearance shapes c hyp with
  | None => forall s, In s shapes -> names c s = true -> s_bottom s <= hyp
  | Some v => 0 < v /\ (forall s, In s shapes -> names c s = true -> s_bottom s <= hyp + v) /\
              (exists s, In s shapes /\ names c s = true /\ s_bottom s == hyp + v)
  end.
Proof.
  rewrite get_clearance_fold.
  destruct (clearance_fold c hyp shapes None) as [H1 [H2 [H3 [H4 H5]]]]; [discriminate|].
  destruct (fold_left (clear_step c hyp) shapes None) as [v|] eqn:E.
  - split; [apply H2; reflexivity|]. split.
    + intros s Hin Hn. specialize (H3 s Hin Hn). simpl in H3. exact H3.
    + destruct (H5 v eq_refl) as [[a [Ha _]]|Hex]; [discriminate Ha | exact Hex].
  - intros s Hin Hn. specialize (H3 s Hin Hn). simpl in H3. lra.
Qed.

Example clear_example :
  get_clearance [mk_shape true 0 10 50 30; mk_shape false 150 20 50 50] ClearLeft 25 = Some (Qmax 0 (10 + 30 - 25)).
Proof. reflexivity. Qed.

(* --------------------------------------------------------------------------------------------- one band *)
Lemma collides_iff y bh s :
  0 <= bh -> 0 < s_h s -> (collides y bh s = true <-> v_overlaps y bh s).
Proof.
  intros Hbh Hsh. unfold collides, v_overlaps, s_bottom.
  rewrite !orb_true_iff, !andb_true_iff, !Qlt_b_iff, !Qle_bool_iff. split.
  - intros [[[H1 H2]|[H1 H2]]|[H1 H2]]; split; lra.
  - intros [H1 H2].
    destruct (Qlt_le_dec (s_y s) y) as [Hlt|Hle].
    + left; left; split; lra.
    + destruct (Qlt_le_dec (y + bh) (s_y s + s_h s)) as [Hlt2|Hle2].
      * left; right; split; lra.
      * right; split; lra.
Qed.

Definition colliding (shapes : list shape) (y bh : Q) : list shape := filter (collides y bh) shapes.

Lemma band_left_spec cs l0 :
  l0 <= band_left cs l0 /\
  (forall s, In s cs -> s_left s = true -> s_x s + s_w s <= band_left cs l0) /\
  (band_left cs l0 == l0 \/ exists s, In s cs /\ s_left s = true /\ band_left cs l0 == s_x s + s_w s).
Proof.
  unfold band_left. destruct (fold_max_spec (left_bounds cs) l0) as [H1 [H2 H3]].
  split; [exact H1|]. split.
  - intros s Hin Hl. apply H2. unfold left_bounds. apply in_map_iff. exists s. split; [reflexivity|].
    apply filter_In. split; assumption.
  - destruct H3 as [H3|[v [Hv H3]]]; [left; exact H3|]. right.
    unfold left_bounds in Hv. apply in_map_iff in Hv. destruct Hv as [s [Hs Hin]]. apply filter_In in Hin.
    exists s. split; [tauto|]. split; [tauto|]. rewrite Hs. exact H3.
Qed.

Lemma band_right_spec cs r0 :
  band_right cs r0 <= r0 /\
  (forall s, In s cs -> s_left s = false -> band_right cs r0 <= s_x s) /\
  (band_right cs r0 == r0 \/ exists s, In s cs /\ s_left s = false /\ band_right cs r0 == s_x s).
Proof.
  unfold band_right. destruct (fold_min_spec (right_bounds cs) r0) as [H1 [H2 H3]].
  split; [exact H1|]. split.
  - intros s Hin Hl. apply H2. unfold right_bounds. apply in_map_iff. exists s. split; [reflexivity|].
    apply filter_In. split; [assumption | rewrite Hl; reflexivity].
  - destruct H3 as [H3|[v [Hv H3]]]; [left; exact H3|]. right.
    unfold right_bounds in Hv. apply in_map_iff in Hv. destruct Hv as [s [Hs Hin]]. apply filter_In in Hin.
    exists s. split; [tauto|]. split; [destruct Hin as [_ Hin]; apply negb_true_iff in Hin; exact Hin|].
    rewrite Hs. exact H3.
Qed.

Lemma min_bottom_spec s0 rest :
  (forall s, In s (s0 :: rest) -> min_bottom s0 rest <= s_bottom s) /\
  (exists s, In s (s0 :: rest) /\ min_bottom s0 rest == s_bottom s).
Proof.
  unfold min_bottom. destruct (fold_min_spec (map s_bottom rest) (s_bottom s0)) as [H1 [H2 H3]]. split.
  - intros s [Hs|Hs]; [subst s; exact H1 | apply H2; apply in_map; exact Hs].
  - destruct H3 as [H3|[v [Hv H3]]].
    + exists s0. split; [left; reflexivity | exact H3].
    + apply in_map_iff in Hv. destruct Hv as [s [Hs Hin]]. exists s. split; [right; exact Hin | rewrite Hs; exact H3].
Qed.

(* single band: anything placed between the two bounds of the band at y is clear of every shape that
   overlaps the band vertically *)
Lemma band_clear shapes l0 r0 y bh x w s :
  0 <= bh -> 0 < s_h s -> In s shapes ->
  let cs := colliding shapes y bh in
  band_left cs l0 <= x -> x + w <= band_right cs r0 ->
  ~ overlaps x y w bh s.
Proof.
  intros Hbh Hsh Hin cs Hl Hr [Ho1 [Ho2 [Ho3 Ho4]]].
  assert (Hc : In s cs).
  { apply filter_In. split; [exact Hin|]. apply collides_iff; [assumption..|]. split; assumption. }
  destruct (s_left s) eqn:El.
  - destruct (band_left_spec cs l0) as [_ [H _]]. specialize (H s Hc El). lra.
  - destruct (band_right_spec cs r0) as [_ [H _]]. specialize (H s Hc El). lra.
Qed.

(* --------------------------------------------------------------------------- the loop: fuel, exit, scan *)
Definition below_count (shapes : list shape) (y : Q) : nat := length (filter (fun s => Qlt_b y (s_bottom s)) shapes).

Lemma below_count_le shapes y : (below_count shapes y <= length shapes)%nat.
Proof.
  unfold below_count. induction shapes as [|a t IH]; simpl; [lia|]. destruct (Qlt_b y (s_bottom a)); simpl; lia.
Qed.

Lemma below_count_decreases shapes y ny s :
  In s shapes -> y < ny -> s_bottom s == ny -> (below_count shapes ny < below_count shapes y)%nat.
Proof.
  intros Hin Hlt Hb. unfold below_count.
  induction shapes as [|a t IH]; [destruct Hin|].
  assert (Hmono : forall l, (length (filter (fun s => Qlt_b ny (s_bottom s)) l) <=
                             length (filter (fun s => Qlt_b y (s_bottom s)) l))%nat).
  { induction l as [|b l IHl]; simpl; [lia|].
    destruct (Qlt_b ny (s_bottom b)) eqn:E1.
    - apply Qlt_b_iff in E1. assert (E2 : Qlt_b y (s_bottom b) = true) by (apply Qlt_b_iff; lra).
      rewrite E2. simpl. lia.
    - destruct (Qlt_b y (s_bottom b)); simpl; lia. }
  simpl. destruct Hin as [Ha|Hin].
  - subst a. assert (E1 : Qlt_b ny (s_bottom s) = false) by (apply Qlt_b_false; lra).
    assert (E2 : Qlt_b y (s_bottom s) = true) by (apply Qlt_b_iff; lra).
    rewrite E1, E2. simpl. specialize (Hmono t). lia.
  - specialize (IH Hin). destruct (Qlt_b ny (s_bottom a)) eqn:E1.
    + apply Qlt_b_iff in E1. assert (E2 : Qlt_b y (s_bottom a) = true) by (apply Qlt_b_iff; lra).
      rewrite E2. simpl. lia.
    + destruct (Qlt_b y (s_bottom a)); simpl; lia.
Qed.

(* termination measure: every time a band does not fit, y strictly increases to the bottom of a shape, and
   the number of shapes whose bottom is still below decreases *)
Lemma avoid_loop_fuel fuel : forall shapes l0 r0 bw bh y,
  (below_count shapes y < fuel)%nat -> avoid_loop fuel shapes l0 r0 bw bh y <> None.
Proof.
  induction fuel as [|f IH]; intros shapes l0 r0 bw bh y Hc; [lia|].
  simpl. destruct (filter (collides y bh) shapes) as [|s0 rest] eqn:Ecs; [discriminate|].
  destruct (Qlt_b (band_right (s0 :: rest) r0 - band_left (s0 :: rest) l0) bw); [|discriminate].
  destruct (Qlt_b y (min_bottom s0 rest)) eqn:Ey; [|discriminate].
  apply Qlt_b_iff in Ey. apply IH.
  destruct (min_bottom_spec s0 rest) as [_ [s [Hin Hb]]].
  assert (Hs : In s shapes).
  { rewrite <- Ecs in Hin. apply filter_In in Hin. tauto. }
  pose proof (below_count_decreases shapes y (min_bottom s0 rest) s Hs Ey ltac:(lra)). lia.
Qed.

Theorem avoid_loop_terminates shapes l0 r0 bw bh y :
  avoid_loop (S (length shapes)) shapes l0 r0 bw bh y <> None.
Proof.
  apply avoid_loop_fuel. pose proof (below_count_le shapes y). lia.
Qed.

(* more fuel never changes a result *)
Lemma avoid_loop_more_fuel fuel : forall shapes l0 r0 bw bh y r,
  avoid_loop fuel shapes l0 r0 bw bh y = Some r -> avoid_loop (S fuel) shapes l0 r0 bw bh y = Some r.
Proof.
  induction fuel as [|f IH]; intros shapes l0 r0 bw bh y r H; [discriminate|].
  simpl in H. simpl. destruct (filter (collides y bh) shapes) as [|s0 rest]; [exact H|].
  destruct (Qlt_b (band_right (s0 :: rest) r0 - band_left (s0 :: rest) l0) bw); [|exact H].
  destruct (Qlt_b y (min_bottom s0 rest)); [|exact H].
  apply IH in H. exact H.
Qed.

(* what holds at the exit *)
Definition exit_state (shapes : list shape) (l0 r0 bw bh : Q) (r : Q * Q * Q) : Prop :=
  let '(y, mlb, mrb) := r in
  let cs := colliding shapes y bh in
  mlb == band_left cs l0 /\ mrb == band_right cs r0 /\
  (cs = [] \/ bw <= mrb - mlb \/ exists s, In s cs /\ s_bottom s <= y).

Lemma avoid_loop_exit fuel : forall shapes l0 r0 bw bh y0 r,
  avoid_loop fuel shapes l0 r0 bw bh y0 = Some r ->
  y0 <= fst (fst r) /\ exit_state shapes l0 r0 bw bh r.
Proof.
  induction fuel as [|f IH]; intros shapes l0 r0 bw bh y0 r H; [discriminate|].
  simpl in H. destruct (filter (collides y0 bh) shapes) as [|s0 rest] eqn:Ecs.
  - injection H as H. subst r. simpl. split; [lra|]. unfold colliding. rewrite Ecs.
    split; [reflexivity|]. split; [reflexivity|]. left; reflexivity.
  - destruct (Qlt_b (band_right (s0 :: rest) r0 - band_left (s0 :: rest) l0) bw) eqn:Efit.
    + destruct (Qlt_b y0 (min_bottom s0 rest)) eqn:Ey.
      * apply Qlt_b_iff in Ey. apply IH in H. destruct H as [H1 H2]. split; [lra | exact H2].
      * apply Qlt_b_false in Ey. injection H as H. subst r. simpl. split; [lra|]. unfold colliding. rewrite Ecs.
        split; [reflexivity|]. split; [reflexivity|]. right; right.
        destruct (min_bottom_spec s0 rest) as [_ [s [Hin Hb]]]. exists s. split; [exact Hin | lra].
    + apply Qlt_b_false in Efit. injection H as H. subst r. simpl. split; [lra|]. unfold colliding. rewrite Ecs.
      split; [reflexivity|]. split; [reflexivity|]. right; left. exact Efit.
Qed.

(* with shapes of positive height the "no solution" exit cannot happen: the loop ends in a band that is
   free, or in which the box fits *)
Lemma exit_fits shapes l0 r0 bw bh y mlb mrb :
  0 <= bh -> (forall s, In s shapes -> 0 < s_h s) ->
  exit_state shapes l0 r0 bw bh (y, mlb, mrb) ->
  colliding shapes y bh = [] \/ bw <= mrb - mlb.
Proof.
  intros Hbh Hpos [_ [_ [H|[H|[s [Hin Hb]]]]]]; [left; exact H | right; exact H|].
  exfalso. unfold colliding in Hin. apply filter_In in Hin. destruct Hin as [Hin Hc].
  apply collides_iff in Hc; [|assumption | apply Hpos; exact Hin]. destruct Hc as [_ Hc]. lra.
Qed.

Lemma colliding_nil_no_overlap shapes y bh x w s :
  0 <= bh -> 0 < s_h s -> In s shapes -> colliding shapes y bh = [] -> ~ overlaps x y w bh s.
Proof.
  intros Hbh Hsh Hin Hnil [_ [_ [Ho3 Ho4]]].
  assert (Hc : In s (colliding shapes y bh)).
  { apply filter_In. split; [exact Hin|]. apply collides_iff; [assumption..|]. split; assumption. }
  rewrite Hnil in Hc. destruct Hc.
Qed.

(* as high as possible: every band the loop went past had no room for the box - for EVERY y' between the
   start and the result, not only the visited ones *)
Lemma colliding_grows shapes y0 bh ny y' s0 rest :
  0 <= bh -> (forall s, In s shapes -> 0 < s_h s) ->
  colliding shapes y0 bh = s0 :: rest -> ny == min_bottom s0 rest -> y0 <= y' -> y' < ny ->
  forall s, In s (colliding shapes y0 bh) -> In s (colliding shapes y' bh).
Proof.
  intros Hbh Hpos Ecs Hny Hle Hlt s Hin.
  assert (Hb : ny <= s_bottom s).
  { destruct (min_bottom_spec s0 rest) as [H _]. rewrite Ecs in Hin. specialize (H s Hin). lra. }
  unfold colliding in *. apply filter_In in Hin. destruct Hin as [Hin Hc]. apply filter_In. split; [exact Hin|].
  apply collides_iff in Hc; [|assumption | apply Hpos; exact Hin]. destruct Hc as [Hc1 Hc2].
  apply collides_iff; [assumption | apply Hpos; exact Hin|]. split; lra.
Qed.

Lemma band_left_mono cs cs' l0 :
  (forall s, In s cs -> In s cs') -> band_left cs l0 <= band_left cs' l0.
Proof.
  intro Hsub. destruct (band_left_spec cs l0) as [_ [_ [H|[s [Hin [Hl H]]]]]].
  - destruct (band_left_spec cs' l0) as [H' _]. lra.
  - destruct (band_left_spec cs' l0) as [_ [H' _]]. specialize (H' s (Hsub s Hin) Hl). lra.
Qed.

Lemma band_right_mono cs cs' r0 :
  (forall s, In s cs -> In s cs') -> band_right cs' r0 <= band_right cs r0.
Proof.
  intro Hsub. destruct (band_right_spec cs r0) as [_ [_ [H|[s [Hin [Hl H]]]]]].
  - destruct (band_right_spec cs' r0) as [H' _]. lra.
  - destruct (band_right_spec cs' r0) as [_ [H' _]]. specialize (H' s (Hsub s Hin) Hl). lra.
Qed.

Lemma avoid_loop_as_high fuel : forall shapes l0 r0 bw bh y0 r,
  0 <= bh -> (forall s, In s shapes -> 0 < s_h s) ->
  avoid_loop fuel shapes l0 r0 bw bh y0 = Some r ->
  forall y', y0 <= y' -> y' < fst (fst r) -> no_room_at shapes l0 r0 bw bh y'.
Proof.
  induction fuel as [|f IH]; intros shapes l0 r0 bw bh y0 r Hbh Hpos H y' Hle Hlt; [discriminate|].
  simpl in H. destruct (filter (collides y0 bh) shapes) as [|s0 rest] eqn:Ecs.
  - injection H as H. subst r. simpl in Hlt. lra.
  - destruct (Qlt_b (band_right (s0 :: rest) r0 - band_left (s0 :: rest) l0) bw) eqn:Efit.
    + destruct (Qlt_b y0 (min_bottom s0 rest)) eqn:Ey.
      * destruct (Qlt_le_dec y' (min_bottom s0 rest)) as [Hy'|Hy'].
        -- (* y' is inside the band that was skipped *)
           apply Qlt_b_iff in Efit.
           pose proof (colliding_grows shapes y0 bh (min_bottom s0 rest) y' s0 rest Hbh Hpos Ecs
                         ltac:(reflexivity) Hle Hy') as Hsub.
           unfold colliding in Hsub. rewrite Ecs in Hsub.
           unfold no_room_at. cbv zeta. split.
           ++ intro Hnil. specialize (Hsub s0 (or_introl eq_refl)). rewrite Hnil in Hsub. destruct Hsub.
           ++ pose proof (band_left_mono (s0 :: rest) (filter (collides y' bh) shapes) l0 Hsub).
              pose proof (band_right_mono (s0 :: rest) (filter (collides y' bh) shapes) r0 Hsub). lra.
        -- eapply IH; eassumption.
      * injection H as H. subst r. simpl in Hlt. lra.
    + injection H as H. subst r. simpl in Hlt. lra.
Qed.

(* ---------------------------------------------------------------------------------- find_float_position *)
Definition start_y (shapes : list shape) (b : fbox) : Q :=
  match shapes with
  | [] => f_py b
  | _ => Qmax (f_py b) (s_y (last shapes (mk_shape true 0 0 0 0)))
  end.

Definition floated (b : fbox) : Prop := f_kind b = FloatLeft \/ f_kind b = FloatRight.

(* find_float_position unfolded: the loop started at start_y with the margin box *)
Lemma find_float_position_unfold fuel shapes cbx cbw rtl b x y :
  floated b -> ~ f_bh b == 0 ->
  find_float_position fuel shapes cbx cbw rtl b = Some (x, y) ->
  exists y0 mlb mrb,
    y0 == start_y shapes b /\
    avoid_loop fuel shapes cbx (cbx + cbw) (margin_width b) (margin_height b) y0 = Some (y, mlb, mrb) /\
    x == (match f_kind b with FloatRight => mrb - margin_width b | _ => mlb end).
Proof.
  intros Hfl Hnz H. unfold find_float_position in H.
  set (py := match shapes with
             | [] => f_py b
             | _ => let highest := s_y (last shapes (mk_shape true 0 0 0 0)) in
                    if Qlt_b (f_py b) highest then f_py b + (highest - f_py b) else f_py b
             end) in H.
  assert (Hpy : py == start_y shapes b).
  { unfold py, start_y. destruct shapes as [|s0 t]; [reflexivity|]. cbv zeta.
    destruct (Qlt_b (f_py b) (s_y (last (s0 :: t) (mk_shape true 0 0 0 0)))) eqn:E.
    - apply Qlt_b_iff in E. destruct (Qmax_cases (f_py b) (s_y (last (s0 :: t) (mk_shape true 0 0 0 0)))) as [[E1 E2]|[E1 E2]]; lra.
    - apply Qlt_b_false in E. destruct (Qmax_cases (f_py b) (s_y (last (s0 :: t) (mk_shape true 0 0 0 0)))) as [[E1 E2]|[E1 E2]]; lra. }
  unfold avoid_collisions in H. cbn [f_bh f_kind f_py f_ml f_mr f_mt f_mb f_bw] in H.
  assert (Ez : Qeq_bool (f_bh b) 0 = false).
  { destruct (Qeq_bool (f_bh b) 0) eqn:E; [|reflexivity]. apply Qeq_bool_iff in E. contradiction. }
  rewrite Ez in H. cbn [andb] in H.
  change (margin_width (mk_fbox (f_kind b) py (f_ml b) (f_mr b) (f_mt b) (f_mb b) (f_bw b) (f_bh b))) with (margin_width b) in H.
  change (margin_height (mk_fbox (f_kind b) py (f_ml b) (f_mr b) (f_mt b) (f_mb b) (f_bw b) (f_bh b))) with (margin_height b) in H.
  destruct (avoid_loop fuel shapes cbx (cbx + cbw) (margin_width b) (margin_height b) py) as [[[y1 mlb] mrb]|] eqn:El;
    [|discriminate].
  exists py, mlb, mrb. split; [exact Hpy|].
  destruct Hfl as [Hk|Hk]; rewrite Hk in H; injection H as Hx Hy; subst x y1; (split; [exact El|]); rewrite ?Hk; cbn [margin_width f_bw f_ml f_mr]; try reflexivity; unfold margin_width; lra.
Qed.

(* no overlap with any float already placed (rule 2 / rule 7 of CSS 2.1 9.5.1 as far as floats go) *)
Theorem float_no_overlap fuel shapes cbx cbw rtl b x y :
  floated b -> ~ f_bh b == 0 -> 0 <= margin_height b -> (forall s, In s shapes -> 0 < s_h s) ->
  find_float_position fuel shapes cbx cbw rtl b = Some (x, y) ->
  forall s, In s shapes -> ~ overlaps x y (margin_width b) (margin_height b) s.
Proof.
  intros Hfl Hnz Hbh Hpos H s Hin.
  destruct (find_float_position_unfold fuel shapes cbx cbw rtl b x y Hfl Hnz H) as [y0 [mlb [mrb [Hy0 [Hl Hx]]]]].
  destruct (avoid_loop_exit _ _ _ _ _ _ _ _ Hl) as [_ Hex].
  destruct (exit_fits _ _ _ _ _ _ _ _ Hbh Hpos Hex) as [Hnil|Hfit].
  - apply colliding_nil_no_overlap with (shapes := shapes); auto.
  - destruct Hex as [E1 [E2 _]]. intro Ho.
    assert (Ho' : overlaps (match f_kind b with FloatRight => mrb - margin_width b | _ => mlb end)
                           y (margin_width b) (margin_height b) s).
    { unfold overlaps in *. rewrite <- Hx. exact Ho. }
    revert Ho'. apply band_clear with (shapes := shapes) (l0 := cbx) (r0 := cbx + cbw); auto;
      fold (colliding shapes y (margin_height b)); destruct (f_kind b); lra.
Qed.

(* rules 5 and 6: not above where it started, nor above the last float placed before it *)
Theorem float_not_above fuel shapes cbx cbw rtl b x y :
  floated b -> ~ f_bh b == 0 ->
  find_float_position fuel shapes cbx cbw rtl b = Some (x, y) ->
  f_py b <= y /\ (shapes <> [] -> s_y (last shapes (mk_shape true 0 0 0 0)) <= y).
Proof.
  intros Hfl Hnz H.
  destruct (find_float_position_unfold fuel shapes cbx cbw rtl b x y Hfl Hnz H) as [y0 [mlb [mrb [Hy0 [Hl Hx]]]]].
  destruct (avoid_loop_exit _ _ _ _ _ _ _ _ Hl) as [Hge _]. simpl in Hge.
  unfold start_y in Hy0. destruct shapes as [|s0 t]; cbv iota in Hy0.
  - split; [lra | intro Hc; contradiction].
  - destruct (Qmax_cases (f_py b) (s_y (last (s0 :: t) (mk_shape true 0 0 0 0)))) as [[E1 E2]|[E1 E2]];
      (split; [lra | intros _; lra]).
Qed.

(* rule 8: as high as possible - at every height between the start and the result there is no room *)
Theorem float_as_high_as_possible fuel shapes cbx cbw rtl b x y :
  floated b -> ~ f_bh b == 0 -> 0 <= margin_height b -> (forall s, In s shapes -> 0 < s_h s) ->
  find_float_position fuel shapes cbx cbw rtl b = Some (x, y) ->
  forall y', start_y shapes b <= y' -> y' < y ->
    no_room_at shapes cbx (cbx + cbw) (margin_width b) (margin_height b) y'.
Proof.
  intros Hfl Hnz Hbh Hpos H y' Hle Hlt.
  destruct (find_float_position_unfold fuel shapes cbx cbw rtl b x y Hfl Hnz H) as [y0 [mlb [mrb [Hy0 [Hl Hx]]]]].
  apply (avoid_loop_as_high fuel shapes cbx (cbx + cbw) (margin_width b) (margin_height b) y0 (y, mlb, mrb)); auto.
  lra.
Qed.

(* rule 9: a left float is as far left as possible in its band: against the containing block's content edge
   or against the right margin edge of a left float of the band; symmetrically for a right float *)
Theorem float_as_far_as_possible fuel shapes cbx cbw rtl b x y :
  floated b -> ~ f_bh b == 0 ->
  find_float_position fuel shapes cbx cbw rtl b = Some (x, y) ->
  match f_kind b with
  | FloatRight =>
      x + margin_width b == cbx + cbw \/
      exists s, In s shapes /\ s_left s = false /\ collides y (margin_height b) s = true /\ x + margin_width b == s_x s
  | _ =>
      x == cbx \/
      exists s, In s shapes /\ s_left s = true /\ collides y (margin_height b) s = true /\ x == s_x s + s_w s
  end.
Proof.
  intros Hfl Hnz H.
  destruct (find_float_position_unfold fuel shapes cbx cbw rtl b x y Hfl Hnz H) as [y0 [mlb [mrb [Hy0 [Hl Hx]]]]].
  destruct (avoid_loop_exit _ _ _ _ _ _ _ _ Hl) as [_ [E1 [E2 _]]].
  destruct Hfl as [Hk|Hk]; rewrite Hk in *.
  - destruct (band_left_spec (colliding shapes y (margin_height b)) cbx) as [_ [_ [Hb|[s [Hin [Hls Hb]]]]]].
    + left. lra.
    + right. exists s. unfold colliding in Hin. apply filter_In in Hin. destruct Hin as [Hin Hc].
      split; [exact Hin|]. split; [exact Hls|]. split; [exact Hc | lra].
  - destruct (band_right_spec (colliding shapes y (margin_height b)) (cbx + cbw)) as [_ [_ [Hb|[s [Hin [Hls Hb]]]]]].
    + left. lra.
    + right. exists s. unfold colliding in Hin. apply filter_In in Hin. destruct Hin as [Hin Hc].
      split; [exact Hin|]. split; [exact Hls|]. split; [exact Hc | lra].
Qed.

(* rules 1 and 3: inside the containing block when it fits, and between the floats of its band *)
Theorem float_inside_band fuel shapes cbx cbw rtl b x y :
  floated b -> ~ f_bh b == 0 -> 0 <= margin_height b -> (forall s, In s shapes -> 0 < s_h s) ->
  margin_width b <= cbw ->
  find_float_position fuel shapes cbx cbw rtl b = Some (x, y) ->
  (colliding shapes y (margin_height b) = [] \/
   margin_width b <= band_right (colliding shapes y (margin_height b)) (cbx + cbw) -
                     band_left (colliding shapes y (margin_height b)) cbx) /\
  cbx <= x /\ x + margin_width b <= cbx + cbw.
Proof.
  intros Hfl Hnz Hbh Hpos Hw H.
  destruct (find_float_position_unfold fuel shapes cbx cbw rtl b x y Hfl Hnz H) as [y0 [mlb [mrb [Hy0 [Hl Hx]]]]].
  destruct (avoid_loop_exit _ _ _ _ _ _ _ _ Hl) as [_ Hex].
  pose proof (exit_fits _ _ _ _ _ _ _ _ Hbh Hpos Hex) as Hfit.
  destruct Hex as [E1 [E2 _]].
  destruct (band_left_spec (colliding shapes y (margin_height b)) cbx) as [HL _].
  destruct (band_right_spec (colliding shapes y (margin_height b)) (cbx + cbw)) as [HR _].
  destruct Hfit as [Hnil|Hfit].
  - split; [left; exact Hnil|]. rewrite Hnil in *. unfold band_left, band_right in *. simpl in *.
    destruct (f_kind b); lra.
  - split; [right; lra|]. destruct (f_kind b); lra.
Qed.

(* -------------------------------------------------------------------- a whole sequence: pairwise disjoint *)
Definition sorted_y (l : list shape) : Prop := ForallOrdPairs (fun a b => s_y a <= s_y b) l.
Definition pairwise_disjoint (l : list shape) : Prop := ForallOrdPairs (fun a b => ~ shapes_overlap b a) l.

Lemma FOP_snoc {A} (R : A -> A -> Prop) l x :
  ForallOrdPairs R l -> (forall a, In a l -> R a x) -> ForallOrdPairs R (l ++ [x]).
Proof.
  induction 1 as [|a l Ha Hl IH]; intro Hx; simpl.
  - constructor; [constructor | constructor].
  - constructor.
    + apply Forall_app. split; [exact Ha|]. constructor; [apply Hx; left; reflexivity | constructor].
    + apply IH. intros a' Ha'. apply Hx. right. exact Ha'.
Qed.

Lemma sorted_last l d a : sorted_y l -> In a l -> s_y a <= s_y (last l d).
Proof.
  induction 1 as [|b l Hb Hl IH]; intro Hin; [destruct Hin|].
  destruct Hin as [Ha|Hin].
  - subst b. destruct l as [|c t]; [simpl; lra|].
    assert (Hlast : In (last (c :: t) d) (c :: t)).
    { clear. revert c. induction t as [|e t IHt]; intro c; [left; reflexivity|]. right. apply IHt. }
    change (last (a :: c :: t) d) with (last (c :: t) d).
    rewrite Forall_forall in Hb. apply Hb. exact Hlast.
  - destruct l as [|c t]; [destruct Hin|]. change (last (b :: c :: t) d) with (last (c :: t) d). apply IH. exact Hin.
Qed.

Definition good_request (r : Q * Q * fbox) : Prop :=
  let b := snd r in floated b /\ ~ f_bh b == 0 /\ 0 < margin_height b.

Lemma place_all_invariant reqs : forall shapes out,
  Forall good_request reqs ->
  (forall s, In s shapes -> 0 < s_h s) -> sorted_y shapes -> pairwise_disjoint shapes ->
  place_all shapes reqs = Some out ->
  (forall s, In s out -> 0 < s_h s) /\ sorted_y out /\ pairwise_disjoint out /\
  length out = (length shapes + length reqs)%nat.
Proof.
  induction reqs as [|[[cbx cbw] b] rest IH]; intros shapes out Hgood Hpos Hsorted Hdisj H.
  - simpl in H. injection H as H. subst out. repeat split; try assumption. simpl. lia.
  - simpl in H.
    destruct (find_float_position (S (length shapes)) shapes cbx cbw false b) as [[x y]|] eqn:Ef; [|discriminate].
    inversion Hgood as [|r0 l0 Hg Hgrest]; subst. destruct Hg as [Hfl [Hnz Hmh]]. simpl in Hfl, Hnz, Hmh.
    assert (Hbh : 0 <= margin_height b) by lra.
    pose proof (float_no_overlap _ _ _ _ _ _ _ _ Hfl Hnz Hbh Hpos Ef) as Hno.
    pose proof (float_not_above _ _ _ _ _ _ _ _ Hfl Hnz Ef) as [_ Hlast].
    apply IH in H; auto.
    + destruct H as [H1 [H2 [H3 H4]]]. repeat split; try assumption. rewrite H4, app_length. simpl. lia.
    + intros s Hs. apply in_app_or in Hs. destruct Hs as [Hs|[Hs|[]]]; [apply Hpos; exact Hs | subst s; simpl; exact Hmh].
    + apply FOP_snoc; [exact Hsorted|]. intros a Ha. simpl.
      assert (Hne : shapes <> []) by (intro Hc; subst shapes; destruct Ha).
      specialize (Hlast Hne). pose proof (sorted_last shapes (mk_shape true 0 0 0 0) a Hsorted Ha). lra.
    + apply FOP_snoc; [exact Hdisj|]. intros a Ha. unfold shapes_overlap. simpl. apply Hno. exact Ha.
Qed.

(* the full non-overlap theorem: every sequence of floats (each with positive margin-box height, non-zero
   border-box height) placed one after the other into an empty formatting context ends pairwise disjoint,
   none above an earlier one, and the placement never runs out of fuel *)
Theorem floats_pairwise_disjoint reqs :
  Forall good_request reqs ->
  exists out, place_all [] reqs = Some out /\ length out = length reqs /\
              pairwise_disjoint out /\ sorted_y out.
Proof.
  intro Hgood.
  assert (Htotal : forall reqs shapes, place_all shapes reqs <> None).
  { clear. induction reqs as [|[[cbx cbw] b] rest IH]; intro shapes; simpl; [discriminate|].
    destruct (find_float_position (S (length shapes)) shapes cbx cbw false b) as [pos|] eqn:Ef; [apply IH|].
    exfalso. unfold find_float_position, avoid_collisions in Ef.
    match type of Ef with context[if ?c then _ else _] => destruct c end; [destruct (f_kind b); discriminate Ef|].
    match type of Ef with context[avoid_loop ?f ?s ?l ?r ?w ?h ?y] =>
      pose proof (avoid_loop_terminates s l r w h y) as Ht;
      destruct (avoid_loop f s l r w h y) as [[[y1 a1] b1]|] end; [|apply Ht; reflexivity].
    destruct (f_kind b); discriminate Ef. }
  destruct (place_all [] reqs) as [out|] eqn:E; [|exfalso; exact (Htotal reqs [] E)].
  exists out. split; [reflexivity|].
  destruct (place_all_invariant reqs [] out Hgood) as [_ [H2 [H3 H4]]]; try constructor; try assumption.
  - intros s [].
  - repeat split; assumption.
Qed.

Example floats_example :
  place_all [] [(0, 100, mk_fbox FloatLeft 0 0 0 0 0 60 20); (0, 100, mk_fbox FloatLeft 0 0 0 0 0 60 20);
                (0, 100, mk_fbox FloatRight 0 0 0 0 0 30 10)]
  = Some [mk_shape true 0 0 60 20; mk_shape true 0 20 60 20; mk_shape false 70 20 30 10].
Proof. vm_compute. reflexivity. Qed.

(* ----------------------------------------------------- boxes that are not floats (outer = False callers) *)
(* lines, table wrappers, block-level replaced boxes and formatting-context roots: the border box returned by
   avoid_collisions does not overlap any float's margin box, whenever the loop ends in a band where it fits *)
Theorem bfc_root_no_overlap fuel shapes cbx cbw rtl b x y aw :
  is_floated (f_kind b) = false -> f_kind b <> LineBox -> 0 <= f_bh b -> (forall s, In s shapes -> 0 < s_h s) ->
  avoid_collisions fuel shapes cbx cbw rtl false b = Some (x, y, aw) ->
  forall s, In s shapes -> ~ overlaps (x + f_ml b) (y + f_mt b) (f_bw b) (f_bh b) s.
Proof.
  intros Hnf Hnl Hbh Hpos H s Hin. unfold avoid_collisions in H. rewrite Hnf in H. rewrite andb_false_r in H.
  destruct (avoid_loop fuel shapes (cbx + f_ml b) (cbx + cbw - f_mr b) (f_bw b) (f_bh b) (f_py b + f_mt b))
    as [[[y1 mlb] mrb]|] eqn:El; [|discriminate].
  destruct (avoid_loop_exit _ _ _ _ _ _ _ _ El) as [_ Hex].
  pose proof (exit_fits _ _ _ _ _ _ _ _ Hbh Hpos Hex) as Hfit.
  destruct Hex as [E1 [E2 _]].
  set (X := match f_kind b with
            | FloatLeft | FloatRight => mlb
            | LineBox => if rtl then mrb else mlb
            | _ => if rtl then mrb - f_bw b else mlb
            end) in H.
  injection H as Hx Hy Ha. subst x y aw. intro Ho.
  assert (Ho' : overlaps X y1 (f_bw b) (f_bh b) s).
  { unfold overlaps in *. destruct Ho as [O1 [O2 [O3 O4]]]. repeat split; lra. }
  revert Ho'. destruct Hfit as [Hnil|Hfit].
  - apply colliding_nil_no_overlap with (shapes := shapes); auto.
  - apply band_clear with (shapes := shapes) (l0 := cbx + f_ml b) (r0 := cbx + cbw - f_mr b); auto;
      fold (colliding shapes y1 (f_bh b)); unfold X; destruct (f_kind b); try discriminate; try contradiction;
      destruct rtl; lra.
Qed.

(* a line box gets the band itself: [position_x, position_x + available_width) in ltr *)
Theorem line_band_no_overlap fuel shapes cbx cbw b x y aw :
  f_kind b = LineBox -> 0 <= f_bh b -> (forall s, In s shapes -> 0 < s_h s) ->
  avoid_collisions fuel shapes cbx cbw false false b = Some (x, y, aw) ->
  forall s w, In s shapes -> w <= aw -> ~ overlaps (x + f_ml b) (y + f_mt b) w (f_bh b) s.
Proof.
  intros Hk Hbh Hpos H s w Hin Hw. unfold avoid_collisions in H. rewrite Hk in H. cbn [is_floated] in H.
  rewrite andb_false_r in H.
  destruct (avoid_loop fuel shapes (cbx + f_ml b) (cbx + cbw - f_mr b) (f_bw b) (f_bh b) (f_py b + f_mt b))
    as [[[y1 mlb] mrb]|] eqn:El; [|discriminate].
  destruct (avoid_loop_exit _ _ _ _ _ _ _ _ El) as [_ Hex].
  destruct Hex as [E1 [E2 _]]. injection H as Hx Hy Ha. subst x y aw. intro Ho.
  assert (Ho' : overlaps mlb y1 w (f_bh b) s).
  { unfold overlaps in *. destruct Ho as [O1 [O2 [O3 O4]]]. repeat split; lra. }
  revert Ho'. apply band_clear with (shapes := shapes) (l0 := cbx + f_ml b) (r0 := cbx + cbw - f_mr b); auto;
    fold (colliding shapes y1 (f_bh b)); lra.
Qed.

(* ---------------------------------------------------------------------------------- relative_positioning *)
Theorem rel_vector_meets_spec ltr offs : rel_vector_spec ltr offs (rel_vector ltr offs).
Proof.
  destruct offs as [[[l r] t] bo]. unfold rel_vector_spec, rel_vector.
  destruct l, r, t, bo, ltr; cbn [fst snd]; repeat split; intros; try discriminate;
    repeat match goal with H : Some _ = Some _ |- _ => injection H as H; subst end; reflexivity.
Qed.

Lemma positions_translate dx dy b :
  positions (translate dx dy b) = map (fun p => (fst p + dx, snd p + dy)) (positions b).
Proof.
  revert b. fix IH 1. intros [rel isinl ltr offs x y kids]. simpl. f_equal.
  induction kids as [|k t IHt]; simpl; [reflexivity|].
  rewrite map_app, IH, IHt. reflexivity.
Qed.

(* a relatively positioned block-level box: the whole subtree is translated by one vector, nothing else
   changes (the function has no other output than the tree it returns) *)
Theorem relative_moves_subtree_only ltr offs x y kids :
  let b := RBox true false ltr offs x y kids in
  let v := rel_vector ltr offs in
  relative_positioning b = translate (fst v) (snd v) b /\
  positions (relative_positioning b) = map (fun p => (fst p + fst v, snd p + snd v)) (positions b).
Proof.
  cbv zeta. split; [reflexivity|]. rewrite <- positions_translate. reflexivity.
Qed.

Theorem static_block_not_moved ltr offs x y kids :
  relative_positioning (RBox false false ltr offs x y kids) = RBox false false ltr offs x y kids.
Proof. reflexivity. Qed.

Example relative_example :
  positions (relative_positioning
     (RBox true false true (Some 5, Some 7, None, Some 3) 10 20 [RBox false false true (None, None, None, None) 11 21 []]))
  = [(10 + 5, 20 + - 3); (11 + 5, 21 + - 3)].
Proof. reflexivity. Qed.
