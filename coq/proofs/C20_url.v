(* C20 - proofs about the URL model (model/C20Url.v): url_join yields absolute, dot-free URLs on the base's
   origin; iri_to_uri is idempotent and keeps absoluteness. *)
From Coq Require Import List String Ascii Bool Arith Lia.
Require Import WV.model.C20Url.
Import ListNotations.
Open Scope string_scope.

(* ---- characters *)
Lemma hex_digit_safe k : k < 16 -> safe_char (hex_digit k) = true.
Proof.
  intros H. do 16 (destruct k as [|k]; [reflexivity|]). lia.
Qed.

Lemma nat_of_ascii_bound c : nat_of_ascii c < 256.
Proof.
  destruct c as [[] [] [] [] [] [] [] []]; cbv; lia.
Qed.

Lemma pct_safe c : quote (pct c) = pct c.
Proof.
  unfold pct. pose proof (nat_of_ascii_bound c) as Hb.
  assert (H1 : nat_of_ascii c / 16 < 16) by (apply Nat.div_lt_upper_bound; lia).
  assert (H2 : nat_of_ascii c mod 16 < 16) by (apply Nat.mod_upper_bound; lia).
  cbn [quote]. replace (safe_char "%") with true by reflexivity.
  rewrite (hex_digit_safe _ H1), (hex_digit_safe _ H2). reflexivity.
Qed.

Lemma quote_app a b : quote (a ++ b) = quote a ++ quote b.
Proof.
  induction a as [|c a IH]; simpl; [reflexivity|].
  destruct (safe_char c); simpl; rewrite IH; [reflexivity|].
  unfold pct. simpl. reflexivity.
Qed.

Lemma quote_idempotent s : quote (quote s) = quote s.
Proof.
  induction s as [|c s IH]; [reflexivity|].
  cbn [quote]. destruct (safe_char c) eqn:Hc.
  - cbn [quote]. rewrite Hc, IH. reflexivity.
  - rewrite quote_app, pct_safe, IH. reflexivity.
Qed.

(* a prefix made of safe characters other than % is kept, and not created, by quoting *)
Fixpoint plain (p : string) : bool :=
  match p with
  | EmptyString => true
  | String a p' => safe_char a && negb (Ascii.eqb a "%") && plain p'
  end.

Lemma prefix_quote p : plain p = true -> forall s, prefix p (quote s) = prefix p s.
Proof.
  induction p as [|a p IH]; intros Hp s.
  { destruct s as [|c s]; [reflexivity|]. simpl. destruct (safe_char c); reflexivity. }
  simpl in Hp. apply andb_true_iff in Hp as [Ha Hp]. apply andb_true_iff in Ha as [Hsafe Hpc].
  destruct s as [|c s]; [reflexivity|]. simpl quote.
  destruct (safe_char c) eqn:Hc.
  - simpl. destruct (ascii_dec a c); [apply IH; exact Hp|reflexivity].
  - unfold pct. simpl.
    destruct (ascii_dec a "%") as [E|E].
    + subst a. discriminate.
    + destruct (ascii_dec a c) as [E'|E']; [subst; congruence|reflexivity].
Qed.

Lemma iri_to_uri_idempotent s : iri_to_uri (iri_to_uri s) = iri_to_uri s.
Proof.
  unfold iri_to_uri. destruct (prefix "data:" s) eqn:Hp.
  - rewrite Hp. reflexivity.
  - rewrite (prefix_quote "data:" eq_refl), Hp. apply quote_idempotent.
Qed.

(* ---- absoluteness *)
Lemma scheme_char_not_colon c : is_scheme_char c = true -> Ascii.eqb c ":" = false.
Proof.
  intros H. destruct (Ascii.eqb_spec c ":") as [E|E]; [subst; discriminate|reflexivity].
Qed.

Lemma scheme_char_safe c : is_scheme_char c = true -> safe_char c = true.
Proof.
  unfold is_scheme_char, safe_char. intros H.
  apply orb_true_iff in H as [H|H]; [apply orb_true_iff in H as [H|H];
    [apply orb_true_iff in H as [H|H]; [apply orb_true_iff in H as [H|H]|]|]|].
  - rewrite H. reflexivity.
  - rewrite H. apply orb_true_iff. left. apply orb_true_r.
  - apply Ascii.eqb_eq in H. subst. reflexivity.
  - apply Ascii.eqb_eq in H. subst. reflexivity.
  - apply Ascii.eqb_eq in H. subst. reflexivity.
Qed.

Lemma alpha_safe c : is_alpha c = true -> safe_char c = true.
Proof. unfold safe_char. intros H. rewrite H. reflexivity. Qed.

Lemma scheme_tail_quote s : forall seen, scheme_tail seen s = true -> scheme_tail seen (quote s) = true.
Proof.
  induction s as [|c s IH]; intros seen H; [discriminate|].
  simpl in H. simpl quote.
  destruct (Ascii.eqb c ":") eqn:Hc.
  - apply Ascii.eqb_eq in Hc. subst c. simpl. exact H.
  - destruct (is_scheme_char c) eqn:Hs; [|discriminate].
    rewrite (scheme_char_safe _ Hs). simpl. rewrite Hc, Hs. apply IH. exact H.
Qed.

Lemma absolute_quote s : url_is_absolute s = true -> url_is_absolute (quote s) = true.
Proof.
  destruct s as [|c s]; [discriminate|]. simpl. intros H.
  apply andb_true_iff in H as [Ha Ht]. rewrite (alpha_safe _ Ha). simpl.
  rewrite Ha. simpl. apply scheme_tail_quote. exact Ht.
Qed.

Lemma absolute_iri s : url_is_absolute s = true -> url_is_absolute (iri_to_uri s) = true.
Proof.
  intros H. unfold iri_to_uri. destruct (prefix "data:" s); [exact H|apply absolute_quote; exact H].
Qed.

(* a scheme: a letter followed by at least one scheme character *)
Fixpoint all_scheme (s : string) : bool :=
  match s with EmptyString => true | String c r => is_scheme_char c && all_scheme r end.
Definition scheme_ok (s : string) : bool :=
  match s with
  | String c (String c2 r) => is_alpha c && is_scheme_char c2 && all_scheme r
  | _ => false
  end.

Lemma scheme_tail_app r rest : all_scheme r = true ->
  forall seen, (seen = true \/ r <> EmptyString) -> scheme_tail seen (r ++ String ":" rest) = true.
Proof.
  induction r as [|c r IH]; intros Hall seen Hs.
  - simpl. destruct Hs as [Hs|Hs]; [exact Hs|congruence].
  - simpl in Hall. apply andb_true_iff in Hall as [Hc Hall].
    simpl. rewrite (scheme_char_not_colon _ Hc), Hc. apply IH; auto.
Qed.

Lemma absolute_with_scheme sc rest : scheme_ok sc = true -> url_is_absolute (sc ++ String ":" rest) = true.
Proof.
  destruct sc as [|c [|c2 r]]; try discriminate. intros H.
  simpl in H. apply andb_true_iff in H as [H Hall]. apply andb_true_iff in H as [Ha Hc2].
  change ((String c (String c2 r)) ++ String ":" rest) with (String c (String c2 r ++ String ":" rest)).
  unfold url_is_absolute. rewrite Ha, andb_true_l.
  apply scheme_tail_app; [simpl; rewrite Hc2; exact Hall|right; discriminate].
Qed.

Lemma sapp_assoc a b c : (a ++ b) ++ c = a ++ (b ++ c).
Proof. induction a as [|x a IH]; simpl; [reflexivity|rewrite IH; reflexivity]. Qed.

Lemma show_base_absolute b sfx : scheme_ok (b_scheme b) = true -> url_is_absolute (show_base b ++ sfx) = true.
Proof.
  intros H. unfold show_base.
  replace ((b_scheme b ++ "://" ++ b_auth b ++ show_path (b_segs b)) ++ sfx)
    with (b_scheme b ++ String ":" ("//" ++ b_auth b ++ show_path (b_segs b) ++ sfx)).
  - apply absolute_with_scheme. exact H.
  - rewrite !sapp_assoc. reflexivity.
Qed.

(* ---- the resolved path has no dot segments *)
Definition not_dot (s : string) : Prop := s <> "." /\ s <> "..".

Lemma res_path_no_dots segs : forall acc, Forall not_dot acc -> Forall not_dot (res_path acc segs).
Proof.
  induction segs as [|s r IH]; intros acc Hacc; simpl.
  - apply Forall_rev. exact Hacc.
  - destruct (s =? "..") eqn:H1.
    + apply IH. destruct acc; [constructor|inversion Hacc; assumption].
    + destruct (s =? ".") eqn:H2; [apply IH; exact Hacc|].
      apply IH. constructor; [|exact Hacc].
      split; intros E; subst s; [rewrite String.eqb_refl in H2|rewrite String.eqb_refl in H1]; discriminate.
Qed.

Lemma not_dot_empty : not_dot "".
Proof. split; discriminate. Qed.

Lemma resolved_no_dots segments : Forall not_dot (path_of_resolved (resolved_segments segments)).
Proof.
  assert (H : Forall not_dot (resolved_segments segments)).
  { unfold resolved_segments. destruct (ends_with_dots segments).
    - apply Forall_app. split; [apply res_path_no_dots; constructor|].
      constructor; [apply not_dot_empty|constructor].
    - apply res_path_no_dots. constructor. }
  unfold path_of_resolved. destruct (resolved_segments segments) as [|x l] eqn:E.
  - constructor; [apply not_dot_empty|constructor].
  - destruct x as [|c x'].
    + destruct l; [constructor; [apply not_dot_empty|constructor]|inversion H; assumption].
    + exact H.
Qed.

(* ---- url_join *)
Definition relative_shape (r : ref) : bool :=
  match r with RRel _ _ | RPath _ _ | RNet _ _ _ => true | _ => false end.

(* a relative reference resolves to a hierarchical URL with the base's scheme; path references also keep the
   authority, and their path is free of "." and ".." unless the path was empty (the base's own path) *)
Lemma urljoin_relative b r : relative_shape r = true ->
  exists b' sfx, urljoin b r = AHier b' sfx /\ b_scheme b' = b_scheme b /\
    (match r with RNet a _ _ => b_auth b' = a | _ => b_auth b' = b_auth b end) /\
    (match r with
     | RPath _ _ => Forall not_dot (b_segs b')
     | RRel segs _ => is_empty_path segs = false -> Forall not_dot (b_segs b')
     | _ => True
     end).
Proof.
  destruct r as [b0 s0|s0|segs sfx|segs sfx|a segs sfx]; try discriminate; intros _; simpl.
  - destruct (is_empty_path segs) eqn:He.
    + exists b, sfx. repeat split; auto. intros H; discriminate.
    + eexists; eexists; split; [reflexivity|]. simpl. repeat split; auto.
      intros _. apply resolved_no_dots.
  - eexists; eexists; split; [reflexivity|]. simpl. repeat split; auto. apply resolved_no_dots.
  - eexists; eexists; split; [reflexivity|]. simpl. repeat split; auto.
Qed.

(* whatever url_join returns under an absolute base is an absolute URL, also after iri_to_uri:
   the string handed to the fetcher is absolute.  (An absolute reference must itself carry a scheme;
   an opaque string that is not absolute - "c:/dir/x.png" - stays what it is: excluded.) *)
Definition ref_ok (r : ref) : bool :=
  match r with
  | RAbs b _ => scheme_ok (b_scheme b)
  | ROpaque s => url_is_absolute s
  | _ => true
  end.

Lemma url_join_absolute b r allow a :
  scheme_ok (b_scheme b) = true -> ref_ok r = true ->
  url_join (Some b) r allow = Some a -> url_is_absolute (fetched_string a) = true.
Proof.
  intros Hb Hr. unfold url_join, fetched_string.
  destruct (url_is_absolute (show_ref r)) eqn:Habs.
  - intros H. inversion H; subst a. apply absolute_iri.
    destruct r; simpl in *; try exact Habs.
  - intros H. inversion H; subst a. apply absolute_iri.
    destruct r as [b0 s0|s0|segs sfx|segs sfx|au segs sfx].
    + simpl. apply show_base_absolute. exact Hr.
    + simpl in Hr, Habs. congruence.
    + destruct (urljoin_relative b (RRel segs sfx) eq_refl) as [b' [sfx' [E [Hs _]]]].
      rewrite E. simpl. apply show_base_absolute. rewrite Hs. exact Hb.
    + destruct (urljoin_relative b (RPath segs sfx) eq_refl) as [b' [sfx' [E [Hs _]]]].
      rewrite E. simpl. apply show_base_absolute. rewrite Hs. exact Hb.
    + destruct (urljoin_relative b (RNet au segs sfx) eq_refl) as [b' [sfx' [E [Hs _]]]].
      rewrite E. simpl. apply show_base_absolute. rewrite Hs. exact Hb.
Qed.

(* an absolute reference ignores the base *)
Lemma url_join_absolute_ref b1 b2 r allow :
  url_is_absolute (show_ref r) = true -> url_join b1 r allow = url_join b2 r allow.
Proof. intros H. unfold url_join. rewrite H. reflexivity. Qed.

(* without a base a relative reference is dropped (and logged) unless the call site allows it *)
Lemma url_join_no_base r :
  url_is_absolute (show_ref r) = false -> url_join None r false = None.
Proof. intros H. unfold url_join. rewrite H. reflexivity. Qed.

(* the base of an imported sheet is already quoted: deriving it again changes nothing *)
Lemma quote_base_idempotent b : quote_base (quote_base b) = quote_base b.
Proof.
  unfold quote_base. simpl. f_equal. rewrite map_map. apply map_ext. intros s. apply quote_idempotent.
Qed.

Example url_join_example :
  let b := {| b_scheme := "http"; b_auth := "h0"; b_segs := ["d1"; "d2"; "doc.html"] |} in
  option_map fetched_string (url_join (Some b) (RRel [".."; "."; "x y"; ".."; "p q.png"] "?v=1") false)
    = Some "http://h0/d1/p%20q.png?v=1" /\
  option_map fetched_string (url_join (Some b) (RRel [".."; ".."; ".."; ".."; "a.css"] "") false)
    = Some "http://h0/a.css" /\
  option_map fetched_string (url_join (Some b) (ROpaque "c:/dir/x.png") false) = Some "c:/dir/x.png" /\
  option_map fetched_string (url_join None (RRel ["a.png"] "") false) = None.
Proof. repeat split. Qed.
