(* C18 - _w3c_date_to_pdf (model/C18Date.v): a PDF reader gets the fields of the W3C date back. *)
From Coq Require Import ZArith List Bool String Ascii Lia.
Require Import WV.model.C18Date.
Import ListNotations.
Open Scope Z_scope.

Local Ltac Zify.zify_post_hook ::= Z.to_euclidean_division_equations.

Lemma sapp_assoc (a b c : string) : ((a ++ b) ++ c = a ++ (b ++ c))%string.
Proof. induction a as [|x a IH]; [reflexivity|]. cbn. now rewrite IH. Qed.
Lemma sapp_nil_r (a : string) : (a ++ "" = a)%string.
Proof. induction a as [|x a IH]; [reflexivity|]. cbn. now rewrite IH. Qed.

Lemma digit_of_digit k : 0 <= k <= 9 -> digit_of (digit k) = Some k.
Proof.
  intros H. assert (E : k = 0 \/ k = 1 \/ k = 2 \/ k = 3 \/ k = 4 \/ k = 5 \/ k = 6 \/ k = 7 \/ k = 8 \/ k = 9) by lia.
  repeat (destruct E as [->|E]; [reflexivity|]). subst. reflexivity.
Qed.

Lemma parse2_two v r : 0 <= v <= 99 -> parse2 (two v ++ r) = Some (v, r).
Proof.
  intros H. unfold two. cbn [append parse2].
  rewrite !digit_of_digit by lia. f_equal. f_equal. lia.
Qed.

Lemma parse4_four y r : 0 <= y <= 9999 -> parse4 (four y ++ r) = Some (y, r).
Proof.
  intros H. unfold four, parse4. rewrite sapp_assoc, parse2_two by lia. rewrite parse2_two by lia.
  f_equal. f_equal. lia.
Qed.

Lemma opt_two n v r : 0 <= v <= 99 ->
  opt_fields (S n) (two v ++ r) =
  match opt_fields n r with Some (vs, r') => Some (v :: vs, r') | None => None end.
Proof.
  intros H. cbn [opt_fields]. pose proof (parse2_two v r H) as P. unfold two in *. cbn [append] in *.
  rewrite digit_of_digit by lia. now rewrite P.
Qed.

Lemma opt_stop n c r : digit_of c = None -> opt_fields n (String c r) = Some ([], String c r).
Proof. intros H. destruct n; [reflexivity|]. cbn [opt_fields]. now rewrite H. Qed.
Lemma opt_end n : opt_fields n "" = Some ([], ""%string).
Proof. now destruct n. Qed.

Lemma parse_tz_off (neg : bool) h m :
  0 <= h <= 23 -> 0 <= m <= 59 ->
  parse_tz (String (if neg then "-" else "+")%char (two h ++ String "'"%char (two m))) =
  Some (POff ((if neg then -1 else 1) * (60 * h + m))).
Proof.
  intros Hh Hm. unfold parse_tz.
  assert (E1 : Ascii.eqb (if neg then "-" else "+")%char "Z"%char = false) by now destruct neg.
  assert (E2 : (Ascii.eqb (if neg then "-" else "+")%char "+"%char || Ascii.eqb (if neg then "-" else "+")%char "-"%char) = true)
    by now destruct neg.
  rewrite E1, E2, parse2_two by lia. cbn [Ascii.eqb Bool.eqb].
  replace (two m) with (two m ++ "")%string by apply sapp_nil_r. rewrite parse2_two by lia.
  now destruct neg.
Qed.

Theorem date_fields_preserved (g : groups) :
  wf g -> exists s, w3c_date_to_pdf g = inr s /\ parse_pdf_date s = Some (expected g).
Proof.
  destruct g as [y mo d h mi s tz]. unfold wf, in_range. cbn [g_year g_month g_day g_hour g_minute g_second g_tz].
  intros (Hy & Hmo & Hd & Hh & Hmi & Hs & Htz & N1 & N2 & N3 & N4 & N5).
  destruct h as [h|].
  - (* with a time *)
    destruct N2 as [Nd Nm]; [discriminate|]. destruct d as [d|]; [|congruence]. destruct mi as [mi|]; [|congruence].
    destruct mo as [mo|]; [|exfalso; apply N1; [discriminate|reflexivity]].
    set (sec := match s with Some x => x | None => 0 end).
    assert (Hsec : 0 <= sec <= 59) by (subst sec; destruct s; lia).
    assert (Esec : forall rest, (fst (turn s false two (rest, true)) = two sec ++ rest)%string).
    { intros rest. subst sec. destruct s; reflexivity. }
    unfold w3c_date_to_pdf, expected. cbn [g_year g_month g_day g_hour g_minute g_second g_tz is_some negb].
    assert (Eturn : forall st, turn s false two (""%string, true) = st -> st = ((two sec ++ "")%string, true)).
    { intros st <-. subst sec. destruct s; reflexivity. }
    rewrite (Eturn _ eq_refl). cbn [turn fst].
    destruct tz as [[[neg tzh] tzm]|].
    + destruct Htz as [Htzh Htzm]. eexists. split; [reflexivity|].
      rewrite !sapp_assoc, ?sapp_nil_r. cbn [append parse_pdf_date Ascii.eqb Bool.eqb andb].
      rewrite parse4_four by lia. rewrite !opt_two by lia.
      assert (Esign : (if neg then "-"%string else "+"%string) = String (if neg then "-" else "+")%char "")
        by now destruct neg.
      rewrite Esign. cbn [append].
      rewrite opt_stop by (destruct neg; reflexivity).
      rewrite parse_tz_off by lia. reflexivity.
    + eexists. split; [reflexivity|].
      rewrite !sapp_assoc, ?sapp_nil_r. cbn [append parse_pdf_date Ascii.eqb Bool.eqb andb].
      rewrite parse4_four by lia. rewrite !opt_two by lia. rewrite opt_stop by reflexivity.
      reflexivity.
  - (* date only *)
    destruct mi as [mi|]; [exfalso; now apply N3|]. destruct s as [s|]; [exfalso; now apply N4|].
    destruct tz as [tz|]; [exfalso; now apply N5|].
    unfold w3c_date_to_pdf, expected. cbn [g_year g_month g_day g_hour g_minute g_second g_tz is_some negb turn fst].
    destruct d as [d|].
    + destruct mo as [mo|]; [|exfalso; apply N1; [discriminate|reflexivity]].
      eexists. split; [reflexivity|]. cbn [turn fst].
      cbn [append parse_pdf_date Ascii.eqb Bool.eqb andb].
      rewrite parse4_four by lia. rewrite !opt_two by lia. rewrite opt_end. reflexivity.
    + destruct mo as [mo|]; eexists; (split; [reflexivity|]); cbn [turn fst];
        cbn [append parse_pdf_date Ascii.eqb Bool.eqb andb];
        rewrite parse4_four by lia; rewrite ?opt_two by lia; rewrite opt_end; reflexivity.
Qed.

(* a zone offset below one hour keeps its sign (regression: int('-00') lost it before 334190a) *)
Example date_negative_zero_offset :
  w3c_date_to_pdf (mkg 2011 (Some 4) (Some 21) (Some 23) (Some 0) None (Some (true, 0, 30))) =
  inr "D:20110421230000-00'30"%string.
Proof. reflexivity. Qed.

Example date_example :
  w3c_date_to_pdf (mkg 2011 (Some 4) (Some 21) (Some 23) (Some 59) None (Some (false, 1, 0))) =
  inr "D:20110421235900+01'00"%string.
Proof. reflexivity. Qed.
