(* C14: page selector matching, specificity and the @page cascade - proofs about model/C14Page.v *)
From Coq Require Import ZArith QArith List String Bool Lia.
Require Import WV.model.C14Page.
Import ListNotations.
Open Scope string_scope.
Open Scope list_scope.
Open Scope Z_scope.

(* ----------------------------------------------------------------------------------------- :nth(an+b) *)
Lemma inject_Z_nonzero a : a <> 0 -> ~ (inject_Z a == 0)%Q.
Proof. intros Ha H. unfold Qeq in H. simpl in H. lia. Qed.

Lemma qdiv_mul a q : a <> 0 -> (inject_Z (a * q) / inject_Z a == inject_Z q)%Q.
Proof.
  intros Ha. rewrite inject_Z_mult. field. now apply inject_Z_nonzero.
Qed.

Theorem nth_semantics (a b index : Z) : nth_test a b index = true <-> nth_spec a b index.
Proof.
  unfold nth_test, nth_spec. destruct (Z.eqb_spec a 0) as [Ha|Ha].
  - subst a. rewrite Z.eqb_eq. split.
    + intros H. exists 0. lia.
    + intros [n [_ H]]. lia.
  - rewrite andb_true_iff, Qle_bool_iff, Z.eqb_eq. split.
    + intros [Hq Hm].
      apply Z.div_exact in Hm; [|exact Ha].
      set (q := (index + 1 - b) / a) in *.
      exists q. split; [|lia].
      rewrite Hm, (qdiv_mul a q Ha) in Hq.
      change 0%Q with (inject_Z 0) in Hq. now rewrite <- Zle_Qle in Hq.
    + intros [n [Hn H]].
      assert (E : index + 1 - b = a * n) by lia. rewrite E. split.
      * rewrite (qdiv_mul a n Ha). change 0%Q with (inject_Z 0). now rewrite <- Zle_Qle.
      * rewrite Z.mul_comm. apply Z_mod_mult.
Qed.

(* negative steps count downwards and stop: a < 0 matches finitely many pages, all <= b *)
Corollary nth_negative_step_bounded a b index : a < 0 -> nth_test a b index = true -> index + 1 <= b.
Proof. intros Ha H. apply nth_semantics in H. destruct H as [n [Hn H]]. nia. Qed.

Example nth_example_odd : nth_test 2 1 4 = true /\ nth_test 2 1 3 = false /\ nth_test (-1) 3 2 = true
                          /\ nth_test (-1) 3 3 = false /\ nth_test 0 4 3 = true.
Proof. vm_compute. repeat split. Qed.

(* the bounded search used by the judge decides nth_spec *)
Lemma nth_spec_b_correct a b i : nth_spec_b a b i = true <-> nth_spec a b i.
Proof.
  unfold nth_spec_b, nth_spec. rewrite existsb_exists. split.
  - intros [n [Hin H]]. apply Z.eqb_eq in H. exists (Z.of_nat n). lia.
  - intros [n [Hn H]].
    destruct (Z.eq_dec a 0) as [Ha|Ha].
    + exists 0%nat. split; [apply in_seq; lia|]. apply Z.eqb_eq. subst a. simpl. lia.
    + exists (Z.to_nat n). split.
      * apply in_seq. assert (n <= Z.abs (i + 1 - b)) by nia. lia.
      * apply Z.eqb_eq. rewrite Z2Nat.id by lia. lia.
Qed.

(* ------------------------------------------------------------------------------------ _page_type_match *)
Lemma side_eqb_eq a b : side_eqb a b = true <-> a = b.
Proof. destruct a, b; simpl; split; intros; try reflexivity; discriminate. Qed.

Lemma opt_in_iff {A} (eqb : A -> A -> bool) (Heq : forall x y, eqb x y = true <-> x = y) (o : option A) v :
  opt_in eqb o v = true <-> (forall x, o = Some x -> x = v).
Proof.
  destruct o as [y|]; simpl.
  - rewrite Heq. split; [intros E x Hx; now inversion Hx; subst|intros H; now apply H].
  - split; [intros _ x Hx; discriminate|reflexivity].
Qed.

Lemma bool_eqb_eq (x y : bool) : Bool.eqb x y = true <-> x = y.
Proof. destruct x, y; simpl; split; intros; try reflexivity; discriminate. Qed.

Theorem page_type_match_iff (sel : selector) (pt : page_type) :
  page_type_match sel pt = true <-> match_spec sel pt.
Proof.
  unfold page_type_match, match_spec.
  pose proof (opt_in_iff side_eqb side_eqb_eq (s_side sel) (pt_side pt)) as Hs.
  pose proof (opt_in_iff Bool.eqb bool_eqb_eq (s_blank sel) (pt_blank pt)) as Hb.
  pose proof (opt_in_iff Bool.eqb bool_eqb_eq (s_first sel) (pt_index pt =? 0)) as Hf.
  pose proof (opt_in_iff String.eqb String.eqb_eq (s_name sel) (pt_name pt)) as Hn.
  assert (Hf' : (forall x, s_first sel = Some x -> x = (pt_index pt =? 0)) <->
                (forall f, s_first sel = Some f -> (f = true <-> pt_index pt = 0))).
  { split; intros H f Hfs; specialize (H f Hfs).
    - subst f. apply Z.eqb_eq.
    - destruct (Z.eqb_spec (pt_index pt) 0) as [E|E]; destruct f; try reflexivity.
      + now apply H in E.
      + exfalso. apply E. now apply H. }
  destruct (opt_in side_eqb (s_side sel) (pt_side pt)); simpl;
    [|split; [discriminate|intros [H _]; discriminate (proj2 Hs H)]].
  destruct (opt_in Bool.eqb (s_blank sel) (pt_blank pt)); simpl;
    [|split; [discriminate|intros [_ [H _]]; discriminate (proj2 Hb H)]].
  destruct (opt_in Bool.eqb (s_first sel) (pt_index pt =? 0)); simpl;
    [|split; [discriminate|intros [_ [_ [H _]]]; discriminate (proj2 Hf (proj2 Hf' H))]].
  destruct (opt_in String.eqb (s_name sel) (pt_name pt)); simpl;
    [|split; [discriminate|intros [_ [_ [_ [H _]]]]; discriminate (proj2 Hn H)]].
  assert (H1 : forall s, s_side sel = Some s -> s = pt_side pt) by now apply Hs.
  assert (H2 : forall bl, s_blank sel = Some bl -> bl = pt_blank pt) by now apply Hb.
  assert (H3 : forall f, s_first sel = Some f -> (f = true <-> pt_index pt = 0)) by (apply Hf'; now apply Hf).
  assert (H4 : forall n, s_name sel = Some n -> n = pt_name pt) by now apply Hn.
  destruct (s_index sel) as [[[a b] [g|]]|].
  - destruct (String.eqb_spec g (pt_name pt)) as [Eg|Eg]; simpl.
    + rewrite existsb_exists. split.
      * intros [[gn gi] [Hin Ht]]. simpl in Ht. apply andb_true_iff in Ht. destruct Ht as [Ht1 Ht2].
        apply String.eqb_eq in Ht1. subst gn. apply nth_semantics in Ht2.
        refine (conj H1 (conj H2 (conj H3 (conj H4 (conj _ _))))); [intros; discriminate|].
        intros a' b' g' E. inversion E; subst. split; [reflexivity|]. exists gi. now split.
      * intros [_ [_ [_ [_ [_ H6]]]]]. destruct (H6 a b g eq_refl) as [_ [gi [Hin Hn']]].
        exists (g, gi). split; [exact Hin|]. simpl. rewrite String.eqb_refl. simpl. now apply nth_semantics.
    + split; [discriminate|]. intros [_ [_ [_ [_ [_ H6]]]]]. destruct (H6 a b g eq_refl) as [E _]. contradiction.
  - rewrite nth_semantics. split.
    + intros Hn'. refine (conj H1 (conj H2 (conj H3 (conj H4 (conj _ _))))); [|intros; discriminate].
      intros a' b' E. inversion E; subst. exact Hn'.
    + intros [_ [_ [_ [_ [H5 _]]]]]. now apply H5.
  - split; [|reflexivity]. intros _.
    refine (conj H1 (conj H2 (conj H3 (conj H4 (conj _ _))))); intros; discriminate.
Qed.

(* the decidable rendition used by the judges decides match_spec *)
Lemma match_spec_b_correct (sel : selector) (pt : page_type) : match_spec_b sel pt = true <-> match_spec sel pt.
Proof.
  rewrite <- page_type_match_iff.
  assert (N : forall a b i, nth_spec_b a b i = nth_test a b i).
  { intros a b i. destruct (nth_test a b i) eqn:E.
    - apply nth_spec_b_correct. now apply nth_semantics.
    - destruct (nth_spec_b a b i) eqn:E2; [|reflexivity].
      apply nth_spec_b_correct in E2. apply nth_semantics in E2. congruence. }
  unfold match_spec_b, page_type_match, opt_in.
  destruct (s_side sel) as [sd|]; [destruct (side_eqb sd (pt_side pt))|]; simpl; try (split; discriminate);
  (destruct (s_blank sel) as [bl|]; [destruct (Bool.eqb bl (pt_blank pt))|]; simpl; try (split; discriminate));
  (destruct (s_first sel) as [f|]; [destruct (Bool.eqb f (pt_index pt =? 0))|]; simpl; try (split; discriminate));
  (destruct (s_name sel) as [n|]; [destruct (String.eqb n (pt_name pt))|]; simpl; try (split; discriminate));
  (destruct (s_index sel) as [[[a b] [g|]]|]; [| |reflexivity];
   [destruct (String.eqb g (pt_name pt)); simpl; [|split; discriminate];
    assert (E : existsb (fun gi => (g =? fst gi)%string && nth_spec_b a b (snd gi)) (pt_groups pt)
                = existsb (fun gi => (g =? fst gi)%string && nth_test a b (snd gi)) (pt_groups pt))
      by (induction (pt_groups pt) as [|x l IH]; simpl; [reflexivity|now rewrite N, IH]);
    rewrite E; reflexivity
   |rewrite N; reflexivity]).
Qed.

Example match_example :
  page_type_match (mkSel (Some SRight) None None (Some (2, 1, Some "chapter")) None)
                  (mkPT SRight false "chapter" 6 [("chapter", 2)]) = true /\
  page_type_match (mkSel None (Some true) (Some true) None None) (mkPT SLeft true "" 1 []) = false.
Proof. vm_compute. split; reflexivity. Qed.

(* ------------------------------------------------------------------------------- selector specificity *)
Lemma parse_pseudos_spec : forall ps sel f g h sel' sp',
  parse_pseudos (sel, (f, g, h)) ps = Some (sel', sp') ->
  sp' = (f + Z.of_nat (List.length (filter (fun p => match p with PNth _ _ (Some _) => true | _ => false end) ps)),
         g + count_first_blank_nth ps, h + count_left_right ps) /\ s_name sel' = s_name sel.
Proof.
  unfold count_first_blank_nth, count_left_right.
  induction ps as [|p ps IH]; intros sel f g h sel' sp' H; simpl in H.
  - inversion H; subst. simpl. split; [repeat (f_equal; try lia)|reflexivity].
  - destruct p as [| | | |a b [gr|]]; simpl in H.
    + destruct (s_side sel) as [old|]; [destruct (side_eqb old SLeft); [|discriminate]|];
        apply IH in H; destruct H as [H Hn]; subst sp'; simpl; (split; [repeat (f_equal; try lia)|exact Hn]).
    + destruct (s_side sel) as [old|]; [destruct (side_eqb old SRight); [|discriminate]|];
        apply IH in H; destruct H as [H Hn]; subst sp'; simpl; (split; [repeat (f_equal; try lia)|exact Hn]).
    + apply IH in H; destruct H as [H Hn]; subst sp'; simpl; (split; [repeat (f_equal; try lia)|exact Hn]).
    + apply IH in H; destruct H as [H Hn]; subst sp'; simpl; (split; [repeat (f_equal; try lia)|exact Hn]).
    + apply IH in H; destruct H as [H Hn]; subst sp'; simpl; (split; [repeat (f_equal; try lia)|exact Hn]).
    + apply IH in H; destruct H as [H Hn]; subst sp'; simpl; (split; [repeat (f_equal; try lia)|exact Hn]).
Qed.

(* css-page-3 "page selector specificity": (named page [+ named groups], :first/:blank[/:nth], :left/:right) *)
Theorem selector_specificity name ps sel sp :
  parse_selector name ps = Some (sel, sp) ->
  sp = (count_named name ps, count_first_blank_nth ps, count_left_right ps) /\ s_name sel = name.
Proof.
  unfold parse_selector, count_named. intros H. apply parse_pseudos_spec in H. destruct H as [H Hn].
  subst sp. simpl in *. split; [reflexivity|exact Hn].
Qed.

(* a selector is rejected exactly when it names both sides *)
Theorem selector_rejected_iff_both_sides name ps :
  parse_selector name ps = None <-> (In PLeft ps /\ In PRight ps).
Proof.
  unfold parse_selector.
  set (acc0 := (mkSel None None None None name, (match name with Some _ => 1 | None => 0 end, 0, 0))).
  assert (G : forall ps acc,
             parse_pseudos acc ps = None <->
             ((s_side (fst acc) = Some SLeft \/ In PLeft ps) /\ (s_side (fst acc) = Some SRight \/ In PRight ps))).
  { clear. induction ps as [|p ps IH]; intros [sel [[f g] h]]; simpl.
    - split; [discriminate|]. intros [[H1|[]] [H2|[]]]. rewrite H1 in H2. discriminate.
    - destruct p as [| | | |a b gr]; simpl.
      + destruct (s_side sel) as [[|]|] eqn:E; simpl.
        * rewrite IH. simpl. split; [intros [_ H]|intros [_ H]].
          -- split; [now left|]. destruct H as [H|H]; [discriminate|]. now right; right.
          -- split; [now left|]. destruct H as [H|[H|H]]; [discriminate|discriminate|now right].
        * split; [intros _|reflexivity]. split; [right; now left|now left].
        * rewrite IH. simpl. split; [intros [_ H]|intros [_ H]].
          -- split; [right; now left|]. destruct H as [H|H]; [discriminate|]. now right; right.
          -- split; [now left|]. destruct H as [H|[H|H]]; [discriminate|discriminate|now right].
      + destruct (s_side sel) as [[|]|] eqn:E; simpl.
        * split; [intros _|reflexivity]. split; [now left|right; now left].
        * rewrite IH. simpl. split; [intros [H _]|intros [H _]].
          -- split; [|now left]. destruct H as [H|H]; [discriminate|]. now right; right.
          -- split; [|now left]. destruct H as [H|[H|H]]; [discriminate|discriminate|now right].
        * rewrite IH. simpl. split; [intros [H _]|intros [H _]].
          -- split; [|right; now left]. destruct H as [H|H]; [discriminate|]. now right; right.
          -- split; [|now left]. destruct H as [H|[H|H]]; [discriminate|discriminate|now right].
      + rewrite IH. simpl. split; intros [H1 H2]; (split; [destruct H1 as [H1|H1]|destruct H2 as [H2|H2]]);
          try (now left); try (right; right; assumption); try (destruct H1 as [H1|H1]; [discriminate|now right]);
          try (destruct H2 as [H2|H2]; [discriminate|now right]).
      + rewrite IH. simpl. split; intros [H1 H2]; (split; [destruct H1 as [H1|H1]|destruct H2 as [H2|H2]]);
          try (now left); try (right; right; assumption); try (destruct H1 as [H1|H1]; [discriminate|now right]);
          try (destruct H2 as [H2|H2]; [discriminate|now right]).
      + rewrite IH. simpl. split; intros [H1 H2]; (split; [destruct H1 as [H1|H1]|destruct H2 as [H2|H2]]);
          try (now left); try (right; right; assumption); try (destruct H1 as [H1|H1]; [discriminate|now right]);
          try (destruct H2 as [H2|H2]; [discriminate|now right]). }
  rewrite G. simpl. split.
  - intros [[H1|H1] [H2|H2]]; try discriminate. now split.
  - intros [H1 H2]. split; now right.
Qed.

Example specificity_example :
  parse_selector (Some "chapter") [PFirst; PRight; PNth 2 1 (Some "chapter")]
  = Some (mkSel (Some SRight) None (Some true) (Some (2, 1, Some "chapter")) (Some "chapter"), (2, 2, 1)).
Proof. reflexivity. Qed.

(* ------------------------------------------------------------------------------------------ the cascade *)
Section Cascade.
  Variables V W : Type.
  Variable leb : W -> W -> bool.
  Hypothesis leb_total : forall x y, leb x y = true \/ leb y x = true.
  Hypothesis leb_trans : forall x y z, leb x y = true -> leb y z = true -> leb x z = true.

  (* the accumulator is, at every point, a last maximum of what has been seen *)
  Definition last_max (seen : list (V * W)) (d : V * W) : Prop :=
    exists pre post, seen = pre ++ d :: post /\
      (forall e, In e pre -> leb (snd e) (snd d) = true) /\
      (forall e, In e post -> leb (snd d) (snd e) = false).

  Lemma cascade_from_last_max : forall l seen d,
    last_max seen d -> exists d', cascade_from leb (Some d) l = Some d' /\ last_max (seen ++ l) d'.
  Proof.
    induction l as [|e l IH]; intros seen d Hd.
    - exists d. rewrite app_nil_r. now split.
    - unfold cascade_from in *. simpl. destruct d as [v w]. simpl.
      destruct (leb w (snd e)) eqn:E.
      + destruct (IH (seen ++ [e]) e) as [d' [H1 H2]].
        * destruct Hd as [pre [post [Hs [Hp Hq]]]]. exists seen, []. split; [reflexivity|]. split.
          -- intros x Hx. subst seen. apply in_app_or in Hx. destruct Hx as [Hx|[Hx|Hx]].
             ++ eapply leb_trans; [apply Hp; exact Hx|exact E].
             ++ subst x. exact E.
             ++ specialize (Hq x Hx). simpl in Hq.
                destruct (leb_total w (snd x)) as [T|T]; [congruence|]. eapply leb_trans; eassumption.
          -- intros x [].
        * exists d'. rewrite <- app_assoc in H2. now split.
      + destruct (IH (seen ++ [e]) (v, w)) as [d' [H1 H2]].
        * destruct Hd as [pre [post [Hs [Hp Hq]]]]. exists pre, (post ++ [e]). split.
          -- subst seen. now rewrite <- app_assoc.
          -- split; [exact Hp|]. intros x Hx. apply in_app_or in Hx. destruct Hx as [Hx|[Hx|[]]].
             ++ now apply Hq. ++ subst x. exact E.
        * exists d'. rewrite <- app_assoc in H2. now split.
  Qed.

  (* the winner of a non-empty declaration list is its last maximum: everything before it is <= it, everything
     after it is strictly smaller (so among equal weights the later declaration wins) *)
  Theorem cascade_picks_last_max (l : list (V * W)) :
    l <> [] -> exists d, cascade leb l = Some d /\ last_max l d.
  Proof.
    destruct l as [|e l]; [congruence|]. intros _. unfold cascade, cascade_from. simpl.
    destruct (cascade_from_last_max l [e] e) as [d' [H1 H2]].
    - exists [], []. split; [reflexivity|]. split; intros x [].
    - exists d'. now split.
  Qed.

  Lemma cascade_nil : cascade leb (@nil (V * W)) = None.
  Proof. reflexivity. Qed.

  Lemma leb_refl x : leb x x = true.
  Proof. destruct (leb_total x x); assumption. Qed.

  (* running the same declarations again from the winner does not change it (remake_page calls
     add_page_declarations again for a page type it has already seen) *)
  Theorem cascade_idempotent (l : list (V * W)) d :
    cascade leb l = Some d -> last_max l d -> cascade_from leb (Some d) l = Some d.
  Proof.
    intros _ [pre [post [Hs [Hp Hq]]]]. subst l. unfold cascade_from.
    assert (Hpre : forall (p : list (V * W)) (acc : option (V * W)), (forall e, In e p -> leb (snd e) (snd d) = true) ->
                     (exists a : V * W, acc = Some a /\ leb (snd a) (snd d) = true) ->
                     exists a, fold_left (cascade_step leb) p acc = Some a /\ leb (snd a) (snd d) = true).
    { induction p as [|e p IH]; intros acc Hle Ha; simpl; [exact Ha|]. apply IH.
      - intros x Hx. apply Hle. now right.
      - destruct Ha as [a [Ea La]]. subst acc. destruct a as [va wa]. simpl.
        destruct (leb wa (snd e)); [exists e; split; [reflexivity|apply Hle; now left]|exists (va, wa); now split]. }
    rewrite fold_left_app. destruct (Hpre pre (Some d) Hp) as [a [Ea La]].
    { exists d. split; [reflexivity|apply leb_refl]. }
    rewrite Ea. simpl. destruct a as [va wa]. simpl in La. rewrite La.
    clear Ea Hp Hpre. induction post as [|e post IH]; simpl; [reflexivity|].
    destruct d as [vd wd]. simpl in *. rewrite (Hq e (or_introl eq_refl)). apply IH.
    intros x Hx. apply Hq. now right.
  Qed.
End Cascade.

(* the order on weights is the lexicographic order on (precedence, (f, g, h)): total and transitive *)
Lemma spec_leb_iff a1 b1 c1 a2 b2 c2 :
  spec_leb (a1, b1, c1) (a2, b2, c2) = true <-> a1 < a2 \/ (a1 = a2 /\ (b1 < b2 \/ (b1 = b2 /\ c1 <= c2))).
Proof.
  unfold spec_leb.
  destruct (Z.ltb_spec a1 a2), (Z.ltb_spec a2 a1), (Z.ltb_spec b1 b2), (Z.ltb_spec b2 b1), (Z.leb_spec c1 c2);
    split; intros; try reflexivity; try discriminate; lia.
Qed.
Lemma spec_leb_total x y : spec_leb x y = true \/ spec_leb y x = true.
Proof. destruct x as [[a1 b1] c1], y as [[a2 b2] c2]. rewrite !spec_leb_iff. lia. Qed.
Lemma spec_leb_trans x y z : spec_leb x y = true -> spec_leb y z = true -> spec_leb x z = true.
Proof. destruct x as [[a1 b1] c1], y as [[a2 b2] c2], z as [[a3 b3] c3]. rewrite !spec_leb_iff. lia. Qed.

(* weight order = (origin/importance, specificity) in the order css-cascade gives *)
Lemma weight_leb_iff p1 f1 g1 h1 p2 f2 g2 h2 :
  weight_leb (p1, (f1, g1, h1)) (p2, (f2, g2, h2)) = true <->
  p1 < p2 \/ (p1 = p2 /\ (f1 < f2 \/ (f1 = f2 /\ (g1 < g2 \/ (g1 = g2 /\ h1 <= h2))))).
Proof.
  unfold weight_leb. simpl fst. simpl snd.
  destruct (Z.ltb_spec p1 p2), (Z.ltb_spec p2 p1); rewrite ?spec_leb_iff;
    split; intros; try reflexivity; try discriminate; lia.
Qed.
Lemma weight_leb_total x y : weight_leb x y = true \/ weight_leb y x = true.
Proof. destruct x as [p1 [[a1 b1] c1]], y as [p2 [[a2 b2] c2]]. rewrite !weight_leb_iff. lia. Qed.
Lemma weight_leb_trans x y z : weight_leb x y = true -> weight_leb y z = true -> weight_leb x z = true.
Proof.
  destruct x as [p1 [[a1 b1] c1]], y as [p2 [[a2 b2] c2]], z as [p3 [[a3 b3] c3]]. rewrite !weight_leb_iff. lia.
Qed.

Lemma precedence_order :
  precedence UA false < precedence User false < precedence Author false /\
  precedence Author false < precedence Author true < precedence User true.
Proof. simpl. lia. Qed.

(* ---- the dictionary: add_page_declarations is the per-key cascade of the flattened update stream ---- *)
Lemma key_eqb_refl k : key_eqb k k = true.
Proof. destruct k as [[p|] n]; unfold key_eqb; simpl; now rewrite ?String.eqb_refl. Qed.
Lemma key_eqb_eq k k' : key_eqb k k' = true <-> k = k'.
Proof.
  destruct k as [[p|] n], k' as [[p'|] n']; unfold key_eqb; simpl; rewrite ?andb_true_iff, ?String.eqb_eq;
    split; intros H; try (destruct H; subst; reflexivity); try (inversion H; subst; auto); try discriminate;
    try (destruct H; discriminate).
Qed.

Lemma lookup_set_same k v st : lookup_key k (set_key k v st) = Some v.
Proof.
  induction st as [|[k' v'] st IH]; simpl; [now rewrite key_eqb_refl|].
  destruct (key_eqb k k') eqn:E; simpl; rewrite E; [reflexivity|exact IH].
Qed.
Lemma lookup_set_other k k' v st : key_eqb k k' = false -> lookup_key k (set_key k' v st) = lookup_key k st.
Proof.
  intros Hne. induction st as [|[k'' v''] st IH]; simpl.
  - now rewrite Hne.
  - destruct (key_eqb k' k'') eqn:E; simpl.
    + apply key_eqb_eq in E. subst k''. now rewrite Hne.
    + destruct (key_eqb k k''); [reflexivity|exact IH].
Qed.

Lemma lookup_store_step k st e :
  lookup_key k (store_step st e) =
  if key_eqb k (fst e) then cascade_step weight_leb (lookup_key k st) (snd e) else lookup_key k st.
Proof.
  destruct e as [k' d]. unfold store_step. simpl.
  destruct (key_eqb k k') eqn:E.
  - apply key_eqb_eq in E. subst k'.
    destruct (cascade_step weight_leb (lookup_key k st) d) as [w|] eqn:C.
    + apply lookup_set_same.
    + unfold cascade_step in C. destruct (lookup_key k st) as [[v ow]|]; [|discriminate].
      destruct (weight_leb ow (snd d)); discriminate.
  - destruct (cascade_step weight_leb (lookup_key k' st) d); [now apply lookup_set_other|reflexivity].
Qed.

Lemma lookup_fold_store k ups : forall st,
  lookup_key k (fold_left store_step ups st) = cascade_from weight_leb (lookup_key k st) (for_key k ups).
Proof.
  unfold for_key, cascade_from. induction ups as [|e ups IH]; intros st; simpl; [reflexivity|].
  rewrite IH, lookup_store_step. destruct (key_eqb k (fst e)); reflexivity.
Qed.

Lemma fold_left_flat_map {A B S} (f : A -> list B) (g : S -> B -> S) (l : list A) : forall s,
  fold_left g (flat_map f l) s = fold_left (fun s' a => fold_left g (f a) s') l s.
Proof. induction l as [|a l IH]; intros s; simpl; [reflexivity|]. now rewrite fold_left_app, IH. Qed.

Lemma fold_left_ext {A S} (f g : S -> A -> S) (l : list A) :
  (forall s a, f s a = g s a) -> forall s, fold_left f l s = fold_left g l s.
Proof. intros H. induction l as [|a l IH]; intros s; simpl; [reflexivity|]. now rewrite H, IH. Qed.

(* the nested loops of add_page_declarations perform exactly the flattened stream of updates *)
Lemma add_page_declarations_flat sheets pt st :
  add_page_declarations sheets pt st = fold_left store_step (page_updates sheets pt) st.
Proof.
  unfold add_page_declarations, page_updates. rewrite fold_left_flat_map.
  apply fold_left_ext. intros s [[rules o] ss]. unfold sheet_updates. rewrite fold_left_flat_map.
  apply fold_left_ext. intros s2 r. unfold rule_updates. rewrite fold_left_flat_map.
  apply fold_left_ext. intros s3 [[sp pseudo_type] sel]. destruct (page_type_match sel pt); reflexivity.
Qed.

(* Main cascade theorem: after add_page_declarations on an empty dictionary, the entry of every (margin box,
   property) is the LAST declaration of MAXIMAL (origin/importance, specificity) among the declarations of the
   @page rules whose selector matches the page type; no entry when there is none. *)
Theorem page_cascade_winner sheets pt (k : key) :
  let ds := for_key k (page_updates sheets pt) in
  let r := lookup_key k (add_page_declarations sheets pt []) in
  (ds = [] -> r = None) /\
  (ds <> [] -> exists d, r = Some d /\ last_max Z weight weight_leb ds d).
Proof.
  cbn zeta. rewrite add_page_declarations_flat, lookup_fold_store. simpl lookup_key. split.
  - intros E. rewrite E. reflexivity.
  - intros Hne. apply (cascade_picks_last_max Z weight weight_leb weight_leb_total weight_leb_trans _ Hne).
Qed.

(* doing it again (same page type met again by remake_page) changes nothing *)
Theorem page_cascade_idempotent sheets pt (k : key) :
  let st := add_page_declarations sheets pt [] in
  lookup_key k (add_page_declarations sheets pt st) = lookup_key k st.
Proof.
  cbn zeta. rewrite !add_page_declarations_flat, !lookup_fold_store. simpl lookup_key.
  destruct (for_key k (page_updates sheets pt)) as [|e l] eqn:E; [reflexivity|].
  destruct (cascade_picks_last_max Z weight weight_leb weight_leb_total weight_leb_trans (e :: l)) as [d [H1 H2]];
    [congruence|].
  fold (cascade weight_leb (e :: l)). rewrite H1.
  now apply (cascade_idempotent Z weight weight_leb weight_leb_total).
Qed.

(* only matching selectors contribute *)
Theorem page_cascade_only_matching o ss pt (r : prule) e :
  In e (rule_updates o ss pt r) ->
  exists sp pseudo_type sel, In (sp, pseudo_type, sel) (fst r) /\ match_spec sel pt /\ fst (fst e) = pseudo_type.
Proof.
  unfold rule_updates. rewrite in_flat_map. intros [[[sp pseudo_type] sel] [Hin He]].
  destruct (page_type_match sel pt) eqn:M; [|contradiction].
  exists sp, pseudo_type, sel. split; [exact Hin|]. split; [now apply page_type_match_iff|].
  unfold decl_updates in He. apply in_map_iff in He. destruct He as [[[n v] imp] [E _]]. subst e. reflexivity.
Qed.

Example cascade_example :
  let sel_any := mkSel None None None None None in
  let sel_first := mkSel None None (Some true) None None in
  let sheets := [([([((0,0,0), None, sel_any)], [("margin_top", 10, false)]);
                   ([((0,1,0), None, sel_first)], [("margin_top", 20, false)]);
                   ([((0,0,0), None, sel_any)], [("margin_top", 30, false)])], Author, None)] in
  lookup_key (None, "margin_top") (add_page_declarations sheets (mkPT SRight false "" 0 []) []) = Some (20, (3, (0,1,0))) /\
  lookup_key (None, "margin_top") (add_page_declarations sheets (mkPT SLeft false "" 1 []) []) = Some (30, (3, (0,0,0))).
Proof. vm_compute. split; reflexivity. Qed.
