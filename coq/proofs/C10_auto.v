(* C10: auto_table_layout (model/C10Layout.v), the choice of the table width, the interpolation between the four
   guesses and the distribution of excess width; under the sanity hypotheses on the oracle (preferred.py):
   0 <= min_i <= max_i for every column, spacing + sum(min) <= table min-content width <= table max-content width. *)
From Coq Require Import QArith Qminmax Lqa Lia List Bool Arith.
Require Import WV.model.C10Distribute WV.model.C10Layout WV.proofs.C10_distribute.
Import ListNotations.
Open Scope Q_scope.

Definition oracle_ok (tmin tmax ths : Q) (cols : list acol) : Prop :=
  Forall (fun c => 0 <= a_min c /\ a_min c <= a_max c) cols /\ ths + gsum a_min cols <= tmin /\ tmin <= tmax.

(* ---------------------------------------------------------------- the used table width *)
Theorem auto_table_width tw avail tmin tmax :
  tmin <= tmax ->
  let W := used_table_width tw avail tmin tmax in
  tmin <= W /\
  match tw with
  | None => (tmin <= avail -> W <= avail) /\ W <= tmax          (* never wider than available when content allows *)
  | Some w => w <= W /\ (tmin <= w -> W = w)                      (* a specified width is only ever enlarged *)
  end.
Proof.
  intros Hmm. unfold used_table_width. destruct tw as [w|].
  - destruct (Qlt_bool w tmin) eqn:E.
    + apply Qlt_bool_iff in E. repeat split; try lra.
    + assert (~ w < tmin) by (intro H; apply Qlt_bool_iff in H; congruence). repeat split; lra.
  - destruct (Qle_bool avail tmin) eqn:E1.
    + apply Qle_bool_iff in E1. repeat split; lra.
    + assert (N1 : ~ avail <= tmin) by (intro H; apply Qle_bool_iff in H; congruence).
      destruct (Qlt_bool avail tmax) eqn:E2.
      * apply Qlt_bool_iff in E2. repeat split; lra.
      * assert (~ avail < tmax) by (intro H; apply Qlt_bool_iff in H; congruence). repeat split; lra.
Qed.

(* ---------------------------------------------------------------- sums over columns *)
Lemma gsum_sub f g cols : gsum (fun c => f c - g c) cols == gsum f cols - gsum g cols.
Proof. unfold gsum. induction cols as [|c cols IH]; simpl; [ring|]. rewrite IH. ring. Qed.

Definition fle (cols : list acol) (f g : acol -> Q) : Prop := forall c, In c cols -> f c <= g c.

Lemma fle_refl cols f : fle cols f f.
Proof. intros c _. lra. Qed.
Lemma fle_trans cols f g h : fle cols f g -> fle cols g h -> fle cols f h.
Proof. intros H1 H2 c Hc. specialize (H1 c Hc). specialize (H2 c Hc). lra. Qed.

Lemma gsum_le cols f g : fle cols f g -> gsum f cols <= gsum g cols.
Proof.
  unfold gsum. induction cols as [|c cols IH]; intros H; simpl; [lra|].
  assert (f c <= g c) by (apply H; now left).
  assert (qsum (map f cols) <= qsum (map g cols)) by (apply IH; intros x Hx; apply H; now right). lra.
Qed.

Lemma gsum_elem_le cols d c : (forall x, In x cols -> 0 <= d x) -> In c cols -> d c <= gsum d cols.
Proof.
  unfold gsum. induction cols as [|x cols IH]; intros Hd Hc; [contradiction|]. simpl.
  assert (N : 0 <= qsum (map d cols)).
  { clear IH Hc. induction cols as [|y cols IH]; simpl; [lra|].
    assert (0 <= d y) by (apply Hd; right; now left).
    assert (0 <= qsum (map d cols)) by (apply IH; intros z [Hz|Hz]; apply Hd; [now left|right; now right]). lra. }
  destruct Hc as [->|Hc].
  - lra.
  - assert (0 <= d x) by (apply Hd; now left).
    assert (d c <= qsum (map d cols)) by (apply IH; [intros z Hz; apply Hd; now right|exact Hc]). lra.
Qed.

(* pointwise ordered and same sum: the lists are equal (what `upper_guess == lower_guess` tests) *)
Lemma same_sum_same_list cols f g :
  fle cols f g -> gsum f cols == gsum g cols ->
  qlist_eqb (map f cols) (map g cols) = true /\ qlist_eqb (map g cols) (map f cols) = true.
Proof.
  unfold gsum. induction cols as [|c cols IH]; intros H S; simpl in *; [auto|].
  assert (Hc : f c <= g c) by (apply H; now left).
  assert (Hr : fle cols f g) by (intros x Hx; apply H; now right).
  pose proof (gsum_le cols f g Hr) as Hs. unfold gsum in Hs.
  assert (E1 : f c == g c) by lra. assert (E2 : qsum (map f cols) == qsum (map g cols)) by lra.
  destruct (IH Hr E2) as [I1 I2]. rewrite I1, I2.
  assert (Qeq_bool (f c) (g c) = true) by now apply Qeq_bool_iff.
  assert (Qeq_bool (g c) (f c) = true) by (apply Qeq_bool_iff; now symmetry).
  rewrite H0, H1. auto.
Qed.

Lemma qlist_eqb_sum a b : qlist_eqb a b = true -> qsum a == qsum b.
Proof.
  revert b. induction a as [|x a IH]; intros [|y b] H; simpl in *; try discriminate; [reflexivity|].
  apply andb_true_iff in H. destruct H as [H1 H2]. apply Qeq_bool_iff in H1. rewrite H1, (IH b H2). reflexivity.
Qed.

(* ---------------------------------------------------------------- the chain of guesses *)
Section Guesses.
Variable A : Q.
Variable cols : list acol.
Hypothesis Hcols : Forall (fun c => 0 <= a_min c /\ a_min c <= a_max c) cols.

Lemma col_ok c : In c cols -> 0 <= a_min c /\ a_min c <= a_max c.
Proof. intro H. rewrite Forall_forall in Hcols. now apply Hcols. Qed.

Lemma chain01 : fle cols (guess0 A) (guess1 A).
Proof.
  intros c Hc. unfold guess0, guess1, pct_guess. destruct (has_pct c); [apply Q.le_max_r|lra].
Qed.
Lemma chain12 : fle cols (guess1 A) (guess2 A).
Proof.
  intros c Hc. destruct (col_ok c Hc). unfold guess1, guess2. destruct (has_pct c); [lra|]. destruct (a_cons c); lra.
Qed.
Lemma chain23 : fle cols (guess2 A) (guess3 A).
Proof.
  intros c Hc. destruct (col_ok c Hc). unfold guess2, guess3. destruct (has_pct c); [lra|]. destruct (a_cons c); lra.
Qed.

Definition is_guess (f : acol -> Q) : Prop := f = guess0 A \/ f = guess1 A \/ f = guess2 A \/ f = guess3 A.

Lemma guesses_comparable f g : is_guess f -> is_guess g -> fle cols f g \/ fle cols g f.
Proof.
  pose proof chain01 as C01. pose proof chain12 as C12. pose proof chain23 as C23.
  pose proof (fle_trans _ _ _ _ C01 C12) as C02. pose proof (fle_trans _ _ _ _ C12 C23) as C13.
  pose proof (fle_trans _ _ _ _ C01 C13) as C03.
  intros [ -> | [ -> | [ -> | -> ]]] [ -> | [ -> | [ -> | -> ]]]; auto using fle_refl.
Qed.
Lemma guess_ge_min f : is_guess f -> fle cols (guess0 A) f.
Proof.
  pose proof chain01 as C01. pose proof chain12 as C12. pose proof chain23 as C23.
  intros [ -> | [ -> | [ -> | -> ]]]; eauto using fle_refl, fle_trans.
Qed.
End Guesses.

Lemma last_while_cases {T} (p : T -> bool) l d :
  last_while p l d = d \/ (In (last_while p l d) l /\ p (last_while p l d) = true).
Proof.
  revert d. induction l as [|x l IH]; intros d; simpl; [now left|].
  destruct (p x) eqn:E; [|now left]. destruct (IH x) as [H|[H1 H2]].
  - right. rewrite H. auto.
  - right. auto.
Qed.

(* ---------------------------------------------------------------- the interpolation inequality *)
Lemma interp_up x d D A S : 0 <= d -> 0 < D -> S <= A -> x <= x + d * ((A - S) / D).
Proof.
  intros Hd HD HS. assert (0 <= (A - S) / D) by (apply div_nonneg; lra).
  assert (0 <= d * ((A - S) / D)) by (apply Qmult_le_0_compat; assumption). lra.
Qed.
Lemma interp_down x d D A S : 0 <= d -> d <= D -> 0 < D -> A < S -> x - (S - A) <= x + d * ((A - S) / D).
Proof.
  intros Hd HdD HD HS. set (q := (A - S) / D).
  assert (Hq : q * D == A - S) by (unfold q; field; lra).
  assert (q <= 0).
  { unfold q. apply Qle_shift_div_r; [exact HD|]. lra. }
  assert (D * q <= d * q) by nra. lra.
Qed.

Lemma interp_sum (l u : acol -> Q) r cols :
  qsum (map (fun c => l c + (u c - l c) * r) cols) == gsum l cols + r * gsum (fun c => u c - l c) cols.
Proof. unfold gsum. induction cols as [|c cols IH]; simpl; [ring|]. rewrite IH. ring. Qed.

(* ---------------------------------------------------------------- main theorem *)
Lemma Forall2_map_in {X Y} (P : X -> Y -> Prop) (f : X -> Y) l : (forall a, In a l -> P a (f a)) -> Forall2 P l (map f l).
Proof.
  induction l as [|a l IH]; intro H; simpl; constructor.
  - apply H. now left.
  - apply IH. intros b Hb. apply H. now right.
Qed.
Lemma Forall2_map_l {X Y Z} (P : Y -> Z -> Prop) (f : X -> Y) l ws :
  Forall2 P (map f l) ws -> Forall2 (fun a w => P (f a) w) l ws.
Proof. revert ws. induction l as [|a l IH]; intros ws H; inversion H; subst; constructor; auto. Qed.

Theorem auto_layout_correct eps tw avail tmin tmax ths cols :
  oracle_ok tmin tmax ths cols -> 0 <= eps -> cols <> [] ->
  exists W ws, auto_layout eps tw avail tmin tmax ths cols = Some (W, ws) /\
    W = used_table_width tw avail tmin tmax /\
    let A := W - ths in
    0 <= A /\
    length ws = length cols /\
    (* auto_sum *)
    (qsum ws == A \/
     (exists g, is_guess A g /\ ws = map g cols) /\ A * (1 - eps) <= qsum ws <= A * (1 + eps)) /\
    (* auto_at_least_min_content *)
    Forall2 (fun c w => a_min c - eps * A <= w) cols ws.
Proof.
  intros [Hcols [Hmin Hmm]] Heps Hne.
  set (W := used_table_width tw avail tmin tmax).
  destruct (auto_table_width tw avail tmin tmax Hmm) as [HW _]. fold W in HW.
  set (A := W - ths).
  assert (S0 : gsum (guess0 A) cols <= A) by (unfold guess0, A; change (fun c => a_min c) with a_min; lra).
  assert (Smin : 0 <= gsum a_min cols).
  { clear - Hcols. unfold gsum. induction Hcols as [|c cols [H _] _ IH]; simpl; lra. }
  assert (HA : 0 <= A) by (unfold A; lra).
  assert (HepsA : 0 <= eps * A) by (apply Qmult_le_0_compat; assumption).
  unfold auto_layout. fold W. destruct cols as [|c0 cols0] eqn:Ecols; [contradiction|]. rewrite <- Ecols in *.
  fold A. clear Hne.
  destruct (Qlt_bool A (gsum (guess3 A) cols)) eqn:Ebr.
  - (* between the guesses *)
    apply Qlt_bool_iff in Ebr.
    set (lower := last_while (fun g => Qle_bool (gsum g cols) (A * (1 + eps)))
                             [guess0 A; guess1 A; guess2 A; guess3 A] (guess0 A)).
    set (upper := last_while (fun g => Qle_bool (A * (1 - eps)) (gsum g cols))
                             [guess3 A; guess2 A; guess1 A; guess0 A] (guess3 A)).
    assert (GL : is_guess A lower /\ gsum lower cols <= A * (1 + eps)).
    { destruct (last_while_cases (fun g => Qle_bool (gsum g cols) (A * (1 + eps)))
                                 [guess0 A; guess1 A; guess2 A; guess3 A] (guess0 A)) as [H|[H1 H2]].
      - change (last_while _ _ _) with lower in H. rewrite H. split; [left; reflexivity|]. lra.
      - change (last_while _ _ _) with lower in H1, H2.
        split; [|now apply Qle_bool_iff in H2]. simpl in H1. unfold is_guess.
        destruct H1 as [H1|[H1|[H1|[H1|[]]]]]; rewrite <- H1; auto. }
    assert (GU : is_guess A upper /\ A * (1 - eps) <= gsum upper cols).
    { destruct (last_while_cases (fun g => Qle_bool (A * (1 - eps)) (gsum g cols))
                                 [guess3 A; guess2 A; guess1 A; guess0 A] (guess3 A)) as [H|[H1 H2]].
      - change (last_while _ _ _) with upper in H. rewrite H. split; [right; right; right; reflexivity|]. lra.
      - change (last_while _ _ _) with upper in H1, H2.
        split; [|now apply Qle_bool_iff in H2]. simpl in H1. unfold is_guess.
        destruct H1 as [H1|[H1|[H1|[H1|[]]]]]; rewrite <- H1; auto. }
    destruct GL as [GL SL]. destruct GU as [GU SU].
    pose proof (guess_ge_min A cols Hcols lower GL) as ML.
    pose proof (guess_ge_min A cols Hcols upper GU) as MU.
    destruct (qlist_eqb (map upper cols) (map lower cols)) eqn:Eeq.
    + (* the same guess twice *)
      exists W, (map upper cols). split; [reflexivity|]. split; [reflexivity|]. cbv zeta. fold A.
      split; [exact HA|]. split; [apply map_length|]. split.
      * right. split; [exists upper; auto|]. fold (gsum upper cols). split; [exact SU|].
        apply qlist_eqb_sum in Eeq. fold (gsum upper cols) in Eeq. fold (gsum lower cols) in Eeq. lra.
      * apply Forall2_map_in. intros c Hc. specialize (MU c Hc). unfold guess0 in MU. lra.
    + (* interpolation *)
      set (D := gsum (fun c => upper c - lower c) cols).
      assert (HD : D == gsum upper cols - gsum lower cols) by apply gsum_sub.
      assert (HD0 : ~ D == 0).
      { intro H0. destruct (guesses_comparable A cols Hcols lower upper GL GU) as [C|C].
        - destruct (same_sum_same_list cols lower upper C) as [_ E]; [lra|congruence].
        - destruct (same_sum_same_list cols upper lower C) as [E _]; [lra|congruence]. }
      rewrite (safe_div_some _ _ HD0). fold D.
      set (ratio := (A - gsum lower cols) / D).
      exists W, (map (fun c => lower c + (upper c - lower c) * ratio) cols).
      split; [reflexivity|]. split; [reflexivity|]. cbv zeta. fold A.
      split; [exact HA|]. split; [apply map_length|]. split.
      * left. assert (E : qsum (map (fun c => lower c + (upper c - lower c) * ratio) cols)
                          == gsum lower cols + ratio * D).
        { unfold D. apply interp_sum. }
        rewrite E. unfold ratio. field. exact HD0.
      * apply Forall2_map_in. intros c Hc.
        destruct (guesses_comparable A cols Hcols lower upper GL GU) as [C|C].
        -- (* lower <= upper pointwise *)
           assert (Hd : forall x, In x cols -> 0 <= upper x - lower x) by (intros x Hx; specialize (C x Hx); lra).
           pose proof (gsum_elem_le cols (fun x => upper x - lower x) c Hd Hc) as Hle. fold D in Hle. cbv beta in Hle.
           pose proof (gsum_le cols lower upper C) as Hs. assert (HDp : 0 < D) by lra.
           specialize (ML c Hc). unfold guess0 in ML. specialize (Hd c Hc).
           destruct (Qlt_le_dec A (gsum lower cols)) as [Lt|Le].
           ++ pose proof (interp_down (lower c) (upper c - lower c) D A (gsum lower cols) Hd Hle HDp Lt). fold ratio in H. lra.
           ++ pose proof (interp_up (lower c) (upper c - lower c) D A (gsum lower cols) Hd HDp Le). fold ratio in H. lra.
        -- (* upper <= lower pointwise: the same line through the two points, read from the other end *)
           assert (Hd : forall x, In x cols -> 0 <= lower x - upper x) by (intros x Hx; specialize (C x Hx); lra).
           pose proof (gsum_elem_le cols (fun x => lower x - upper x) c Hd Hc) as Hle. cbv beta in Hle.
           pose proof (gsum_sub lower upper cols) as HD'. set (D' := gsum (fun x => lower x - upper x) cols) in *.
           pose proof (gsum_le cols upper lower C) as Hs. assert (HDp : 0 < D') by lra.
           assert (Esym : lower c + (upper c - lower c) * ratio
                          == upper c + (lower c - upper c) * ((A - gsum upper cols) / D')).
           { unfold ratio. rewrite HD', HD. field. split; lra. }
           rewrite Esym. specialize (MU c Hc). unfold guess0 in MU. specialize (Hd c Hc).
           destruct (Qlt_le_dec A (gsum upper cols)) as [Lt|Le].
           ++ pose proof (interp_down (upper c) (lower c - upper c) D' A (gsum upper cols) Hd Hle HDp Lt). lra.
           ++ pose proof (interp_up (upper c) (lower c - upper c) D' A (gsum upper cols) Hd HDp Le). lra.
  - (* at least the max-content guess: distribute the excess *)
    assert (He : 0 <= A - gsum (guess3 A) cols).
    { assert (~ A < gsum (guess3 A) cols) by (intro H; apply Qlt_bool_iff in H; congruence). lra. }
    destruct (dist_never_raises (A - gsum (guess3 A) cols) (map (to_col A) cols)) as [ws Hws]. rewrite Hws.
    exists W, ws. split; [reflexivity|]. split; [reflexivity|]. cbv zeta. fold A.
    assert (Hw : map c_w (map (to_col A) cols) = map (guess3 A) cols) by (rewrite map_map; reflexivity).
    split; [exact HA|]. split; [rewrite (dist_length _ _ _ Hws); apply map_length|]. split.
    + left. assert (Hne' : map (to_col A) cols <> []) by (rewrite Ecols; simpl; discriminate).
      rewrite (dist_excess_is_distributed _ _ _ Hne' Hws).
      rewrite Hw. unfold gsum. ring.
    + pose proof (dist_widths_never_decrease _ _ _ He Hws) as Hm. apply Forall2_map_l in Hm.
      assert (G3 : is_guess A (guess3 A)) by (right; right; right; reflexivity).
      pose proof (guess_ge_min A cols Hcols (guess3 A) G3) as M3.
      clear - Hm M3 HepsA. induction Hm as [|c w cols ws H _ IH]; constructor.
      * simpl in H. assert (guess0 A c <= guess3 A c) by (apply M3; now left). unfold guess0 in H0. lra.
      * apply IH. intros x Hx. apply M3. now right.
Qed.

(* the three named consequences *)
Theorem auto_never_raises eps tw avail tmin tmax ths cols :
  oracle_ok tmin tmax ths cols -> 0 <= eps -> exists out, auto_layout eps tw avail tmin tmax ths cols = Some out.
Proof.
  intros H He. destruct cols as [|c cols'] eqn:E; [unfold auto_layout; eauto|]. rewrite <- E in *.
  destruct (auto_layout_correct eps tw avail tmin tmax ths cols H He) as [W [ws [H1 _]]]; [rewrite E; discriminate|eauto].
Qed.

Theorem auto_sum eps tw avail tmin tmax ths cols W ws :
  oracle_ok tmin tmax ths cols -> 0 <= eps -> cols <> [] ->
  auto_layout eps tw avail tmin tmax ths cols = Some (W, ws) ->
  let A := W - ths in
  qsum ws == A \/ ((exists g, is_guess A g /\ ws = map g cols) /\ A * (1 - eps) <= qsum ws <= A * (1 + eps)).
Proof.
  intros H He Hne Hout. destruct (auto_layout_correct eps tw avail tmin tmax ths cols H He Hne) as [W' [ws' [H1 [_ H2]]]].
  rewrite Hout in H1. injection H1 as <- <-. cbv zeta in *. tauto.
Qed.

Theorem auto_at_least_min_content eps tw avail tmin tmax ths cols W ws :
  oracle_ok tmin tmax ths cols -> 0 <= eps -> cols <> [] ->
  auto_layout eps tw avail tmin tmax ths cols = Some (W, ws) ->
  Forall2 (fun c w => a_min c - eps * (W - ths) <= w) cols ws.
Proof.
  intros H He Hne Hout. destruct (auto_layout_correct eps tw avail tmin tmax ths cols H He Hne) as [W' [ws' [H1 [_ H2]]]].
  rewrite Hout in H1. injection H1 as <- <-. cbv zeta in *. tauto.
Qed.

(* without min <= max the statement fails: the second column ends below its min-content width
   (such oracle outputs exist: a colspan cell's min-content excess is distributed in proportion to max-content) *)
Theorem auto_min_content_needs_oracle_hypothesis :
  exists ws, auto_layout 0 None 185 180 190 0 [mkacol true false 0 100 48; mkacol true false 0 90 132] = Some (185, ws)
             /\ nth 1 ws 0 < 132.
Proof. eexists. split; [reflexivity|]. vm_compute. reflexivity. Qed.

(* ... and the code can divide by zero: two different guesses with the same sum *)
Theorem auto_zero_division_needs_oracle_hypothesis :
  auto_layout 0 None 15 15 25 0 [mkacol true true 0 5 10; mkacol true true 0 10 5; mkacol true false 0 10 0] = None.
Proof. reflexivity. Qed.

Example auto_example :
  exists ws, auto_layout eps9 None 289 60 400 8 [mkacol true false 0 200 20; mkacol true true 0 100 20; mkacol true false 20 92 12]
             = Some (289, ws) /\ qlist_eqb ws [624 # 5; 100; 281 # 5] = true /\ qsum ws == 289 - 8.
Proof. eexists. split; [reflexivity|]. split; vm_compute; reflexivity. Qed.
Example oracle_ok_example : oracle_ok 60 400 8 [mkacol true false 0 200 20; mkacol true true 0 100 20; mkacol true false 20 92 12].
Proof. split; [repeat constructor; simpl; lra|]. unfold gsum. simpl. lra. Qed.
