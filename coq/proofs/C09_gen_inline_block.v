(* C09 - inline_block_width(box, context, containing_block) of weasyprint/layout/inline.py (the function under the
   @handle_min_max_width decorator; the decorator's wrapper is tied by proofs/C05_gen_minmax.v) as REGENERATED from the
   source on every run (gen/GenInline.v) computes the hand model ib_width of model/C09InlineBlock.v: for every box
   (width 'auto' or a number; any margins, border widths, paddings; any other attributes) and every containing block,
   the box ends with width = the model's width and every other attribute untouched, nothing is returned, nothing is
   raised, and shrink_to_fit is called exactly when the width is 'auto', with (context, the box as received, the
   model's available width).
   shrink_to_fit(context, box, available_content_width) stays an oracle: ANY function stf of its three arguments that
   answers a number. *)
From Coq Require Import QArith Qminmax Lqa List String Bool.
Require Import WV.base.Py WV.base.PyLink WV.gen.GenInline WV.proofs.PyTac WV.proofs.PyNatural.
Require Import WV.model.C09InlineBlock.
Import ListNotations.
Open Scope string_scope.
Open Scope list_scope.
Open Scope Q_scope.

(* a width slot: None = 'auto' *)
Definition wval (w : option Q) : val := match w with Some x => VNum x | None => VStr "auto" end.

(* an inline-block box as inline_block_width reads it (after resolve_percentages and the zeroing of auto margins by
   inline_block_box_layout): width and the six horizontal spacings; anything else in rest *)
Definition ib_box (w : val) (s : hspace) (rest : list (string * val)) : val :=
  VObj (("width", w) :: ("margin_left", VNum (ml s)) :: ("margin_right", VNum (mr s)) ::
        ("border_left_width", VNum (bl s)) :: ("border_right_width", VNum (br s)) ::
        ("padding_left", VNum (pl s)) :: ("padding_right", VNum (pr s)) :: rest).
(* a containing block: its width; anything else in rest *)
Definition cb_box (cbw : Q) (rest : list (string * val)) : val := VObj (("width", VNum cbw) :: rest).

(* the oracle: shrink_to_fit answers the number stf context box available *)
Definition stf_oracle (O : qops) (stf : val -> val -> Q -> Q) : Prop :=
  forall ctx bx a, ocall O "shrink_to_fit" [ctx; bx; VNum a] = VNum (stf ctx bx a).

Lemma gen_inline_block_width O (HO : ops_ok O) stf (HS : stf_oracle O stf) cf w s rest cbw cbrest :
  let ctx := VObj cf in
  let box := ib_box (wval w) s rest in
  run O inline_block_width_body
      [("box", box); ("context", ctx); ("containing_block", cb_box cbw cbrest)]
      (fun rho res =>
         res = None /\
         lookup "box" rho = ib_box (VNum (ib_width (stf ctx box) w cbw s)) s rest /\
         lookup "context" rho = ctx /\ lookup "containing_block" rho = cb_box cbw cbrest)
      (fun _ => False).
Proof.
  intros ctx box. subst ctx box.
  unfold run, inline_block_width_body, ib_box, cb_box, ib_width, ib_available, hsum.
  destruct w as [x|]; lazy -[qadd qsub qmul qdiv qmax qmin qleb qeqb ocall Qplus Qminus].
  - split; [reflexivity|split; [reflexivity|split; reflexivity]].
  - rewrite HS. lazy -[qadd qsub qmul qdiv qmax qmin qleb qeqb ocall Qplus Qminus].
    unseal HO. split; [reflexivity|split; [reflexivity|split; reflexivity]].
Qed.

(* a property of every outcome of the model's is a property of the source's *)
Lemma run_weaken O body rho (P Q : env -> option val -> Prop) :
  (forall rho' r, P rho' r -> Q rho' r) -> run O body rho P (fun _ => False) -> run O body rho Q (fun _ => False).
Proof.
  intros HPQ. rewrite !(PyNatural.run_natural O body rho).
  destruct (PyNatural.run_out O body rho); [apply HPQ|exact (fun x => x)].
Qed.

(* CSS 2.1 10.3.9: the auto width of an inline-block is the shrink-to-fit width for the available width
   (containing block minus margins, borders, paddings) *)
Lemma gen_inline_block_auto_is_shrink_to_fit O (HO : ops_ok O) stf (HS : stf_oracle O stf) cf s rest cbw cbrest :
  let ctx := VObj cf in
  let box := ib_box (VStr "auto") s rest in
  run O inline_block_width_body
      [("box", box); ("context", ctx); ("containing_block", cb_box cbw cbrest)]
      (fun rho res =>
         fieldv (lookup "box" rho) "width" =
         VNum (stf ctx box (cbw - (ml s + mr s + bl s + br s + pl s + pr s))))
      (fun _ => False).
Proof.
  intros ctx box. subst ctx box. change (VStr "auto") with (wval None).
  generalize (gen_inline_block_width O HO stf HS cf None s rest cbw cbrest); cbv zeta; apply run_weaken.
  intros rho' r (_ & -> & _). reflexivity.
Qed.

(* a width that is not auto is kept, and shrink_to_fit plays no part: the final box is the received one *)
Lemma gen_inline_block_given_width_kept O (HO : ops_ok O) stf (HS : stf_oracle O stf) cf x s rest cbw cbrest :
  run O inline_block_width_body
      [("box", ib_box (VNum x) s rest); ("context", VObj cf); ("containing_block", cb_box cbw cbrest)]
      (fun rho res => lookup "box" rho = ib_box (VNum x) s rest)
      (fun _ => False).
Proof.
  change (VNum x) with (wval (Some x)).
  generalize (gen_inline_block_width O HO stf HS cf (Some x) s rest cbw cbrest); cbv zeta; apply run_weaken.
  intros rho' r (_ & -> & _). reflexivity.
Qed.

(* with the shrink-to-fit of CSS 2.1 10.3.5 (preferred.py: min(max(min-content, available), max-content)) as the
   oracle's answer: the margin box of an auto-width inline-block fits in its containing block whenever the preferred
   minimum width of its content does; if it does not fit, the width is that minimum *)
Lemma gen_inline_block_auto_fits O (HO : ops_ok O) pmin pref
      (HS : stf_oracle O (fun _ _ => shrink pmin pref)) cf s rest cbw cbrest :
  pmin <= pref ->
  run O inline_block_width_body
      [("box", ib_box (VStr "auto") s rest); ("context", VObj cf); ("containing_block", cb_box cbw cbrest)]
      (fun rho res =>
         exists wd, fieldv (lookup "box" rho) "width" = VNum wd /\
                    pmin <= wd <= pref /\
                    (pmin <= cbw - hsum s -> wd + hsum s <= cbw) /\
                    (cbw < wd + hsum s -> wd == pmin) /\
                    (pref <= cbw - hsum s -> wd == pref))
      (fun _ => False).
Proof.
  intros Hp. change (VStr "auto") with (wval None).
  generalize (gen_inline_block_width O HO _ HS cf None s rest cbw cbrest); cbv zeta; apply run_weaken.
  intros rho' r (_ & -> & _). eexists. split; [reflexivity|].
  split; [exact (ib_auto_bounds pmin pref cbw s Hp)|].
  split; [exact (ib_auto_fits pmin pref cbw s)|].
  split; [exact (ib_auto_overflow_only_at_minimum pmin pref cbw s Hp)|].
  exact (ib_auto_preferred_when_fits pmin pref cbw s).
Qed.

Definition stf_demo (f : string) (args : list val) : val :=
  if String.eqb f "shrink_to_fit" then match args with [_; _; VNum a] => VNum (shrink 20 70 a) | _ => VErr "TypeError" end
  else VErr "NameError".
Example inline_block_width_example :
  run (with_calls real_ops stf_demo) inline_block_width_body
      [("box", ib_box (VStr "auto") (mk_hspace 1 2 3 4 5 6) [("height", VStr "auto")]); ("context", VObj []);
       ("containing_block", cb_box 61 [])]
      (fun rho r => r = None /\ fieldv (lookup "box" rho) "width" = VNum (shrink 20 70 (61 - (1 + 2 + 3 + 4 + 5 + 6))) /\
                    fieldv (lookup "box" rho) "height" = VStr "auto")
      (fun _ => False).
Proof. repeat split; reflexivity. Qed.
