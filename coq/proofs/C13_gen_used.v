(* C13 - replaced_box_height and replaced_box_width of weasyprint/layout/replaced.py (the functions under the
   handle_min_max_* decorators, i.e. `.without_min_max`) as REGENERATED on every run (gen/GenReplacedBox.v) compute
   exactly the hand models rbh_raw_hv / rbw_raw of model/C13Replaced.v (CSS 2.1 10.3.2 / 10.6.2; the theorems
   C13_used_size_css21, C13_ratio_preserved_*, C13_fallback_300x150 rest on them), for every 'auto' / number pattern
   of box.width and box.height and every None / number pattern of the intrinsic size, and raise exactly when the
   model says so.  image.get_intrinsic_size is an oracle; so is the (decorated) block_level_width that
   replaced_box_width calls at point 3: it leaves the box with width `fill`. *)
From Coq Require Import QArith Qminmax List Bool String.
Require Import WV.base.Py WV.base.PyLink WV.proofs.PyTac WV.gen.GenReplacedBox WV.model.C13Replaced.
Require Import WV.proofs.C13_gen_sizing WV.proofs.C13_gen_tac.
Import ListNotations.
Open Scope string_scope.
Open Scope list_scope.
Open Scope Q_scope.

(* ---------------------------------------------------------------- replaced_box_height *)
Definition hbox (bw bh : oq) imgf rs fs : val :=
  VObj [("width", vauto bw); ("height", vauto bh); ("replacement", VObj imgf);
        ("style", VObj [("image_resolution", VNum rs); ("font_size", VNum fs)])].
Definition vhv (h : hv) : val := match h with HAuto => VStr "auto" | HNone => VNone | HNum q => VNum q end.

Definition sets_height (o : option hv) (rho : env) (res : option val) : Prop :=
  match o with
  | Some h => res = None /\ fieldv (lookup "box" rho) "height" = vhv h
  | None => False
  end.
Definition raises (A : Type) (o : option A) (m : string) : Prop :=
  o = None /\ (m = "ZeroDivisionError" \/ m = "TypeError").
Arguments raises {A} o m.

Ltac ev :=
  lazy -[Py.qadd Py.qsub Py.qmul Py.qdiv Py.qmax Py.qmin Py.qleb Py.qeqb Py.ocall sets_height raises
         rbh_raw_hv rbw_raw Qplus Qminus Qmult Qdiv Qeq_bool Qle_bool Qmax Qmin].

Lemma gen_replaced_box_height O (HO : ops_ok O) imgf rs fs i bw bh (HI : intr_oracle O imgf rs fs i) :
  run O replaced_box_height_body [("box", hbox bw bh imgf rs fs)]
    (sets_height (rbh_raw_hv bw i bh)) (raises (rbh_raw_hv bw i bh)).
Proof.
  unfold intr_oracle, vintr in HI.
  unfold run, replaced_box_height_body, hbox.
  to_call O. rewrite HI. clear HI.
  destruct i as [[w0|] [h0|] [r|]], bw as [bw|], bh as [bh|]; cbn [ir iw ih voq vauto];
    ev; paths; unseal HO;
    unfold rbh_raw_hv, rbh_step1, rbh_step2, C13Replaced.truthy, C13Replaced.qdiv, C13Replaced.bind, is_none;
    cbn [ir iw ih]; follow;
    unfold sets_height, raises, fieldv, vhv; cbn [lookup String.eqb Ascii.eqb Bool.eqb andb negb];
    auto.
Qed.

(* ---------------------------------------------------------------- replaced_box_width *)
Definition wbox (bw bh : oq) (minh maxh : Q) imgf rs fs : val :=
  VObj [("width", vauto bw); ("height", vauto bh); ("min_height", VNum minh); ("max_height", VNum maxh);
        ("replacement", VObj imgf); ("style", VObj [("image_resolution", VNum rs); ("font_size", VNum fs)])].

(* point 3: block_level_width(box, containing_block) - the decorated function of layout/block.py, imported inside
   replaced_box_width - gives the box the width `fill` (it also sets margins, which this function does not read) *)
Definition blw_oracle (O : qops) (bw bh : oq) (minh maxh : Q) imgf rs fs cbf (fill : Q) : Prop :=
  ocall O "block_level_width" [wbox bw bh minh maxh imgf rs fs; VObj cbf]
  = VList [VNone; wbox (Some fill) bh minh maxh imgf rs fs].

Definition sets_width (o : option Q) (rho : env) (res : option val) : Prop :=
  match o with
  | Some w => res = None /\ exists x, fieldv (lookup "box" rho) "width" = VNum x /\ x == w
  | None => False
  end.

Ltac evw :=
  lazy -[Py.qadd Py.qsub Py.qmul Py.qdiv Py.qmax Py.qmin Py.qleb Py.qeqb Py.ocall sets_width raises
         rbw_raw Qplus Qminus Qmult Qdiv Qeq_bool Qle_bool Qmax Qmin wbox].
Ltac finw HO :=
  unseal HO; unfold rbw_raw, qmin_inf; cbn [ir iw ih];
  unfold sets_width, raises, fieldv; cbn [lookup String.eqb Ascii.eqb Bool.eqb];
  first [ split; [reflexivity|]; eexists; split; [reflexivity|reflexivity]
        | split; [reflexivity|auto] ].

Lemma gen_replaced_box_width O (HO : ops_ok O) imgf rs fs cbf i bw bh minh maxh fill
      (HI : intr_oracle O imgf rs fs i) (HB : blw_oracle O bw bh minh maxh imgf rs fs cbf fill) :
  run O replaced_box_width_body [("box", wbox bw bh minh maxh imgf rs fs); ("containing_block", VObj cbf)]
    (sets_width (rbw_raw bh i fill minh (Some maxh) bw)) (raises (rbw_raw bh i fill minh (Some maxh) bw)).
Proof.
  unfold intr_oracle, vintr in HI. unfold blw_oracle in HB.
  unfold run, replaced_box_width_body.
  unfold wbox at 1. to_call O. rewrite HI. clear HI.
  destruct i as [[w0|] [h0|] [r|]], bw as [bw|], bh as [bh|]; cbn [ir iw ih voq vauto].
  all: try (unfold wbox in HB; cbn [vauto] in HB; to_call O; rewrite HB).
  all: clear HB; unfold wbox; cbn [vauto]; evw; paths; finw HO.
Qed.

(* with the real rational operations, whatever else the oracle answers *)
Theorem gen_replaced_box_height_real (c : string -> list val -> val) imgf rs fs i bw bh :
  c ".get_intrinsic_size" [VObj imgf; VNum rs; VNum fs] = vintr i ->
  run (with_calls real_ops c) replaced_box_height_body [("box", hbox bw bh imgf rs fs)]
    (sets_height (rbh_raw_hv bw i bh)) (raises (rbh_raw_hv bw i bh)).
Proof. intros H. apply gen_replaced_box_height; [apply with_calls_ok, real_ok|exact H]. Qed.

Theorem gen_replaced_box_width_real (c : string -> list val -> val) imgf rs fs cbf i bw bh minh maxh fill :
  c ".get_intrinsic_size" [VObj imgf; VNum rs; VNum fs] = vintr i ->
  c "block_level_width" [wbox bw bh minh maxh imgf rs fs; VObj cbf]
    = VList [VNone; wbox (Some fill) bh minh maxh imgf rs fs] ->
  run (with_calls real_ops c) replaced_box_width_body
    [("box", wbox bw bh minh maxh imgf rs fs); ("containing_block", VObj cbf)]
    (sets_width (rbw_raw bh i fill minh (Some maxh) bw)) (raises (rbw_raw bh i fill minh (Some maxh) bw)).
Proof. intros H1 H2. apply gen_replaced_box_width; [apply with_calls_ok, real_ok|exact H1|exact H2]. Qed.

(* 100 x auto with ratio 2: the height becomes 50; auto x auto without any intrinsic size: 300 *)
Example gen_height_example :
  run (with_calls real_ops (fun _ _ => VList [VNone; VNone; VNum 2])) replaced_box_height_body
    [("box", hbox (Some 100) None [] 1 16)]
    (fun rho _ => fieldv (lookup "box" rho) "height" = VNum (100 / 2)) (fun _ => False).
Proof. reflexivity. Qed.
Example gen_width_example :
  run (with_calls real_ops (fun _ _ => VList [VNone; VNone; VNone])) replaced_box_width_body
    [("box", wbox None None 0 1000 [] 1 16); ("containing_block", VObj [])]
    (fun rho _ => fieldv (lookup "box" rho) "width" = VNum 300) (fun _ => False).
Proof. reflexivity. Qed.
