(* C12 - flex 9.7: the invariants of the loop (mode independent part, then grow, then shrink). *)
From Coq Require Import QArith Qminmax Qabs List Bool ZArith Lia Lqa.
Require Import WV.model.C12Flex WV.proofs.C12_flex_base.
Import ListNotations.
Open Scope Q_scope.

(* size of an item if every unfrozen item were at its hypothetical size *)
Definition hs (x : fst) : Q := if ffrozen x then ftarget x else ihyp (fit x).
(* free space left over the hypothetical sizes ("surplus") *)
Definition Ssp (avail gap : Q) (l : list fst) : Q :=
  avail - sumQ (fun x => hs x + iextra (fit x)) l - gaps_enum l gap.
Definition unf (f : fst -> Q) (x : fst) : Q := if ffrozen x then 0 else f x.

Lemma free_space_Ssp avail gap l :
  free_space avail gap l == Ssp avail gap l + sumQ (unf (fun x => ihyp (fit x) - ibase (fit x))) l.
Proof.
  unfold free_space, Ssp.
  assert (E : sumQ (fun x => used_size x + iextra (fit x)) l ==
              sumQ (fun x => (hs x + iextra (fit x)) - unf (fun x => ihyp (fit x) - ibase (fit x)) x) l).
  { apply sumQ_ext. intros x _. unfold used_size, hs, unf. destruct (ffrozen x); lra. }
  rewrite E, sumQ_minus. lra.
Qed.

Section Pass.
  Variables (md : mode) (avail gap rem : Q) (l : list fst).
  Let tot := pass_tot md rem l.
  Let l' := map (step1 md rem tot l) l.
  Let c (x : fst) := clamp (fit x) (prop1 md rem l x).
  Let p (x : fst) := prop1 md rem l x.
  (* what the pass hands out *)
  Definition Dsum : Q := sumQ (unf (fun x => prop1 md rem l x - ibase (fit x))) l.
  Definition delta (x : fst) : Q :=
    if ffrozen x then 0 else if freeze_b tot (c x - p x) then c x - ihyp (fit x) else 0.

  Lemma tot_eq : tot == sumQ (unf (fun x => c x - p x)) l.
  Proof.
    unfold tot, pass_tot. apply sumQ_ext. intros x _. unfold unf. destruct (ffrozen x) eqn:E.
    - now rewrite adj1_frozen.
    - destruct (step1_unfrozen md rem tot l x E) as (_ & _ & _ & ->). reflexivity.
  Qed.

  Lemma hs_step x : hs (step1 md rem tot l x) == hs x + delta x.
  Proof.
    unfold hs, delta. destruct (ffrozen x) eqn:E.
    - destruct (step1_frozen md rem tot l x E) as (_ & -> & ->). lra.
    - destruct (step1_unfrozen md rem tot l x E) as (-> & -> & -> & _). unfold c, p.
      destruct (freeze_b tot (clamp (fit x) (prop1 md rem l x) - prop1 md rem l x)); lra.
  Qed.

  Lemma Ssp_step : Ssp avail gap l' == Ssp avail gap l - sumQ delta l.
  Proof.
    unfold Ssp, l'. rewrite gaps_enum_map, sumQ_map.
    assert (E : sumQ (fun x => hs (step1 md rem tot l x) + iextra (fit (step1 md rem tot l x))) l ==
                sumQ (fun x => (hs x + iextra (fit x)) + delta x) l).
    { apply sumQ_ext. intros x _. rewrite hs_step, step1_fit. lra. }
    rewrite E, sumQ_plus. lra.
  Qed.

  Lemma sum_c_hyp : sumQ (unf (fun x => c x - ihyp (fit x))) l ==
                    tot + Dsum - free_space avail gap l + Ssp avail gap l.
  Proof.
    rewrite tot_eq, free_space_Ssp. unfold Dsum.
    assert (E : sumQ (unf (fun x => c x - ihyp (fit x))) l ==
                sumQ (fun x => unf (fun x => c x - p x) x + unf (fun x => prop1 md rem l x - ibase (fit x)) x
                               - unf (fun x => ihyp (fit x) - ibase (fit x)) x) l).
    { apply sumQ_ext. intros x _. unfold unf, p. destruct (ffrozen x); lra. }
    rewrite E, sumQ_minus, sumQ_plus. lra.
  Qed.

  Lemma all_frozen_when_tot_zero : tot == 0 -> forallb ffrozen l' = true.
  Proof.
    intros H. unfold l'. apply forallb_forall. intros y Hy. apply in_map_iff in Hy. destruct Hy as (x & <- & Hx).
    destruct (ffrozen x) eqn:E; [now apply step1_keeps_frozen|].
    destruct (step1_unfrozen md rem tot l x E) as (_ & _ & -> & _). now apply freeze_b_zero.
  Qed.

  Lemma Ssp_when_tot_zero : tot == 0 -> Ssp avail gap l' == free_space avail gap l - Dsum.
  Proof.
    intros H. rewrite Ssp_step.
    assert (E : sumQ delta l == sumQ (unf (fun x => c x - ihyp (fit x))) l).
    { apply sumQ_ext. intros x _. unfold delta, unf. destruct (ffrozen x); [reflexivity|].
      now rewrite (freeze_b_zero tot _ H). }
    rewrite E, sum_c_hyp. lra.
  Qed.

  (* an item frozen by a violation sits on its min or max *)
  Lemma violation_not_inside x : ~ tot == 0 -> le_max (imin (fit x)) (imax (fit x)) -> ffrozen x = false ->
    ffrozen (step1 md rem tot l x) = true -> ~ inside (step1 md rem tot l x).
  Proof.
    intros Ht Hv E Hf (I1 & I2). destruct (step1_unfrozen md rem tot l x E) as (Efit & Et & Efr & _).
    rewrite Efr in Hf. rewrite Efit, Et in I1, I2. fold (p x) (c x) in *.
    destruct (clamp_cases (fit x) (p x) Hv) as [(Ec & _)|[(Hlt & Ec)|(M & EM & Hlt & Ec)]]; fold (c x) in Ec.
    - destruct (Qlt_le_dec 0 tot) as [P|P].
      + apply freeze_b_pos in Hf; [lra | assumption].
      + apply freeze_b_neg in Hf; [lra|]. destruct (Qlt_le_dec tot 0); [assumption | exfalso; apply Ht; lra].
    - lra.
    - rewrite EM in I2. simpl in I2. lra.
  Qed.

  Lemma inside_is_proposed x : le_max (imin (fit x)) (imax (fit x)) -> ffrozen x = false ->
    inside (step1 md rem tot l x) -> ftarget (step1 md rem tot l x) == prop1 md rem l x.
  Proof.
    intros Hv E (I1 & I2). destruct (step1_unfrozen md rem tot l x E) as (Efit & Et & _ & _).
    rewrite Efit, Et in *. now apply clamp_inside.
  Qed.
End Pass.

(* the distributed amount: all of `rem` when growing *)
Lemma Dsum_grow rem l : (gsum l == 0 -> rem == 0) -> Dsum Grow rem l == rem.
Proof.
  intros Hg. unfold Dsum. destruct (Qeq_dec rem 0) as [E|E].
  - rewrite E. apply sumQ_zero. intros x _. unfold unf, prop1. destruct (ffrozen x); [reflexivity|].
    destruct (Qeq_dec rem 0); [lra | contradiction].
  - assert (G : ~ gsum l == 0) by tauto.
    assert (E1 : sumQ (unf (fun x => prop1 Grow rem l x - ibase (fit x))) l ==
                 sumQ (fun x => (rem * / gsum l) * unf (fun x => igrow (fit x)) x) l).
    { apply sumQ_ext. intros x _. unfold unf. destruct (ffrozen x); [ring|].
      rewrite prop1_eq. unfold ratio, Qdiv. ring. }
    rewrite E1, sumQ_scal. change (sumQ (unf (fun x => igrow (fit x))) l) with (gsum l). field. assumption.
Qed.

Lemma Dsum_shrink rem l : (ssum l == 0 -> Dsum Shrink rem l == 0) /\ (~ ssum l == 0 -> Dsum Shrink rem l == rem).
Proof.
  unfold Dsum. split; intros Hs.
  - apply sumQ_zero. intros x _. unfold unf. destruct (ffrozen x); [reflexivity|].
    rewrite prop1_eq. unfold ratio. destruct (Qeq_dec (ssum l) 0); [ring | contradiction].
  - assert (E1 : sumQ (unf (fun x => prop1 Shrink rem l x - ibase (fit x))) l ==
                 sumQ (fun x => (rem * / ssum l) * unf (fun x => ibase (fit x) * ishrink (fit x)) x) l).
    { apply sumQ_ext. intros x _. unfold unf. destruct (ffrozen x); [ring|].
      rewrite prop1_eq. unfold ratio. destruct (Qeq_dec (ssum l) 0); [contradiction|]. unfold Qdiv. ring. }
    rewrite E1, sumQ_scal. change (sumQ (unf (fun x => ibase (fit x) * ishrink (fit x))) l) with (ssum l).
    field. assumption.
Qed.

Definition valid_item' (it : item) : Prop := valid_item it /\ 0 <= imin it.

(* ================================================================= grow *)
Record ginv (avail gap : Q) (l : list fst) : Prop := {
  g_valid : forall x, In x l -> valid_item (fit x);
  g_unf : forall x, In x l -> ffrozen x = false -> ibase (fit x) <= ihyp (fit x) /\ 0 < igrow (fit x);
  g_frz : forall x, In x l -> ffrozen x = true ->
          ihyp (fit x) <= ftarget x /\ imin (fit x) <= ftarget x /\ le_max (ftarget x) (imax (fit x));
  g_S : 0 <= Ssp avail gap l }.

Lemma gsum_nonneg avail gap l : ginv avail gap l -> 0 <= gsum l.
Proof.
  intros I. apply sumQ_nonneg. intros x Hx. destruct (ffrozen x) eqn:E; [lra|].
  destruct (g_unf _ _ _ I x Hx E). lra.
Qed.

Lemma free_nonneg_grow avail gap l : ginv avail gap l -> Ssp avail gap l <= free_space avail gap l.
Proof.
  intros I. rewrite free_space_Ssp.
  assert (0 <= sumQ (unf (fun x => ihyp (fit x) - ibase (fit x))) l).
  { apply sumQ_nonneg. intros x Hx. unfold unf. destruct (ffrozen x) eqn:E; [lra|].
    destruct (g_unf _ _ _ I x Hx E). lra. }
  lra.
Qed.

Lemma pass_rem_grow avail gap init0 l : ginv avail gap l -> 0 <= init0 ->
  0 <= pass_rem Grow avail gap init0 l <= free_space avail gap l.
Proof.
  intros I H0. pose proof (free_nonneg_grow _ _ _ I). pose proof (g_S _ _ _ I).
  pose proof (gsum_nonneg _ _ _ I) as Hg. unfold pass_rem. change (ufs Grow l) with (gsum l).
  destruct (Qlt_le_dec (gsum l) 1); [|lra].
  assert (0 <= init0 * gsum l) by (apply Qmult_le_0_compat; assumption).
  destruct (Qlt_le_dec (Qabs (init0 * gsum l)) (Qabs (free_space avail gap l))) as [A|A]; [|lra].
  rewrite !Qabs_pos in A by lra. lra.
Qed.

Lemma prop_ge_base_grow avail gap rem l x : ginv avail gap l -> 0 <= rem -> In x l -> ffrozen x = false ->
  ibase (fit x) <= prop1 Grow rem l x.
Proof.
  intros I Hr Hx E. rewrite prop1_eq. unfold ratio.
  destruct (g_unf _ _ _ I x Hx E) as (_ & Hg). pose proof (gsum_nonneg _ _ _ I) as Hs.
  assert (0 <= igrow (fit x) / gsum l).
  { unfold Qdiv. apply Qmult_le_0_compat; [lra|]. apply Qinv_le_0_compat. assumption. }
  assert (0 <= rem * (igrow (fit x) / gsum l)) by (apply Qmult_le_0_compat; assumption). lra.
Qed.

Lemma pass_grow avail gap init0 l l' : ginv avail gap l -> 0 <= init0 ->
  pass Grow avail gap init0 l = Some l' -> ginv avail gap l'.
Proof.
  intros I H0 Hp. apply pass_some in Hp. set (rem := pass_rem Grow avail gap init0 l) in *.
  set (tot := pass_tot Grow rem l) in *.
  destruct (pass_rem_grow avail gap init0 l I H0) as (Hr0 & Hr1). fold rem in Hr0, Hr1.
  assert (HD : Dsum Grow rem l == rem).
  { apply Dsum_grow. intros G. now apply pass_rem_zero_when_gsum_zero. }
  assert (Hc : forall x, In x l -> ffrozen x = false -> ihyp (fit x) <= clamp (fit x) (prop1 Grow rem l x)).
  { intros x Hx E. apply clamp_mono. now apply (prop_ge_base_grow avail gap). }
  subst l'. constructor.
  - intros y Hy. apply in_map_iff in Hy. destruct Hy as (x & <- & Hx). rewrite step1_fit. now apply (g_valid _ _ _ I).
  - intros y Hy Ey. apply in_map_iff in Hy. destruct Hy as (x & <- & Hx). rewrite step1_fit.
    destruct (ffrozen x) eqn:E; [rewrite step1_keeps_frozen in Ey by assumption; discriminate|].
    now apply (g_unf _ _ _ I).
  - intros y Hy Ey. apply in_map_iff in Hy. destruct Hy as (x & <- & Hx).
    destruct (ffrozen x) eqn:E.
    + destruct (step1_frozen Grow rem tot l x E) as (-> & _ & ->). now apply (g_frz _ _ _ I).
    + destruct (step1_unfrozen Grow rem tot l x E) as (-> & -> & _ & _).
      destruct (g_valid _ _ _ I x Hx) as (_ & _ & _ & Hv).
      split; [now apply Hc | split; [apply clamp_min | now apply clamp_max]].
  - pose proof (Ssp_step Grow avail gap rem l) as K0. fold tot in K0.
    pose proof (g_S _ _ _ I) as HS.
    pose proof (sum_c_hyp Grow avail gap rem l) as R2. fold tot in R2. cbv beta in R2. rewrite HD in R2.
    destruct (Qeq_dec tot 0) as [T0|T0].
    + (* everything freezes: the surplus becomes what was not handed out *)
      pose proof (Ssp_when_tot_zero Grow avail gap rem l T0) as K. fold tot in K.
      rewrite HD in K. lra.
    + destruct (Qlt_le_dec 0 tot) as [P|P].
      * (* min violations freeze: they give room back *)
        assert (sumQ (delta Grow rem l) l <= 0).
        { assert (E0 : sumQ (fun _ : fst => 0) l == 0) by (apply sumQ_zero; reflexivity).
          rewrite <- E0. apply sumQ_le. intros x Hx. unfold delta. fold tot.
          destruct (ffrozen x) eqn:E; [lra|].
          destruct (freeze_b tot _) eqn:F; [|lra]. apply freeze_b_pos in F; [|assumption].
          destruct (g_valid _ _ _ I x Hx) as (_ & _ & _ & Hv).
          destruct (clamp_cases (fit x) (prop1 Grow rem l x) Hv) as [(Ec & _)|[(Hlt & Ec)|(M & EM & Hlt & Ec)]].
          - lra.
          - pose proof (hyp_min (fit x)). lra.
          - lra. }
        lra.
      * assert (N : tot < 0) by (destruct (Qlt_le_dec tot 0); [assumption | exfalso; apply T0; lra]).
        assert (sumQ (delta Grow rem l) l <= sumQ (unf (fun x => clamp (fit x) (prop1 Grow rem l x) - ihyp (fit x))) l).
        { apply sumQ_le. intros x Hx. unfold delta, unf. fold tot. destruct (ffrozen x) eqn:E; [lra|].
          pose proof (Hc x Hx E). destruct (freeze_b tot _); lra. }
        lra.
Qed.

Lemma init_ginv items gap avail : items <> [] -> Forall valid_item items -> choose_mode items gap avail = Grow ->
  ginv avail gap (map (init_item Grow) items).
Proof.
  intros Hne Hv Hm. rewrite Forall_forall in Hv. constructor.
  - intros y Hy. apply in_map_iff in Hy. destruct Hy as (it & <- & Hit). simpl. now apply Hv.
  - intros y Hy Ey. apply in_map_iff in Hy. destruct Hy as (it & <- & Hit). simpl in *.
    apply negb_false_iff in Ey. unfold flexible in Ey. apply negb_true_iff, orb_false_iff in Ey.
    destruct Ey as (E1 & E2). simpl in E1. destruct (Qeq_dec (igrow it) 0) as [Z|Z]; [discriminate|].
    destruct (Qlt_le_dec (ihyp it) (ibase it)); [discriminate|].
    destruct (Hv it Hit) as (Hg & _). split; [assumption|].
    destruct (Qlt_le_dec 0 (igrow it)); [assumption | exfalso; apply Z; lra].
  - intros y Hy Ey. apply in_map_iff in Hy. destruct Hy as (it & <- & Hit). simpl.
    destruct (Hv it Hit) as (_ & _ & _ & Hm'). split; [lra | split; [apply hyp_min | now apply hyp_max]].
  - unfold choose_mode in Hm. destruct (Qlt_le_dec _ avail) as [H|H]; [|discriminate].
    rewrite (gaps_len_enum items gap Hne) in H. unfold Ssp. rewrite gaps_enum_map, sumQ_map.
    assert (E : sumQ (fun x => hs (init_item Grow x) + iextra (fit (init_item Grow x))) items ==
                sumQ (fun it => ihyp it + iextra it) items).
    { apply sumQ_ext. intros it _. unfold hs. simpl. destruct (negb (flexible Grow it)); lra. }
    rewrite E. lra.
Qed.

(* ================================================================= shrink *)
Record sinv (avail gap : Q) (l : list fst) : Prop := {
  s_valid : forall x, In x l -> valid_item (fit x);
  s_unf : forall x, In x l -> ffrozen x = false -> ihyp (fit x) <= ibase (fit x) /\ 0 < ishrink (fit x);
  s_frz : forall x, In x l -> ffrozen x = true ->
          ftarget x <= ihyp (fit x) /\ imin (fit x) <= ftarget x /\ le_max (ftarget x) (imax (fit x));
  s_S : Ssp avail gap l <= 0 }.

Lemma usum_nonneg_shrink avail gap l : sinv avail gap l -> 0 <= ufs Shrink l.
Proof.
  intros I. apply sumQ_nonneg. intros x Hx. destruct (ffrozen x) eqn:E; [lra|].
  destruct (s_unf _ _ _ I x Hx E). simpl. lra.
Qed.

Lemma ssum_nonneg avail gap l : sinv avail gap l -> 0 <= ssum l.
Proof.
  intros I. apply sumQ_nonneg. intros x Hx. destruct (ffrozen x) eqn:E; [lra|].
  destruct (s_unf _ _ _ I x Hx E). destruct (s_valid _ _ _ I x Hx) as (_ & _ & Hb & _).
  apply Qmult_le_0_compat; lra.
Qed.

Lemma free_nonpos_shrink avail gap l : sinv avail gap l -> free_space avail gap l <= Ssp avail gap l.
Proof.
  intros I. rewrite free_space_Ssp.
  assert (sumQ (unf (fun x => ihyp (fit x) - ibase (fit x))) l <= 0).
  { assert (E0 : sumQ (fun _ : fst => 0) l == 0) by (apply sumQ_zero; reflexivity). rewrite <- E0.
    apply sumQ_le. intros x Hx. unfold unf. destruct (ffrozen x) eqn:E; [lra|].
    destruct (s_unf _ _ _ I x Hx E). lra. }
  lra.
Qed.

Lemma pass_rem_shrink avail gap init0 l : sinv avail gap l -> init0 <= 0 ->
  free_space avail gap l <= pass_rem Shrink avail gap init0 l <= 0.
Proof.
  intros I H0. pose proof (free_nonpos_shrink _ _ _ I). pose proof (s_S _ _ _ I).
  pose proof (usum_nonneg_shrink _ _ _ I) as Hg. unfold pass_rem.
  destruct (Qlt_le_dec (ufs Shrink l) 1); [|lra].
  assert (0 <= (- init0) * ufs Shrink l) by (apply Qmult_le_0_compat; lra).
  assert (init0 * ufs Shrink l <= 0) by lra.
  destruct (Qlt_le_dec (Qabs (init0 * ufs Shrink l)) (Qabs (free_space avail gap l))) as [A|A]; [|lra].
  rewrite !Qabs_neg in A by lra. lra.
Qed.

Lemma prop_le_base_shrink avail gap rem l x : sinv avail gap l -> rem <= 0 -> In x l -> ffrozen x = false ->
  prop1 Shrink rem l x <= ibase (fit x).
Proof.
  intros I Hr Hx E. rewrite prop1_eq. unfold ratio.
  destruct (s_unf _ _ _ I x Hx E) as (_ & Hg). pose proof (ssum_nonneg _ _ _ I) as Hs.
  destruct (s_valid _ _ _ I x Hx) as (_ & _ & Hb & _).
  destruct (Qeq_dec (ssum l) 0); [lra|].
  assert (0 <= ibase (fit x) * ishrink (fit x) / ssum l).
  { unfold Qdiv. apply Qmult_le_0_compat; [apply Qmult_le_0_compat; lra|]. apply Qinv_le_0_compat. assumption. }
  assert (0 <= (- rem) * (ibase (fit x) * ishrink (fit x) / ssum l)) by (apply Qmult_le_0_compat; lra). lra.
Qed.

Lemma Dsum_shrink_bounds avail gap rem l : sinv avail gap l -> rem <= 0 -> rem <= Dsum Shrink rem l <= 0.
Proof.
  intros I Hr. destruct (Dsum_shrink rem l) as (A & B). destruct (Qeq_dec (ssum l) 0) as [E|E].
  - rewrite (A E). lra.
  - rewrite (B E). lra.
Qed.

Lemma pass_shrink avail gap init0 l l' : sinv avail gap l -> init0 <= 0 ->
  pass Shrink avail gap init0 l = Some l' -> sinv avail gap l'.
Proof.
  intros I H0 Hp. apply pass_some in Hp. set (rem := pass_rem Shrink avail gap init0 l) in *.
  set (tot := pass_tot Shrink rem l) in *.
  destruct (pass_rem_shrink avail gap init0 l I H0) as (Hr1 & Hr0). fold rem in Hr0, Hr1.
  destruct (Dsum_shrink_bounds avail gap rem l I Hr0) as (HD1 & HD0).
  assert (Hc : forall x, In x l -> ffrozen x = false -> clamp (fit x) (prop1 Shrink rem l x) <= ihyp (fit x)).
  { intros x Hx E. apply clamp_mono. now apply (prop_le_base_shrink avail gap). }
  subst l'. constructor.
  - intros y Hy. apply in_map_iff in Hy. destruct Hy as (x & <- & Hx). rewrite step1_fit. now apply (s_valid _ _ _ I).
  - intros y Hy Ey. apply in_map_iff in Hy. destruct Hy as (x & <- & Hx). rewrite step1_fit.
    destruct (ffrozen x) eqn:E; [rewrite step1_keeps_frozen in Ey by assumption; discriminate|].
    now apply (s_unf _ _ _ I).
  - intros y Hy Ey. apply in_map_iff in Hy. destruct Hy as (x & <- & Hx).
    destruct (ffrozen x) eqn:E.
    + destruct (step1_frozen Shrink rem tot l x E) as (-> & _ & ->). now apply (s_frz _ _ _ I).
    + destruct (step1_unfrozen Shrink rem tot l x E) as (-> & -> & _ & _).
      destruct (s_valid _ _ _ I x Hx) as (_ & _ & _ & Hv).
      split; [now apply Hc | split; [apply clamp_min | now apply clamp_max]].
  - pose proof (Ssp_step Shrink avail gap rem l) as K0. fold tot in K0.
    pose proof (s_S _ _ _ I) as HS.
    pose proof (sum_c_hyp Shrink avail gap rem l) as R2. fold tot in R2. cbv beta in R2.
    destruct (Qeq_dec tot 0) as [T0|T0].
    + pose proof (Ssp_when_tot_zero Shrink avail gap rem l T0) as K. fold tot in K.
      lra.
    + destruct (Qlt_le_dec tot 0) as [N|N].
      * (* max violations freeze: they take room *)
        assert (0 <= sumQ (delta Shrink rem l) l).
        { apply sumQ_nonneg. intros x Hx. unfold delta. fold tot.
          destruct (ffrozen x) eqn:E; [lra|].
          destruct (freeze_b tot _) eqn:F; [|lra]. apply freeze_b_neg in F; [|assumption].
          destruct (s_valid _ _ _ I x Hx) as (_ & _ & _ & Hv).
          destruct (clamp_cases (fit x) (prop1 Shrink rem l x) Hv) as [(Ec & _)|[(Hlt & Ec)|(M & EM & Hlt & Ec)]].
          - lra.
          - lra.
          - pose proof (hyp_max (fit x) Hv) as HM. rewrite EM in HM. simpl in HM. lra. }
        lra.
      * assert (P : 0 < tot) by (destruct (Qlt_le_dec 0 tot); [assumption | exfalso; apply T0; lra]).
        assert (sumQ (unf (fun x => clamp (fit x) (prop1 Shrink rem l x) - ihyp (fit x))) l <= sumQ (delta Shrink rem l) l).
        { apply sumQ_le. intros x Hx. unfold delta, unf. fold tot. destruct (ffrozen x) eqn:E; [lra|].
          pose proof (Hc x Hx E). destruct (freeze_b tot _); lra. }
        lra.
Qed.

Lemma init_sinv items gap avail : items <> [] -> Forall valid_item items -> choose_mode items gap avail = Shrink ->
  sinv avail gap (map (init_item Shrink) items).
Proof.
  intros Hne Hv Hm. rewrite Forall_forall in Hv. constructor.
  - intros y Hy. apply in_map_iff in Hy. destruct Hy as (it & <- & Hit). simpl. now apply Hv.
  - intros y Hy Ey. apply in_map_iff in Hy. destruct Hy as (it & <- & Hit). simpl in *.
    apply negb_false_iff in Ey. unfold flexible in Ey. apply negb_true_iff, orb_false_iff in Ey.
    destruct Ey as (E1 & E2). simpl in E1. destruct (Qeq_dec (ishrink it) 0) as [Z|Z]; [discriminate|].
    destruct (Qlt_le_dec (ibase it) (ihyp it)); [discriminate|].
    destruct (Hv it Hit) as (_ & Hg & _). split; [assumption|].
    destruct (Qlt_le_dec 0 (ishrink it)); [assumption | exfalso; apply Z; lra].
  - intros y Hy Ey. apply in_map_iff in Hy. destruct Hy as (it & <- & Hit). simpl.
    destruct (Hv it Hit) as (_ & _ & _ & Hm'). split; [lra | split; [apply hyp_min | now apply hyp_max]].
  - unfold choose_mode in Hm. destruct (Qlt_le_dec _ avail) as [H|H]; [discriminate|].
    rewrite (gaps_len_enum items gap Hne) in H. unfold Ssp. rewrite gaps_enum_map, sumQ_map.
    assert (E : sumQ (fun x => hs (init_item Shrink x) + iextra (fit (init_item Shrink x))) items ==
                sumQ (fun it => ihyp it + iextra it) items).
    { apply sumQ_ext. intros it _. unfold hs. simpl. destruct (negb (flexible Shrink it)); lra. }
    rewrite E. lra.
Qed.

(* ---- when every item is frozen the surplus is what the line leaves free *)
Lemma total_Ssp avail gap l : l <> [] -> forallb ffrozen l = true -> total gap l == avail - Ssp avail gap l.
Proof.
  intros Hne Hf. unfold total, Ssp. rewrite (gaps_len_enum l gap Hne).
  rewrite forallb_forall in Hf.
  assert (E : sumQ (fun x => hs x + iextra (fit x)) l == sumQ (fun x => ftarget x + iextra (fit x)) l).
  { apply sumQ_ext. intros x Hx. unfold hs. now rewrite (Hf x Hx). }
  rewrite E. lra.
Qed.
