"""Fail-closed printer: Python function source -> Coq term of type (list stmt) in the base/Py.v embedding.

The translator is *only a printer*: it serialises the Python ``ast`` of the listed
functions of /repo's current working tree; the meaning of the printed syntax is
given by the interpreter coq/base/Py.v.  Anything outside the accepted subset
raises ``Unsupported`` naming the node (the check then reports a broken
obligation ``gen:<target>``).

usage: py2coq.py [--repo /repo] [--out /verif/coq/gen]   (writes a file only when its text changed)
"""
import ast, re, sys, os, textwrap, argparse
from fractions import Fraction


class Unsupported(Exception):
    pass


def q(s):
    return '"%s"' % s.replace('"', '""')


def num(v):
    if isinstance(v, bool):
        return '(VBool %s)' % ('true' if v else 'false')
    if isinstance(v, int):
        return '(VNum (%d#1))' % v if v >= 0 else '(VNum ((%d)#1))' % v
    if isinstance(v, float):
        f = Fraction(repr(v))  # exact decimal denoted by the literal text
        return '(VNum ((%d)#%d))' % (f.numerator, f.denominator)
    raise Unsupported(repr(v))


def const(v):
    if v is None:
        return 'VNone'
    if isinstance(v, str):
        return '(VStr %s)' % q(v)
    if isinstance(v, tuple):
        return '(VList [%s])' % '; '.join(const(x) for x in v)
    return num(v)


BIN = {ast.Add: 'Add', ast.Sub: 'Sub', ast.Mult: 'Mul', ast.Div: 'Div'}
CMP = {ast.Eq: 'Eq', ast.NotEq: 'NotEq', ast.Lt: 'Lt', ast.LtE: 'LtE', ast.Gt: 'Gt', ast.GtE: 'GtE'}


def expr(e):
    if isinstance(e, ast.Constant):
        return '(EConst %s)' % const(e.value)
    if isinstance(e, ast.Name):
        return '(EVar %s)' % q(e.id)
    if isinstance(e, ast.Attribute):
        if e.attr in PROP_GET:
            # a READ of a @property of the class registered by the 'props' target of this file: the call of its
            # translated getter (receiver resolved by name, like methods)
            if not isinstance(e.ctx, ast.Load):
                raise Unsupported('property %s used as a target' % e.attr)
            CALLS_SEEN.append('.' + e.attr)
            return '(ECall %s [%s])' % (q('.' + e.attr), expr(e.value))
        return '(EAttr %s %s)' % (expr(e.value), q(e.attr))
    if isinstance(e, ast.BinOp) and type(e.op) in BIN:
        return '(EBin %s %s %s)' % (BIN[type(e.op)], expr(e.left), expr(e.right))
    if isinstance(e, ast.BinOp) and isinstance(e.op, ast.BitXor):
        return '(EXor %s %s)' % (expr(e.left), expr(e.right))
    if isinstance(e, ast.BinOp) and isinstance(e.op, ast.Mod):
        # `a % b` on numbers (Py.v prim_apply PMod: floor-mod, ZeroDivisionError when b is 0; a string or any other
        # operand is the error value TypeError)
        return '(EPrim PMod [%s; %s])' % (expr(e.left), expr(e.right))
    if isinstance(e, ast.Compare):
        if len(e.ops) == 1 and isinstance(e.ops[0], (ast.In, ast.NotIn)):
            neg = 'true' if isinstance(e.ops[0], ast.NotIn) else 'false'
            return '(EIn %s %s %s)' % (neg, expr(e.left), expr(e.comparators[0]))
        if len(e.ops) == 1 and isinstance(e.ops[0], (ast.Is, ast.IsNot)) \
                and isinstance(e.comparators[0], ast.Constant) and e.comparators[0].value is None:
            # `x is None` / `x is not None`: equality with None in the value domain of Py.v
            return '(ECmp %s [(%s, (EConst VNone))])' % (expr(e.left), 'Eq' if isinstance(e.ops[0], ast.Is) else 'NotEq')
        if not all(type(o) in CMP for o in e.ops):
            raise Unsupported(ast.dump(e)[:200])
        rest = '; '.join('(%s, %s)' % (CMP[type(o)], expr(c)) for o, c in zip(e.ops, e.comparators))
        return '(ECmp %s [%s])' % (expr(e.left), rest)
    if isinstance(e, ast.BoolOp):
        k = 'EAnd' if isinstance(e.op, ast.And) else 'EOr'
        r = expr(e.values[-1])
        for v in reversed(e.values[:-1]):
            r = '(%s %s %s)' % (k, expr(v), r)
        return r
    if isinstance(e, ast.UnaryOp) and isinstance(e.op, ast.Not):
        return '(ENot %s)' % expr(e.operand)
    if isinstance(e, ast.UnaryOp) and isinstance(e.op, ast.USub):
        return '(EBin Sub (EConst (VNum 0)) %s)' % expr(e.operand)
    if isinstance(e, ast.IfExp):
        return '(ECond %s %s %s)' % (expr(e.test), expr(e.body), expr(e.orelse))
    if isinstance(e, ast.Subscript) and isinstance(e.slice, ast.Constant) and isinstance(e.slice.value, str):
        return '(ESubscr %s %s)' % (expr(e.value), q(e.slice.value))
    if STR_INDEX[0] and isinstance(e, ast.Subscript) and isinstance(e.ctx, ast.Load) \
            and isinstance(e.slice, ast.Constant) and isinstance(e.slice.value, int) \
            and not isinstance(e.slice.value, bool) and e.slice.value >= 0:
        # option 'str_index' of the target: `x[0]` where x may be a str as well as a tuple (EIndex is an error on
        # a str): the call of the builtin "%getitem" (not a Python name) with the index as a number; its meaning is
        # whatever [ocall] answers: the theorems state it (element of a list, one-character str of a str)
        return '(ECall "%%getitem" [%s; (EConst %s)])' % (expr(e.value), num(e.slice.value))
    if isinstance(e, ast.Subscript) and isinstance(e.slice, ast.Constant) and isinstance(e.slice.value, int) \
            and e.slice.value >= 0:
        return '(EIndex %s %d)' % (expr(e.value), e.slice.value)
    if isinstance(e, ast.Subscript) and isinstance(e.ctx, ast.Load) and isinstance(e.slice, ast.Slice) \
            and e.slice.lower is None and e.slice.step is None and e.slice.upper is not None:
        return '(EPrim PSliceTo [%s; %s])' % (expr(e.value), expr(e.slice.upper))   # a[:n]
    if isinstance(e, ast.Subscript) and isinstance(e.ctx, ast.Load) \
            and not isinstance(e.slice, (ast.Slice, ast.Tuple, ast.Constant, ast.Starred)):
        return '(EPrim PIndex [%s; %s])' % (expr(e.value), expr(e.slice))   # a[i], i an expression
    if isinstance(e, ast.Call) and isinstance(e.func, ast.Name) and e.func.id == 'len' and len(e.args) == 1 \
            and not e.keywords and not isinstance(e.args[0], ast.Starred):
        BUILTINS_SEEN.append('len')
        return '(EPrim PLen [%s])' % expr(e.args[0])
    if isinstance(e, ast.BinOp) and isinstance(e.op, ast.MatMult) and '.__matmul__' in CALLABLE:
        # a @ b is type(a).__matmul__(a, b); like every method the callee is resolved by name
        CALLS_SEEN.append('.__matmul__')
        return '(ECall ".__matmul__" [%s; %s])' % (expr(e.left), expr(e.right))
    if isinstance(e, ast.Call) and isinstance(e.func, ast.Name) and e.func.id == 'isinstance' \
            and ast.unparse(e.args[1]) == 'boxes.Box':
        return '(EIsObj %s)' % expr(e.args[0])
    if isinstance(e, (ast.Tuple, ast.List)):
        return '(ETuple [%s])' % '; '.join(expr(x) for x in e.elts)
    if isinstance(e, ast.Call) and isinstance(e.func, ast.Name) and e.func.id in ('max', 'min') \
            and len(e.args) == 1 and not e.keywords:
        a = e.args[0]
        k = 'EMaxGen' if e.func.id == 'max' else 'EMinGen'
        if isinstance(a, ast.GeneratorExp) and len(a.generators) == 1:
            g = a.generators[0]
            if isinstance(g.target, ast.Name) and len(g.ifs) <= 1 and not g.is_async:
                cond = 'None' if not g.ifs else '(Some %s)' % expr(g.ifs[0])
                return '(%s %s %s %s %s)' % (k, expr(a.elt), q(g.target.id), iterable(g.iter), cond)
        if not isinstance(a, ast.GeneratorExp):  # max(xs) == max(x for x in xs), xs any list-valued expression
            return '(%s (EVar "_x") "_x" %s None)' % (k, expr(a))
    if isinstance(e, ast.Call) and isinstance(e.func, ast.Name) and e.func.id in ('max', 'min') \
            and len(e.args) >= 2 and not e.keywords:
        k = 'EMaxGen' if e.func.id == 'max' else 'EMinGen'
        return '(%s (EVar "_x") "_x" (ETuple [%s]) None)' % (k, '; '.join(expr(x) for x in e.args))
    if isinstance(e, ast.ListComp) and len(e.generators) == 1 and isinstance(e.generators[0].target, ast.Tuple) \
            and all(isinstance(t, ast.Name) for t in e.generators[0].target.elts) \
            and len(e.generators[0].ifs) <= 1 and not e.generators[0].is_async:
        # [elt for a, b in it if c]  ==  [elt[a := p[0], b := p[1]] for p in it if c[...]]   (p is not a Python name;
        # an element that is not a pair of the right length raises in Python, here p[i] is IndexError: both errors)
        import copy
        g = e.generators[0]
        elt, cond = copy.deepcopy(e.elt), copy.deepcopy(g.ifs[0]) if g.ifs else None
        for i, t in enumerate(g.target.elts):
            by = ast.Subscript(value=ast.Name(id='%p', ctx=ast.Load()), slice=ast.Constant(value=i), ctx=ast.Load())
            elt = Subst(t.id, by).visit(elt)
            if cond is not None:
                cond = Subst(t.id, by).visit(cond)
        c = 'None' if cond is None else '(Some %s)' % expr(cond)
        return '(EListComp %s "%%p" %s %s)' % (expr(elt), expr(g.iter), c)
    if isinstance(e, ast.ListComp) and len(e.generators) == 1:
        g = e.generators[0]
        if isinstance(g.target, ast.Name) and len(g.ifs) <= 1 and not g.is_async:
            cond = 'None' if not g.ifs else '(Some %s)' % expr(g.ifs[0])
            return '(EListComp %s %s %s %s)' % (expr(e.elt), q(g.target.id), iterable(g.iter), cond)
    if isinstance(e, ast.Call) and isinstance(e.func, ast.Name) and e.func.id == 'sum' and len(e.args) == 1 \
            and not e.keywords and isinstance(e.args[0], ast.GeneratorExp) \
            and not (len(e.args[0].generators) == 1
                     and isinstance(e.args[0].generators[0].iter, (ast.Name, ast.Attribute))):
        return sum_over_display(e.args[0])
    if isinstance(e, ast.Call) and isinstance(e.func, ast.Name) and e.func.id == 'sum' and len(e.args) == 1 \
            and not e.keywords and isinstance(e.args[0], (ast.Name, ast.Attribute, ast.GeneratorExp)):
        # sum(xs), xs a variable / attribute holding a list: the primitive PSum of Py.v (0 + xs[0] + xs[1] + ... from
        # the left).  sum(elt for x in xs if c) == sum([elt for x in xs if c]): the same value; Python adds while it
        # iterates, so when an element is not a number AND a later element raises while it is evaluated, Python
        # reports the TypeError of the addition and this form the later error (as for max / min over a generator)
        BUILTINS_SEEN.append('sum')
        a = e.args[0]
        if isinstance(a, ast.GeneratorExp):
            a = ast.ListComp(elt=a.elt, generators=a.generators)
        return '(EPrim PSum [%s])' % expr(a)
    if isinstance(e, ast.Call) and isinstance(e.func, ast.Name) and e.func.id == 'enumerate' \
            and len(e.args) == 1 and not e.keywords and not isinstance(e.args[0], (ast.Starred, ast.GeneratorExp)):
        # enumerate(xs) where it is iterated: the list of the pairs [i; xs[i]] (PEnumerate of Py.v)
        BUILTINS_SEEN.append('enumerate')
        return '(EPrim PEnumerate [%s])' % expr(e.args[0])
    if isinstance(e, ast.Call) and isinstance(e.func, ast.Name) and e.func.id == 'range' \
            and len(e.args) == 2 and not e.keywords and not any(isinstance(a, ast.Starred) for a in e.args):
        # range(a, b) where it is iterated: the list a .. b-1 (PRange2 of Py.v)
        BUILTINS_SEEN.append('range')
        return '(EPrim PRange2 [%s; %s])' % (expr(e.args[0]), expr(e.args[1]))
    if isinstance(e, ast.Call) and isinstance(e.func, ast.Attribute) and e.func.attr == 'count' \
            and isinstance(e.func.value, (ast.List, ast.Tuple)) and len(e.args) == 1 and not e.keywords \
            and isinstance(e.args[0], ast.Constant) and isinstance(e.args[0].value, str):
        # [a, b, c].count('auto')  ==  (1 if a == 'auto' else 0) + ...   (the elements are pure: names / attributes)
        r = '(EConst (VNum 0))'
        for x in e.func.value.elts:
            pure(x)
            r = '(EBin Add %s (ECond (ECmp %s [(Eq, %s)]) (EConst (VNum 1)) (EConst (VNum 0))))' % (r, expr(x), expr(e.args[0]))
        return r
    if isinstance(e, ast.Call) and isinstance(e.func, ast.Name) and e.func.id == 'len' and len(e.args) == 1 \
            and not e.keywords and not isinstance(e.args[0], ast.Starred):
        # `len(x)`: the primitive PLen of Py.v (the number of elements of a list; any other operand is the error
        # value TypeError there).  Refused when the name `len` is rebound in the function or in the module.
        builtin_not_rebound('len')
        return '(EPrim PLen [%s])' % expr(e.args[0])
    if isinstance(e, ast.Call) and isinstance(e.func, ast.Attribute) and e.func.attr == 'startswith' \
            and len(e.args) == 1 and not e.keywords and isinstance(e.args[0], ast.Constant) \
            and isinstance(e.args[0].value, str) and '.startswith' not in CALLABLE and '.startswith' not in EXTERNAL:
        # `x.startswith('lit')`: the call of the builtin method "%startswith" (not a Python name) with the receiver
        # first (evaluated first, as in Python).  Its meaning is whatever [ocall] of the operations record answers:
        # the theorems state it (receiver a str: is the literal a prefix of it).  Like every method the callee is
        # resolved by name only: the theorems speak about str receivers.
        return '(ECall "%%startswith" [%s; %s])' % (expr(e.func.value), expr(e.args[0]))
    if isinstance(e, ast.Call) and isinstance(e.func, ast.Name) and e.func.id == 'tuple' and len(e.args) == 1 \
            and not e.keywords and isinstance(e.args[0], ast.Name):
        # tuple(x), x a local of the function whose every binding is the statement `x = [..]` (a list display; it may
        # then be appended to): the tuple of the elements of that list, the same value in Py.v (lists and tuples are
        # both VList).  Refused when `tuple` may be rebound.
        builtin_not_rebound('tuple')
        fn, x = CURRENT[0], e.args[0].id
        binds = [n_ for n_ in ast.walk(fn) if isinstance(n_, ast.Name) and n_.id == x and not isinstance(n_.ctx, ast.Load)]
        ok = [n_.targets[0] for n_ in ast.walk(fn) if isinstance(n_, ast.Assign) and len(n_.targets) == 1
              and isinstance(n_.targets[0], ast.Name) and n_.targets[0].id == x and isinstance(n_.value, ast.List)]
        if not binds or len(binds) != len(ok) or any(a.arg == x for a in ast.walk(fn) if isinstance(a, ast.arg)) \
                or any(isinstance(n_, (ast.Global, ast.Nonlocal)) and x in n_.names for n_ in ast.walk(fn)):
            raise Unsupported('tuple(%s): %s is not a local bound only by `%s = [..]`' % (x, x, x))
        return expr(e.args[0])
    if isinstance(e, ast.BinOp) and isinstance(e.op, ast.FloorDiv):
        # `a // b`: the primitive PFloorDiv of Py.v (floor of the quotient of two numbers), operands in evaluation order
        return '(EPrim PFloorDiv [%s; %s])' % (expr(e.left), expr(e.right))
    if isinstance(e, ast.Call) and isinstance(e.func, ast.Name) and e.func.id == 'abs' \
            and len(e.args) == 1 and not e.keywords and not isinstance(e.args[0], ast.Starred):
        # abs(x): the primitive PAbs (translate_function checks that the module does not bind the name `abs`)
        NAMED_BUILTINS_SEEN.append('abs')
        return '(EPrim PAbs [%s])' % expr(e.args[0])
    if isinstance(e, ast.Call) and isinstance(e.func, ast.Attribute) and e.func.attr == 'join' \
            and isinstance(e.func.value, ast.Constant) and isinstance(e.func.value.value, str) \
            and len(e.args) == 1 and not e.keywords and not isinstance(e.args[0], ast.Starred):
        # 'sep'.join(xs) / 'sep'.join(reversed(xs)): the primitives PJoin [sep; xs] and PReversed [xs]; reversed()
        # is accepted in this position only (elsewhere its result is an iterator that can be consumed once)
        a = e.args[0]
        if isinstance(a, ast.Call) and isinstance(a.func, ast.Name) and a.func.id == 'reversed' and len(a.args) == 1 \
                and not a.keywords and not isinstance(a.args[0], ast.Starred):
            NAMED_BUILTINS_SEEN.append('reversed')
            arg = '(EPrim PReversed [%s])' % expr(a.args[0])
        else:
            arg = expr(a)
        return '(EPrim PJoin [%s; %s])' % (expr(e.func.value), arg)
    if isinstance(e, ast.Call):
        return call(e)
    raise Unsupported(ast.dump(e)[:200])


# the function being printed and its module (set by translate_function), for checks that need the context
CURRENT = [None, None]


def builtin_not_rebound(name):
    fn, tree = CURRENT
    if fn is None or tree is None:
        raise Unsupported('builtin %s used where the module is not known' % name)
    for n in ast.walk(fn):
        if isinstance(n, ast.Name) and not isinstance(n.ctx, ast.Load) and n.id == name:
            raise Unsupported('%s is rebound inside %s' % (name, fn.name))
        if isinstance(n, ast.arg) and n.arg == name:
            raise Unsupported('%s is a parameter in %s' % (name, fn.name))
        if isinstance(n, (ast.Global, ast.Nonlocal)) and name in n.names:
            raise Unsupported('%s is declared global in %s' % (name, fn.name))
    for n in ast.walk(tree):
        if isinstance(n, (ast.FunctionDef, ast.AsyncFunctionDef, ast.ClassDef)) and n.name == name:
            raise Unsupported('%s is defined in the module' % name)
        if isinstance(n, (ast.Import, ast.ImportFrom)) and any(
                (a.asname or a.name).split('.')[0] == name or a.name == '*' for a in n.names):
            raise Unsupported('%s may be imported in the module' % name)
        if isinstance(n, (ast.Global, ast.Nonlocal)) and name in n.names:
            raise Unsupported('%s is declared global somewhere in the module' % name)
    for n in tree.body:
        for x in ast.walk(n) if not isinstance(n, (ast.FunctionDef, ast.AsyncFunctionDef, ast.ClassDef)) else []:
            if isinstance(x, ast.Name) and not isinstance(x.ctx, ast.Load) and x.id == name:
                raise Unsupported('%s is rebound at the top level of the module' % name)


BUILTINS_SEEN = []


def iterable(it):
    """the iterable of a comprehension / generator: `range(n)` is iterated as the list 0 .. n-1 (PRange); anything
    else is an ordinary expression"""
    if isinstance(it, ast.Call) and isinstance(it.func, ast.Name) and it.func.id == 'range':
        if len(it.args) != 1 or it.keywords or isinstance(it.args[0], ast.Starred):
            raise Unsupported('range with other than one argument')
        BUILTINS_SEEN.append('range')
        return '(EPrim PRange [%s])' % expr(it.args[0])
    return expr(it)


def check_builtin(tree, fn, name):
    """`name` (len / range) denotes the builtin: bound neither in the function nor at the module level"""
    for n in ast.walk(fn):
        if (isinstance(n, ast.Name) and not isinstance(n.ctx, ast.Load) and n.id == name) \
                or (isinstance(n, ast.arg) and n.arg == name) \
                or (isinstance(n, (ast.Global, ast.Nonlocal)) and name in n.names):
            raise Unsupported('%s is rebound inside %s' % (name, fn.name))
    for n in ast.walk(tree):
        if isinstance(n, (ast.FunctionDef, ast.ClassDef)) and n.name == name:
            raise Unsupported('the module defines %s' % name)
        if isinstance(n, (ast.Import, ast.ImportFrom)) and any((a.asname or a.name) in (name, '*') for a in n.names):
            raise Unsupported('the module imports %s' % name)
        if isinstance(n, (ast.Global, ast.Nonlocal)) and name in n.names:
            raise Unsupported('global declaration of %s' % name)
    for n in tree.body:
        for x in ast.walk(n) if not isinstance(n, (ast.FunctionDef, ast.ClassDef)) else []:
            if isinstance(x, ast.Name) and not isinstance(x.ctx, ast.Load) and x.id == name:
                raise Unsupported('the module binds %s' % name)


def pure(x):
    """names and attribute chains only: evaluating them twice, or not at all, cannot be observed"""
    if isinstance(x, ast.Constant) and type(x.value) is int:
        return   # an integer literal (the elements of range(<literal>))
    while isinstance(x, ast.Attribute):
        if x.attr in PROP_GET:
            raise Unsupported('element of a display reads the property %s' % x.attr)
        x = x.value
    if not isinstance(x, ast.Name):
        raise Unsupported('element %s of a display is not a name / attribute' % ast.dump(x)[:80])


class Subst(ast.NodeTransformer):
    def __init__(self, name, by):
        self.name, self.by = name, by

    def visit_Name(self, n):
        import copy
        return copy.deepcopy(self.by) if isinstance(n.ctx, ast.Load) and n.id == self.name else n


def sum_over_display(g):
    """sum(elt for x in (a, b, c) if cond)  ==  0 + (elt[a] if cond[a] else 0) + ...   over a tuple / list display of
    pure elements (Python's sum starts from 0 and adds from the left; an element filtered out adds nothing, here 0)"""
    if len(g.generators) != 1:
        raise Unsupported('sum over nested generators')
    gen = g.generators[0]
    it = gen.iter
    if isinstance(it, ast.Call) and isinstance(it.func, ast.Name) and it.func.id == 'range' and len(it.args) == 1 \
            and not it.keywords and isinstance(it.args[0], ast.Constant) and type(it.args[0].value) is int \
            and 0 <= it.args[0].value <= 16:
        # sum(elt for k in range(3))  ==  sum(elt for k in (0, 1, 2))
        BUILTINS_SEEN.append('range')
        it = ast.Tuple(elts=[ast.Constant(value=i) for i in range(it.args[0].value)], ctx=ast.Load())
    if not (isinstance(gen.target, ast.Name) and isinstance(it, (ast.Tuple, ast.List)) and len(gen.ifs) <= 1
            and not gen.is_async):
        raise Unsupported('sum over %s' % ast.dump(gen.iter)[:80])
    import copy
    r = '(EConst (VNum 0))'
    for x in it.elts:
        pure(x)
        elt = Subst(gen.target.id, x).visit(copy.deepcopy(g.elt))
        term = expr(elt)
        if gen.ifs:
            cond = Subst(gen.target.id, x).visit(copy.deepcopy(gen.ifs[0]))
            term = '(ECond %s %s (EConst (VNum 0)))' % (expr(cond), term)
        r = '(EBin Add %s %s)' % (r, term)
    return r


# name -> (parameter names, {parameter: default expression text}) of the functions that may be called: the other
# translation targets (filled by generate()); methods are registered as ".name" with self first
CALLABLE = {}
CALLS_SEEN = []
# Python builtins printed as primitives in the body being translated (abs, reversed): translate_function refuses
# the target when the module binds one of these names itself
NAMED_BUILTINS_SEEN = []
# functions outside the translated subset that a body may call: they stay oracles ([ocall] with a hypothesis in
# the theorem, recorded in the trusted base), name -> parameter names
EXTERNAL = {
    'shrink_to_fit': (['context', 'box', 'available_content_width'], {}),
    'justify_line': (['context', 'line', 'extra_width'], {}),
    'resolve_position_percentages': (['box', 'containing_block'], {}),
    '.translate': (['self', 'dx', 'dy', 'ignore_floats'],
                   {'dx': '(EConst (VNum (0#1)))', 'dy': '(EConst (VNum (0#1)))',
                    'ignore_floats': '(EConst (VBool false))'}),
    '.page_values': (['self'], {}),
    # layout/percent.py: sets the used widths, margins, paddings, border widths as attributes of `box`
    'resolve_percentages': (['box', 'containing_block'], {}),
    # OrientedBox.restore_box_attributes copies margin_a / margin_b / inner back to the real box
    '.restore_box_attributes': (['self'], {}),
    # CounterStyle.render_value calling itself (decimal / fallback style): an oracle in the slices of its own body
    '.render_value': (['self', 'counter_value', 'counter_name', 'counter', 'previous_types'],
                      {'counter_name': '(EConst VNone)', 'counter': '(EConst VNone)',
                       'previous_types': '(EConst VNone)'}),
    # the builtin hasattr(obj, 'name'), the name a compile-time constant (after specialise()): whether the object has
    # the attribute is stated by the theorems (an entry of the association list that represents the object)
    'hasattr': (['obj', 'name'], {}),
    # image.get_intrinsic_size(image_resolution, font_size) of the replacement object (images.py): (width, height, ratio)
    '.get_intrinsic_size': (['self', 'image_resolution', 'font_size'], {}),
}
# oracles declared by ONE target (option 'oracle_stmts': name -> (parameters, mutated parameters)), in force while that
# target is printed (set by generate()): the statement `f(a, b)` is printed like the statements of EXTERNAL_STMT, as
# %call, m1, .. = f(a, b), also when `f` is the name of a translation target (the name as bound in THAT function is
# another object, e.g. the decorated block_level_width imported inside replaced_box_width); a function-level
# `from m import f` of such a name is printed as SPass (it only binds the callee of the oracle)
TARGET_ORACLE = {}
# external functions that may be called as a STATEMENT `f(a, b)` (their effect is outside the translated subset):
# name -> the parameters whose object the callee may mutate.  The embedding has value semantics, so the statement is
# printed as the unpacking  %call, m1, .., mk = f(a, b) : the oracle answers the list [returned value; state of m1
# after the call; ..] and the mutated arguments (which must be plain names) are rebound.  The variable "%call"
# (not a Python name) is bound in the final environment exactly when such a statement was executed.
# (an oracle of EXTERNAL that is not listed here mutates nothing the translated code reads again: its statement is
# printed as the assignment of its result to "%call")
EXTERNAL_STMT = {
    'justify_line': ['line'],
    'resolve_position_percentages': ['box'],
    '.translate': ['self'],
    'resolve_percentages': ['box'],
}


def call(e):
    if isinstance(e.func, ast.Name):
        name, args = e.func.id, list(e.args)
    elif isinstance(e.func, ast.Attribute):
        name, args = '.' + e.func.attr, [e.func.value] + list(e.args)
    else:
        raise Unsupported(ast.dump(e)[:200])
    if name in TARGET_ORACLE:
        raise Unsupported('%s is a statement oracle of this target: not callable in an expression' % name)
    if name in CALLABLE:
        params, defaults = CALLABLE[name]
    elif name in EXTERNAL:
        params, defaults = EXTERNAL[name]
    else:
        raise Unsupported('call of %s (not a translation target)' % name)
    if any(isinstance(a, ast.Starred) for a in args) or any(k.arg is None for k in e.keywords):
        raise Unsupported('star arguments in call of %s' % name)
    if len(args) > len(params):
        raise Unsupported('too many arguments in call of %s' % name)
    given = {p: expr(a) for p, a in zip(params, args)}
    for k in e.keywords:
        if k.arg not in params or k.arg in given:
            raise Unsupported('keyword %s in call of %s' % (k.arg, name))
        given[k.arg] = expr(k.value)
    out = []
    for p_ in params:
        if p_ in given:
            out.append(given[p_])
        elif p_ in defaults:
            out.append(defaults[p_])
        else:
            raise Unsupported('missing argument %s in call of %s' % (p_, name))
    CALLS_SEEN.append(name)
    return '(ECall %s [%s])' % (q(name), '; '.join(out))


def call_stmt(e):
    """statement-level call of an external function (see EXTERNAL_STMT)"""
    if isinstance(e.func, ast.Name):
        name, args = e.func.id, list(e.args)
    elif isinstance(e.func, ast.Attribute):
        name, args = '.' + e.func.attr, [e.func.value] + list(e.args)
    else:
        raise Unsupported(ast.dump(e)[:200])
    if name in CALLABLE or name not in EXTERNAL or name not in EXTERNAL_STMT:
        raise Unsupported('statement-level call of %s (not an external statement function)' % name)
    text = call(e)
    params = EXTERNAL[name][0]
    given = dict(zip(params, args))
    for k in e.keywords:
        given[k.arg] = k.value
    targets = ['(TVar "%call")']
    for m in EXTERNAL_STMT[name]:
        a = given.get(m)
        if not isinstance(a, ast.Name):
            raise Unsupported('argument %s of the statement-level call of %s is not a plain name' % (m, name))
        targets.append('(TVar %s)' % q(a.id))
    return '(SUnpack [%s] %s)' % ('; '.join(targets), text)


def oracle_stmt(e):
    """statement-level call `f(a, b)` of an oracle declared by the target being printed (see TARGET_ORACLE): positional
    arguments only, exactly the declared parameters; the mutated ones must be plain names and are rebound"""
    name = e.func.id
    params, mutated = TARGET_ORACLE[name]
    if e.keywords or len(e.args) != len(params) or any(isinstance(a, ast.Starred) for a in e.args):
        raise Unsupported('arguments of the oracle statement %s' % name)
    targets = ['(TVar "%call")']
    for p_, a in zip(params, e.args):
        if p_ in mutated:
            if not isinstance(a, ast.Name):
                raise Unsupported('argument %s of the oracle statement %s is not a plain name' % (p_, name))
            targets.append('(TVar %s)' % q(a.id))
    CALLS_SEEN.append(name)
    return '(SUnpack [%s] (ECall %s [%s]))' % ('; '.join(targets), q(name), '; '.join(expr(a) for a in e.args))


def signature(fn):
    a = fn.args
    if a.vararg or a.kwarg or a.kwonlyargs or a.posonlyargs:
        raise Unsupported('signature of %s' % fn.name)
    params = [x.arg for x in a.args]
    defaults = {}
    for p_, d in zip(params[len(params) - len(a.defaults):], a.defaults):
        if not isinstance(d, ast.Constant):
            raise Unsupported('default of %s in %s' % (p_, fn.name))
        defaults[p_] = '(EConst %s)' % const(d.value)
    return params, defaults


def target(t):
    if isinstance(t, ast.Name):
        return '(TVar %s)' % q(t.id)
    if isinstance(t, ast.Attribute) and isinstance(t.value, ast.Name):
        if t.attr in PROP_GET:
            # only the plain statement `x.prop = e` is understood (stmt() prints the setter there)
            raise Unsupported('assignment to the property %s in this form' % t.attr)
        return '(TAttr %s %s)' % (q(t.value.id), q(t.attr))
    if isinstance(t, ast.Subscript) and isinstance(t.value, ast.Name) and isinstance(t.slice, ast.Constant) \
            and isinstance(t.slice.value, str):
        # x['k'] = e : a dictionary with string keys is the value VObj of Py.v, whose entry ESubscr reads (e['k'])
        return '(TAttr %s %s)' % (q(t.value.id), q(t.slice.value))
    raise Unsupported(ast.dump(t)[:200])


# @property getters and setters of the class named by the 'props' target of the file being printed (filled by
# generate() for that file only): name -> getter FunctionDef ; name -> (parameter, attribute, value expression)
PROP_GET = {}
PROP_SET = {}


def class_properties(tree, clsname):
    """The @property getters and @name.setter setters of the module-level class `clsname`.
    Accepted class body: docstring, undecorated methods (ignored), getters `def p(self)` under exactly @property,
    setters `def p(self, v)` under exactly @p.setter whose body is the single statement `self.<attr> = <expr>` with
    <attr> not a property and <expr> reading only self, v, min, max.  Anything else raises Unsupported.  No other
    class of the module may define a member of the same name (a subclass could override the property)."""
    cls = [n for n in tree.body if isinstance(n, ast.ClassDef) and n.name == clsname]
    if len(cls) != 1:
        raise Unsupported('class %s not found (or defined twice)' % clsname)
    cls = cls[0]
    if cls.keywords or cls.decorator_list:
        raise Unsupported('class %s has a metaclass / decorator' % clsname)
    getters, setters = {}, {}
    for m in cls.body:
        if isinstance(m, ast.Expr) and isinstance(m.value, ast.Constant) and isinstance(m.value.value, str):
            continue
        if not isinstance(m, ast.FunctionDef):
            raise Unsupported('member of %s: %s' % (clsname, ast.dump(m)[:80]))
        if m.name in ('__getattr__', '__getattribute__', '__setattr__', '__new__'):
            raise Unsupported('%s defines %s' % (clsname, m.name))
        if not m.decorator_list:
            continue
        if len(m.decorator_list) != 1:
            raise Unsupported('decorators of %s.%s' % (clsname, m.name))
        d = m.decorator_list[0]
        a = m.args
        if a.vararg or a.kwarg or a.kwonlyargs or a.posonlyargs or a.defaults:
            raise Unsupported('signature of %s.%s' % (clsname, m.name))
        if isinstance(d, ast.Name) and d.id == 'property':
            if [x.arg for x in a.args] != ['self'] or m.name in getters:
                raise Unsupported('getter %s.%s' % (clsname, m.name))
            getters[m.name] = m
        elif isinstance(d, ast.Attribute) and d.attr == 'setter' and isinstance(d.value, ast.Name) \
                and d.value.id == m.name and m.name in getters and m.name not in setters:
            if len(a.args) != 2 or a.args[0].arg != 'self' or a.args[1].arg == 'self':
                raise Unsupported('setter %s.%s' % (clsname, m.name))
            setters[m.name] = m
        else:
            raise Unsupported('decorator of %s.%s' % (clsname, m.name))
    out_set = {}
    for name, m in setters.items():
        par = m.args.args[1].arg
        if len(m.body) != 1 or not isinstance(m.body[0], ast.Assign) or len(m.body[0].targets) != 1:
            raise Unsupported('setter %s.%s is not a single assignment' % (clsname, name))
        t = m.body[0].targets[0]
        if not (isinstance(t, ast.Attribute) and isinstance(t.value, ast.Name) and t.value.id == 'self') \
                or t.attr in getters:
            raise Unsupported('setter %s.%s does not assign a plain attribute of self' % (clsname, name))
        for n in ast.walk(m.body[0].value):
            if isinstance(n, ast.Name) and n.id not in ('self', par, 'min', 'max'):
                raise Unsupported('setter %s.%s reads %s' % (clsname, name, n.id))
            if isinstance(n, (ast.Lambda, ast.ListComp, ast.GeneratorExp, ast.SetComp, ast.DictComp, ast.NamedExpr)):
                raise Unsupported('setter %s.%s: %s' % (clsname, name, type(n).__name__))
        out_set[name] = (par, t.attr, m.body[0].value)
    for other in ast.walk(tree):
        if isinstance(other, ast.ClassDef) and other is not cls:
            for m in other.body:
                names = [m.name] if isinstance(m, (ast.FunctionDef, ast.ClassDef)) else \
                    [x.id for t in getattr(m, 'targets', []) for x in ast.walk(t) if isinstance(x, ast.Name)] + \
                    ([m.target.id] if isinstance(m, ast.AnnAssign) and isinstance(m.target, ast.Name) else [])
                for nm in names:
                    if nm in getters:
                        raise Unsupported('class %s redefines the property %s of %s' % (other.name, nm, clsname))
    return getters, out_set


def property_assignment(s):
    """`x.prop = e`  ==  the body of the setter with self := x, after binding its parameter to the value of e
    (bound to "%prop.param", not a Python name, so that e is evaluated first and once, as in the call)"""
    t = s.targets[0]
    if t.attr not in PROP_SET:
        raise Unsupported('property %s has no setter' % t.attr)
    if not isinstance(t.value, ast.Name):
        raise Unsupported('assignment to the property %s of %s' % (t.attr, ast.dump(t.value)[:60]))
    par, attr, value = PROP_SET[t.attr]
    import copy
    tmp = '%%%s.%s' % (t.attr, par)
    body = copy.deepcopy(value)
    body = Subst(par, ast.Name(id=tmp, ctx=ast.Load())).visit(body)
    body = Subst('self', ast.Name(id=t.value.id, ctx=ast.Load())).visit(body)
    return '(SAssign [(TVar %s)] %s); (SAssign [(TAttr %s %s)] %s)' % (
        q(tmp), expr(s.value), q(t.value.id), q(attr), expr(body))


def stmt(s):
    if isinstance(s, ast.Expr) and isinstance(s.value, ast.Constant):
        return 'SPass'  # docstring
    if isinstance(s, ast.Pass):
        return 'SPass'
    if isinstance(s, ast.Assert) and s.msg is None:
        return '(SAssert %s)' % expr(s.test)
    if isinstance(s, ast.Assert) and isinstance(s.msg, ast.Name) and any(
            isinstance(n, ast.Name) and n.id == s.msg.id and isinstance(n.ctx, ast.Load) for n in ast.walk(s.test)):
        # `assert test, name` where the test reads `name` itself: the message is evaluated only when the test is false
        # and is then a bound name (the test has just read it), so the statement raises AssertionError exactly when
        # `assert test` does; the text of the message is outside the value domain
        return '(SAssert %s)' % expr(s.test)
    if isinstance(s, ast.ImportFrom) and s.names and all(
            a.asname is None and a.name in TARGET_ORACLE for a in s.names):
        return 'SPass'  # binds only callees of this target's declared oracles (see TARGET_ORACLE)
    if isinstance(s, ast.Expr) and isinstance(s.value, ast.Call) and isinstance(s.value.func, ast.Name) \
            and s.value.func.id in TARGET_ORACLE:
        return oracle_stmt(s.value)
    if isinstance(s, ast.Assign) and len(s.targets) == 1 and isinstance(s.targets[0], ast.Tuple):
        return '(SUnpack [%s] %s)' % ('; '.join(target(t) for t in s.targets[0].elts), expr(s.value))
    if isinstance(s, ast.Assign) and len(s.targets) == 1 and isinstance(s.targets[0], ast.Attribute) \
            and s.targets[0].attr in PROP_GET:
        return property_assignment(s)
    if isinstance(s, ast.Assign) and len(s.targets) == 1 and isinstance(s.targets[0], ast.Subscript) \
            and isinstance(s.targets[0].value, ast.Name) \
            and not isinstance(s.targets[0].slice, (ast.Slice, ast.Tuple, ast.Starred, ast.Constant)):
        # x[i] = e on a variable holding a list, i a computed index: SSetItem of Py.v (value semantics:
        # translate_function checks with check_setitem_alias that no second name of the list can see the difference)
        t = s.targets[0]
        return '(SSetItem %s %s %s)' % (q(t.value.id), expr(t.slice), expr(s.value))
    if isinstance(s, ast.Assign):
        if len(s.targets) == 1 and isinstance(s.targets[0], ast.Name) and isinstance(s.value, ast.GeneratorExp):
            return 'SPass'  # inlined at its (single) use by InlineGen
        return '(SAssign [%s] %s)' % ('; '.join(target(t) for t in reversed(s.targets)), expr(s.value))
    if isinstance(s, ast.AugAssign) and type(s.op) in BIN:
        return '(SAug %s %s %s)' % (target(s.target), BIN[type(s.op)], expr(s.value))
    if isinstance(s, ast.AugAssign) and isinstance(s.op, ast.FloorDiv) and isinstance(s.target, ast.Name):
        # x //= e  ==  x = x // e  for a plain name x (x is read, then e evaluated, then x rebound; numbers have no
        # in-place floor division of their own)
        return '(SAssign [(TVar %s)] (EPrim PFloorDiv [(EVar %s); %s]))' % (
            q(s.target.id), q(s.target.id), expr(s.value))
    if isinstance(s, ast.If):
        return '(SIf %s [%s] [%s])' % (expr(s.test), block(s.body), block(s.orelse))
    if isinstance(s, ast.Return):
        return '(SReturn %s)' % (expr(s.value) if s.value is not None else '(EConst VNone)')
    if isinstance(s, ast.For) and isinstance(s.target, ast.Name) and not s.orelse:
        body = fold_continue(list(s.body))
        if any(isinstance(m, (ast.Break, ast.Continue)) for b in body for m in ast.walk(b)):
            raise Unsupported('break/continue inside a for loop')
        return '(SFor %s %s [%s])' % (q(s.target.id), expr(s.iter), block(body))
    if isinstance(s, ast.For) and isinstance(s.target, ast.Tuple) and not s.orelse \
            and all(isinstance(t, ast.Name) for t in s.target.elts) \
            and len({t.id for t in s.target.elts}) == len(s.target.elts):
        # for a, b in it: body  ==  for %item in it: a, b = %item; body   ("%item" is not a Python name; an item that
        # is not a sequence of that length raises in Python and in SUnpack: TypeError / ValueError)
        body = fold_continue(list(s.body))
        if any(isinstance(m, (ast.Break, ast.Continue)) for b in body for m in ast.walk(b)):
            raise Unsupported('break/continue inside a for loop')
        unpack = '(SUnpack [%s] (EVar "%%item"))' % '; '.join(target(t) for t in s.target.elts)
        return '(SFor "%%item" %s [%s; %s])' % (expr(s.iter), unpack, block(body))
    if isinstance(s, ast.Expr) and isinstance(s.value, ast.Call) and isinstance(s.value.func, ast.Attribute) \
            and s.value.func.attr == 'extend' and isinstance(s.value.func.value, ast.Name) \
            and len(s.value.args) == 1:
        return '(SExtend %s %s)' % (q(s.value.func.value.id), expr(s.value.args[0]))
    if isinstance(s, ast.Expr) and isinstance(s.value, ast.Call) and isinstance(s.value.func, ast.Attribute) \
            and s.value.func.attr == 'append' and isinstance(s.value.func.value, ast.Name) \
            and len(s.value.args) == 1 and not s.value.keywords:
        return '(SAppend %s %s)' % (q(s.value.func.value.id), expr(s.value.args[0]))
    if isinstance(s, ast.Expr) and isinstance(s.value, ast.Call):
        # f(...) / x.m(...) for its effect: only for the oracles of EXTERNAL (the effect is outside the model; the call
        # and its arguments stay visible: the result is bound to "%call", which is not a Python name)
        f = s.value.func
        name = f.id if isinstance(f, ast.Name) else ('.' + f.attr if isinstance(f, ast.Attribute) else None)
        if name in EXTERNAL_STMT:
            return call_stmt(s.value)
        if name in EXTERNAL:
            return '(SAssign [(TVar "%%call")] %s)' % call(s.value)
        raise Unsupported('call statement of %s' % name)
    if isinstance(s, ast.While) and not s.orelse:
        for n in ast.walk(s):
            # break / continue inside a `for` nested in the loop would target that `for`: not in the subset
            if isinstance(n, ast.For) and any(isinstance(m, (ast.Break, ast.Continue)) for m in ast.walk(n)):
                raise Unsupported('break/continue inside a for loop')
            if isinstance(n, ast.While) and n is not s:
                raise Unsupported('nested while')
        return '(SWhile %s [%s])' % (expr(s.test), block(s.body))
    if isinstance(s, ast.Break):
        return 'SBreak'
    if isinstance(s, ast.Continue):
        return 'SContinue'
    raise Unsupported(ast.dump(s)[:200])


def block(stmts):
    if OPAQUE[0]:
        return '; '.join(stmt_or_unsupported(s) for s in stmts)
    return '; '.join(stmt(s) for s in stmts)


# Target option 'opaque' (set by translate_function for the targets that ask for it; off for every other target).
# A statement outside the subset is then not a refusal of the whole function: it is printed as the statement
#     %unsupported = %unsupported("<first line of its text> #<digest of its ast>")
# i.e. the call of a function that is never defined ("%unsupported" is not a Python name): EXECUTING it is an error
# value in Py.v (a theorem that the body returns a value on some inputs therefore proves that no such statement is
# reached on these inputs, and for them the unprinted text cannot matter), while a function whose paths never run
# into it is printed exactly as without the option.  Nothing is approximated: the smallest enclosing statement that
# the printer does not understand is replaced as a whole, and statements that change the meaning of the function
# even when they are not executed (yield, global / nonlocal, nested definitions, ...) are still refused.
OPAQUE = [False]
# option 'str_index' of the target being printed (see expr(): constant subscripts are calls of "%getitem")
STR_INDEX = [False]


def stmt_or_unsupported(s):
    try:
        return stmt(s)
    except Unsupported:
        for n in ast.walk(s):
            if isinstance(n, (ast.Yield, ast.YieldFrom, ast.Await, ast.Global, ast.Nonlocal, ast.FunctionDef,
                              ast.AsyncFunctionDef, ast.ClassDef, ast.Lambda, ast.Import, ast.ImportFrom,
                              ast.Try, ast.With, ast.AsyncWith, ast.AsyncFor, ast.Delete, ast.NamedExpr)):
                raise
        import hashlib
        first = ast.unparse(s).split('\n')[0]
        tag = '%s #%s' % (first[:120], hashlib.sha1(ast.dump(s).encode()).hexdigest()[:12])
        return '(SAssign [(TVar "%%unsupported")] (ECall "%%unsupported" [(EConst (VStr %s))]))' % q(tag)


def fold_continue(stmts):
    """`if c: A; continue` (no else; A possibly empty) followed by the statements R, directly in the body of a `for` (or
    in the R of a previous such rewriting)  ==  `if c: A` (`pass` when A is empty) `else: R` : going on with the next
    iteration after A is skipping R, for every input.  Any other `continue` is left in place (and refused by the
    caller)."""
    for i, s in enumerate(stmts):
        if isinstance(s, ast.If) and not s.orelse and isinstance(s.body[-1], ast.Continue):
            return stmts[:i] + [ast.If(test=s.test, body=list(s.body[:-1]) or [ast.Pass()],
                                       orelse=fold_continue(stmts[i + 1:]))]
    return stmts


class InlineGen(ast.NodeTransformer):
    """max(positives) where `positives = (genexp)` was bound just before: inline the generator (single use)."""
    def __init__(self, gens):
        self.gens = gens
        self.uses = {k: 0 for k in gens}

    def visit_Name(self, n):
        if isinstance(n.ctx, ast.Load) and n.id in self.gens:
            self.uses[n.id] += 1
        return n

    def visit_Call(self, n):
        if isinstance(n.func, ast.Name) and n.func.id in ('max', 'min') and len(n.args) == 1 \
                and isinstance(n.args[0], ast.Name) and n.args[0].id in self.gens:
            self.uses[n.args[0].id] += 1
            n.args[0] = self.gens[n.args[0].id]
            return n
        self.generic_visit(n)
        return n


def find_function(tree, qualname):
    node = tree
    for part in qualname.split('.'):
        for child in ast.walk(node) if node is tree else node.body:
            if isinstance(child, (ast.FunctionDef, ast.ClassDef)) and child.name == part:
                node = child
                break
        else:
            raise Unsupported('function %s not found' % qualname)
    return node


class Unroll(ast.NodeTransformer):
    """`for v in xs: body` and `[elt for v in xs]`, where `a, b, c = xs` is the statement right before the slice and
    neither xs nor a, b, c is rebound in the slice, are printed as body[v:=a]; body[v:=b]; body[v:=c] and
    [elt[v:=a], elt[v:=b], elt[v:=c]].  In Python the loop mutates the objects that a, b, c also name; in the value
    domain of Py.v (objects are values) a loop over the list would update copies, hence the unrolling over the names."""
    def __init__(self, xs, names):
        self.xs, self.names, self.loopvars = xs, names, set()

    def over(self, it):
        return isinstance(it, ast.Name) and it.id == self.xs

    def visit_For(self, n):
        self.generic_visit(n)
        if not self.over(n.iter):
            return n
        if not isinstance(n.target, ast.Name) or n.orelse or n.target.id in self.names or n.target.id == self.xs:
            raise Unsupported('loop over %s: target / else' % self.xs)
        v = n.target.id
        for m in n.body:
            for x in ast.walk(m):
                if isinstance(x, (ast.Break, ast.Continue, ast.Return, ast.Yield, ast.YieldFrom, ast.Lambda,
                                  ast.FunctionDef, ast.Global, ast.Nonlocal, ast.NamedExpr)):
                    raise Unsupported('%s inside a loop over %s' % (type(x).__name__, self.xs))
                if isinstance(x, ast.Name) and x.id == v and not isinstance(x.ctx, ast.Load):
                    raise Unsupported('loop variable %s rebound inside the loop over %s' % (v, self.xs))
                if isinstance(x, (ast.comprehension,)) and any(
                        isinstance(y, ast.Name) and y.id == v for y in ast.walk(x.target)):
                    raise Unsupported('loop variable %s rebound by a comprehension' % v)
        self.loopvars.add(v)
        import copy
        out = []
        for a in self.names:
            for m in n.body:
                out.append(Subst(v, ast.Name(id=a, ctx=ast.Load())).visit(copy.deepcopy(m)))
        return out

    def visit_ListComp(self, n):
        self.generic_visit(n)
        if len(n.generators) == 1 and self.over(n.generators[0].iter):
            g = n.generators[0]
            if not isinstance(g.target, ast.Name) or g.ifs or g.is_async or g.target.id in self.names:
                raise Unsupported('comprehension over %s' % self.xs)
            for x in ast.walk(n.elt):
                if isinstance(x, (ast.comprehension, ast.Lambda, ast.NamedExpr)):
                    raise Unsupported('nested binder in a comprehension over %s' % self.xs)
            import copy
            return ast.List(elts=[Subst(g.target.id, ast.Name(id=a, ctx=ast.Load())).visit(copy.deepcopy(n.elt))
                                  for a in self.names], ctx=ast.Load())
        return n


def slice_after_unpack(fn, xs, adapters):
    """The statements of fn after the (unique, top-level) statement `a, b, c = xs`, with loops / list comprehensions
    over xs unrolled over a, b, c (see Unroll).  Checked: the statement before it is
    `xs = [cls(...) for _ in xs]` where `cls = A if t else B` (or `cls = A`) is bound once before, and A, B are
    module-level classes deriving from `adapters` without __new__ (so a, b, c are three distinct fresh objects: a
    mutation through one name is not seen through another); after the unpacking neither xs nor a, b, c is rebound
    or deleted, xs is used only by the unrolled loops, and the loop variables are not used outside them."""
    body = list(fn.body)
    idx = [i for i, s in enumerate(body) if isinstance(s, ast.Assign) and len(s.targets) == 1
           and isinstance(s.targets[0], ast.Tuple) and isinstance(s.value, ast.Name) and s.value.id == xs]
    if len(idx) != 1:
        raise Unsupported('%d statements `a, b, c = %s` at the top level of %s' % (len(idx), xs, fn.name))
    i = idx[0]
    elts = body[i].targets[0].elts
    if not all(isinstance(t, ast.Name) for t in elts):
        raise Unsupported('targets of the unpacking of %s' % xs)
    names = [t.id for t in elts]
    if len(set(names)) != len(names) or xs in names:
        raise Unsupported('names bound by the unpacking of %s are not distinct' % xs)
    # the list is a list of fresh adapter objects
    prev = body[i - 1] if i >= 1 else None
    ok = (isinstance(prev, ast.Assign) and len(prev.targets) == 1 and isinstance(prev.targets[0], ast.Name)
          and prev.targets[0].id == xs and isinstance(prev.value, ast.ListComp) and len(prev.value.generators) == 1
          and not prev.value.generators[0].ifs and isinstance(prev.value.elt, ast.Call)
          and isinstance(prev.value.elt.func, ast.Name))
    if not ok:
        raise Unsupported('the statement before the unpacking of %s is not `%s = [cls(...) for ...]`' % (xs, xs))
    cls = prev.value.elt.func.id
    binds = [s for s in ast.walk(fn) if isinstance(s, ast.Name) and s.id == cls and not isinstance(s.ctx, ast.Load)]
    defs = [s for s in body[:i - 1] if isinstance(s, ast.Assign) and len(s.targets) == 1
            and isinstance(s.targets[0], ast.Name) and s.targets[0].id == cls]
    if len(binds) != 1 or len(defs) != 1 or any(a.arg == cls for a in fn.args.args):
        raise Unsupported('%s is not bound exactly once before the unpacking of %s' % (cls, xs))
    v = defs[0].value
    classes = [v.body, v.orelse] if isinstance(v, ast.IfExp) else [v]
    if not all(isinstance(c, ast.Name) for c in classes):
        raise Unsupported('%s is not a class or a choice between two classes' % cls)
    return i, names, [c.id for c in classes]


def check_adapter_classes(tree, classes, base):
    for c in classes:
        d = [n for n in tree.body if isinstance(n, ast.ClassDef) and n.name == c]
        if len(d) != 1 or d[0].keywords or d[0].decorator_list \
                or [ast.unparse(b) for b in d[0].bases] != [base] \
                or any(isinstance(m, ast.FunctionDef) and m.name == '__new__' for m in d[0].body):
            raise Unsupported('%s is not a plain subclass of %s' % (c, base))


def bound_method_aliases(fn, body):
    """`f = obj.m` at the top level of the translated statements, where `.m` is a translated (or external) method and
    f is CALLED later: every call `f(args)` is printed as the method call `obj.m(args)` and the alias statement as
    `pass`.  In Python the statement looks the method up once (no effect: methods are resolved by name, the receiver
    is trusted to be an instance of the class of the target) and the bound method keeps the object that obj names at
    that moment; so the rewriting preserves the meaning when, as checked here: obj and f are plain names, f is bound
    by this statement only (not a parameter, no other store, no del / global / nonlocal / nested function), obj is
    bound nowhere in the function except as a parameter, f is read only as the callee of calls, and every such call
    lies in a statement after the alias at the same level."""
    out = list(body)
    for i, s in enumerate(body):
        if not (isinstance(s, ast.Assign) and len(s.targets) == 1 and isinstance(s.targets[0], ast.Name)
                and isinstance(s.value, ast.Attribute) and isinstance(s.value.value, ast.Name)
                and ('.' + s.value.attr in CALLABLE or '.' + s.value.attr in EXTERNAL)
                and s.value.attr not in PROP_GET):
            continue
        f, obj, m = s.targets[0].id, s.value.value.id, s.value.attr
        called = [n for n in ast.walk(fn) if isinstance(n, ast.Call) and isinstance(n.func, ast.Name) and n.func.id == f]
        if not called:
            continue
        for n in ast.walk(fn):
            if isinstance(n, (ast.FunctionDef, ast.Lambda, ast.Global, ast.Nonlocal, ast.Delete)) and n is not fn:
                raise Unsupported('%s inside %s, which aliases the bound method %s.%s' % (type(n).__name__, fn.name, obj, m))
            if isinstance(n, ast.Name) and n.id == f and not isinstance(n.ctx, ast.Load) and n is not s.targets[0]:
                raise Unsupported('the bound-method alias %s is rebound' % f)
            if isinstance(n, ast.Name) and n.id == obj and not isinstance(n.ctx, ast.Load):
                raise Unsupported('%s, whose method %s is aliased, is rebound' % (obj, m))
            if isinstance(n, ast.arg) and n.arg == f:
                raise Unsupported('the bound-method alias %s is a parameter' % f)
        callees = set(id(n.func) for n in called)
        later = set()
        for t in body[i + 1:]:
            later.update(id(n) for n in ast.walk(t))
        for n in ast.walk(fn):
            if isinstance(n, ast.Name) and n.id == f and isinstance(n.ctx, ast.Load):
                if id(n) not in callees:
                    raise Unsupported('the bound-method alias %s is used other than as a callee' % f)
                if id(n) not in later:
                    raise Unsupported('the bound-method alias %s is called outside the statements after its binding' % f)
        import copy

        class Re(ast.NodeTransformer):
            def visit_Call(self, n):
                self.generic_visit(n)
                if isinstance(n.func, ast.Name) and n.func.id == f:
                    n.func = ast.Attribute(value=ast.Name(id=obj, ctx=ast.Load()), attr=m, ctx=ast.Load())
                return n
        out = [ast.Pass() if t is s else (Re().visit(copy.deepcopy(t)) if j > i else t) for j, t in enumerate(out)]
    return out


def slice_in_for(fn, first, last, then=()):
    """The statements, inside the body of the only top-level `for` loop of fn that assigns `first` at the top level of
    its body, from the first assignment `first = ...` through the first assignment `last = ...` after it (both
    plain-name assignments at the top level of the loop body).  Checked: no name bound by these statements is bound
    again anywhere else in the loop (so what the rest of the iteration reads under these names are the values
    computed by the slice), and the statements contain no nested loop / function.  `then`: expressions (source text,
    compared after ast.unparse) that must occur in the loop after the slice - the consumers of the values, so that a
    change of what is handed on (another matrix given to add_links) is refused rather than missed."""
    def assigns(s, nm):
        return isinstance(s, ast.Assign) and len(s.targets) == 1 and isinstance(s.targets[0], ast.Name) \
            and s.targets[0].id == nm
    loops = [x for x in fn.body if isinstance(x, ast.For) and any(assigns(s, first) for s in x.body)]
    if len(loops) != 1:
        raise Unsupported('%d top-level for loops of %s assign %s' % (len(loops), fn.name, first))
    loop = loops[0]
    if loop.orelse:
        raise Unsupported('else clause of the loop of %s' % fn.name)
    i = [k for k, s in enumerate(loop.body) if assigns(s, first)][0]
    js = [k for k, s in enumerate(loop.body) if k >= i and assigns(s, last)]
    if not js:
        raise Unsupported('no assignment of %s after the one of %s in the loop of %s' % (last, first, fn.name))
    sl = loop.body[i:js[0] + 1]
    inside = set()
    for s in sl:
        for n in ast.walk(s):
            inside.add(id(n))
            if isinstance(n, (ast.For, ast.While, ast.FunctionDef, ast.Lambda, ast.Global, ast.Nonlocal, ast.Delete,
                              ast.NamedExpr)):
                raise Unsupported('%s inside the slice %s..%s of %s' % (type(n).__name__, first, last, fn.name))
    bound = set(n.id for s in sl for n in ast.walk(s) if isinstance(n, ast.Name) and not isinstance(n.ctx, ast.Load))
    for n in ast.walk(loop):
        if id(n) in inside:
            continue
        if isinstance(n, ast.Name) and n.id in bound and not isinstance(n.ctx, ast.Load):
            raise Unsupported('%s, bound by the slice %s..%s, is bound again in the loop of %s' % (n.id, first, last, fn.name))
        if isinstance(n, (ast.Global, ast.Nonlocal)) and set(n.names) & bound:
            raise Unsupported('global / nonlocal declaration of a name of the slice %s..%s' % (first, last))
        if isinstance(n, ast.arg) and n.arg in bound:
            raise Unsupported('%s, bound by the slice %s..%s, is a parameter of a nested function' % (n.arg, first, last))
    after = set()
    for st in loop.body[js[0] + 1:]:
        for n in ast.walk(st):
            if isinstance(n, ast.expr):
                after.add(ast.unparse(n))
    for text in then:
        if ast.unparse(ast.parse(text, mode='eval').body) not in after:
            raise Unsupported('the loop of %s does not contain `%s` after the slice %s..%s' % (fn.name, text, first, last))
    return sl


def select_branch(fn, var, value):
    """The body of the branch `var == 'value'` of the (unique) top-level `if var == 'a': .. elif var == 'b': ..` chain
    of fn.  Every test of the chain must be `var == <string constant>` with pairwise distinct constants, so that the
    branch is the one executed exactly when var == 'value' (the tests before it are false and have no effect); a
    final `else:` is allowed and ignored.  The statements before and after the chain are not translated."""
    def test_const(t):
        if isinstance(t, ast.Compare) and len(t.ops) == 1 and isinstance(t.ops[0], ast.Eq) \
                and isinstance(t.left, ast.Name) and t.left.id == var \
                and isinstance(t.comparators[0], ast.Constant) and isinstance(t.comparators[0].value, str):
            return t.comparators[0].value
        return None
    chains = []
    for s in fn.body:
        if isinstance(s, ast.If) and test_const(s.test) is not None:
            chain, node = [], s
            while True:
                c = test_const(node.test)
                if c is None:
                    raise Unsupported('test %s in the chain on %s' % (ast.unparse(node.test)[:60], var))
                chain.append((c, node.body))
                if len(node.orelse) == 1 and isinstance(node.orelse[0], ast.If):
                    node = node.orelse[0]
                else:
                    break
            chains.append(chain)
    if len(chains) != 1:
        raise Unsupported('%d if-chains on %s at the top level of %s' % (len(chains), var, fn.name))
    consts = [c for c, _ in chains[0]]
    if len(set(consts)) != len(consts):
        raise Unsupported('the chain on %s tests a constant twice' % var)
    if value not in consts:
        raise Unsupported('no branch %s == %r in %s' % (var, value, fn.name))
    body = dict(chains[0])[value]
    for s in body:
        for x in ast.walk(s):
            if isinstance(x, ast.Name) and x.id == var and not isinstance(x.ctx, ast.Load):
                raise Unsupported('%s is rebound inside its own branch' % var)
    return list(body)


def translate_function(fn, name, slice_from=None, params=None, after_unpack=None, tree=None, in_for=None):
    """fn: ast.FunctionDef.  slice_from: name of the variable whose first assignment starts the translated
    slice (the statements before it are *not* translated; `params` are then the free variables).
    after_unpack = (xs, adapter base class): the slice starts after `a, b, c = xs` (see slice_after_unpack).
    in_for = (first, last): the statements first = ... through last = ... of a top-level loop (see slice_in_for)."""
    CURRENT[:] = [fn, tree]
    # the option 'opaque' of the target with this Coq name (see stmt_or_unsupported); off for every other target
    OPAQUE[0] = any(c == name and x.get('opaque') for _, ts in TARGETS.values() for _, _, c, x in ts)
    STR_INDEX[0] = any(c == name and x.get('str_index') for _, ts in TARGETS.values() for _, _, c, x in ts)
    body = list(fn.body)
    if in_for is not None:
        body = slice_in_for(fn, *in_for)
    elif after_unpack is not None:
        xs, base = after_unpack
        i, names, classes = slice_after_unpack(fn, xs, base)
        check_adapter_classes(tree, classes, base)
        un = Unroll(xs, names)
        mod = un.visit(ast.Module(body=body[i + 1:], type_ignores=[]))
        body = mod.body
        # objects are values in Py.v: an adapter may only be used as the receiver of an attribute access / method
        # call (`box_a.x`), never copied into another name, a list or an argument (no second name for one object)
        bases = set()
        for s in body:
            for x in ast.walk(s):
                if isinstance(x, ast.Attribute) and isinstance(x.value, ast.Name):
                    bases.add(id(x.value))
        for s in body:
            for x in ast.walk(s):
                if isinstance(x, ast.Name) and x.id in names and id(x) not in bases:
                    raise Unsupported('%s is used other than as the receiver of an attribute access' % x.id)
        for s in body:
            for x in ast.walk(s):
                if isinstance(x, ast.Name) and x.id == xs:
                    raise Unsupported('%s is used other than by a loop / list comprehension over it' % xs)
                if isinstance(x, ast.Name) and x.id in names and not isinstance(x.ctx, ast.Load):
                    raise Unsupported('%s is rebound after the unpacking of %s' % (x.id, xs))
                if isinstance(x, ast.Name) and x.id in un.loopvars:
                    raise Unsupported('loop variable %s is used outside the loops over %s' % (x.id, xs))
                if isinstance(x, (ast.arg,)) and x.arg in names + [xs]:
                    raise Unsupported('%s is rebound by a nested function' % x.arg)
    elif slice_from == '<while>':
        loops = [x for x in body if isinstance(x, ast.While)]
        if len(loops) != 1:
            raise Unsupported('%d while loops at the top level of %s' % (len(loops), fn.name))
        body = loops
    elif slice_from == '<first-if>':
        # the first `if` statement at the top level of the function (test included); the statements after it are
        # not translated
        ifs = [x for x in body if isinstance(x, ast.If)]
        if not ifs:
            raise Unsupported('no if statement at the top level of %s' % fn.name)
        body = ifs[:1]
    elif isinstance(slice_from, tuple) and slice_from[0] == '<branch>':
        body = select_branch(fn, slice_from[1], slice_from[2])
    elif slice_from is not None and slice_from.startswith('<binds:'):
        # from the first top-level statement (of any kind: an `if` whose branches assign it, a loop, ...) inside which
        # the name is a target, to the end of the function
        name_ = slice_from[len('<binds:'):-1]
        for i, s in enumerate(body):
            if any(isinstance(x, ast.Name) and x.id == name_ and not isinstance(x.ctx, ast.Load) for x in ast.walk(s)):
                body = body[i:]
                break
        else:
            raise Unsupported('no statement of %s binds %s' % (fn.name, name_))
    elif slice_from is not None:
        for i, s in enumerate(body):
            if isinstance(s, ast.Assign) and len(s.targets) == 1 and isinstance(s.targets[0], ast.Name) \
                    and s.targets[0].id == slice_from:
                body = body[i:]
                break
        else:
            raise Unsupported('slice start %s not found in %s' % (slice_from, fn.name))
    body = bound_method_aliases(fn, body)
    gens = {}
    for s in body:
        if isinstance(s, ast.Assign) and len(s.targets) == 1 and isinstance(s.targets[0], ast.Name) \
                and isinstance(s.value, ast.GeneratorExp):
            gens[s.targets[0].id] = s.value
    check_setitem_alias(body)
    mod = ast.Module(body=body, type_ignores=[])
    ig = InlineGen(gens)
    mod = ig.visit(mod)
    for k, n in ig.uses.items():
        if n != 1:
            raise Unsupported('generator %s used %d times' % (k, n))
    del NAMED_BUILTINS_SEEN[:]
    text = block(mod.body)
    for b_ in sorted(set(NAMED_BUILTINS_SEEN)):
        if tree is None:
            raise Unsupported('builtin %s used where the module is not known' % b_)
        check_named_builtin(tree, b_)
    args = params if params is not None else [a.arg for a in fn.args.args]
    return 'Definition %s_args : list string := [%s].\nDefinition %s_body : list stmt := [%s].\n' % (
        name, '; '.join(q(a) for a in args), name, text)


# classes whose constructor call `C(...)` is a translation target (kind 'ctor'), filled by generate()
CTORS = set()


def translate_ctor(tree, clsname, name):
    """`C(args)` for a module-level class `class C(list)` without __new__ / metaclass / decorator whose __init__
    ends with the statement `super().__init__(X)` and mentions neither self nor super elsewhere, and returns nowhere:
    the new object is a list holding the elements of X.  Lists are values in Py.v, so the constructor is printed as
    the function (parameters of __init__ without self) whose body is the body of __init__ with that last statement
    replaced by `return [r for r in X]` (r is not a Python name: "%r"); an X that is not a list raises in both.
    The methods of C are resolved by name, like all methods."""
    cls = [n for n in tree.body if isinstance(n, ast.ClassDef) and n.name == clsname]
    if len(cls) != 1:
        raise Unsupported('class %s not found (or defined twice)' % clsname)
    cls = cls[0]
    if cls.keywords or cls.decorator_list or [ast.unparse(b) for b in cls.bases] != ['list']:
        raise Unsupported('class %s is not a plain subclass of list' % clsname)
    inits = [m for m in cls.body if isinstance(m, ast.FunctionDef) and m.name == '__init__']
    if len(inits) != 1 or inits[0].decorator_list \
            or any(isinstance(m, ast.FunctionDef) and m.name in ('__new__', '__init_subclass__', '__class_getitem__')
                   for m in cls.body):
        raise Unsupported('constructor of %s' % clsname)
    init = inits[0]
    params, defaults = signature(init)
    if not params or params[0] != 'self' or 'self' in params[1:]:
        raise Unsupported('signature of %s.__init__' % clsname)
    last = init.body[-1]
    ok = (isinstance(last, ast.Expr) and isinstance(last.value, ast.Call) and not last.value.keywords
          and len(last.value.args) == 1 and not isinstance(last.value.args[0], ast.Starred)
          and isinstance(last.value.func, ast.Attribute) and last.value.func.attr == '__init__'
          and isinstance(last.value.func.value, ast.Call) and isinstance(last.value.func.value.func, ast.Name)
          and last.value.func.value.func.id == 'super' and not last.value.func.value.args
          and not last.value.func.value.keywords)
    if not ok:
        raise Unsupported('%s.__init__ does not end with super().__init__(X)' % clsname)
    x = last.value.args[0]
    for st in init.body[:-1] + [ast.Expr(value=x)]:
        for n in ast.walk(st):
            if isinstance(n, ast.Name) and n.id in ('self', 'super'):
                raise Unsupported('%s.__init__ uses %s before super().__init__(X)' % (clsname, n.id))
            if isinstance(n, (ast.Return, ast.Yield, ast.YieldFrom, ast.FunctionDef, ast.Lambda, ast.Global, ast.Nonlocal)):
                raise Unsupported('%s inside %s.__init__' % (type(n).__name__, clsname))
    copy_x = ast.ListComp(elt=ast.Name(id='%r', ctx=ast.Load()), generators=[ast.comprehension(
        target=ast.Name(id='%r', ctx=ast.Store()), iter=x, ifs=[], is_async=0)])
    text = block(init.body[:-1] + [ast.Return(value=copy_x)])
    return 'Definition %s_args : list string := [%s].\nDefinition %s_body : list stmt := [%s].\n' % (
        name, '; '.join(q(a) for a in params[1:]), name, text)


def literal_table(tree, varname, name):
    """Module-level `VAR = {literal dict}` -> association list of (key, val)."""
    for s in tree.body:
        if isinstance(s, ast.Assign) and len(s.targets) == 1 and isinstance(s.targets[0], ast.Name) \
                and s.targets[0].id == varname:
            try:
                ns = {}
                value = eval(compile(ast.Expression(s.value), '<table>', 'eval'), {'__builtins__': {}}, ns)
            except Exception as exc:
                raise Unsupported('table %s is not a literal: %s' % (varname, exc))
            if isinstance(value, dict):
                items = list(value.items())
            else:
                raise Unsupported('table %s: not a dict' % varname)
            rows = '; '.join('(%s, %s)' % (const(k), const(v)) for k, v in items)
            return 'Definition %s : list (val * val) := [%s].\n' % (name, rows)
    raise Unsupported('table %s not found' % varname)


def exact_q(e, src):
    """A numeric module-level expression made of literals and + - * / as an exact rational: the decimal literal
    TEXT is read (96. is 96, 2.54 is 254/100), not its binary float."""
    from fractions import Fraction
    if isinstance(e, ast.Constant) and isinstance(e.value, (int, float)) and not isinstance(e.value, bool):
        text = ast.get_source_segment(src, e)
        if text is None or not re.fullmatch(r'[0-9]*\.?[0-9]*', text) or not re.search(r'[0-9]', text):
            raise Unsupported('numeric literal %r' % (text,))
        return Fraction(text.rstrip('.') if text.endswith('.') else text)
    if isinstance(e, ast.UnaryOp) and isinstance(e.op, ast.USub):
        return -exact_q(e.operand, src)
    if isinstance(e, ast.BinOp) and type(e.op) in BIN:
        a, b = exact_q(e.left, src), exact_q(e.right, src)
        if isinstance(e.op, ast.Add):
            return a + b
        if isinstance(e.op, ast.Sub):
            return a - b
        if isinstance(e.op, ast.Mult):
            return a * b
        if b == 0:
            raise Unsupported('division by zero in table')
        return a / b
    raise Unsupported('table value %s' % ast.dump(e)[:80])


def q_table(tree, src, varname, name):
    """Module-level `VAR = {'key': <arithmetic over literals>, ...}` -> list (string * Q), exact."""
    for s in tree.body:
        if isinstance(s, ast.Assign) and len(s.targets) == 1 and isinstance(s.targets[0], ast.Name) \
                and s.targets[0].id == varname:
            if not isinstance(s.value, ast.Dict):
                raise Unsupported('table %s: not a dict display' % varname)
            rows = []
            for k, v in zip(s.value.keys, s.value.values):
                if not (isinstance(k, ast.Constant) and isinstance(k.value, str)):
                    raise Unsupported('table %s: key %s' % (varname, ast.dump(k)[:60]))
                fr = exact_q(v, src)
                rows.append('(%s, (%d # %d)%%Q)' % (q(k.value), fr.numerator, fr.denominator))
            return 'Definition %s : list (string * Q) := [%s].\n' % (name, '; '.join(rows))
    raise Unsupported('table %s not found' % varname)


def class_table(tree, varname, name, module):
    """Module-level `VAR = {('k1', 'k2'): module.ClassName, ...}` (bound exactly once in the module, keys tuples of
    string literals, values attributes of the imported module `module`) -> list (val * string): the key as the
    VList of its strings, the class by its name.  A duplicate key is refused (Python keeps the last one)."""
    binds = [n for n in ast.walk(tree) if isinstance(n, ast.Name) and n.id == varname and not isinstance(n.ctx, ast.Load)]
    defs = [s for s in tree.body if isinstance(s, ast.Assign) and len(s.targets) == 1
            and isinstance(s.targets[0], ast.Name) and s.targets[0].id == varname]
    if len(defs) != 1 or len(binds) != 1:
        raise Unsupported('table %s is not bound exactly once at the top level' % varname)
    for n in ast.walk(tree):
        # VAR[k] = v / del VAR[k] / VAR.update(...) would change the table after its display
        if isinstance(n, ast.Subscript) and isinstance(n.value, ast.Name) and n.value.id == varname \
                and not isinstance(n.ctx, ast.Load):
            raise Unsupported('table %s is modified by a subscript assignment' % varname)
        if isinstance(n, ast.Attribute) and isinstance(n.value, ast.Name) and n.value.id == varname:
            raise Unsupported('table %s: method / attribute %s is used' % (varname, n.attr))
    d = defs[0].value
    if not isinstance(d, ast.Dict):
        raise Unsupported('table %s: not a dict display' % varname)
    rows, seen = [], set()
    for k, v in zip(d.keys, d.values):
        if not (isinstance(k, ast.Tuple) and k.elts and all(
                isinstance(x, ast.Constant) and isinstance(x.value, str) for x in k.elts)):
            raise Unsupported('table %s: key %s' % (varname, ast.dump(k)[:60] if k is not None else '**'))
        key = tuple(x.value for x in k.elts)
        if key in seen:
            raise Unsupported('table %s: duplicate key %r' % (varname, key))
        seen.add(key)
        if not (isinstance(v, ast.Attribute) and isinstance(v.value, ast.Name) and v.value.id == module):
            raise Unsupported('table %s: value %s' % (varname, ast.dump(v)[:60]))
        rows.append('(%s, %s)' % (const(key), q(v.attr)))
    return 'Definition %s : list (val * string) := [%s].\n' % (name, '; '.join(rows))


def check_computer(tree, fn, names):
    """`fn` is the function that `register_computer` registers for exactly the CSS properties `names`, and no other
    function of the module is registered for one of them (a later registration would replace it in
    COMPUTER_FUNCTIONS); its decorators are only such registrations (they return the function unchanged)."""
    def registered(f):
        out = []
        for d in f.decorator_list:
            if isinstance(d, ast.Call) and isinstance(d.func, ast.Name) and d.func.id == 'register_computer' \
                    and len(d.args) == 1 and not d.keywords and isinstance(d.args[0], ast.Constant) \
                    and isinstance(d.args[0].value, str):
                out.append(d.args[0].value)
            else:
                out.append(None)
        return out
    mine = registered(fn)
    if None in mine or sorted(mine) != sorted(names):
        raise Unsupported('%s is not registered as the computer of exactly %s' % (fn.name, sorted(names)))
    for f in ast.walk(tree):
        if isinstance(f, (ast.FunctionDef, ast.AsyncFunctionDef)) and f is not fn and set(registered(f)) & set(names):
            raise Unsupported('%s is also registered as a computer of %s' % (f.name, sorted(names)))
        if isinstance(f, ast.Subscript) and isinstance(f.value, ast.Name) and f.value.id == 'COMPUTER_FUNCTIONS' \
                and not isinstance(f.ctx, ast.Load) and not (
                    isinstance(f.slice, ast.Name) and f.slice.id == 'name'):
            raise Unsupported('COMPUTER_FUNCTIONS is modified outside register_computer')


class ConstProp(ast.NodeTransformer):
    """The rewritings of specialise(): see there."""
    def __init__(self, consts):
        self.consts = consts

    def visit_Name(self, n):
        if n.id in self.consts:
            if not isinstance(n.ctx, ast.Load):
                raise Unsupported('the specialised parameter %s is rebound' % n.id)
            return ast.copy_location(ast.Constant(value=self.consts[n.id]), n)
        return n

    def visit_JoinedStr(self, n):
        self.generic_visit(n)
        parts = []
        for v in n.values:
            if isinstance(v, ast.FormattedValue) and v.conversion == -1 and v.format_spec is None:
                v = v.value
            if not (isinstance(v, ast.Constant) and isinstance(v.value, str)):
                raise Unsupported('f-string with a part that is not a compile-time string constant')
            parts.append(v.value)
        return ast.copy_location(ast.Constant(value=''.join(parts)), n)

    @staticmethod
    def attr_name(a, what):
        if not (isinstance(a, ast.Constant) and isinstance(a.value, str) and a.value.isidentifier()):
            raise Unsupported('%s with a name that is not a compile-time constant' % what)
        return a.value

    def visit_Call(self, n):
        self.generic_visit(n)
        if isinstance(n.func, ast.Name) and n.func.id == 'getattr':
            if len(n.args) != 2 or n.keywords:
                raise Unsupported('getattr with a default')
            return ast.copy_location(
                ast.Attribute(value=n.args[0], attr=self.attr_name(n.args[1], 'getattr'), ctx=ast.Load()), n)
        return n

    def visit_Expr(self, n):
        self.generic_visit(n)
        c = n.value
        if isinstance(c, ast.Call) and isinstance(c.func, ast.Name) and c.func.id == 'setattr':
            if len(c.args) != 3 or c.keywords or not isinstance(c.args[0], ast.Name):
                raise Unsupported('setattr on something that is not a plain name')
            t = ast.Attribute(value=ast.Name(id=c.args[0].id, ctx=ast.Load()),
                              attr=self.attr_name(c.args[1], 'setattr'), ctx=ast.Store())
            return ast.copy_location(ast.Assign(targets=[t], value=c.args[2]), n)
        return n


def cp_block(stmts, known, params):
    """Constant propagation through a list of statements (see specialise()).  known: name -> string constant, valid at
    the entry of the list: the specialised parameters (`params`, never rebound) and the locals whose last binding, on
    every path to this point, is the plain statement `x = <string constant>`.  A statement that binds a name anywhere
    inside it makes that name unknown before it is processed, so what is known at the entry of a compound statement
    holds throughout its blocks, on every iteration; inside a block knowledge grows again statement by statement."""
    import copy
    out = []
    for s in stmts:
        stored = {n.id for n in ast.walk(s) if isinstance(n, ast.Name) and not isinstance(n.ctx, ast.Load)}
        if stored & set(params):
            raise Unsupported('the specialised parameter %s is rebound' % sorted(stored & set(params)))
        if isinstance(s, ast.Assign) and len(s.targets) == 1 and isinstance(s.targets[0], ast.Name):
            s.value = ConstProp(known).visit(s.value)
            x = s.targets[0].id
            known = {k: c for k, c in known.items() if k != x}
            if isinstance(s.value, ast.Constant) and isinstance(s.value.value, str):
                known[x] = s.value.value
            out.append(s)
            continue
        known = {k: c for k, c in known.items() if k not in stored}
        if isinstance(s, ast.For) and not s.orelse and any(isinstance(m, ast.Continue) for m in ast.walk(s)):
            # `if c: continue` directly in the body of the loop becomes `if c: pass` `else: <the rest>` (fold_continue:
            # meaning-preserving for every loop); a loop over constants may then be unrolled below
            s.body = fold_continue(list(s.body))
        if isinstance(s, ast.For) and isinstance(s.iter, (ast.Tuple, ast.List)) and s.iter.elts \
                and all(isinstance(c, ast.Constant) for c in s.iter.elts) and isinstance(s.target, ast.Name) \
                and not s.orelse and not any(isinstance(m, (ast.Break, ast.Continue)) for m in ast.walk(s)):
            # for v in (c1, .., cn): body   ==   v = c1; body; ..; v = cn; body      (a non-empty display of constants,
            # no break / continue / else: the loop runs the body once per constant, v bound to it, in this order)
            unrolled = []
            for c in s.iter.elts:
                unrolled.append(ast.copy_location(ast.Assign(
                    targets=[ast.Name(id=s.target.id, ctx=ast.Store())], value=copy.deepcopy(c)), s))
                unrolled.extend(copy.deepcopy(s.body))
            more, known = cp_block(unrolled, known, params)
            out.extend(more)
            continue
        if isinstance(s, ast.If):
            s.test = ConstProp(known).visit(s.test)
            s.body = cp_block(s.body, known, params)[0]
            s.orelse = cp_block(s.orelse, known, params)[0]
        elif isinstance(s, (ast.For, ast.While)):
            if isinstance(s, ast.For):
                s.iter = ConstProp(known).visit(s.iter)
            else:
                s.test = ConstProp(known).visit(s.test)
            s.body = cp_block(s.body, known, params)[0]
            s.orelse = cp_block(s.orelse, known, params)[0]
        elif isinstance(s, (ast.With, ast.Try, ast.Match if hasattr(ast, 'Match') else ast.With)):
            raise Unsupported('%s inside a specialised function' % type(s).__name__)
        else:
            s = ConstProp(known).visit(s)
        out.append(s)
    return out, known


class ReplaceTests(ast.NodeTransformer):
    def __init__(self, tests):
        self.tests, self.seen = tests, set()

    def visit_Call(self, n):
        text = ast.unparse(n)
        if text in self.tests:
            self.seen.add(text)
            return ast.copy_location(ast.Name(id=self.tests[text], ctx=ast.Load()), n)
        self.generic_visit(n)
        return n


def specialise(fn, tree, consts, tests=None, free=None):
    """Target option 'consts' = {parameter: string}: the function SPECIALISED to these arguments, by constant
    propagation only.  The parameter is removed from the signature and every read of it becomes the constant; then
      f'..{c}..' whose parts are all string constants   ==  the concatenated constant (format(s, '') is s for a str)
      getattr(x, 'name')                                ==  x.name          (definition of getattr)
      setattr(x, 'name', e)   as a statement, x a name  ==  x.name = e      (definition of setattr; x is a plain name,
                                                                             so the evaluation order cannot be seen)
    Nothing else is folded: `if axis == 'width'` stays a comparison of two constants in the printed body and is
    decided by Py.v.  Refused (fail-closed): a specialised parameter that is rebound, deleted, or shadowed by a nested
    function / lambda / comprehension; getattr / setattr / an f-string whose name is not a compile-time constant;
    getattr with a default; setattr as an expression; getattr / setattr rebound in the function or in the module.
    The propagation also follows the locals bound by a plain `x = <string constant>` (cp_block) and unrolls a `for`
    over a display of constants into `v = c1; body; v = c2; body; ..` (same function).
    Option 'tests' = {"isinstance(x, boxes.PageBox)": name}: the class of an object is outside the value domain of
    Py.v; the test (x a parameter that is never rebound, the text exactly as unparsed) is replaced by the new
    parameter `name`, an input of the translated body: its truth value when the function is entered, which is its
    value at every later point since neither x nor the names of the test can be rebound by the translated subset.
    Option 'free' = [names]: names read but never bound in the function (module-level bindings such as `inf`) become
    parameters: their value is an input of the translated body."""
    import copy
    fn = copy.deepcopy(fn)
    tests, free = dict(tests or {}), list(free or [])
    a = fn.args
    if a.vararg or a.kwarg or a.kwonlyargs or a.posonlyargs or a.defaults:
        raise Unsupported('signature of %s (specialisation)' % fn.name)
    params = [x.arg for x in a.args]
    for p_, v in consts.items():
        if p_ not in params or not isinstance(v, str):
            raise Unsupported('%s is not a positional parameter of %s / not specialised to a string' % (p_, fn.name))
    for n in ast.walk(fn):
        if isinstance(n, (ast.FunctionDef, ast.Lambda, ast.Global, ast.Nonlocal, ast.Delete, ast.NamedExpr)) \
                and n is not fn:
            raise Unsupported('%s inside the specialised function %s' % (type(n).__name__, fn.name))
        if isinstance(n, ast.Name) and n.id in ('getattr', 'setattr') and not isinstance(n.ctx, ast.Load):
            raise Unsupported('%s is rebound in %s' % (n.id, fn.name))
        if isinstance(n, ast.arg) and n.arg in ('getattr', 'setattr'):
            raise Unsupported('%s is a parameter of %s' % (n.arg, fn.name))
    for n in tree.body:
        names = [n.name] if isinstance(n, (ast.FunctionDef, ast.ClassDef)) else \
            [x.asname or x.name for x in n.names] if isinstance(n, (ast.Import, ast.ImportFrom)) else \
            [x.id for x in ast.walk(n) if isinstance(x, ast.Name) and not isinstance(x.ctx, ast.Load)]
        if 'getattr' in names or 'setattr' in names or '*' in names:
            raise Unsupported('getattr / setattr may be rebound at the module level')
    a.args = [x for x in a.args if x.arg not in consts]
    stored = {n.id for n in ast.walk(fn) if isinstance(n, ast.Name) and not isinstance(n.ctx, ast.Load)}
    used = {n.id for n in ast.walk(fn) if isinstance(n, ast.Name)} | set(params)
    for text, name in tests.items():
        call_ = ast.parse(text, mode='eval').body
        if not (isinstance(call_, ast.Call) and isinstance(call_.func, ast.Name) and call_.func.id == 'isinstance'
                and len(call_.args) == 2 and isinstance(call_.args[0], ast.Name) and call_.args[0].id in params
                and call_.args[0].id not in stored and ast.unparse(call_) == text):
            raise Unsupported('test %s: not isinstance(<parameter never rebound>, <class>)' % text)
        if name in used or 'isinstance' in stored or any(
                isinstance(x, ast.Name) and x.id in stored for x in ast.walk(call_.args[1])):
            raise Unsupported('test %s: the name %s is in use / the names of the test are rebound' % (text, name))
    rt = ReplaceTests(tests)
    fn.body = [rt.visit(s_) for s_ in fn.body]
    if rt.seen != set(tests):
        raise Unsupported('tests not found in %s: %s' % (fn.name, sorted(set(tests) - rt.seen)))
    for name in free:
        if name in stored or name in params or name not in used:
            raise Unsupported('%s is not a free name of %s' % (name, fn.name))
    a.args = a.args + [ast.arg(arg=x) for x in list(tests.values()) + free]
    fn.body = cp_block(fn.body, dict(consts), list(consts))[0]
    ast.fix_missing_locations(fn)
    return fn


HEADER = ('(* GENERATED by tools/py2coq.py from %s -- do not edit *)\n'
          'From Coq Require Import QArith List String.\nRequire Import WV.base.Py.\n'
          'Import ListNotations.\nOpen Scope string_scope.\n\n')

# file -> list of (kind, python name, coq name, extra)
TARGETS = {
    'GenBlock': ('weasyprint/layout/block.py', [
        ('fun', 'collapse_margin', 'collapse_margin', {}),
        ('fun', 'block_level_width', 'block_level_width', {}),
        ('fun', 'block_level_page_break', 'break_fold', {'slice_from': 'result', 'params': ['values']}),
        ('fun', 'avoid_page_break', 'avoid_page_break', {}),
        ('fun', 'force_page_break', 'force_page_break', {}),
    ]),
    'GenPercent': ('weasyprint/layout/percent.py', [
        ('fun', 'percentage', 'percentage', {}),
    ]),
    'GenBoxSizing': ('weasyprint/layout/percent.py', [
        # adjust_box_sizing(box, axis) specialised to its two call sites (option 'consts': constant propagation of
        # the parameter; getattr / setattr / f'max_{axis}' become plain attribute accesses, see specialise())
        ('fun', 'adjust_box_sizing', 'adjust_box_sizing_width',
         {'consts': {'axis': 'width'}, 'call_as': 'adjust_box_sizing[width]'}),
        ('fun', 'adjust_box_sizing', 'adjust_box_sizing_height',
         {'consts': {'axis': 'height'}, 'call_as': 'adjust_box_sizing[height]'}),
    ]),
    'GenResolve': ('weasyprint/layout/percent.py', [
        # resolve_one_percentage(box, property_name, refer_to) specialised to the 14 property names resolve_percentages
        # passes to it (option 'consts'; its call of percentage() is linked to GenPercent)
        ('fun', 'resolve_one_percentage', 'resolve_one_margin_left',
         {'consts': {'property_name': 'margin_left'}, 'call_as': 'resolve_one_percentage[margin_left]'}),
        ('fun', 'resolve_one_percentage', 'resolve_one_margin_right',
         {'consts': {'property_name': 'margin_right'}, 'call_as': 'resolve_one_percentage[margin_right]'}),
        ('fun', 'resolve_one_percentage', 'resolve_one_margin_top',
         {'consts': {'property_name': 'margin_top'}, 'call_as': 'resolve_one_percentage[margin_top]'}),
        ('fun', 'resolve_one_percentage', 'resolve_one_margin_bottom',
         {'consts': {'property_name': 'margin_bottom'}, 'call_as': 'resolve_one_percentage[margin_bottom]'}),
        ('fun', 'resolve_one_percentage', 'resolve_one_padding_left',
         {'consts': {'property_name': 'padding_left'}, 'call_as': 'resolve_one_percentage[padding_left]'}),
        ('fun', 'resolve_one_percentage', 'resolve_one_padding_right',
         {'consts': {'property_name': 'padding_right'}, 'call_as': 'resolve_one_percentage[padding_right]'}),
        ('fun', 'resolve_one_percentage', 'resolve_one_padding_top',
         {'consts': {'property_name': 'padding_top'}, 'call_as': 'resolve_one_percentage[padding_top]'}),
        ('fun', 'resolve_one_percentage', 'resolve_one_padding_bottom',
         {'consts': {'property_name': 'padding_bottom'}, 'call_as': 'resolve_one_percentage[padding_bottom]'}),
        ('fun', 'resolve_one_percentage', 'resolve_one_width',
         {'consts': {'property_name': 'width'}, 'call_as': 'resolve_one_percentage[width]'}),
        ('fun', 'resolve_one_percentage', 'resolve_one_min_width',
         {'consts': {'property_name': 'min_width'}, 'call_as': 'resolve_one_percentage[min_width]'}),
        ('fun', 'resolve_one_percentage', 'resolve_one_max_width',
         {'consts': {'property_name': 'max_width'}, 'call_as': 'resolve_one_percentage[max_width]'}),
        ('fun', 'resolve_one_percentage', 'resolve_one_height',
         {'consts': {'property_name': 'height'}, 'call_as': 'resolve_one_percentage[height]'}),
        ('fun', 'resolve_one_percentage', 'resolve_one_min_height',
         {'consts': {'property_name': 'min_height'}, 'call_as': 'resolve_one_percentage[min_height]'}),
        ('fun', 'resolve_one_percentage', 'resolve_one_max_height',
         {'consts': {'property_name': 'max_height'}, 'call_as': 'resolve_one_percentage[max_height]'}),
        # resolve_percentages: its calls of resolve_one_percentage / adjust_box_sizing mutate the box: printed as
        # %call, box = f(box, 'name', refer_to) (oracle statements; the theorems link them to the specialisations above
        # and to GenBoxSizing by the constant name); isinstance(box, boxes.PageBox) and `inf` are inputs; the loop over
        # the four sides is unrolled and its f-string / setattr / hasattr names are constants (see specialise())
        ('fun', 'resolve_percentages', 'resolve_percentages', {
            'consts': {}, 'tests': {'isinstance(box, boxes.PageBox)': 'box_is_page'}, 'free': ['inf'],
            'call_as': 'resolve_percentages[]',
            'oracle_stmts': {'resolve_one_percentage': (['box', 'property_name', 'refer_to'], ['box']),
                             'adjust_box_sizing': (['box', 'axis'], ['box'])}}),
    ]),
    'GenReplaced': ('weasyprint/layout/replaced.py', [
        ('fun', '_constraint_image_sizing', 'constraint_image_sizing', {}),
        ('fun', 'contain_constraint_image_sizing', 'contain_constraint_image_sizing', {}),
        ('fun', 'cover_constraint_image_sizing', 'cover_constraint_image_sizing', {}),
        ('fun', 'default_image_sizing', 'default_image_sizing', {}),
    ]),
    'GenBoxes': ('weasyprint/formatting_structure/boxes.py', [
        ('fun', 'Box.padding_width', 'padding_width', {}),
        ('fun', 'Box.padding_height', 'padding_height', {}),
        ('fun', 'Box.border_width', 'border_width', {}),
        ('fun', 'Box.border_height', 'border_height', {}),
        ('fun', 'Box.margin_width', 'margin_width', {}),
        ('fun', 'Box.margin_height', 'margin_height', {}),
        ('fun', 'Box.content_box_x', 'content_box_x', {}),
        ('fun', 'Box.content_box_y', 'content_box_y', {}),
        ('fun', 'Box.border_box_x', 'border_box_x', {}),
        ('fun', 'Box.border_box_y', 'border_box_y', {}),
        ('fun', '_overlap_ratio', 'overlap_ratio', {}),
        ('fun', 'Box.rounded_box', 'rounded_box', {}),
        ('fun', 'Box.rounded_box_ratio', 'rounded_box_ratio', {}),
        ('fun', 'Box.rounded_padding_box', 'rounded_padding_box', {}),
        ('fun', 'Box.rounded_border_box', 'rounded_border_box', {}),
        ('fun', 'Box.rounded_content_box', 'rounded_content_box', {}),
    ]),
    'GenFloat': ('weasyprint/layout/float.py', [
        ('fun', 'get_clearance', 'get_clearance', {}),
        # the `while True:` loop of avoid_collisions (the statements before it bind its free variables, the ones
        # after it read position_y, max_left_bound, max_right_bound)
        ('fun', 'avoid_collisions', 'avoid_loop', {'slice_from': '<while>', 'params': [
            'excluded_shapes', 'position_y', 'box_width', 'box_height', 'box', 'containing_block', 'outer']}),
    ]),
    'GenAbsolute': ('weasyprint/layout/absolute.py', [
        ('fun', 'absolute_width', 'absolute_width', {'callable': False}),
        ('fun', 'absolute_height', 'absolute_height', {'callable': False}),
    ]),
    'GenPage': ('weasyprint/layout/page.py', [
        ('fun', 'page_width_or_height', 'page_width_or_height', {}),
        # from rule 2 on (the first statement wraps the box into an OrientedBox adapter)
        ('fun', 'compute_fixed_dimension', 'compute_fixed_dimension', {
            'slice_from': 'total', 'params': ['box', 'outer', 'top_or_left']}),
        # the @property getters of the adapter class as methods ".sugar", ".outer", ".outer_min_content_size",
        # ".outer_max_content_size"; in every target of this file a read `x.<property>` is a call of the getter and
        # the statement `x.outer = e` is the body of the setter
        ('props', 'OrientedBox', 'OrientedBox', {}),
        # after `box_a, box_b, box_c = side_boxes` (the adapters are built before); loops over side_boxes unrolled
        ('fun', 'compute_variable_dimension', 'compute_variable_dimension', {
            'after_unpack': ('side_boxes', 'OrientedBox'),
            'params': ['box_a', 'box_b', 'box_c', 'available_size']}),
    ]),
    'GenInline': ('weasyprint/layout/inline.py', [
        ('fun', 'text_align', 'text_align', {}),
    ]),
    'GenPageName': ('weasyprint/layout/block.py', [
        ('fun', 'block_level_page_name', 'block_level_page_name', {}),
    ]),
    'GenRelative': ('weasyprint/layout/block.py', [
        # the `if box.style['position'] == 'relative':` statement of relative_positioning (the recursion into the
        # children of inline boxes that follows it is not translated)
        ('fun', 'relative_positioning', 'relative_if', {'slice_from': '<first-if>', 'params': [
            'box', 'containing_block']}),
    ]),
    'GenCss': ('weasyprint/css/__init__.py', [
        ('fun', 'declaration_precedence', 'declaration_precedence', {}),
    ]),
    'GenMedia': ('weasyprint/css/media_queries.py', [
        ('fun', 'evaluate_media_query', 'evaluate_media_query', {}),
    ]),
    'GenAnchors': ('weasyprint/anchors.py', [
        # `transform_point = matrix.transform_point` : see bound_method_aliases
        ('fun', 'rectangle_aabb', 'rectangle_aabb', {}),
    ]),
    'GenMatrix': ('weasyprint/matrix.py', [
        # Matrix(a, b, c, d, e, f, matrix): the list that Matrix.__init__ hands to list.__init__ (see translate_ctor)
        ('ctor', 'Matrix', 'Matrix_init', {}),
        # a @ b (3x3 product; `sum(... for k in range(3))` unrolled, see sum_over_display)
        ('fun', 'Matrix.__matmul__', 'matmul', {}),
        ('fun', 'Matrix.transform_point', 'transform_point', {}),
    ]),
    'GenPdfPage': ('weasyprint/pdf/__init__.py', [
        # per page: the CSS px -> PDF point matrix handed to add_links / add_annotations / add_forms, the bleed
        # offsets and the MediaBox numbers (statements `matrix = ...` through `page_rectangle = ...` of the page loop)
        ('fun', 'generate_pdf', 'page_geometry', {'in_for': ('matrix', 'page_rectangle', [
            'add_links(links_and_anchors, matrix, pdf, pdf_page, pdf_names, mark)',
            'add_annotations(links_and_anchors[0], matrix, document, pdf, pdf_page, annot_files, compress)',
            'pydyf.Array([left, top, right, bottom])']), 'params': ['scale', 'page']}),
        # the TrimBox numbers (bleed = the page's bleed at scale, built by a dict comprehension outside the slice)
        ('fun', 'generate_pdf', 'page_trim', {'in_for': ('trim_left', 'trim_bottom', [
            'pydyf.Array([trim_left, trim_top, trim_right, trim_bottom])']), 'params': [
            'left', 'top', 'right', 'bottom', 'bleed']}),
    ]),
    'GenCounters': ('weasyprint/css/counters.py', [
        ('fun', 'symbol', 'symbol', {}),
        # CounterStyle.render_value, step 3: the bodies of the branches of `if system == 'cyclic': .. elif ..`
        # (free variables as parameters; each ends with `initial` bound, or returns the value of the recursive call
        # for the decimal / fallback style, an oracle).  `// len abs x[i] ''.join(reversed(..))` are primitives of Py.v, `%` the builtin "%mod"
        ('fun', 'CounterStyle.render_value', 'rv_cyclic', {
            'slice_from': ('<branch>', 'system', 'cyclic'), 'params': ['self', 'counter', 'counter_value']}),
        ('fun', 'CounterStyle.render_value', 'rv_fixed', {
            'slice_from': ('<branch>', 'system', 'fixed'),
            'params': ['self', 'counter', 'counter_value', 'fixed_number', 'previous_types']}),
        ('fun', 'CounterStyle.render_value', 'rv_alphabetic', {
            'slice_from': ('<branch>', 'system', 'alphabetic'), 'params': ['self', 'counter', 'counter_value']}),
        ('fun', 'CounterStyle.render_value', 'rv_numeric', {
            'slice_from': ('<branch>', 'system', 'numeric'), 'params': ['self', 'counter', 'counter_value']}),
    ]),
    'GenTable': ('weasyprint/layout/table.py', [
        # fixed_table_layout from the choice of the horizontal border spacing on: the pass over the cells of the
        # first row (colspan cells share what their columns do not have yet), the equal shares of the columns that
        # are still unknown, the distribution of the extra width, table.width / table.column_widths.  The statements
        # before it (the wrapped table, the <col> elements, num_columns, the list column_widths filled from the <col>
        # widths) bind the free variables
        ('fun', 'fixed_table_layout', 'fixed_cells_finish', {'slice_from': '<binds:border_spacing_x>', 'params': [
            'table', 'first_row_cells', 'num_columns', 'column_widths']}),
    ]),
    'GenCssUtils': ('weasyprint/css/utils.py', [
        ('qtable', 'LENGTHS_TO_PIXELS', 'lengths_to_pixels', {}),
    ]),
    'GenComputed': ('weasyprint/css/computed_values.py', [
        # the @register_computer functions (style, name, value) of display / break-before / break-after (C08, C04);
        # option 'computer': the function is the one registered for exactly these properties (see check_computer);
        # `len` and `.startswith` are the builtins "%len" / "%startswith"
        ('fun', 'display', 'display', {'computer': ['display']}),
        ('fun', 'break_before_after', 'break_before_after', {'computer': ['break-before', 'break-after']}),
        # position is a keyword (a str) or the pair ('running()', name): `position[0]` is the builtin "%getitem"
        ('fun', 'compute_float', 'compute_float', {'computer': ['float'], 'str_index': True}),
    ]),
    'GenBuild': ('weasyprint/formatting_structure/build.py', [
        # BOX_TYPE_FROM_DISPLAY: (outside, inside) / (table part,) -> the name of the class of boxes.py
        ('classtable', 'BOX_TYPE_FROM_DISPLAY', 'box_type_from_display', {'module': 'boxes'}),
    ]),
    'GenGrid': ('weasyprint/layout/grid.py', [
        # the placement helpers of the grid placement algorithm (C12).  `len` is the builtin "%len".  In _get_line
        # and _get_placement the searches for NAMED lines (for ... else loops with break over enumerate / slices)
        # are outside the subset: option 'opaque' prints each of them as a call of "%unsupported", an error value
        # when executed; the theorems are about lines without names, which never reach them.
        ('fun', '_intersect', 'grid_intersect', {}),
        ('fun', '_intersect_with_children', 'grid_intersect_with_children', {}),
        ('fun', '_get_line', 'grid_get_line', {'opaque': True}),
        ('fun', '_get_placement', 'grid_get_placement', {'opaque': True}),
        ('fun', '_get_span', 'grid_get_span', {}),
    ]),
    'GenReplacedBox': ('weasyprint/layout/replaced.py', [
        # the functions under the handle_min_max_* decorators (`.without_min_max`); image.get_intrinsic_size is an
        # oracle; in replaced_box_width the call statement of the (decorated) block_level_width imported inside the
        # function is an oracle that mutates box
        ('fun', 'min_max_auto_replaced', 'min_max_auto_replaced', {}),
        ('fun', 'replaced_box_height', 'replaced_box_height', {}),
        ('fun', 'replaced_box_width', 'replaced_box_width', {
            'oracle_stmts': {'block_level_width': (['box', 'containing_block'], ['box'])}}),
        # replacedbox_layout translates as it is (its `assert object_fit == 'none', object_fit` is accepted), but its
        # equality with model rb_layout is not proved yet: not a target, so that a refusal cannot raise a false alarm
    ]),
    'GenPageCounters': ('weasyprint/layout/page.py', [
        # the whole function: the loop over the three property names is unrolled and `style[propname]` gets a constant
        # key (option 'consts' with no parameter: see specialise() / cp_block()); `continue` folded into if / else
        ('fun', '_standardize_page_based_counters', 'standardize_page_based_counters', {'consts': {}}),
    ]),
    'GenPageSel': ('weasyprint/css/__init__.py', [
        # does an @page selector (side, :blank, :first, name, :nth(an+b [of group])) match a page type; `%` is the
        # builtin "%mod", the loop over page_type.groups has a tuple target and an `if ...: continue`
        ('fun', 'StyleFor._page_type_match', 'page_type_match', {}),
    ]),
}


def generate(repo, out_dir, only=None):
    """Returns (written_files, errors) ; errors: list of (target, message)."""
    errors, written = [], []
    os.makedirs(out_dir, exist_ok=True)
    # first pass: the signatures of all function targets (what a translated body may call)
    CALLABLE.clear()
    CTORS.clear()
    for fname, (src, targets) in TARGETS.items():
        try:
            tree0 = ast.parse(open(os.path.join(repo, src)).read())
        except Exception:
            continue
        for kind, pyname, coqname, extra in targets:
            if kind == 'props':
                try:
                    for g in class_properties(tree0, pyname)[0]:
                        CALLABLE['.' + g] = (['self'], {})
                except Unsupported:
                    pass
            if kind == 'ctor':
                try:
                    ps, ds = signature(find_function(tree0, pyname + '.__init__'))
                    CALLABLE[pyname] = (ps[1:], ds)
                    CTORS.add(pyname)
                except Unsupported:
                    pass
            if kind != 'fun' or extra.get('slice_from') or extra.get('after_unpack') or extra.get('in_for'):
                continue
            try:
                fn0 = find_function(tree0, pyname)
                key = ('.' + pyname.split('.')[-1]) if '.' in pyname else pyname
                CALLABLE[extra.get('call_as', key)] = signature(fn0)
            except Unsupported:
                pass
    for fname, (src, targets) in TARGETS.items():
        if only and fname not in only:
            continue
        path = os.path.join(repo, src)
        try:
            source = open(path).read()
            tree = ast.parse(source)
        except Exception as exc:
            errors.append((fname, 'cannot parse %s: %s' % (src, exc)))
            continue
        parts = [HEADER % src]
        table = []
        # the properties of the class named by a 'props' target are in force for every target of this file
        PROP_GET.clear()
        PROP_SET.clear()
        getters_of = {}
        for kind, pyname, coqname, extra in targets:
            if kind == 'props':
                try:
                    g, st = class_properties(tree, pyname)
                    if set(g) & set(PROP_GET):
                        raise Unsupported('two classes define the property %s' % sorted(set(g) & set(PROP_GET)))
                    PROP_GET.update(g)
                    PROP_SET.update(st)
                    getters_of[pyname] = list(g)
                except Unsupported as exc:
                    errors.append(('%s:%s' % (fname, pyname), str(exc)))
                    parts.append('(* UNSUPPORTED %s: %s *)\n' % (pyname, str(exc).replace('*)', '* )')))
        for kind, pyname, coqname, extra in targets:
            TARGET_ORACLE.clear()
            try:
                if kind == 'props':
                    # one translated method per getter: ".name" with the single parameter self
                    for g in getters_of.get(pyname, []):
                        del CALLS_SEEN[:]
                        del BUILTINS_SEEN[:]
                        parts.append(translate_function(PROP_GET[g], '%s_%s' % (coqname, g)))
                        for b in sorted(set(BUILTINS_SEEN)):
                            check_builtin(tree, PROP_GET[g], b)
                        table.append('(%s, (%s_%s_args, %s_%s_body))' % (q('.' + g), coqname, g, coqname, g))
                elif kind == 'fun':
                    fn = find_function(tree, pyname)
                    if extra.get('consts') is not None or extra.get('tests') or extra.get('free'):
                        fn = specialise(fn, tree, extra.get('consts') or {}, extra.get('tests'), extra.get('free'))
                    if extra.get('computer'):
                        check_computer(tree, fn, extra['computer'])
                    if extra.get('calls'):
                        parts.append(translate_wrapper(fn, coqname))
                    else:
                        del CALLS_SEEN[:]
                        del BUILTINS_SEEN[:]
                        TARGET_ORACLE.clear()
                        TARGET_ORACLE.update(extra.get('oracle_stmts', {}))
                        parts.append(translate_function(fn, coqname, extra.get('slice_from'), extra.get('params'),
                                                        extra.get('after_unpack'), tree, extra.get('in_for')))
                        for callee in sorted(set(CALLS_SEEN)):
                            check_binding(tree, fn, callee)
                        for b in sorted(set(BUILTINS_SEEN)):
                            check_builtin(tree, fn, b)
                        if not extra.get('slice_from') and not extra.get('after_unpack') and not extra.get('in_for'):
                            key = ('.' + pyname.split('.')[-1]) if '.' in pyname else pyname
                            table.append('(%s, (%s_args, %s_body))' % (q(extra.get('call_as', key)), coqname, coqname))
                elif kind == 'ctor':
                    del CALLS_SEEN[:]
                    del BUILTINS_SEEN[:]
                    parts.append(translate_ctor(tree, pyname, coqname))
                    for callee in sorted(set(CALLS_SEEN)):
                        check_binding(tree, find_function(tree, pyname + '.__init__'), callee)
                    for b in sorted(set(BUILTINS_SEEN)):
                        check_builtin(tree, find_function(tree, pyname + '.__init__'), b)
                    table.append('(%s, (%s_args, %s_body))' % (q(pyname), coqname, coqname))
                elif kind == 'qtable':
                    parts.append(q_table(tree, source, pyname, coqname))
                elif kind == 'classtable':
                    parts.append(class_table(tree, pyname, coqname, extra['module']))
                else:
                    parts.append(literal_table(tree, pyname, coqname))
            except Unsupported as exc:
                errors.append(('%s:%s' % (fname, pyname), str(exc)))
                parts.append('(* UNSUPPORTED %s: %s *)\n' % (pyname, str(exc).replace('*)', '* )')))
        parts.append('Definition %s_table : list (string * (list string * list stmt)) := [%s].\n' % (
            fname, '; '.join(table)))
        text = '\n'.join(parts)
        dest = os.path.join(out_dir, fname + '.v')
        old = open(dest).read() if os.path.exists(dest) else None
        if old != text:
            open(dest, 'w').write(text)
            written.append(dest)
    return written, errors


def check_setitem_alias(stmts):
    """Lists are values in Py.v: `x[i] = e` updates the variable x only.  So for every name x that the translated
    statements mutate by a computed index, each read of x must be one that cannot create a second name for the list
    object (x[j]; the iterable of a for / comprehension; the argument of len / sum / enumerate / max / min) -- or
    come after the last `x[i] = ...` outside any loop that contains one (then the alias is never seen to differ).
    When x is a parameter of a slice, the statements before the slice are NOT checked (the list must be fresh
    there)."""
    mod = ast.Module(body=list(stmts), type_ignores=[])
    mutated = {}
    for n in ast.walk(mod):
        if isinstance(n, ast.Assign) and len(n.targets) == 1 and isinstance(n.targets[0], ast.Subscript) \
                and isinstance(n.targets[0].value, ast.Name) \
                and not isinstance(n.targets[0].slice, (ast.Slice, ast.Tuple, ast.Starred, ast.Constant)):
            mutated.setdefault(n.targets[0].value.id, []).append(n)
    if not mutated:
        return
    safe = set()
    loops = []
    for n in ast.walk(mod):
        if isinstance(n, ast.Subscript) and isinstance(n.value, ast.Name):
            safe.add(id(n.value))
        if isinstance(n, (ast.For, ast.comprehension)) and isinstance(n.iter, ast.Name):
            safe.add(id(n.iter))
        if isinstance(n, ast.Call) and isinstance(n.func, ast.Name) \
                and n.func.id in ('len', 'sum', 'enumerate', 'max', 'min') \
                and len(n.args) == 1 and isinstance(n.args[0], ast.Name):
            safe.add(id(n.args[0]))
        if isinstance(n, (ast.For, ast.While)):
            loops.append(n)
    for n in ast.walk(mod):
        if isinstance(n, ast.Name) and n.id in mutated and isinstance(n.ctx, ast.Load) and id(n) not in safe:
            last = max(a.end_lineno for a in mutated[n.id])
            in_loop = any(any(x is n for x in ast.walk(lp))
                          and any(any(y is a for y in ast.walk(lp)) for a in mutated[n.id]) for lp in loops)
            if n.lineno <= last or in_loop:
                raise Unsupported('the list %s is mutated by index and read at line %d in a way that may alias it'
                                  % (n.id, n.lineno))
        if isinstance(n, (ast.Lambda, ast.FunctionDef)) and any(
                isinstance(x, ast.Name) and x.id in mutated for x in ast.walk(n)):
            raise Unsupported('a list mutated by index is captured by a nested function')
        if isinstance(n, ast.For) and isinstance(n.iter, ast.Name) and n.iter.id in mutated \
                and any(any(y is a for y in ast.walk(n)) for a in mutated[n.iter.id]):
            raise Unsupported('the list %s is mutated by index inside a loop over it' % n.iter.id)


def check_binding(tree, fn, callee):
    """the called name must denote the translation target: a module-level function of the same file or a name
    imported with `from ... import name`, and not rebound inside the calling function; methods (".name") are
    resolved by name only (recorded in the trusted base)"""
    if callee.startswith('.'):
        return
    for n in ast.walk(fn):
        if isinstance(n, ast.Name) and isinstance(n.ctx, ast.Store) and n.id == callee:
            raise Unsupported('%s is rebound inside %s' % (callee, fn.name))
        if isinstance(n, ast.arg) and n.arg == callee:
            raise Unsupported('%s is a parameter of %s' % (callee, fn.name))
    if callee == 'hasattr':
        # the builtin: not bound at the module level (by a def / class / import / assignment)
        for n in tree.body:
            names = [n.name] if isinstance(n, (ast.FunctionDef, ast.ClassDef)) else \
                [x.asname or x.name for x in n.names] if isinstance(n, (ast.Import, ast.ImportFrom)) else \
                [x.id for x in ast.walk(n) if isinstance(x, ast.Name) and not isinstance(x.ctx, ast.Load)]
            if callee in names or '*' in names:
                raise Unsupported('%s may be rebound at the module level' % callee)
        return
    if callee in TARGET_ORACLE:
        # a declared oracle of this target: bound by a `from m import f` statement of the function itself (or of the
        # module, below)
        if any(isinstance(n, ast.ImportFrom) and any(a.asname is None and a.name == callee for a in n.names)
               for n in fn.body):
            return
    for n in tree.body:
        if isinstance(n, ast.FunctionDef) and n.name == callee:
            return
        if isinstance(n, ast.ClassDef) and n.name == callee and callee in CTORS:
            return
        if isinstance(n, ast.ImportFrom) and any((a.asname or a.name) == callee and a.name == callee for a in n.names):
            return
    raise Unsupported('%s is neither defined nor imported in this module' % callee)


def check_named_builtin(tree, name):
    """the name of a Python builtin printed as a primitive must denote the builtin: the module never binds it
    (no assignment, definition, parameter, import, except target, global declaration of that name)"""
    for n in ast.walk(tree):
        if isinstance(n, ast.Name) and n.id == name and not isinstance(n.ctx, ast.Load):
            raise Unsupported('the module rebinds the builtin %s' % name)
        if isinstance(n, (ast.FunctionDef, ast.AsyncFunctionDef, ast.ClassDef)) and n.name == name:
            raise Unsupported('the module defines %s' % name)
        if isinstance(n, ast.arg) and n.arg == name:
            raise Unsupported('%s is a parameter name in the module' % name)
        if isinstance(n, ast.alias) and ((n.asname or n.name).split('.')[0] == name or n.name == '*'):
            raise Unsupported('the module imports %s (or *)' % name)
        if isinstance(n, ast.ExceptHandler) and n.name == name:
            raise Unsupported('the module binds %s in an except clause' % name)
        if isinstance(n, (ast.Global, ast.Nonlocal)) and name in n.names:
            raise Unsupported('the module declares %s global / nonlocal' % name)


def translate_wrapper(fn, name):
    """handle_min_max_*.wrapper: `function(box, *args)` is the call of the decorated function; it is printed as
    the statement SCall (run the callee body on the same box), handled by the interpreter-level combinator
    [run_wrapped] in the proofs; here we print the wrapper with calls replaced by a marker variable update."""
    out = []
    for s in fn.body:
        if isinstance(s, ast.Assign) and isinstance(s.value, ast.Call) and isinstance(s.value.func, ast.Name) \
                and s.value.func.id == 'function':
            out.append('SCallWrapped')
        elif isinstance(s, ast.If):
            inner = []
            for t in s.body:
                if isinstance(t, ast.Assign) and isinstance(t.value, ast.Call) and isinstance(t.value.func, ast.Name) \
                        and t.value.func.id == 'function':
                    inner.append('SCallWrapped')
                elif isinstance(t, ast.Assign) and isinstance(t.targets[0], ast.Tuple):
                    # box.margin_left, box.margin_right = computed_margins
                    inner.append('(SUnpack [%s] %s)' % ('; '.join(target(x) for x in t.targets[0].elts), expr(t.value)))
                else:
                    inner.append(stmt(t))
            if s.orelse:
                raise Unsupported('else in wrapper')
            out.append('(SIf %s [%s] [])' % (expr(s.test), '; '.join(inner)))
        else:
            out.append(stmt(s))
    return 'Definition %s_body : list wstmt := [%s].\n' % (name, '; '.join(out))


if __name__ == '__main__':
    ap = argparse.ArgumentParser()
    ap.add_argument('--repo', default='/repo')
    ap.add_argument('--out', default=os.path.join(os.path.dirname(os.path.abspath(__file__)), '..', 'coq', 'gen'))
    a = ap.parse_args()
    written, errors = generate(a.repo, a.out)
    for w in written:
        print('wrote', w)
    for t, m in errors:
        print('UNSUPPORTED', t, m)
    sys.exit(1 if errors else 0)
