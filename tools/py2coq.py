"""Fail-closed printer: Python function source -> Coq term of type (list stmt) in the base/Py.v embedding.

The translator is *only a printer*: it serialises the Python ``ast`` of the listed
functions of /repo's current working tree; the meaning of the printed syntax is
given by the interpreter coq/base/Py.v.  Anything outside the accepted subset
raises ``Unsupported`` naming the node (the check then reports a broken
obligation ``gen:<target>``).

usage: py2coq.py [--repo /repo] [--out /verif/coq/gen]   (writes a file only when its text changed)
"""
import ast, re, sys, os, textwrap, argparse
from fractions import Fraction


class Unsupported(Exception):
    pass


def q(s):
    return '"%s"' % s.replace('"', '""')


def num(v):
    if isinstance(v, bool):
        return '(VBool %s)' % ('true' if v else 'false')
    if isinstance(v, int):
        return '(VNum (%d#1))' % v if v >= 0 else '(VNum ((%d)#1))' % v
    if isinstance(v, float):
        f = Fraction(repr(v))  # exact decimal denoted by the literal text
        return '(VNum ((%d)#%d))' % (f.numerator, f.denominator)
    raise Unsupported(repr(v))


def const(v):
    if v is None:
        return 'VNone'
    if isinstance(v, str):
        return '(VStr %s)' % q(v)
    if isinstance(v, tuple):
        return '(VList [%s])' % '; '.join(const(x) for x in v)
    return num(v)


BIN = {ast.Add: 'Add', ast.Sub: 'Sub', ast.Mult: 'Mul', ast.Div: 'Div'}
CMP = {ast.Eq: 'Eq', ast.NotEq: 'NotEq', ast.Lt: 'Lt', ast.LtE: 'LtE', ast.Gt: 'Gt', ast.GtE: 'GtE'}


def expr(e):
    if OBJ_METHODS and isinstance(e, ast.Constant) and isinstance(e.value, bytes):
        return obj_methods_bytes(e.value)   # option 'obj_methods': see OBJ_METHODS
    if OBJ_METHODS and isinstance(e, ast.Call):
        r_ = obj_methods_module_call(e)     # option 'obj_methods': module.Class({..}) as a declared oracle
        if r_ is not None:
            return r_
    if SEQ_OPS[0]:
        r_ = seq_op(e)   # option 'seq_ops' of the target: `+`, `*`, len on strings / lists as well as numbers
        if r_ is not None:
            return r_
    if IMPORTED:
        r_ = imported_expr(e)               # option 'imports': constants of another module, see IMPORTED
        if r_ is not None:
            return r_
    if isinstance(e, ast.Constant):
        return '(EConst %s)' % const(e.value)
    if isinstance(e, ast.Name):
        return '(EVar %s)' % q(e.id)
    if isinstance(e, ast.Attribute):
        if e.attr in PROP_GET:
            # a READ of a @property of the class registered by the 'props' target of this file: the call of its
            # translated getter (receiver resolved by name, like methods)
            if not isinstance(e.ctx, ast.Load):
                raise Unsupported('property %s used as a target' % e.attr)
            CALLS_SEEN.append('.' + e.attr)
            return '(ECall %s [%s])' % (q('.' + e.attr), expr(e.value))
        return '(EAttr %s %s)' % (expr(e.value), q(e.attr))
    if isinstance(e, ast.BinOp) and type(e.op) in BIN:
        return '(EBin %s %s %s)' % (BIN[type(e.op)], expr(e.left), expr(e.right))
    if isinstance(e, ast.BinOp) and isinstance(e.op, ast.BitXor):
        return '(EXor %s %s)' % (expr(e.left), expr(e.right))
    if isinstance(e, ast.BinOp) and isinstance(e.op, ast.Mod):
        # `a % b` on numbers (Py.v prim_apply PMod: floor-mod, ZeroDivisionError when b is 0; a string or any other
        # operand is the error value TypeError)
        return '(EPrim PMod [%s; %s])' % (expr(e.left), expr(e.right))
    if isinstance(e, ast.Compare):
        if len(e.ops) == 1 and isinstance(e.ops[0], (ast.In, ast.NotIn)):
            neg = 'true' if isinstance(e.ops[0], ast.NotIn) else 'false'
            return '(EIn %s %s %s)' % (neg, expr(e.left), expr(e.comparators[0]))
        if len(e.ops) == 1 and isinstance(e.ops[0], (ast.Is, ast.IsNot)) \
                and isinstance(e.comparators[0], ast.Constant) and e.comparators[0].value is None:
            # `x is None` / `x is not None`: equality with None in the value domain of Py.v
            return '(ECmp %s [(%s, (EConst VNone))])' % (expr(e.left), 'Eq' if isinstance(e.ops[0], ast.Is) else 'NotEq')
        if not all(type(o) in CMP for o in e.ops):
            raise Unsupported(ast.dump(e)[:200])
        rest = '; '.join('(%s, %s)' % (CMP[type(o)], expr(c)) for o, c in zip(e.ops, e.comparators))
        return '(ECmp %s [%s])' % (expr(e.left), rest)
    if isinstance(e, ast.BoolOp):
        k = 'EAnd' if isinstance(e.op, ast.And) else 'EOr'
        r = expr(e.values[-1])
        for v in reversed(e.values[:-1]):
            r = '(%s %s %s)' % (k, expr(v), r)
        return r
    if isinstance(e, ast.UnaryOp) and isinstance(e.op, ast.Not):
        return '(ENot %s)' % expr(e.operand)
    if isinstance(e, ast.UnaryOp) and isinstance(e.op, ast.USub):
        return '(EBin Sub (EConst (VNum 0)) %s)' % expr(e.operand)
    if isinstance(e, ast.IfExp):
        return '(ECond %s %s %s)' % (expr(e.test), expr(e.body), expr(e.orelse))
    if isinstance(e, ast.Subscript) and isinstance(e.slice, ast.Constant) and isinstance(e.slice.value, str):
        return '(ESubscr %s %s)' % (expr(e.value), q(e.slice.value))
    if STR_INDEX[0] and isinstance(e, ast.Subscript) and isinstance(e.ctx, ast.Load) \
            and isinstance(e.slice, ast.Constant) and isinstance(e.slice.value, int) \
            and not isinstance(e.slice.value, bool) and e.slice.value >= 0:
        # option 'str_index' of the target: `x[0]` where x may be a str as well as a tuple (EIndex is an error on
        # a str): the call of the builtin "%getitem" (not a Python name) with the index as a number; its meaning is
        # whatever [ocall] answers: the theorems state it (element of a list, one-character str of a str)
        return '(ECall "%%getitem" [%s; (EConst %s)])' % (expr(e.value), num(e.slice.value))
    if STR_INDEX[0] and isinstance(e, ast.Subscript) and isinstance(e.ctx, ast.Load) \
            and not isinstance(e.slice, (ast.Slice, ast.Tuple, ast.Constant, ast.Starred)):
        # option 'str_index', `x[k]` with k any expression (PIndex is an error unless x is a list and k a number: here
        # x may be a mapping read with a computed str key): the same builtin "%getitem" with x, then k, evaluated in
        # this order as in Python; the theorems state its meaning (the entry of an object for a str key)
        return '(ECall "%%getitem" [%s; %s])' % (expr(e.value), expr(e.slice))
    if isinstance(e, ast.Subscript) and isinstance(e.slice, ast.Constant) and isinstance(e.slice.value, int) \
            and e.slice.value >= 0:
        return '(EIndex %s %d)' % (expr(e.value), e.slice.value)
    if isinstance(e, ast.Subscript) and isinstance(e.ctx, ast.Load) and isinstance(e.slice, ast.Constant) \
            and type(e.slice.value) is int and e.slice.value < 0:
        # a[<negative integer constant>]: PIndex with that constant (Py.v counts a negative index from the end).  The
        # parser never produces this node for source text (`a[-1]` is a USub applied to 1 and is printed by the
        # a[i] case below); it is built by hoist_pops()
        return '(EPrim PIndex [%s; (EConst %s)])' % (expr(e.value), num(e.slice.value))
    if isinstance(e, ast.Subscript) and isinstance(e.ctx, ast.Load) and isinstance(e.slice, ast.Slice) \
            and e.slice.lower is None and e.slice.step is None and e.slice.upper is not None:
        return '(EPrim PSliceTo [%s; %s])' % (expr(e.value), expr(e.slice.upper))   # a[:n]
    if isinstance(e, ast.Subscript) and isinstance(e.ctx, ast.Load) and isinstance(e.slice, ast.Slice) \
            and e.slice.upper is None and e.slice.step is None and e.slice.lower is not None:
        # a[n:] on a list: the primitive PSliceFrom of Py.v (negative n from the end, clamped like Python; any operand
        # that is not a list / an integer is the error value TypeError); a evaluated first, then n
        return '(EPrim PSliceFrom [%s; %s])' % (expr(e.value), expr(e.slice.lower))
    if isinstance(e, ast.Dict) and len(e.keys) == 1 and e.keys[0] is not None and (
            isinstance(e.keys[0], ast.Name) or (isinstance(e.keys[0], ast.Constant) and type(e.keys[0].value) is int)):
        # {k: v}, ONE entry whose key is a plain name or an integer literal (the skip stacks `{index: skip_stack}` of
        # the layout code): a dictionary with a non-string key is outside the value domain of Py.v, so the display is
        # printed as the call of the builtin "%dict1" (not a Python name) with the key and the value, evaluated in this
        # order as Python does.  Its meaning is whatever [ocall] answers: the theorems state it (a value that
        # determines both the key and the value).  An unhashable key raises TypeError in Python: the theorems are
        # about integer keys.
        return '(ECall "%%dict1" [%s; %s])' % (expr(e.keys[0]), expr(e.values[0]))
    if isinstance(e, ast.Subscript) and isinstance(e.ctx, ast.Load) and isinstance(e.slice, ast.Slice) \
            and e.slice.lower is None and e.slice.upper is None and isinstance(e.slice.step, ast.UnaryOp) \
            and isinstance(e.slice.step.op, ast.USub) and isinstance(e.slice.step.operand, ast.Constant) \
            and e.slice.step.operand.value == 1 and type(e.slice.step.operand.value) is int:
        # a[::-1] on a list: a new list with the elements in reverse order (the primitive PReversed of Py.v; like the
        # other sequence primitives it answers TypeError for an operand that is not a list)
        return '(EPrim PReversed [%s])' % expr(e.value)
    if isinstance(e, ast.Subscript) and isinstance(e.ctx, ast.Load) \
            and not isinstance(e.slice, (ast.Slice, ast.Tuple, ast.Constant, ast.Starred)):
        return '(EPrim PIndex [%s; %s])' % (expr(e.value), expr(e.slice))   # a[i], i an expression
    if isinstance(e, ast.Call) and isinstance(e.func, ast.Name) and e.func.id == 'len' and len(e.args) == 1 \
            and not e.keywords and not isinstance(e.args[0], ast.Starred):
        BUILTINS_SEEN.append('len')
        return '(EPrim PLen [%s])' % expr(e.args[0])
    if isinstance(e, ast.BinOp) and isinstance(e.op, ast.MatMult) and '.__matmul__' in CALLABLE:
        # a @ b is type(a).__matmul__(a, b); like every method the callee is resolved by name
        CALLS_SEEN.append('.__matmul__')
        return '(ECall ".__matmul__" [%s; %s])' % (expr(e.left), expr(e.right))
    if isinstance(e, ast.Call) and isinstance(e.func, ast.Name) and e.func.id == 'isinstance' \
            and ast.unparse(e.args[1]) == 'boxes.Box':
        return '(EIsObj %s)' % expr(e.args[0])
    if isinstance(e, (ast.Tuple, ast.List)):
        return '(ETuple [%s])' % '; '.join(expr(x) for x in e.elts)
    if isinstance(e, ast.Call) and isinstance(e.func, ast.Name) and e.func.id in ('max', 'min') \
            and len(e.args) == 1 and not e.keywords:
        a = e.args[0]
        k = 'EMaxGen' if e.func.id == 'max' else 'EMinGen'
        if isinstance(a, ast.GeneratorExp) and len(a.generators) == 1:
            g = a.generators[0]
            if isinstance(g.target, ast.Name) and len(g.ifs) <= 1 and not g.is_async:
                cond = 'None' if not g.ifs else '(Some %s)' % expr(g.ifs[0])
                return '(%s %s %s %s %s)' % (k, expr(a.elt), q(g.target.id), iterable(g.iter), cond)
        if not isinstance(a, ast.GeneratorExp):  # max(xs) == max(x for x in xs), xs any list-valued expression
            return '(%s (EVar "_x") "_x" %s None)' % (k, expr(a))
    if isinstance(e, ast.Call) and isinstance(e.func, ast.Name) and e.func.id in ('max', 'min') \
            and len(e.args) >= 2 and not e.keywords:
        k = 'EMaxGen' if e.func.id == 'max' else 'EMinGen'
        return '(%s (EVar "_x") "_x" (ETuple [%s]) None)' % (k, '; '.join(expr(x) for x in e.args))
    if isinstance(e, ast.ListComp) and len(e.generators) == 1 and isinstance(e.generators[0].target, ast.Tuple) \
            and all(isinstance(t, ast.Name) for t in e.generators[0].target.elts) \
            and len(e.generators[0].ifs) <= 1 and not e.generators[0].is_async:
        # [elt for a, b in it if c]  ==  [elt[a := p[0], b := p[1]] for p in it if c[...]]   (p is not a Python name;
        # an element that is not a pair of the right length raises in Python, here p[i] is IndexError: both errors)
        import copy
        g = e.generators[0]
        elt, cond = copy.deepcopy(e.elt), copy.deepcopy(g.ifs[0]) if g.ifs else None
        for i, t in enumerate(g.target.elts):
            by = ast.Subscript(value=ast.Name(id='%p', ctx=ast.Load()), slice=ast.Constant(value=i), ctx=ast.Load())
            elt = Subst(t.id, by).visit(elt)
            if cond is not None:
                cond = Subst(t.id, by).visit(cond)
        c = 'None' if cond is None else '(Some %s)' % expr(cond)
        return '(EListComp %s "%%p" %s %s)' % (expr(elt), expr(g.iter), c)
    if isinstance(e, ast.ListComp) and len(e.generators) == 1:
        g = e.generators[0]
        if isinstance(g.target, ast.Name) and len(g.ifs) <= 1 and not g.is_async:
            cond = 'None' if not g.ifs else '(Some %s)' % expr(g.ifs[0])
            return '(EListComp %s %s %s %s)' % (expr(e.elt), q(g.target.id), iterable(g.iter), cond)
    if isinstance(e, ast.Call) and isinstance(e.func, ast.Name) and e.func.id == 'sum' and len(e.args) == 1 \
            and not e.keywords and isinstance(e.args[0], ast.GeneratorExp) \
            and not (len(e.args[0].generators) == 1
                     and isinstance(e.args[0].generators[0].iter, (ast.Name, ast.Attribute))):
        return sum_over_display(e.args[0])
    if isinstance(e, ast.Call) and isinstance(e.func, ast.Name) and e.func.id == 'sum' and len(e.args) == 1 \
            and not e.keywords and isinstance(e.args[0], (ast.Name, ast.Attribute, ast.GeneratorExp)):
        # sum(xs), xs a variable / attribute holding a list: the primitive PSum of Py.v (0 + xs[0] + xs[1] + ... from
        # the left).  sum(elt for x in xs if c) == sum([elt for x in xs if c]): the same value; Python adds while it
        # iterates, so when an element is not a number AND a later element raises while it is evaluated, Python
        # reports the TypeError of the addition and this form the later error (as for max / min over a generator)
        BUILTINS_SEEN.append('sum')
        a = e.args[0]
        if isinstance(a, ast.GeneratorExp):
            a = ast.ListComp(elt=a.elt, generators=a.generators)
        return '(EPrim PSum [%s])' % expr(a)
    if isinstance(e, ast.Call) and isinstance(e.func, ast.Name) and e.func.id == 'enumerate' \
            and len(e.args) == 1 and not e.keywords and not isinstance(e.args[0], (ast.Starred, ast.GeneratorExp)):
        # enumerate(xs) where it is iterated: the list of the pairs [i; xs[i]] (PEnumerate of Py.v)
        BUILTINS_SEEN.append('enumerate')
        return '(EPrim PEnumerate [%s])' % expr(e.args[0])
    if isinstance(e, ast.Call) and isinstance(e.func, ast.Name) and e.func.id == 'range' \
            and len(e.args) == 2 and not e.keywords and not any(isinstance(a, ast.Starred) for a in e.args):
        # range(a, b) where it is iterated: the list a .. b-1 (PRange2 of Py.v)
        BUILTINS_SEEN.append('range')
        return '(EPrim PRange2 [%s; %s])' % (expr(e.args[0]), expr(e.args[1]))
    if isinstance(e, ast.Call) and isinstance(e.func, ast.Attribute) and e.func.attr == 'count' \
            and isinstance(e.func.value, (ast.List, ast.Tuple)) and len(e.args) == 1 and not e.keywords \
            and isinstance(e.args[0], ast.Constant) and isinstance(e.args[0].value, str):
        # [a, b, c].count('auto')  ==  (1 if a == 'auto' else 0) + ...   (the elements are pure: names / attributes)
        r = '(EConst (VNum 0))'
        for x in e.func.value.elts:
            pure(x)
            r = '(EBin Add %s (ECond (ECmp %s [(Eq, %s)]) (EConst (VNum 1)) (EConst (VNum 0))))' % (r, expr(x), expr(e.args[0]))
        return r
    if isinstance(e, ast.Call) and isinstance(e.func, ast.Name) and e.func.id == 'len' and len(e.args) == 1 \
            and not e.keywords and not isinstance(e.args[0], ast.Starred):
        # `len(x)`: the primitive PLen of Py.v (the number of elements of a list; any other operand is the error
        # value TypeError there).  Refused when the name `len` is rebound in the function or in the module.
        builtin_not_rebound('len')
        return '(EPrim PLen [%s])' % expr(e.args[0])
    if isinstance(e, ast.Call) and isinstance(e.func, ast.Attribute) and e.func.attr == 'startswith' \
            and len(e.args) == 1 and not e.keywords and isinstance(e.args[0], ast.Constant) \
            and isinstance(e.args[0].value, str) and '.startswith' not in CALLABLE and '.startswith' not in EXTERNAL:
        # `x.startswith('lit')`: the call of the builtin method "%startswith" (not a Python name) with the receiver
        # first (evaluated first, as in Python).  Its meaning is whatever [ocall] of the operations record answers:
        # the theorems state it (receiver a str: is the literal a prefix of it).  Like every method the callee is
        # resolved by name only: the theorems speak about str receivers.
        return '(ECall "%%startswith" [%s; %s])' % (expr(e.func.value), expr(e.args[0]))
    if isinstance(e, ast.Call) and isinstance(e.func, ast.Name) and e.func.id == 'tuple' and len(e.args) == 1 \
            and not e.keywords and isinstance(e.args[0], ast.GeneratorExp):
        # tuple(elt for x in it if c): the generator is consumed at once, from the left, so the value is the tuple of
        # the elements of [elt for x in it if c] (tuples and lists are both VList in Py.v; both forms have their own
        # scope for x and evaluate `it` first).  Refused when `tuple` may be rebound.
        builtin_not_rebound('tuple')
        return expr(ast.ListComp(elt=e.args[0].elt, generators=e.args[0].generators))
    if isinstance(e, ast.Call) and isinstance(e.func, ast.Name) and e.func.id == 'tuple' and len(e.args) == 1 \
            and not e.keywords and isinstance(e.args[0], ast.Name):
        # tuple(x), x a local of the function whose every binding is the statement `x = [..]` (a list display; it may
        # then be appended to): the tuple of the elements of that list, the same value in Py.v (lists and tuples are
        # both VList).  Refused when `tuple` may be rebound.
        builtin_not_rebound('tuple')
        fn, x = CURRENT[0], e.args[0].id
        binds = [n_ for n_ in ast.walk(fn) if isinstance(n_, ast.Name) and n_.id == x and not isinstance(n_.ctx, ast.Load)]
        ok = [n_.targets[0] for n_ in ast.walk(fn) if isinstance(n_, ast.Assign) and len(n_.targets) == 1
              and isinstance(n_.targets[0], ast.Name) and n_.targets[0].id == x and isinstance(n_.value, ast.List)]
        if not binds or len(binds) != len(ok) or any(a.arg == x for a in ast.walk(fn) if isinstance(a, ast.arg)) \
                or any(isinstance(n_, (ast.Global, ast.Nonlocal)) and x in n_.names for n_ in ast.walk(fn)):
            raise Unsupported('tuple(%s): %s is not a local bound only by `%s = [..]`' % (x, x, x))
        return expr(e.args[0])
    if isinstance(e, ast.BinOp) and isinstance(e.op, ast.FloorDiv):
        # `a // b`: the primitive PFloorDiv of Py.v (floor of the quotient of two numbers), operands in evaluation order
        return '(EPrim PFloorDiv [%s; %s])' % (expr(e.left), expr(e.right))
    if isinstance(e, ast.Call) and isinstance(e.func, ast.Name) and e.func.id == 'abs' \
            and len(e.args) == 1 and not e.keywords and not isinstance(e.args[0], ast.Starred):
        # abs(x): the primitive PAbs (translate_function checks that the module does not bind the name `abs`)
        NAMED_BUILTINS_SEEN.append('abs')
        return '(EPrim PAbs [%s])' % expr(e.args[0])
    if isinstance(e, ast.Call) and isinstance(e.func, ast.Attribute) and e.func.attr == 'join' \
            and isinstance(e.func.value, ast.Constant) and isinstance(e.func.value.value, str) \
            and len(e.args) == 1 and not e.keywords and not isinstance(e.args[0], ast.Starred):
        # 'sep'.join(xs) / 'sep'.join(reversed(xs)): the primitives PJoin [sep; xs] and PReversed [xs]; reversed()
        # is accepted in this position only (elsewhere its result is an iterator that can be consumed once)
        a = e.args[0]
        if isinstance(a, ast.Call) and isinstance(a.func, ast.Name) and a.func.id == 'reversed' and len(a.args) == 1 \
                and not a.keywords and not isinstance(a.args[0], ast.Starred):
            NAMED_BUILTINS_SEEN.append('reversed')
            arg = '(EPrim PReversed [%s])' % expr(a.args[0])
        else:
            arg = expr(a)
        return '(EPrim PJoin [%s; %s])' % (expr(e.func.value), arg)
    if isinstance(e, ast.Call) and isinstance(e.func, ast.Name) and e.func.id == 'bool' and len(e.args) == 1 \
            and not e.keywords and not isinstance(e.args[0], ast.Starred):
        # bool(x)  ==  not not x : both ask for the truth value of x once and answer True / False (an x whose truth
        # value raises, raises in both).  translate_function checks that the module does not bind the name `bool`
        NAMED_BUILTINS_SEEN.append('bool')
        return '(ENot (ENot %s))' % expr(e.args[0])
    if isinstance(e, ast.Dict) and e.keys and all(
            isinstance(k, ast.Constant) and isinstance(k.value, str) for k in e.keys) \
            and len({k.value for k in e.keys}) == len(e.keys) and all(
            (isinstance(v, ast.Constant) and (v.value is None or isinstance(v.value, (str, bool, int))))
            or (isinstance(v, ast.List) and not v.elts) for v in e.values):
        # {'k1': c1, 'k2': c2}: a dict display with distinct string keys whose values are literal constants or the
        # empty list display: a fresh dictionary, the constant VObj of Py.v (dictionaries with string keys are VObj,
        # read by ESubscr and updated by x['k'] = e; objects are values, so "fresh" needs no representation)
        return '(EConst (VObj [%s]))' % '; '.join(
            '(%s, %s)' % (q(k.value), 'VList []' if isinstance(v, ast.List) else const(v.value))
            for k, v in zip(e.keys, e.values))
    if isinstance(e, ast.Call) and isinstance(e.func, ast.Name) and e.func.id == 'getattr' and len(e.args) == 3 \
            and not e.keywords and not any(isinstance(a, ast.Starred) for a in e.args) \
            and isinstance(e.args[1], ast.Constant) and isinstance(e.args[1].value, str) \
            and e.args[1].value.isidentifier() and 'getattr' not in CALLABLE and 'getattr' not in EXTERNAL:
        # getattr(x, 'name', default), the name a literal: the call of the builtin "%getattr" (not a Python name) with
        # the object, the name and the default, evaluated in this order as in Python.  Its meaning is whatever [ocall]
        # answers: the theorems state it (the entry of the object when it has one, else the default).  Refused when
        # `getattr` may be rebound in the function or in the module.
        builtin_not_rebound('getattr')
        return '(ECall "%%getattr" [%s; %s; %s])' % (expr(e.args[0]), expr(e.args[1]), expr(e.args[2]))
    if ISINSTANCE[0] and isinstance(e, ast.Call) and isinstance(e.func, ast.Name) and e.func.id == 'isinstance' \
            and len(e.args) == 2 and not e.keywords and isinstance(e.args[1], ast.Name) and e.args[1].id == 'int' \
            and not isinstance(e.args[0], ast.Starred):
        # option 'isinstance', the class being the builtin `int` (refused when `int` or `isinstance` may be rebound in
        # the function or the module): the class is handed to the builtin "%isinstance" as the marker string "%int"
        # (not a Python name; reading the name `int` has no effect and cannot fail).  Its meaning is whatever [ocall]
        # answers: the theorems state it.
        builtin_not_rebound('isinstance')
        builtin_not_rebound('int')
        return '(ECall "%%isinstance" [%s; (EConst (VStr "%%int"))])' % expr(e.args[0])
    if isinstance(e, ast.Call) and isinstance(e.func, ast.Attribute) and e.func.attr == 'replace' \
            and len(e.args) == 2 and not e.keywords and all(
                isinstance(a, ast.Constant) and isinstance(a.value, str) for a in e.args) \
            and '.replace' not in CALLABLE and '.replace' not in EXTERNAL:
        # `x.replace('old', 'new')`: the call of the builtin method "%replace" (not a Python name) with the receiver
        # first (evaluated first, as in Python; the two literals have no effect).  Its meaning is whatever [ocall]
        # answers: the theorems state it (receiver a str: every occurrence of 'old' from the left replaced).  Like
        # every method the callee is resolved by name only: the theorems speak about str receivers.
        return '(ECall "%%replace" [%s; %s; %s])' % (expr(e.func.value), expr(e.args[0]), expr(e.args[1]))
    if ISINSTANCE[0] and isinstance(e, ast.Call) and isinstance(e.func, ast.Name) and e.func.id == 'isinstance' \
            and len(e.args) == 2 and not e.keywords and not any(isinstance(a, ast.Starred) for a in e.args):
        # option 'isinstance' of the target: the class of an object is outside the value domain of Py.v, so
        # `isinstance(x, C)` is the call of the builtin "%isinstance" (not a Python name) with x and C evaluated in
        # this order, as in Python; C is an ordinary expression (a class read from a module object, a tuple of
        # classes bound to a local).  Its meaning is whatever [ocall] answers: the theorems state it.
        builtin_not_rebound('isinstance')
        return '(ECall "%%isinstance" [%s; %s])' % (expr(e.args[0]), expr(e.args[1]))
    if isinstance(e, ast.Call):
        return call(e)
    raise Unsupported(ast.dump(e)[:200])


# Target option 'imports' = {NAME: (source file of the defining module, kind)}: module-level constants of ANOTHER
# module that the function reads under the name bound by `from .m import NAME` (filled by generate() for that target
# only, after the checks of resolve_imported()).  NAME -> (kind, data):
#   'const'      NAME = T(<literal>, ..), T a namedtuple class of that module: every read of NAME is the constant
#                object with T's fields (objects are values in Py.v; nothing can mutate a namedtuple)
#   'namedtuple' NAME = collections.namedtuple('NAME', [<field names>]): the call NAME(a, b) with exactly one
#                positional argument per field is printed as the call of the builtin "%NAME" (not a Python name) whose
#                meaning the theorems give: the object with these fields (listed in the Gen file as NAME_fields)
#   'qtable'     NAME = {'key': <arithmetic over literals>, ..} (exact rationals as for the kind 'qtable'; duplicate
#                keys refused; never modified anywhere in the package): two uses are printed,
#                   x in NAME / x not in NAME  ==  x in ('key1', 'key2', ..)   (membership in a dict with str keys is
#                       equality with one of the keys, for every hashable x; for an UNHASHABLE x - a list, a dict -
#                       Python raises TypeError where the printed form answers False: the theorems are about str x)
#                   NAME[x], x a plain name    ==  v1 if x == 'key1' else v2 if x == 'key2' else .. else %KeyError(x)
#                       ("%KeyError" is not a Python name: a builtin that the theorems define as raising KeyError)
#                   list(NAME.values())        ==  the list of the values in the order of the display (dicts keep
#                       insertion order; duplicate keys are refused)
#                any other use of NAME is refused.  The display may also be the comprehension
#                {k: E for k, f in (('key1', <arith>), ..)} with E arithmetic over f, integer literals and E0['key'],
#                E0 a table of kind 'entries' of the same option.
#   'entries'    NAME = {'key': <value>, ..} (never modified anywhere in the package): the only use is NAME['key']
#                with a constant key whose value in the display is arithmetic over literals: printed as that number
# The source file of the defining module may be the module of the target itself: the name is then bound by its one
# top-level assignment there (no import).
IMPORTED = {}


def imported_expr(e):
    if isinstance(e, ast.Name) and e.id in IMPORTED:
        kind, data = IMPORTED[e.id]
        if kind == 'const' and isinstance(e.ctx, ast.Load):
            return '(EConst %s)' % data
        raise Unsupported('the imported %s %s is used other than as documented for the option imports' % (kind, e.id))
    if isinstance(e, ast.Compare) and len(e.ops) == 1 and isinstance(e.ops[0], (ast.In, ast.NotIn)) \
            and isinstance(e.comparators[0], ast.Name) and IMPORTED.get(e.comparators[0].id, ('', 0))[0] == 'qtable':
        rows = IMPORTED[e.comparators[0].id][1]
        return '(EIn %s %s (EConst (VList [%s])))' % (
            'true' if isinstance(e.ops[0], ast.NotIn) else 'false', expr(e.left),
            '; '.join('(VStr %s)' % q(k) for k, _ in rows))
    if isinstance(e, ast.Call) and isinstance(e.func, ast.Name) and e.func.id == 'list' and len(e.args) == 1 \
            and not e.keywords and isinstance(e.args[0], ast.Call) and not e.args[0].args and not e.args[0].keywords \
            and isinstance(e.args[0].func, ast.Attribute) and e.args[0].func.attr == 'values' \
            and isinstance(e.args[0].func.value, ast.Name) \
            and IMPORTED.get(e.args[0].func.value.id, ('', 0))[0] == 'qtable':
        builtin_not_rebound('list')
        return '(EConst (VList [%s]))' % '; '.join(
            '(VNum ((%d)#%d))' % (fr.numerator, fr.denominator) for _, fr in IMPORTED[e.args[0].func.value.id][1])
    if isinstance(e, ast.Subscript) and isinstance(e.value, ast.Name) \
            and IMPORTED.get(e.value.id, ('', 0))[0] == 'entries':
        if not isinstance(e.ctx, ast.Load) or not isinstance(e.slice, ast.Constant) \
                or e.slice.value not in IMPORTED[e.value.id][1]:
            raise Unsupported('subscript of the table %s: not a read of a known constant key' % e.value.id)
        fr = IMPORTED[e.value.id][1][e.slice.value]
        return '(EConst (VNum ((%d)#%d)))' % (fr.numerator, fr.denominator)
    if isinstance(e, ast.Subscript) and isinstance(e.value, ast.Name) \
            and IMPORTED.get(e.value.id, ('', 0))[0] == 'qtable':
        if not isinstance(e.ctx, ast.Load) or not isinstance(e.slice, ast.Name) or e.slice.id in IMPORTED:
            raise Unsupported('subscript of the imported table %s: not a read with a plain name' % e.value.id)
        x = expr(e.slice)
        r = '(ECall "%%KeyError" [%s])' % x
        for k, fr in reversed(IMPORTED[e.value.id][1]):
            r = '(ECond (ECmp %s [(Eq, (EConst (VStr %s)))]) (EConst (VNum ((%d)#%d))) %s)' % (
                x, q(k), fr.numerator, fr.denominator, r)
        return r
    if isinstance(e, ast.Call) and isinstance(e.func, ast.Name) \
            and IMPORTED.get(e.func.id, ('', 0))[0] == 'namedtuple':
        fields = IMPORTED[e.func.id][1]
        if e.keywords or len(e.args) != len(fields) or any(isinstance(a, ast.Starred) for a in e.args):
            raise Unsupported('call of the namedtuple %s: not one positional argument per field' % e.func.id)
        return '(ECall %s [%s])' % (q('%' + e.func.id), '; '.join(expr(a) for a in e.args))
    return None


def single_binding(tree, name, imported_from=None):
    """The only binding of `name` anywhere in the module `tree`.  imported_from=None: one plain top-level statement
    `name = value` (returned); imported_from='m': one top-level `from .m import name` (no asname).  Refused: any other
    store / del of the name, a def / class / parameter / import alias / except target / global declaration of it,
    `import *`."""
    stores = [n for n in ast.walk(tree) if isinstance(n, ast.Name) and n.id == name and not isinstance(n.ctx, ast.Load)]
    aliases = [(n, a) for n in ast.walk(tree) if isinstance(n, (ast.Import, ast.ImportFrom)) for a in n.names
               if (a.asname or a.name).split('.')[0] == name or a.name == '*']
    for n in ast.walk(tree):
        if isinstance(n, (ast.FunctionDef, ast.AsyncFunctionDef, ast.ClassDef)) and n.name == name:
            raise Unsupported('%s is defined as a function / class' % name)
        if isinstance(n, ast.arg) and n.arg == name:
            raise Unsupported('%s is a parameter name in the module' % name)
        if isinstance(n, ast.ExceptHandler) and n.name == name:
            raise Unsupported('%s is bound by an except clause' % name)
        if isinstance(n, (ast.Global, ast.Nonlocal)) and name in n.names:
            raise Unsupported('%s is declared global / nonlocal' % name)
    if imported_from is None:
        defs = [s for s in tree.body if isinstance(s, ast.Assign) and len(s.targets) == 1
                and isinstance(s.targets[0], ast.Name) and s.targets[0].id == name]
        if len(defs) != 1 or len(stores) != 1 or aliases:
            raise Unsupported('%s is not bound by exactly one top-level assignment of its module' % name)
        return defs[0].value
    ok = [(n, a) for n, a in aliases if isinstance(n, ast.ImportFrom) and n in tree.body and n.level == 1
          and n.module == imported_from and a.name == name and a.asname is None]
    if len(ok) != 1 or len(aliases) != 1 or stores:
        raise Unsupported('%s is not bound only by `from .%s import %s`' % (name, imported_from, name))
    return None


def namedtuple_fields(tree, name):
    """`name = collections.namedtuple('name', ['f1', 'f2'])` (the module imports collections and rebinds neither)"""
    v = single_binding(tree, name)
    if not (isinstance(v, ast.Call) and ast.unparse(v.func) == 'collections.namedtuple' and not v.keywords
            and len(v.args) == 2 and isinstance(v.args[0], ast.Constant) and v.args[0].value == name
            and isinstance(v.args[1], (ast.List, ast.Tuple)) and v.args[1].elts
            and all(isinstance(x, ast.Constant) and isinstance(x.value, str) and x.value.isidentifier()
                    for x in v.args[1].elts)):
        raise Unsupported('%s is not collections.namedtuple(%r, [<field names>])' % (name, name))
    imp = [n for n in tree.body if isinstance(n, ast.Import) and any(
        a.name == 'collections' and a.asname is None for a in n.names)]
    if len(imp) != 1 or any(isinstance(n, ast.Name) and n.id == 'collections' and not isinstance(n.ctx, ast.Load)
                            for n in ast.walk(tree)):
        raise Unsupported('collections is not the imported module')
    fields = [x.value for x in v.args[1].elts]
    if len(set(fields)) != len(fields):
        raise Unsupported('duplicate field of %s' % name)
    return fields


def never_modified(repo, src, name, stored_keys=None):
    """in every module of the package that mentions `name`, it (or an attribute .name of a module object) is neither
    stored / deleted, nor subscripted as a target, nor the receiver of a method that changes a dict.  With stored_keys
    (a set): an assignment NAME['k'] = .. with a constant key is not refused, its key is added to the set (the caller
    forgets what the display says about that key)"""
    top = os.path.join(repo, src.split('/')[0])
    for d, _, files in sorted(os.walk(top)):
        for f in sorted(files):
            if not f.endswith('.py'):
                continue
            text = open(os.path.join(d, f)).read()
            if name not in text:
                continue
            for n in ast.walk(ast.parse(text)):
                def is_it(x):
                    return (isinstance(x, ast.Name) and x.id == name) or \
                        (isinstance(x, ast.Attribute) and x.attr == name)
                if isinstance(n, ast.Attribute) and n.attr == name and not isinstance(n.ctx, ast.Load):
                    raise Unsupported('table %s is rebound through a module object in %s' % (name, f))
                if isinstance(n, ast.Subscript) and is_it(n.value) and isinstance(n.ctx, ast.Store) \
                        and stored_keys is not None and isinstance(n.slice, ast.Constant):
                    stored_keys.add(n.slice.value)
                    continue
                if isinstance(n, ast.Subscript) and is_it(n.value) and not isinstance(n.ctx, ast.Load):
                    raise Unsupported('table %s is modified by a subscript assignment in %s' % (name, f))
                if isinstance(n, ast.Attribute) and is_it(n.value) and n.attr in (
                        'update', 'pop', 'popitem', 'clear', 'setdefault', '__setitem__', '__delitem__',
                        '__ior__'):
                    raise Unsupported('table %s: method %s is used in %s' % (name, n.attr, f))
                if isinstance(n, ast.AugAssign) and is_it(n.target):
                    raise Unsupported('table %s is the target of an augmented assignment in %s' % (name, f))


def exact_arith(e, dsource, env, entries):
    """exact_q extended with names bound to rationals (env) and reads E0['key'] of resolved 'entries' tables"""
    if isinstance(e, ast.Name) and e.id in env:
        return env[e.id]
    if isinstance(e, ast.Subscript) and isinstance(e.value, ast.Name) and e.value.id in entries \
            and isinstance(e.slice, ast.Constant) and e.slice.value in entries[e.value.id]:
        return entries[e.value.id][e.slice.value]
    if isinstance(e, ast.BinOp) and type(e.op) in BIN:
        a, b = exact_arith(e.left, dsource, env, entries), exact_arith(e.right, dsource, env, entries)
        if isinstance(e.op, ast.Div) and b == 0:
            raise Unsupported('division by zero in table')
        return a + b if isinstance(e.op, ast.Add) else a - b if isinstance(e.op, ast.Sub) else \
            a * b if isinstance(e.op, ast.Mult) else a / b
    return exact_q(e, dsource)


def resolve_imported(repo, src, tree, spec):
    """The table IMPORTED for the option 'imports' of a target of the module `src` (see IMPORTED): every check that
    makes the printed constant the value the name has when the function runs."""
    out, entries = {}, {}
    for name, (defsrc, kind) in sorted(spec.items(), key=lambda kv: kv[1][1] == 'qtable'):
        if defsrc == src:
            dsource, dtree = open(os.path.join(repo, src)).read(), tree
        else:
            if os.path.dirname(defsrc) != os.path.dirname(src):
                raise Unsupported('%s: only `from .m import` of a module of the same package is understood' % name)
            single_binding(tree, name, os.path.basename(defsrc)[:-3])
            dsource = open(os.path.join(repo, defsrc)).read()
            dtree = ast.parse(dsource)
        if kind == 'namedtuple':
            out[name] = (kind, namedtuple_fields(dtree, name))
        elif kind == 'const':
            v = single_binding(dtree, name)
            if not (isinstance(v, ast.Call) and isinstance(v.func, ast.Name) and not v.keywords
                    and all(isinstance(a, ast.Constant) and not isinstance(a.value, (bytes, float, complex))
                            and a.value is not Ellipsis for a in v.args)):
                raise Unsupported('%s is not <namedtuple>(<literals>)' % name)
            fields = namedtuple_fields(dtree, v.func.id)
            if len(fields) != len(v.args):
                raise Unsupported('%s: number of fields' % name)
            out[name] = (kind, '(VObj [%s])' % '; '.join(
                '(%s, %s)' % (q(f), const(a.value)) for f, a in zip(fields, v.args)))
        elif kind == 'entries':
            v = single_binding(dtree, name)
            if not isinstance(v, ast.Dict):
                raise Unsupported('table %s: not a dict display' % name)
            keys = [k.value if isinstance(k, ast.Constant) else None for k in v.keys]
            if None in keys or len(set(keys)) != len(keys):
                raise Unsupported('table %s: a key that is not a constant, or a duplicate key' % name)
            known = {}
            for k, x in zip(keys, v.values):
                try:
                    known[k] = exact_q(x, dsource)
                except Unsupported:
                    pass          # an entry that is not a number: reading it is refused by imported_expr
            stored = set()
            never_modified(repo, src, name, stored)
            known = {k: x for k, x in known.items() if k not in stored}
            out[name] = (kind, known)
            entries[name] = known
        elif kind == 'qtable':
            v = single_binding(dtree, name)
            rows = []
            if isinstance(v, ast.Dict):
                pairs = [(k, exact_q(x, dsource)) for k, x in zip(v.keys, v.values)]
            elif isinstance(v, ast.DictComp) and len(v.generators) == 1 and not v.generators[0].ifs \
                    and not v.generators[0].is_async and isinstance(v.generators[0].target, ast.Tuple) \
                    and len(v.generators[0].target.elts) == 2 \
                    and all(isinstance(t, ast.Name) for t in v.generators[0].target.elts) \
                    and v.generators[0].target.elts[0].id != v.generators[0].target.elts[1].id \
                    and isinstance(v.key, ast.Name) and v.key.id == v.generators[0].target.elts[0].id \
                    and isinstance(v.generators[0].iter, (ast.Tuple, ast.List)):
                fvar = v.generators[0].target.elts[1].id
                pairs = []
                for it in v.generators[0].iter.elts:
                    if not (isinstance(it, ast.Tuple) and len(it.elts) == 2):
                        raise Unsupported('table %s: an item of the comprehension is not a pair' % name)
                    pairs.append((it.elts[0], exact_arith(v.value, dsource, {fvar: exact_q(it.elts[1], dsource)},
                                                          entries)))
            else:
                raise Unsupported('table %s: not a dict display / comprehension over a display of pairs' % name)
            for k, fr in pairs:
                if not (isinstance(k, ast.Constant) and isinstance(k.value, str)) or k.value in [r[0] for r in rows]:
                    raise Unsupported('table %s: key %s' % (name, ast.dump(k)[:60] if k is not None else '**'))
                rows.append((k.value, fr))
            never_modified(repo, src, name)
            out[name] = (kind, rows)
        else:
            raise Unsupported('imports: kind %s' % kind)
    return out


# the function being printed and its module (set by translate_function), for checks that need the context
CURRENT = [None, None]
# options 'seq_ops' / 'for_break' / 'unpack_gen' of the target being printed (set by translate_function; off for
# every other target, whose printed form is unchanged)
SEQ_OPS = [False]
FOR_BREAK = [False]
UNPACK_GEN = [False]
# option 'rebuild' of the target being printed (see rebuild_for)
REBUILD = [False]


def seq_op(e):
    """Option 'seq_ops': in this target `a + b`, `a * b` and `len(a)` may have strings / lists as operands.  They are
    printed as the primitives PSeqAdd / PSeqMul / PSeqLen of Py.v (operands evaluated from left to right, as Python
    does), whose meaning [prim_apply] covers numbers (sum, product), two strings / two lists (concatenation), a
    string / list and an integer in either order (repetition; none for n <= 0) and the length of a string or a list;
    any other operands are the error value TypeError.  Nothing is decided here: the printer does not know the types."""
    if isinstance(e, ast.BinOp) and isinstance(e.op, ast.Add):
        return '(EPrim PSeqAdd [%s; %s])' % (expr(e.left), expr(e.right))
    if isinstance(e, ast.BinOp) and isinstance(e.op, ast.Mult):
        return '(EPrim PSeqMul [%s; %s])' % (expr(e.left), expr(e.right))
    if isinstance(e, ast.Call) and isinstance(e.func, ast.Name) and e.func.id == 'len' and len(e.args) == 1 \
            and not e.keywords and not isinstance(e.args[0], ast.Starred):
        BUILTINS_SEEN.append('len')   # generate() checks that the name denotes the builtin
        return '(EPrim PSeqLen [%s])' % expr(e.args[0])
    return None


def guard_breaks(stmts):
    """See for_with_break: `break` becomes `%brk = True` (it must end its block), and the statements that follow an
    `if` in which a break occurs are put under `if not %brk:`."""
    out = []
    for i, st in enumerate(stmts):
        if isinstance(st, ast.Break):
            if i != len(stmts) - 1:
                raise Unsupported('statements after a break')
            out.append(ast.Assign(targets=[ast.Name(id='%brk', ctx=ast.Store())], value=ast.Constant(value=True)))
            return out
        if isinstance(st, ast.If) and any(isinstance(m, ast.Break) for m in ast.walk(st)):
            out.append(ast.If(test=st.test, body=guard_breaks(list(st.body)) or [ast.Pass()],
                              orelse=guard_breaks(list(st.orelse))))
            rest = guard_breaks(list(stmts[i + 1:]))
            if rest:
                out.append(ast.If(test=ast.UnaryOp(op=ast.Not(), operand=ast.Name(id='%brk', ctx=ast.Load())),
                                  body=rest, orelse=[]))
            return out
        if any(isinstance(m, ast.Break) for m in ast.walk(st)):
            raise Unsupported('break inside %s' % type(st).__name__)
        out.append(st)
    return out


def for_with_break(s):
    """Option 'for_break':  for T in it: BODY  [else: ELSE]   with `break` in BODY (through ifs only)   ==
         %brk = False
         for %item in it:
             if not %brk:
                 T = %item
                 BODY'                    # `break` -> `%brk = True`; what follows an `if` holding one -> `if not %brk:`
         if not %brk: ELSE                # only when there is an else clause
    ("%brk", "%item" are not Python names).  Meaning-preserving for every input: once the flag is set nothing of the
    loop is executed any more (no statement of BODY, no rebinding of T: the targets keep the values they had at the
    break, as in Python), the remaining items of the list are only skipped, and the else clause runs exactly when the
    loop ended without break.  SFor of Py.v does not consume "%flow", so a printed SBreak would be wrong there: this
    rewriting needs nothing from the interpreter.  Refused: loops / functions / try / with inside BODY or ELSE (a
    nested loop would need a second flag), a `continue` that fold_continue does not remove, statements after a
    break, a target that is not a name or a tuple of distinct names."""
    for n in ast.walk(ast.Module(body=list(s.body) + list(s.orelse), type_ignores=[])):
        if isinstance(n, (ast.For, ast.While, ast.AsyncFor, ast.FunctionDef, ast.AsyncFunctionDef, ast.Lambda,
                          ast.ClassDef, ast.Try, ast.With, ast.AsyncWith, ast.Yield, ast.YieldFrom, ast.Global,
                          ast.Nonlocal, ast.NamedExpr)):
            raise Unsupported('%s inside a for loop with break / else' % type(n).__name__)
    if isinstance(s.target, ast.Name):
        bind = '(SAssign [%s] (EVar "%%item"))' % target(s.target)
    elif isinstance(s.target, ast.Tuple) and all(isinstance(t, ast.Name) for t in s.target.elts) \
            and len({t.id for t in s.target.elts}) == len(s.target.elts):
        bind = '(SUnpack [%s] (EVar "%%item"))' % '; '.join(target(t) for t in s.target.elts)
    else:
        raise Unsupported('target of a for loop with break / else')
    body = guard_breaks(fold_continue(list(s.body)))
    for b in body + list(s.orelse):
        for m in ast.walk(b):
            if isinstance(m, (ast.Break, ast.Continue)):
                raise Unsupported('break / continue left in a for loop with break / else')
    text = '(SAssign [(TVar "%%brk")] (EConst (VBool false))); ' \
           '(SFor "%%item" %s [(SIf (ENot (EVar "%%brk")) [%s; %s] [])])' % (expr(s.iter), bind, block(body))
    if s.orelse:
        text += '; (SIf (ENot (EVar "%%brk")) [%s] [])' % block(list(s.orelse))
    return text


def chain_position(fn, var):
    """index, in the body of fn, of the unique top-level statement `if var == '<string constant>': .. elif ..`"""
    idx = [i for i, s in enumerate(fn.body) if isinstance(s, ast.If) and isinstance(s.test, ast.Compare)
           and len(s.test.ops) == 1 and isinstance(s.test.ops[0], ast.Eq) and isinstance(s.test.left, ast.Name)
           and s.test.left.id == var and isinstance(s.test.comparators[0], ast.Constant)
           and isinstance(s.test.comparators[0].value, str)]
    if len(idx) != 1:
        raise Unsupported('%d if-chains on %s at the top level of %s' % (len(idx), var, fn.name))
    return idx[0]


def builtin_not_rebound(name):
    fn, tree = CURRENT
    if fn is None or tree is None:
        raise Unsupported('builtin %s used where the module is not known' % name)
    for n in ast.walk(fn):
        if isinstance(n, ast.Name) and not isinstance(n.ctx, ast.Load) and n.id == name:
            raise Unsupported('%s is rebound inside %s' % (name, fn.name))
        if isinstance(n, ast.arg) and n.arg == name:
            raise Unsupported('%s is a parameter in %s' % (name, fn.name))
        if isinstance(n, (ast.Global, ast.Nonlocal)) and name in n.names:
            raise Unsupported('%s is declared global in %s' % (name, fn.name))
    for n in ast.walk(tree):
        if isinstance(n, (ast.FunctionDef, ast.AsyncFunctionDef, ast.ClassDef)) and n.name == name:
            raise Unsupported('%s is defined in the module' % name)
        if isinstance(n, (ast.Import, ast.ImportFrom)) and any(
                (a.asname or a.name).split('.')[0] == name or a.name == '*' for a in n.names):
            raise Unsupported('%s may be imported in the module' % name)
        if isinstance(n, (ast.Global, ast.Nonlocal)) and name in n.names:
            raise Unsupported('%s is declared global somewhere in the module' % name)
    for n in tree.body:
        for x in ast.walk(n) if not isinstance(n, (ast.FunctionDef, ast.AsyncFunctionDef, ast.ClassDef)) else []:
            if isinstance(x, ast.Name) and not isinstance(x.ctx, ast.Load) and x.id == name:
                raise Unsupported('%s is rebound at the top level of the module' % name)


BUILTINS_SEEN = []


def iterable(it):
    """the iterable of a comprehension / generator: `range(n)` is iterated as the list 0 .. n-1 (PRange); anything
    else is an ordinary expression"""
    if isinstance(it, ast.Call) and isinstance(it.func, ast.Name) and it.func.id == 'range':
        if len(it.args) != 1 or it.keywords or isinstance(it.args[0], ast.Starred):
            raise Unsupported('range with other than one argument')
        BUILTINS_SEEN.append('range')
        return '(EPrim PRange [%s])' % expr(it.args[0])
    return expr(it)


def check_builtin(tree, fn, name):
    """`name` (len / range) denotes the builtin: bound neither in the function nor at the module level"""
    for n in ast.walk(fn):
        if (isinstance(n, ast.Name) and not isinstance(n.ctx, ast.Load) and n.id == name) \
                or (isinstance(n, ast.arg) and n.arg == name) \
                or (isinstance(n, (ast.Global, ast.Nonlocal)) and name in n.names):
            raise Unsupported('%s is rebound inside %s' % (name, fn.name))
    for n in ast.walk(tree):
        if isinstance(n, (ast.FunctionDef, ast.ClassDef)) and n.name == name:
            raise Unsupported('the module defines %s' % name)
        if isinstance(n, (ast.Import, ast.ImportFrom)) and any((a.asname or a.name) in (name, '*') for a in n.names):
            raise Unsupported('the module imports %s' % name)
        if isinstance(n, (ast.Global, ast.Nonlocal)) and name in n.names:
            raise Unsupported('global declaration of %s' % name)
    for n in tree.body:
        for x in ast.walk(n) if not isinstance(n, (ast.FunctionDef, ast.ClassDef)) else []:
            if isinstance(x, ast.Name) and not isinstance(x.ctx, ast.Load) and x.id == name:
                raise Unsupported('the module binds %s' % name)


def pure(x):
    """names and attribute chains only: evaluating them twice, or not at all, cannot be observed"""
    if isinstance(x, ast.Constant) and type(x.value) is int:
        return   # an integer literal (the elements of range(<literal>))
    while isinstance(x, ast.Attribute):
        if x.attr in PROP_GET:
            raise Unsupported('element of a display reads the property %s' % x.attr)
        x = x.value
    if not isinstance(x, ast.Name):
        raise Unsupported('element %s of a display is not a name / attribute' % ast.dump(x)[:80])


class Subst(ast.NodeTransformer):
    def __init__(self, name, by):
        self.name, self.by = name, by

    def visit_Name(self, n):
        import copy
        return copy.deepcopy(self.by) if isinstance(n.ctx, ast.Load) and n.id == self.name else n


def sum_over_display(g):
    """sum(elt for x in (a, b, c) if cond)  ==  0 + (elt[a] if cond[a] else 0) + ...   over a tuple / list display of
    pure elements (Python's sum starts from 0 and adds from the left; an element filtered out adds nothing, here 0)"""
    if len(g.generators) != 1:
        raise Unsupported('sum over nested generators')
    gen = g.generators[0]
    it = gen.iter
    if isinstance(it, ast.Call) and isinstance(it.func, ast.Name) and it.func.id == 'range' and len(it.args) == 1 \
            and not it.keywords and isinstance(it.args[0], ast.Constant) and type(it.args[0].value) is int \
            and 0 <= it.args[0].value <= 16:
        # sum(elt for k in range(3))  ==  sum(elt for k in (0, 1, 2))
        BUILTINS_SEEN.append('range')
        it = ast.Tuple(elts=[ast.Constant(value=i) for i in range(it.args[0].value)], ctx=ast.Load())
    if not (isinstance(gen.target, ast.Name) and isinstance(it, (ast.Tuple, ast.List)) and len(gen.ifs) <= 1
            and not gen.is_async):
        raise Unsupported('sum over %s' % ast.dump(gen.iter)[:80])
    import copy
    r = '(EConst (VNum 0))'
    for x in it.elts:
        pure(x)
        elt = Subst(gen.target.id, x).visit(copy.deepcopy(g.elt))
        term = expr(elt)
        if gen.ifs:
            cond = Subst(gen.target.id, x).visit(copy.deepcopy(gen.ifs[0]))
            term = '(ECond %s %s (EConst (VNum 0)))' % (expr(cond), term)
        r = '(EBin Add %s %s)' % (r, term)
    return r


# name -> (parameter names, {parameter: default expression text}) of the functions that may be called: the other
# translation targets (filled by generate()); methods are registered as ".name" with self first
CALLABLE = {}
CALLS_SEEN = []
# translated methods declared `@staticmethod` (option 'static' of their target; generate() checks the decorator):
# ".name" -- a call x.name(a, b) passes a, b only (see call())
STATIC_METHODS = set()
# Python builtins printed as primitives in the body being translated (abs, reversed): translate_function refuses
# the target when the module binds one of these names itself
NAMED_BUILTINS_SEEN = []
# functions outside the translated subset that a body may call: they stay oracles ([ocall] with a hypothesis in
# the theorem, recorded in the trusted base), name -> parameter names
EXTERNAL = {
    'shrink_to_fit': (['context', 'box', 'available_content_width'], {}),
    'justify_line': (['context', 'line', 'extra_width'], {}),
    'resolve_position_percentages': (['box', 'containing_block'], {}),
    '.translate': (['self', 'dx', 'dy', 'ignore_floats'],
                   {'dx': '(EConst (VNum (0#1)))', 'dy': '(EConst (VNum (0#1)))',
                    'ignore_floats': '(EConst (VBool false))'}),
    '.page_values': (['self'], {}),
    # Box.copy_with_children(new_children): a copy of the box with these children (make_page: the root of a blank page)
    '.copy_with_children': (['self', 'new_children'], {}),
    # layout/percent.py: sets the used widths, margins, paddings, border widths as attributes of `box`
    'resolve_percentages': (['box', 'containing_block'], {}),
    # OrientedBox.restore_box_attributes copies margin_a / margin_b / inner back to the real box
    '.restore_box_attributes': (['self'], {}),
    # CounterStyle.render_value calling itself (decimal / fallback style): an oracle in the slices of its own body
    '.render_value': (['self', 'counter_value', 'counter_name', 'counter', 'previous_types'],
                      {'counter_name': '(EConst VNone)', 'counter': '(EConst VNone)',
                       'previous_types': '(EConst VNone)'}),
    # the builtin hasattr(obj, 'name'), the name a compile-time constant (after specialise()): whether the object has
    # the attribute is stated by the theorems (an entry of the association list that represents the object)
    'hasattr': (['obj', 'name'], {}),
    # image.get_intrinsic_size(image_resolution, font_size) of the replacement object (images.py): (width, height, ratio)
    '.get_intrinsic_size': (['self', 'image_resolution', 'font_size'], {}),
    # Box.is_floated(): style['float'] in ('left', 'right') (boxes.py); no effect
    '.is_floated': (['self'], {}),
    # css/computed_values.py: character_ratio(style, 'x' | '0'), the ratio 1ex / font-size or 1ch / font-size measured
    # by Pango on the element's font (a number; cached per font)
    'character_ratio': (['style', 'character'], {}),
    # Stream.get_marked_content_tag(element_tag) of pdf/stream.py: the structure tag (a str) of an HTML element name
    '.get_marked_content_tag': (['self', 'element_tag'], {}),
    # layout/float.py avoid_collisions(context, box, containing_block, outer=True): (position_x, position_y,
    # available_width); an oracle in find_float_position (its loop is regenerated separately: target avoid_loop)
    'avoid_collisions': (['context', 'box', 'containing_block', 'outer'], {'outer': '(EConst (VBool true))'}),
}
# oracles declared by ONE target (option 'oracle_stmts': name -> (parameters, mutated parameters)), in force while that
# target is printed (set by generate()): the statement `f(a, b)` is printed like the statements of EXTERNAL_STMT, as
# %call, m1, .. = f(a, b), also when `f` is the name of a translation target (the name as bound in THAT function is
# another object, e.g. the decorated block_level_width imported inside replaced_box_width); a function-level
# `from m import f` of such a name is printed as SPass (it only binds the callee of the oracle)
TARGET_ORACLE = {}
# external functions that may be called as a STATEMENT `f(a, b)` (their effect is outside the translated subset):
# name -> the parameters whose object the callee may mutate.  The embedding has value semantics, so the statement is
# printed as the unpacking  %call, m1, .., mk = f(a, b) : the oracle answers the list [returned value; state of m1
# after the call; ..] and the mutated arguments (which must be plain names) are rebound.  The variable "%call"
# (not a Python name) is bound in the final environment exactly when such a statement was executed.
# (an oracle of EXTERNAL that is not listed here mutates nothing the translated code reads again: its statement is
# printed as the assignment of its result to "%call")
EXTERNAL_STMT = {
    'justify_line': ['line'],
    'resolve_position_percentages': ['box'],
    '.translate': ['self'],
    'resolve_percentages': ['box'],
}


def call(e):
    if isinstance(e.func, ast.Name):
        name, args = e.func.id, list(e.args)
    elif isinstance(e.func, ast.Attribute):
        name, args = '.' + e.func.attr, [e.func.value] + list(e.args)
    else:
        raise Unsupported(ast.dump(e)[:200])
    if name in TARGET_ORACLE:
        raise Unsupported('%s is a statement oracle of this target: not callable in an expression' % name)
    if name in STATIC_METHODS:
        # x.m(a, b) where m is a translated @staticmethod (option 'static' of its target): the callee does not receive
        # x.  The receiver is dropped from the printed call only when evaluating it can neither fail nor do anything:
        # it must be the first parameter of the function being printed (bound on entry) and never rebound / deleted
        # there.  Like every method the callee is resolved by name.
        fn_ = CURRENT[0]
        r_ = args[0]
        if fn_ is None or not isinstance(r_, ast.Name) or not fn_.args.args or fn_.args.args[0].arg != r_.id or any(
                isinstance(n_, ast.Name) and n_.id == r_.id and not isinstance(n_.ctx, ast.Load)
                for n_ in ast.walk(fn_)):
            raise Unsupported('receiver of the static method %s is not the (never rebound) first parameter' % name)
        args = args[1:]
    if name in CALLABLE:
        params, defaults = CALLABLE[name]
    elif name in EXTERNAL:
        params, defaults = EXTERNAL[name]
    else:
        raise Unsupported('call of %s (not a translation target)' % name)
    if any(isinstance(a, ast.Starred) for a in args) or any(k.arg is None for k in e.keywords):
        raise Unsupported('star arguments in call of %s' % name)
    if len(args) > len(params):
        raise Unsupported('too many arguments in call of %s' % name)
    given = {p: expr(a) for p, a in zip(params, args)}
    for k in e.keywords:
        if k.arg not in params or k.arg in given:
            raise Unsupported('keyword %s in call of %s' % (k.arg, name))
        given[k.arg] = expr(k.value)
    out = []
    for p_ in params:
        if p_ in given:
            out.append(given[p_])
        elif p_ in defaults:
            out.append(defaults[p_])
        else:
            raise Unsupported('missing argument %s in call of %s' % (p_, name))
    CALLS_SEEN.append(name)
    return '(ECall %s [%s])' % (q(name), '; '.join(out))


def call_stmt(e):
    """statement-level call of an external function (see EXTERNAL_STMT)"""
    if isinstance(e.func, ast.Name):
        name, args = e.func.id, list(e.args)
    elif isinstance(e.func, ast.Attribute):
        name, args = '.' + e.func.attr, [e.func.value] + list(e.args)
    else:
        raise Unsupported(ast.dump(e)[:200])
    if name in CALLABLE or name not in EXTERNAL or name not in EXTERNAL_STMT:
        raise Unsupported('statement-level call of %s (not an external statement function)' % name)
    text = call(e)
    params = EXTERNAL[name][0]
    given = dict(zip(params, args))
    for k in e.keywords:
        given[k.arg] = k.value
    targets = ['(TVar "%call")']
    for m in EXTERNAL_STMT[name]:
        a = given.get(m)
        if not isinstance(a, ast.Name):
            raise Unsupported('argument %s of the statement-level call of %s is not a plain name' % (m, name))
        targets.append('(TVar %s)' % q(a.id))
    return '(SUnpack [%s] %s)' % ('; '.join(targets), text)


def oracle_stmt(e, result=None):
    """statement-level call `f(a, b)` of an oracle declared by the target being printed (see TARGET_ORACLE): positional
    arguments only, exactly the declared parameters; the mutated ones must be plain names and are rebound.
    result: the statement is `result = f(a, b)` (a plain name that is not one of the arguments): the returned value is
    bound to it instead of "%call".  A declared parameter '*name' stands for the argument `*name` where name is the
    vararg of the function being printed (option 'inner': never rebound there): the oracle receives the tuple of the
    extra positional arguments as ONE value (it determines them), and answers its state after the call when the
    parameter is declared mutated (the objects in the tuple may be mutated by the callee).
    The callee may also be written `f.without_min_max` (f a plain name): the attribute that the decorators
    handle_min_max_width / _height of layout/min_max.py put on the wrapper they return (the undecorated function); the
    oracle is then declared, printed and recorded under the dotted name "f.without_min_max", a different oracle from
    "f" (check_binding checks that f is a module-level function under one of these decorators)."""
    name = e.func.id if isinstance(e.func, ast.Name) else '%s.%s' % (e.func.value.id, e.func.attr)
    params, mutated = TARGET_ORACLE[name]
    if any(p_.startswith('*') for p_ in params):
        import copy
        if VARARG[0] is None or e.keywords or len(e.args) != len(params):
            raise Unsupported('arguments of the oracle statement %s' % name)
        e = copy.copy(e)
        e.args = list(e.args)
        for i, p_ in enumerate(params):
            starred = isinstance(e.args[i], ast.Starred)
            if starred != p_.startswith('*'):
                raise Unsupported('star argument of the oracle statement %s' % name)
            if starred:
                if p_ != '*' + VARARG[0] or not isinstance(e.args[i].value, ast.Name) \
                        or e.args[i].value.id != VARARG[0]:
                    raise Unsupported('star argument of the oracle statement %s is not the vararg of the function' % name)
                e.args[i] = e.args[i].value
    if e.keywords or len(e.args) != len(params) or any(isinstance(a, ast.Starred) for a in e.args):
        raise Unsupported('arguments of the oracle statement %s' % name)
    targets = ['(TVar "%call")']
    if result is not None:
        if any(isinstance(a, ast.Name) and a.id == result for a in e.args):
            raise Unsupported('the result of the oracle statement %s is bound to one of its arguments' % name)
        targets = ['(TVar %s)' % q(result)]
    for p_, a in zip(params, e.args):
        if p_ in mutated:
            if not isinstance(a, ast.Name):
                raise Unsupported('argument %s of the oracle statement %s is not a plain name' % (p_, name))
            targets.append('(TVar %s)' % q(a.id))
    CALLS_SEEN.append(name)
    return '(SUnpack [%s] (ECall %s [%s]))' % ('; '.join(targets), q(name), '; '.join(expr(a) for a in e.args))


def signature(fn):
    a = fn.args
    if a.vararg or a.kwarg or a.kwonlyargs or a.posonlyargs:
        raise Unsupported('signature of %s' % fn.name)
    params = [x.arg for x in a.args]
    defaults = {}
    for p_, d in zip(params[len(params) - len(a.defaults):], a.defaults):
        if not isinstance(d, ast.Constant):
            raise Unsupported('default of %s in %s' % (p_, fn.name))
        defaults[p_] = '(EConst %s)' % const(d.value)
    return params, defaults


def target(t):
    if isinstance(t, ast.Name):
        return '(TVar %s)' % q(t.id)
    if isinstance(t, ast.Attribute) and isinstance(t.value, ast.Name):
        if t.attr in PROP_GET:
            # only the plain statement `x.prop = e` is understood (stmt() prints the setter there)
            raise Unsupported('assignment to the property %s in this form' % t.attr)
        return '(TAttr %s %s)' % (q(t.value.id), q(t.attr))
    if isinstance(t, ast.Subscript) and isinstance(t.value, ast.Name) and isinstance(t.slice, ast.Constant) \
            and isinstance(t.slice.value, str):
        # x['k'] = e : a dictionary with string keys is the value VObj of Py.v, whose entry ESubscr reads (e['k'])
        return '(TAttr %s %s)' % (q(t.value.id), q(t.slice.value))
    raise Unsupported(ast.dump(t)[:200])


# @property getters and setters of the class named by the 'props' target of the file being printed (filled by
# generate() for that file only): name -> getter FunctionDef ; name -> (parameter, attribute, value expression)
PROP_GET = {}
PROP_SET = {}


def class_properties(tree, clsname):
    """The @property getters and @name.setter setters of the module-level class `clsname`.
    Accepted class body: docstring, undecorated methods (ignored), getters `def p(self)` under exactly @property,
    setters `def p(self, v)` under exactly @p.setter whose body is the single statement `self.<attr> = <expr>` with
    <attr> not a property and <expr> reading only self, v, min, max.  Anything else raises Unsupported.  No other
    class of the module may define a member of the same name (a subclass could override the property)."""
    cls = [n for n in tree.body if isinstance(n, ast.ClassDef) and n.name == clsname]
    if len(cls) != 1:
        raise Unsupported('class %s not found (or defined twice)' % clsname)
    cls = cls[0]
    if cls.keywords or cls.decorator_list:
        raise Unsupported('class %s has a metaclass / decorator' % clsname)
    getters, setters = {}, {}
    for m in cls.body:
        if isinstance(m, ast.Expr) and isinstance(m.value, ast.Constant) and isinstance(m.value.value, str):
            continue
        if not isinstance(m, ast.FunctionDef):
            raise Unsupported('member of %s: %s' % (clsname, ast.dump(m)[:80]))
        if m.name in ('__getattr__', '__getattribute__', '__setattr__', '__new__'):
            raise Unsupported('%s defines %s' % (clsname, m.name))
        if not m.decorator_list:
            continue
        if len(m.decorator_list) != 1:
            raise Unsupported('decorators of %s.%s' % (clsname, m.name))
        d = m.decorator_list[0]
        a = m.args
        if isinstance(d, ast.Name) and d.id == 'staticmethod' and not any(
                isinstance(o, ast.FunctionDef) and o is not m and o.name == m.name for o in cls.body):
            continue    # a static method under exactly @staticmethod whose name no other member bears: not a property
        if a.vararg or a.kwarg or a.kwonlyargs or a.posonlyargs or a.defaults:
            raise Unsupported('signature of %s.%s' % (clsname, m.name))
        if isinstance(d, ast.Name) and d.id == 'property':
            if [x.arg for x in a.args] != ['self'] or m.name in getters:
                raise Unsupported('getter %s.%s' % (clsname, m.name))
            getters[m.name] = m
        elif isinstance(d, ast.Attribute) and d.attr == 'setter' and isinstance(d.value, ast.Name) \
                and d.value.id == m.name and m.name in getters and m.name not in setters:
            if len(a.args) != 2 or a.args[0].arg != 'self' or a.args[1].arg == 'self':
                raise Unsupported('setter %s.%s' % (clsname, m.name))
            setters[m.name] = m
        else:
            raise Unsupported('decorator of %s.%s' % (clsname, m.name))
    out_set = {}
    for name, m in setters.items():
        par = m.args.args[1].arg
        if len(m.body) != 1 or not isinstance(m.body[0], ast.Assign) or len(m.body[0].targets) != 1:
            raise Unsupported('setter %s.%s is not a single assignment' % (clsname, name))
        t = m.body[0].targets[0]
        if not (isinstance(t, ast.Attribute) and isinstance(t.value, ast.Name) and t.value.id == 'self') \
                or t.attr in getters:
            raise Unsupported('setter %s.%s does not assign a plain attribute of self' % (clsname, name))
        for n in ast.walk(m.body[0].value):
            if isinstance(n, ast.Name) and n.id not in ('self', par, 'min', 'max'):
                raise Unsupported('setter %s.%s reads %s' % (clsname, name, n.id))
            if isinstance(n, (ast.Lambda, ast.ListComp, ast.GeneratorExp, ast.SetComp, ast.DictComp, ast.NamedExpr)):
                raise Unsupported('setter %s.%s: %s' % (clsname, name, type(n).__name__))
        out_set[name] = (par, t.attr, m.body[0].value)
    for other in ast.walk(tree):
        if isinstance(other, ast.ClassDef) and other is not cls:
            for m in other.body:
                names = [m.name] if isinstance(m, (ast.FunctionDef, ast.ClassDef)) else \
                    [x.id for t in getattr(m, 'targets', []) for x in ast.walk(t) if isinstance(x, ast.Name)] + \
                    ([m.target.id] if isinstance(m, ast.AnnAssign) and isinstance(m.target, ast.Name) else [])
                for nm in names:
                    if nm in getters:
                        raise Unsupported('class %s redefines the property %s of %s' % (other.name, nm, clsname))
    return getters, out_set


def property_assignment(s):
    """`x.prop = e`  ==  the body of the setter with self := x, after binding its parameter to the value of e
    (bound to "%prop.param", not a Python name, so that e is evaluated first and once, as in the call)"""
    t = s.targets[0]
    if t.attr not in PROP_SET:
        raise Unsupported('property %s has no setter' % t.attr)
    if not isinstance(t.value, ast.Name):
        raise Unsupported('assignment to the property %s of %s' % (t.attr, ast.dump(t.value)[:60]))
    par, attr, value = PROP_SET[t.attr]
    import copy
    tmp = '%%%s.%s' % (t.attr, par)
    body = copy.deepcopy(value)
    body = Subst(par, ast.Name(id=tmp, ctx=ast.Load())).visit(body)
    body = Subst('self', ast.Name(id=t.value.id, ctx=ast.Load())).visit(body)
    return '(SAssign [(TVar %s)] %s); (SAssign [(TAttr %s %s)] %s)' % (
        q(tmp), expr(s.value), q(t.value.id), q(attr), expr(body))


# Target option 'obj_methods' (set by translate_function for the target that asks for it; empty for every other
# target): small methods that keep the bookkeeping of an object in list-valued attributes of `self` and emit through
# the methods of a base class that is not in the repository (weasyprint/pdf/stream.py over pydyf.Stream).
#   {'super': {method: [parameter names without self]},   the statements `super().method(a, b)` that may occur
#    'module_calls': {'pydyf.Dictionary': 'dict'}}        calls `module.Class({'k': e, ..})` that may occur
# With the option on:
#  * `super().m(a, b)` as a statement is the oracle statement  %call, self = super.m(self, a, b)  (exactly the
#    declared positional arguments): what the inherited method does to the object is whatever [ocall] answers for the
#    name "super.m" - the list [returned value; state of self after the call] - and is stated by the theorems.  Checked:
#    the statement lies in a method whose first parameter is `self`, and neither self nor super is rebound there.
#  * `x.a.append(e)` as a statement, x a plain name, is  %recv = x.a; %recv.append(e); x.a = %recv  ("%recv" is not a
#    Python name).  Python mutates the list object that x.a names; objects and lists are values in Py.v, so the same
#    effect is the rebinding of the attribute, PROVIDED no second name of that list object can see the difference:
#    check_attr_list_alias() refuses every read of x.a that could create one.  Order: x.a is read, then e is evaluated
#    (expressions have no effect on the environment in Py.v), then the list is extended - as in Python.
#  * `x.a.pop()` as a statement is  %recv = x.a; %call = %recv[-1]; x.a = %recv[:-1]  : on an empty list `%recv[-1]`
#    raises IndexError as pop() does, otherwise the last element is dropped.  (A receiver that is not a list is an
#    error in both: AttributeError in Python, TypeError here.)
#  * `x.a[-1] = e` as a statement (x a plain name, the index the literal -1) is
#    %val = e; %recv = x.a; %recv[-1] = %val; x.a = %recv  ("%val" is not a Python name): Python evaluates e, then x.a,
#    then stores into the list object; with lists as values the same effect is the rebinding of the attribute, under
#    the same no-alias check as for append / pop (a read of x.a inside e is refused).  IndexError on an empty list in
#    both; a receiver that is not a list is TypeError in both.
#  * a bytes literal b'q' (printable ASCII) is the constant VStr "b'q'", the text of its repr: Py.v has no bytes, and
#    a str equal to that text would be confused with it - the theorems about these targets state which values the
#    items of the lists are (none of them is such a str).
#  * `module.Class({'k1': e1, ..})` for a declared dotted name, `module` bound by a module-level `import module` and
#    never rebound, constant distinct string keys: the call of the oracle "module.Class" with the list of the pairs
#    [key; value] in display order (the values evaluated from left to right, as in Python).
OBJ_METHODS = {}
# Target option 'vararg_last' (a method `def m(self, a, b=.., *v)`): the name of the vararg while its body is printed
VARARG_LAST = [None]


def vararg_as_last(fn):
    """option 'vararg_last': a copy of fn whose vararg `*v` is an ordinary LAST parameter v, whose value is the tuple
    of the extra positional arguments of the call (what Python binds v to; () when there is none: its default).
    Meaning-preserving because v is only read: refused when v is rebound / deleted, when a nested function, lambda,
    global or nonlocal occurs, or when fn has keyword-only / positional-only / ** parameters."""
    import copy
    fn = copy.deepcopy(fn)
    a = fn.args
    if not a.vararg or a.kwarg or a.kwonlyargs or a.posonlyargs:
        raise Unsupported('signature of %s (vararg_last)' % fn.name)
    v = a.vararg.arg
    if v in [x.arg for x in a.args]:
        raise Unsupported('the vararg %s of %s is also a parameter' % (v, fn.name))
    for n in ast.walk(fn):
        if isinstance(n, (ast.FunctionDef, ast.AsyncFunctionDef, ast.Lambda, ast.Global, ast.Nonlocal, ast.Delete,
                          ast.NamedExpr)) and n is not fn:
            raise Unsupported('%s inside %s (vararg_last)' % (type(n).__name__, fn.name))
        if isinstance(n, ast.Name) and n.id == v and not isinstance(n.ctx, ast.Load):
            raise Unsupported('the vararg %s of %s is rebound' % (v, fn.name))
    a.args = a.args + [ast.arg(arg=v)]
    a.defaults = a.defaults + [ast.Constant(value=())]
    a.vararg = None
    VARARG_LAST[0] = v
    return fn


def obj_methods_bytes(v):
    text = repr(v)
    if not all(32 <= c < 127 for c in v) or '"' in text or '\\' in text:
        raise Unsupported('bytes literal %s' % text[:40])
    return '(EConst (VStr %s))' % q(text)


def obj_methods_module_call(e):
    """`module.Class({..})`, see OBJ_METHODS; returns None when e is not such a call"""
    if not (isinstance(e, ast.Call) and isinstance(e.func, ast.Attribute) and isinstance(e.func.value, ast.Name)):
        return None
    name = '%s.%s' % (e.func.value.id, e.func.attr)
    if name not in OBJ_METHODS.get('module_calls', {}):
        return None
    fn, tree = CURRENT
    mod = e.func.value.id
    if tree is None or not any(isinstance(n, ast.Import) and any(a.name == mod and a.asname is None for a in n.names)
                               for n in tree.body):
        raise Unsupported('%s is not bound by a module-level `import %s`' % (mod, mod))
    for n in ast.walk(tree):
        if (isinstance(n, ast.Name) and n.id == mod and not isinstance(n.ctx, ast.Load)) \
                or (isinstance(n, ast.arg) and n.arg == mod) \
                or (isinstance(n, (ast.FunctionDef, ast.AsyncFunctionDef, ast.ClassDef)) and n.name == mod) \
                or (isinstance(n, (ast.Global, ast.Nonlocal)) and mod in n.names) \
                or (isinstance(n, ast.ImportFrom) and any((a.asname or a.name) == mod or a.name == '*' for a in n.names)) \
                or (isinstance(n, ast.ExceptHandler) and n.name == mod):
            raise Unsupported('the module name %s may be rebound' % mod)
    if e.keywords or len(e.args) != 1 or not isinstance(e.args[0], ast.Dict):
        raise Unsupported('arguments of %s' % name)
    d = e.args[0]
    keys = [k.value if isinstance(k, ast.Constant) and isinstance(k.value, str) else None for k in d.keys]
    if None in keys or len(set(keys)) != len(keys):
        raise Unsupported('keys of the display given to %s' % name)
    pairs = '; '.join('(ETuple [(EConst (VStr %s)); %s])' % (q(k), expr(v)) for k, v in zip(keys, d.values))
    return '(ECall %s [(ETuple [%s])])' % (q(name), pairs)


def check_attr_list_alias(fn, x, a):
    """every read of x.a in fn is one that cannot give the list object a second name: the receiver of .append / .pop
    statements, a subscripted x.a[..] that is read, the argument of len, or an operand of a truth test (the test of an
    if / assert, an operand of and / or / not); x is a parameter of fn that is never rebound; no nested function"""
    safe = set()
    for n in ast.walk(fn):
        if isinstance(n, (ast.FunctionDef, ast.AsyncFunctionDef, ast.Lambda, ast.Global, ast.Nonlocal, ast.Delete)) \
                and n is not fn:
            raise Unsupported('%s inside %s, which mutates the list %s.%s' % (type(n).__name__, fn.name, x, a))
        if isinstance(n, ast.Name) and n.id == x and not isinstance(n.ctx, ast.Load):
            raise Unsupported('%s, whose list attribute %s is mutated, is rebound' % (x, a))
        if isinstance(n, ast.Expr) and isinstance(n.value, ast.Call) and isinstance(n.value.func, ast.Attribute) \
                and n.value.func.attr in ('append', 'pop'):
            safe.add(id(n.value.func.value))
        if isinstance(n, ast.Subscript) and isinstance(n.ctx, ast.Load):
            safe.add(id(n.value))
        if isinstance(n, ast.Assign) and obj_methods_store_last(n) is not None:
            safe.add(id(n.targets[0].value))    # the receiver of the statement x.a[-1] = e
        if isinstance(n, ast.Call) and isinstance(n.func, ast.Name) and n.func.id == 'len' and len(n.args) == 1:
            safe.add(id(n.args[0]))
        if isinstance(n, (ast.If, ast.Assert)):
            safe.add(id(n.test))
        if isinstance(n, ast.BoolOp):
            safe.update(id(v) for v in n.values)
        if isinstance(n, ast.UnaryOp) and isinstance(n.op, ast.Not):
            safe.add(id(n.operand))
    if x not in [p.arg for p in fn.args.args]:
        raise Unsupported('%s, whose list attribute %s is mutated, is not a parameter of %s' % (x, a, fn.name))
    for n in ast.walk(fn):
        if isinstance(n, ast.Attribute) and n.attr == a and isinstance(n.value, ast.Name) and n.value.id == x \
                and id(n) not in safe:
            raise Unsupported('the list %s.%s is mutated and read at line %d in a way that may alias it' % (x, a, n.lineno))


def obj_methods_store_last(s):
    """(x, a) when s is the statement `x.a[-1] = e` (see OBJ_METHODS), else None"""
    if isinstance(s, ast.Assign) and len(s.targets) == 1 and isinstance(s.targets[0], ast.Subscript) \
            and isinstance(s.targets[0].value, ast.Attribute) and isinstance(s.targets[0].value.value, ast.Name) \
            and isinstance(s.targets[0].slice, ast.UnaryOp) and isinstance(s.targets[0].slice.op, ast.USub) \
            and isinstance(s.targets[0].slice.operand, ast.Constant) and s.targets[0].slice.operand.value == 1 \
            and type(s.targets[0].slice.operand.value) is int:
        return s.targets[0].value.value.id, s.targets[0].value.attr
    return None


def obj_methods_stmt(s):
    """the statement forms of the option 'obj_methods' (see OBJ_METHODS); returns None when s is none of them"""
    if obj_methods_store_last(s) is not None:
        x, a = obj_methods_store_last(s)
        fn = CURRENT[0]
        if fn is None or a in PROP_GET:
            raise Unsupported('%s.%s[-1] = ... outside a function / on a property' % (x, a))
        check_attr_list_alias(fn, x, a)
        return ('(SAssign [(TVar "%%val")] %s); (SAssign [(TVar "%%recv")] (EAttr (EVar %s) %s)); '
                '(SSetItem "%%recv" (EConst (VNum ((-1)#1))) (EVar "%%val")); (SAssign [(TAttr %s %s)] (EVar "%%recv"))' % (
                    expr(s.value), q(x), q(a), q(x), q(a)))
    if not (isinstance(s, ast.Expr) and isinstance(s.value, ast.Call) and isinstance(s.value.func, ast.Attribute)):
        return None
    c, f = s.value, s.value.func
    fn, tree = CURRENT
    if isinstance(f.value, ast.Call) and isinstance(f.value.func, ast.Name) and f.value.func.id == 'super':
        if f.value.args or f.value.keywords:
            raise Unsupported('super() with arguments')
        if f.attr not in OBJ_METHODS.get('super', {}):
            raise Unsupported('super().%s is not a declared method of the base class' % f.attr)
        params = OBJ_METHODS['super'][f.attr]
        cargs = list(c.args)
        if params and params[-1] == '*':
            # declared [.., '*']: the call must end with `*v`, v the vararg of the method being printed (option
            # 'vararg_last': v is a tuple that is never rebound, so unpacking it cannot fail and passes its items as
            # the extra positional arguments); the oracle receives that tuple as ONE last argument
            if not (cargs and isinstance(cargs[-1], ast.Starred) and isinstance(cargs[-1].value, ast.Name)
                    and VARARG_LAST[0] is not None and cargs[-1].value.id == VARARG_LAST[0]):
                raise Unsupported('super().%s must end with the star argument of the vararg of the method' % f.attr)
            cargs[-1] = cargs[-1].value
        if c.keywords or len(cargs) != len(params) or any(isinstance(a, ast.Starred) for a in cargs):
            raise Unsupported('arguments of super().%s' % f.attr)
        if fn is None or tree is None or not fn.args.args or fn.args.args[0].arg != 'self' or fn.decorator_list:
            raise Unsupported('super() outside a plain method whose first parameter is self')
        for n in ast.walk(fn):
            if isinstance(n, ast.Name) and n.id in ('self', 'super', '__class__') and not isinstance(n.ctx, ast.Load):
                raise Unsupported('%s is rebound in %s' % (n.id, fn.name))
            if isinstance(n, ast.arg) and n.arg in ('super', '__class__'):
                raise Unsupported('%s is a parameter of %s' % (n.arg, fn.name))
            if isinstance(n, (ast.FunctionDef, ast.AsyncFunctionDef, ast.Lambda, ast.Global, ast.Nonlocal, ast.Delete)) \
                    and n is not fn:
                raise Unsupported('%s inside %s, which calls super()' % (type(n).__name__, fn.name))
        check_named_builtin(tree, 'super')
        return '(SUnpack [(TVar "%%call"); (TVar "self")] (ECall %s [%s]))' % (
            q('super.' + f.attr), '; '.join(['(EVar "self")'] + [expr(a) for a in cargs]))
    if isinstance(f.value, ast.Attribute) and isinstance(f.value.value, ast.Name) and f.attr in ('append', 'pop') \
            and f.value.attr not in PROP_GET:
        x, a = f.value.value.id, f.value.attr
        if fn is None:
            raise Unsupported('%s.%s.%s outside a function' % (x, a, f.attr))
        check_attr_list_alias(fn, x, a)
        recv = '(SAssign [(TVar "%%recv")] (EAttr (EVar %s) %s))' % (q(x), q(a))
        if f.attr == 'append':
            if c.keywords or len(c.args) != 1 or isinstance(c.args[0], ast.Starred):
                raise Unsupported('arguments of %s.%s.append' % (x, a))
            return '%s; (SAppend "%%recv" %s); (SAssign [(TAttr %s %s)] (EVar "%%recv"))' % (
                recv, expr(c.args[0]), q(x), q(a))
        if c.keywords or c.args:
            raise Unsupported('arguments of %s.%s.pop' % (x, a))
        m1 = '(EConst (VNum ((-1)#1)))'
        return ('%s; (SAssign [(TVar "%%call")] (EPrim PIndex [(EVar "%%recv"); %s])); '
                '(SAssign [(TAttr %s %s)] (EPrim PSliceTo [(EVar "%%recv"); %s]))' % (recv, m1, q(x), q(a), m1))
    return None


def stmt(s):
    if isinstance(s, ast.Expr) and isinstance(s.value, ast.Constant):
        return 'SPass'  # docstring
    if isinstance(s, ast.Pass):
        return 'SPass'
    if OBJ_METHODS:
        r_ = obj_methods_stmt(s)
        if r_ is not None:
            return r_
    if isinstance(s, ast.Assert) and s.msg is None:
        return '(SAssert %s)' % expr(s.test)
    if isinstance(s, ast.Assert) and isinstance(s.msg, ast.Name) and any(
            isinstance(n, ast.Name) and n.id == s.msg.id and isinstance(n.ctx, ast.Load) for n in ast.walk(s.test)):
        # `assert test, name` where the test reads `name` itself: the message is evaluated only when the test is false
        # and is then a bound name (the test has just read it), so the statement raises AssertionError exactly when
        # `assert test` does; the text of the message is outside the value domain
        return '(SAssert %s)' % expr(s.test)
    if isinstance(s, ast.ImportFrom) and s.names and all(
            a.asname is None and a.name in TARGET_ORACLE for a in s.names):
        return 'SPass'  # binds only callees of this target's declared oracles (see TARGET_ORACLE)
    if isinstance(s, ast.Expr) and isinstance(s.value, ast.Call) and isinstance(s.value.func, ast.Name) \
            and s.value.func.id in TARGET_ORACLE:
        return oracle_stmt(s.value)
    if isinstance(s, ast.Expr) and isinstance(s.value, ast.Call) and isinstance(s.value.func, ast.Attribute) \
            and s.value.func.attr == 'without_min_max' and isinstance(s.value.func.value, ast.Name) \
            and '%s.without_min_max' % s.value.func.value.id in TARGET_ORACLE:
        return oracle_stmt(s.value)  # f.without_min_max(a, b): the declared oracle "f.without_min_max"
    if isinstance(s, ast.Assign) and len(s.targets) == 1 and isinstance(s.targets[0], ast.Name) \
            and isinstance(s.value, ast.Call) and isinstance(s.value.func, ast.Name) \
            and s.value.func.id in TARGET_ORACLE:
        # x = f(a, b), f a declared oracle of this target: x, m1, .. = f(a, b) (see oracle_stmt)
        return oracle_stmt(s.value, s.targets[0].id)
    if UNPACK_GEN[0] and isinstance(s, ast.Assign) and len(s.targets) == 1 and isinstance(s.targets[0], ast.Tuple) \
            and isinstance(s.value, ast.GeneratorExp):
        # option 'unpack_gen':  a, b = (elt for x in it)  ==  a, b = [elt for x in it] : the unpacking consumes the
        # generator at once.  Same bindings whenever Python binds; when the number of items is wrong both raise
        # (Python stops at the first surplus item with ValueError, the list form evaluates the later items first: an
        # error raised by one of THOSE is reported instead of the ValueError)
        return '(SUnpack [%s] %s)' % ('; '.join(target(t) for t in s.targets[0].elts),
                                      expr(ast.ListComp(elt=s.value.elt, generators=s.value.generators)))
    if isinstance(s, ast.Assign) and len(s.targets) == 1 and isinstance(s.targets[0], ast.Tuple):
        return '(SUnpack [%s] %s)' % ('; '.join(target(t) for t in s.targets[0].elts), expr(s.value))
    if isinstance(s, ast.Assign) and len(s.targets) == 1 and isinstance(s.targets[0], ast.Attribute) \
            and s.targets[0].attr in PROP_GET:
        return property_assignment(s)
    if isinstance(s, ast.Assign) and len(s.targets) == 1 and isinstance(s.targets[0], ast.Subscript) \
            and isinstance(s.targets[0].value, ast.Name) \
            and not isinstance(s.targets[0].slice, (ast.Slice, ast.Tuple, ast.Starred, ast.Constant)):
        # x[i] = e on a variable holding a list, i a computed index: SSetItem of Py.v (value semantics:
        # translate_function checks with check_setitem_alias that no second name of the list can see the difference)
        t = s.targets[0]
        return '(SSetItem %s %s %s)' % (q(t.value.id), expr(t.slice), expr(s.value))
    if isinstance(s, ast.Assign):
        if len(s.targets) == 1 and isinstance(s.targets[0], ast.Name) and isinstance(s.value, ast.GeneratorExp):
            return 'SPass'  # inlined at its (single) use by InlineGen
        return '(SAssign [%s] %s)' % ('; '.join(target(t) for t in reversed(s.targets)), expr(s.value))
    if isinstance(s, ast.AugAssign) and type(s.op) in BIN:
        return '(SAug %s %s %s)' % (target(s.target), BIN[type(s.op)], expr(s.value))
    if isinstance(s, ast.AugAssign) and isinstance(s.op, ast.FloorDiv) and isinstance(s.target, ast.Name):
        # x //= e  ==  x = x // e  for a plain name x (x is read, then e evaluated, then x rebound; numbers have no
        # in-place floor division of their own)
        return '(SAssign [(TVar %s)] (EPrim PFloorDiv [(EVar %s); %s]))' % (
            q(s.target.id), q(s.target.id), expr(s.value))
    if isinstance(s, ast.If) and isinstance(s.test, ast.NamedExpr) and isinstance(s.test.target, ast.Name):
        # if (x := e): A  else: B   ==   x = e  followed by  if x: A  else: B     when the assignment expression is the
        # WHOLE test: Python evaluates e, binds the plain name x to the value (in the scope of the statement: the test of
        # an `if` statement is not inside a comprehension) and branches on the truth of that same value; e is evaluated
        # once in both forms and nothing is evaluated between the binding and the test.  Two statements are printed
        # (every caller joins the printed statements of a block with "; ").  A walrus anywhere else stays refused.
        x_ = s.test.target.id
        return '%s; %s' % (
            stmt(ast.Assign(targets=[ast.Name(id=x_, ctx=ast.Store())], value=s.test.value)),
            stmt(ast.If(test=ast.Name(id=x_, ctx=ast.Load()), body=s.body, orelse=s.orelse)))
    if isinstance(s, ast.If):
        return '(SIf %s [%s] [%s])' % (expr(s.test), block(s.body), block(s.orelse))
    if isinstance(s, ast.Return):
        return '(SReturn %s)' % (expr(s.value) if s.value is not None else '(EConst VNone)')
    if FOR_BREAK[0] and isinstance(s, ast.For) and (s.orelse or any(
            isinstance(m, ast.Break) for b in s.body for m in ast.walk(b))):
        return for_with_break(s)
    if isinstance(s, ast.For) and isinstance(s.target, ast.Name) and not s.orelse:
        body = fold_continue(list(s.body))
        if any(isinstance(m, (ast.Break, ast.Continue)) for b in body for m in ast.walk(b)):
            raise Unsupported('break/continue inside a for loop')
        return '(SFor %s %s [%s])' % (q(s.target.id), expr(s.iter), block(body))
    if REBUILD[0] and isinstance(s, ast.For) and isinstance(s.target, ast.Tuple) and not s.orelse:
        r_ = rebuild_for(s)
        if r_ is not None:
            return r_
    if isinstance(s, ast.For) and isinstance(s.target, ast.Tuple) and not s.orelse \
            and all(isinstance(t, ast.Name) for t in s.target.elts) \
            and len({t.id for t in s.target.elts}) == len(s.target.elts):
        # for a, b in it: body  ==  for %item in it: a, b = %item; body   ("%item" is not a Python name; an item that
        # is not a sequence of that length raises in Python and in SUnpack: TypeError / ValueError)
        body = fold_continue(list(s.body))
        if any(isinstance(m, (ast.Break, ast.Continue)) for b in body for m in ast.walk(b)):
            raise Unsupported('break/continue inside a for loop')
        unpack = '(SUnpack [%s] (EVar "%%item"))' % '; '.join(target(t) for t in s.target.elts)
        return '(SFor "%%item" %s [%s; %s])' % (expr(s.iter), unpack, block(body))
    if isinstance(s, ast.Expr) and isinstance(s.value, ast.Call) and isinstance(s.value.func, ast.Attribute) \
            and s.value.func.attr == 'extend' and isinstance(s.value.func.value, ast.Name) \
            and len(s.value.args) == 1:
        return '(SExtend %s %s)' % (q(s.value.func.value.id), expr(s.value.args[0]))
    if isinstance(s, ast.Expr) and isinstance(s.value, ast.Call) and isinstance(s.value.func, ast.Attribute) \
            and s.value.func.attr == 'append' and isinstance(s.value.func.value, ast.Name) \
            and len(s.value.args) == 1 and not s.value.keywords:
        return '(SAppend %s %s)' % (q(s.value.func.value.id), expr(s.value.args[0]))
    if isinstance(s, ast.Expr) and isinstance(s.value, ast.Call) and isinstance(s.value.func, ast.Attribute) \
            and s.value.func.attr == 'append' and isinstance(s.value.func.value, ast.Attribute) \
            and isinstance(s.value.func.value.value, ast.Name) and len(s.value.args) == 1 and not s.value.keywords \
            and not isinstance(s.value.args[0], ast.Starred):
        # x.f.append(e)  ==  x.f = x.f + [e]   where x.f is a list created by this function (`x.f = []`) that has no
        # other name (fresh_list_attr checks it): x.f is read, then e is evaluated, then the list grows by e; nobody
        # else can see that the attribute is rebound to a new list instead of the old one being mutated
        x, f = s.value.func.value.value.id, s.value.func.value.attr
        fresh_list_attr(x, f)
        return '(SAssign [(TAttr %s %s)] (EBin Add (EAttr (EVar %s) %s) (ETuple [%s])))' % (
            q(x), q(f), q(x), q(f), expr(s.value.args[0]))
    if isinstance(s, ast.Expr) and isinstance(s.value, ast.Call) and isinstance(s.value.func, ast.Attribute) \
            and s.value.func.attr == 'sort' and isinstance(s.value.func.value, ast.Attribute) \
            and isinstance(s.value.func.value.value, ast.Name) and not s.value.args:
        # x.f.sort(key=lambda v: v.a)  ==  x.f = sorted(x.f, key=lambda v: v.a)  for a list x.f without another name
        # (fresh_list_attr), printed with the primitive PSortedByAttr of Py.v [x.f; 'a'] (the stable sort by the
        # numeric attribute a).  Only this form of key is understood; `reverse=` or no key are refused.
        x, f = s.value.func.value.value.id, s.value.func.value.attr
        kw = s.value.keywords
        if len(kw) != 1 or kw[0].arg != 'key' or not isinstance(kw[0].value, ast.Lambda):
            raise Unsupported('sort with other than key=lambda')
        lam = kw[0].value
        la = lam.args
        if la.vararg or la.kwarg or la.kwonlyargs or la.posonlyargs or la.defaults or len(la.args) != 1 \
                or not (isinstance(lam.body, ast.Attribute) and isinstance(lam.body.value, ast.Name)
                        and lam.body.value.id == la.args[0].arg and isinstance(lam.body.ctx, ast.Load)):
            raise Unsupported('sort key is not `lambda v: v.attr`')
        if lam.body.attr in PROP_GET:
            raise Unsupported('sort key reads the property %s' % lam.body.attr)
        fresh_list_attr(x, f)
        return '(SAssign [(TAttr %s %s)] (EPrim PSortedByAttr [(EAttr (EVar %s) %s); (EConst (VStr %s))]))' % (
            q(x), q(f), q(x), q(f), q(lam.body.attr))
    if isinstance(s, ast.Expr) and isinstance(s.value, ast.Call):
        # f(...) / x.m(...) for its effect: only for the oracles of EXTERNAL (the effect is outside the model; the call
        # and its arguments stay visible: the result is bound to "%call", which is not a Python name)
        f = s.value.func
        name = f.id if isinstance(f, ast.Name) else ('.' + f.attr if isinstance(f, ast.Attribute) else None)
        if name in EXTERNAL_STMT:
            return call_stmt(s.value)
        if name in EXTERNAL:
            return '(SAssign [(TVar "%%call")] %s)' % call(s.value)
        raise Unsupported('call statement of %s' % name)
    if isinstance(s, ast.While) and not s.orelse:
        for n in ast.walk(s):
            # break / continue inside a `for` nested in the loop would target that `for`: not in the subset
            if isinstance(n, ast.For) and any(isinstance(m, (ast.Break, ast.Continue)) for m in ast.walk(n)):
                raise Unsupported('break/continue inside a for loop')
            if isinstance(n, ast.While) and n is not s:
                raise Unsupported('nested while')
        return '(SWhile %s [%s])' % (expr(s.test), block(s.body))
    if isinstance(s, ast.Break):
        return 'SBreak'
    if isinstance(s, ast.Continue):
        return 'SContinue'
    if isinstance(s, ast.Delete) and len(s.targets) == 1 and isinstance(s.targets[0], ast.Subscript) \
            and isinstance(s.targets[0].value, ast.Name) and isinstance(s.targets[0].slice, ast.Slice) \
            and s.targets[0].slice.lower is not None and s.targets[0].slice.upper is None \
            and s.targets[0].slice.step is None:
        # del x[n:]  ==  x = x[:n]   for a variable x holding a list: for EVERY integer n (negative, zero, beyond the
        # ends) x[:n] + x[n:] == x, so deleting the tail x[n:] leaves exactly x[:n] (PSliceTo of Py.v; x read first,
        # then n, as Python does).  Python shortens the list object in place where this rebinds the variable: nobody
        # can tell the difference when the function being printed has no second name for that object
        # (check_del_alias); when x is a parameter the caller sees the shortened list: the theorems read it as the
        # final value of x.
        t = s.targets[0]
        check_del_alias(t.value.id, s)
        return '(SAssign [(TVar %s)] (EPrim PSliceTo [(EVar %s); %s]))' % (
            q(t.value.id), q(t.value.id), expr(t.slice.lower))
    raise Unsupported(ast.dump(s)[:200])


def check_del_alias(x, stmt_):
    """See `del x[n:]` in stmt(): in the whole function being printed, the name x is never a target (other than by
    being a parameter) and every read of it is one that cannot give the list object a second name: x[..] (an
    element or a slice, which is a copy), len(x), the iterable of a `for` statement that does not contain the `del`
    (the list is not shortened while it is iterated)."""
    fn = CURRENT[0]
    if fn is None:
        raise Unsupported('del %s[..] where the function is not known' % x)
    safe = set()
    for n in ast.walk(fn):
        if isinstance(n, ast.Subscript) and isinstance(n.value, ast.Name):
            safe.add(id(n.value))
        if isinstance(n, ast.Call) and isinstance(n.func, ast.Name) and n.func.id == 'len' and len(n.args) == 1 \
                and not n.keywords and isinstance(n.args[0], ast.Name):
            safe.add(id(n.args[0]))
        if isinstance(n, ast.For) and isinstance(n.iter, ast.Name) and not any(m is stmt_ for m in ast.walk(n)):
            safe.add(id(n.iter))
        if isinstance(n, (ast.Lambda, ast.FunctionDef, ast.AsyncFunctionDef, ast.ClassDef)) and n is not fn and any(
                isinstance(m, ast.Name) and m.id == x for m in ast.walk(n)):
            raise Unsupported('the list %s shortened by del is captured by a nested function' % x)
        if isinstance(n, (ast.Global, ast.Nonlocal)) and x in n.names:
            raise Unsupported('the list %s shortened by del is global / nonlocal' % x)
    for n in ast.walk(fn):
        if isinstance(n, ast.Name) and n.id == x:
            if not isinstance(n.ctx, ast.Load):
                raise Unsupported('the list %s shortened by del is rebound at line %d' % (x, n.lineno))
            if id(n) not in safe:
                raise Unsupported('the list %s is shortened by del and read at line %d in a way that may alias it'
                                  % (x, n.lineno))


def rebuild_for(s):
    """Option 'rebuild' of a target (objects and lists are VALUES in Py.v: `for a, c in L: c.x = e` would update the
    variable c only).  Two forms of `for` with a tuple target are printed here; None: not one of them.
      for a, c in L: body      L a plain name, a / c distinct plain names, body stores attributes of a or c
         ==  %new = []                                     ("%new", "%item" are not Python names)
             for %item in L: a, c = %item; body; %new.append((a, c))
             L = %new
         In Python the items of L are the SAME tuples before and after, and what changed is the state of the objects
         they hold; read as values, L after the loop is the list of the pairs (a, c) as they are at the end of their
         iteration, in order - the rebuilt list.  This is the meaning for every input in which the objects of L are
         pairwise distinct and have no other name that the translated statements read (the standing reading of
         objects as values: see check_setitem_alias).  Checked here, refused otherwise: the body never mentions L
         (an item read through L would show the old value), never rebinds a or c, contains no loop, break, continue
         or return; after the loop a and c are the last pair in both readings.
      for i, (a, c) in it: body   body stores no attribute of a / c and rebinds none of i, a, c
         ==  for %item in it: i, %item1 = %item; a, c = %item1; body
         (an item of the wrong shape raises in Python and in SUnpack)."""
    names = []
    nested = None
    for t in s.target.elts:
        if isinstance(t, ast.Name):
            names.append(t.id)
        elif isinstance(t, ast.Tuple) and all(isinstance(u, ast.Name) for u in t.elts) and nested is None:
            nested = t
            names.extend(u.id for u in t.elts)
        else:
            return None
    if len(set(names)) != len(names):
        return None
    body = fold_continue(list(s.body))
    attr_stores = set()
    for b in body:
        for n in ast.walk(b):
            if isinstance(n, ast.Attribute) and not isinstance(n.ctx, ast.Load) and isinstance(n.value, ast.Name) \
                    and n.value.id in names:
                attr_stores.add(n.value.id)
    if nested is None and (not attr_stores or not isinstance(s.iter, ast.Name)):
        return None
    for b in body:
        for n in ast.walk(b):
            if isinstance(n, (ast.Break, ast.Continue, ast.Return, ast.For, ast.While, ast.Lambda, ast.FunctionDef,
                              ast.NamedExpr, ast.ListComp, ast.GeneratorExp, ast.SetComp, ast.DictComp)):
                raise Unsupported('%s inside a for loop with a tuple target (option rebuild)' % type(n).__name__)
            if isinstance(n, ast.Name) and n.id in names and not isinstance(n.ctx, ast.Load):
                raise Unsupported('the loop variable %s is rebound inside the loop' % n.id)
    if nested is not None:
        if attr_stores:
            raise Unsupported('attributes of %s are stored inside a loop with a nested tuple target' % sorted(attr_stores))
        if len(s.target.elts) != 2 or s.target.elts[1] is not nested:
            raise Unsupported('nested tuple target of a for loop')
        u1 = '(SUnpack [%s; (TVar "%%item1")] (EVar "%%item"))' % target(s.target.elts[0])
        u2 = '(SUnpack [%s] (EVar "%%item1"))' % '; '.join(target(t) for t in nested.elts)
        return '(SFor "%%item" %s [%s; %s; %s])' % (expr(s.iter), u1, u2, block(body))
    lst = s.iter.id
    if lst in names:
        raise Unsupported('the list %s is a loop variable of the loop over it' % lst)
    for b in body:
        for n in ast.walk(b):
            if isinstance(n, ast.Name) and n.id == lst:
                raise Unsupported('the list %s is used inside the loop that mutates its items' % lst)
    unpack = '(SUnpack [%s] (EVar "%%item"))' % '; '.join(target(t) for t in s.target.elts)
    pair = '(ETuple [%s])' % '; '.join('(EVar %s)' % q(x) for x in names)
    return ('(SAssign [(TVar "%%new")] (ETuple [])); (SFor "%%item" (EVar %s) [%s; %s; (SAppend "%%new" %s)]); '
            '(SAssign [(TVar %s)] (EVar "%%new"))' % (q(lst), unpack, block(body), pair, q(lst)))


def slice_nested(fn, first, last, opts):
    """slice_from = ('<nested>', first, last, opts): consecutive statements of ONE block at any depth of fn: from the
    statement whose text (ast.unparse) starts with `first` - exactly one statement of the whole function does -
    through the first statement of the same block, at or after it, whose text starts with `last` (None: that one
    statement).  The statements around the slice are not translated; its free variables are the `params` of the
    target.  Checked (fail-closed), with opts =
      'inside': the first lines of the compound statements that enclose the block, outermost first (the slice may
                not silently move to another loop);
      'block':  a prefix of the first line of EVERY statement of that block, in order: the slices of one block are
                then known to cover it without a statement inserted, removed or moved between them;
      'consts': {name: string}: the slice SPECIALISED to this value of a local by constant propagation (cp_block /
                ConstProp: getattr(x, f'min_{name}') becomes an attribute access).  `name` is not bound inside the
                slice, and every binding of it in fn is a plain / tuple assignment of string constants one of which
                is this string (so the targets with the other strings together cover every value it can have).
    The slice contains no nested function, lambda, global / nonlocal, del, walrus, yield, try, with, return, break,
    continue."""
    import copy
    found = []

    def visit(stmts, chain):
        for k, st in enumerate(stmts):
            text = ast.unparse(st)
            if text.startswith(first):
                found.append((stmts, k, chain))
            if isinstance(st, (ast.FunctionDef, ast.AsyncFunctionDef, ast.ClassDef)):
                continue
            head = text.split('\n')[0]
            for field in ('body', 'orelse', 'finalbody'):
                sub = getattr(st, field, None)
                if isinstance(sub, list) and sub and isinstance(sub[0], ast.stmt):
                    visit(sub, chain + [head if field == 'body' else '%s [%s]' % (head, field)])
            for h in getattr(st, 'handlers', []):
                visit(h.body, chain + [head + ' [except]'])
    visit(fn.body, [])
    if len(found) != 1:
        raise Unsupported('%d statements of %s start with `%s`' % (len(found), fn.name, first.split('\n')[0]))
    stmts, i, chain = found[0]
    if chain != list(opts.get('inside', [])):
        raise Unsupported('the slice `%s` of %s is inside %s' % (first.split('\n')[0], fn.name, chain))
    if 'block' in opts:
        heads = [ast.unparse(x).split('\n')[0] for x in stmts]
        want = list(opts['block'])
        if len(heads) != len(want) or not all(h.startswith(w) for h, w in zip(heads, want)):
            raise Unsupported('the block of the slice `%s` of %s is not the expected sequence of statements: %s'
                              % (first.split('\n')[0], fn.name, heads))
    if last is None:
        j = i
    else:
        ends = [k for k in range(i, len(stmts)) if ast.unparse(stmts[k]).startswith(last)]
        if not ends:
            raise Unsupported('no statement `%s` after `%s` in %s' % (last.split('\n')[0], first.split('\n')[0], fn.name))
        j = ends[0]
    sl = [copy.deepcopy(x) for x in stmts[i:j + 1]]
    for st in sl:
        for n in ast.walk(st):
            if isinstance(n, (ast.FunctionDef, ast.AsyncFunctionDef, ast.Lambda, ast.Global, ast.Nonlocal, ast.Delete,
                              ast.NamedExpr, ast.Yield, ast.YieldFrom, ast.Await, ast.ClassDef, ast.Try, ast.With,
                              ast.Return, ast.Break, ast.Continue)):
                raise Unsupported('%s inside the slice `%s` of %s' % (type(n).__name__, first.split('\n')[0], fn.name))
    consts = dict(opts.get('consts', {}))
    if consts:
        builtin_not_rebound('getattr')
        comp = set()
        for c in ast.walk(fn):
            if isinstance(c, ast.comprehension):
                comp.update(id(x) for x in ast.walk(c.target))
        for nm, val in consts.items():
            values = set()
            accounted = set()
            for a in ast.walk(fn):
                if isinstance(a, ast.Assign) and len(a.targets) == 1:
                    t, v = a.targets[0], a.value
                    pairs = [(t, v)]
                    if isinstance(t, ast.Tuple) and isinstance(v, ast.Tuple) and len(t.elts) == len(v.elts):
                        pairs = list(zip(t.elts, v.elts))
                    for t1, v1 in pairs:
                        if isinstance(t1, ast.Name) and t1.id == nm and isinstance(v1, ast.Constant) \
                                and isinstance(v1.value, str):
                            values.add(v1.value)
                            accounted.add(id(t1))
            for n in ast.walk(fn):
                if isinstance(n, ast.Name) and n.id == nm and not isinstance(n.ctx, ast.Load) and id(n) not in accounted:
                    raise Unsupported('%s is bound in %s other than by an assignment of a string constant' % (nm, fn.name))
                if isinstance(n, ast.arg) and n.arg == nm:
                    raise Unsupported('%s is a parameter in %s' % (nm, fn.name))
                if isinstance(n, (ast.Global, ast.Nonlocal)) and nm in n.names:
                    raise Unsupported('%s is declared global / nonlocal in %s' % (nm, fn.name))
            if val not in values or not isinstance(val, str):
                raise Unsupported('%s is never bound to %r in %s' % (nm, val, fn.name))
        sl = cp_block(sl, dict(consts), list(consts))[0]
        for st in sl:
            ast.fix_missing_locations(st)
    return sl


def fresh_list_attr(x, f):
    """`x.f` holds, whenever the function being printed reads it, a list object that this function created and that
    has no other name: so mutating it in place (append / sort) and rebinding the attribute to the new list value
    (what the value domain of Py.v does) cannot be told apart.  Checked on the whole function:
    x is a parameter that is never rebound / deleted and only ever used as `x.<attr>` (the object is not handed to
    anything); exactly one statement stores x.f: the plain `x.f = []` at the top level of the function; every read of
    x.f is the receiver of a statement `x.f.append(..)` / `x.f.sort(..)` in a later top-level statement; no nested
    function, no lambda that mentions x; the class of the method is a plain class (no bases, decorators, metaclass,
    no __setattr__ / __getattr__ / __getattribute__ / __slots__, f not a member of the class)."""
    fn, tree = CURRENT
    if fn is None or tree is None:
        raise Unsupported('%s.%s mutated where the function is not known' % (x, f))
    if x not in [a.arg for a in fn.args.args]:
        raise Unsupported('%s (in %s.%s) is not a parameter' % (x, x, f))
    owner = [c for c in ast.walk(tree) if isinstance(c, ast.ClassDef) and any(m is fn for m in c.body)]
    if len(owner) != 1 or fn.args.args[0].arg != x or fn.decorator_list:
        raise Unsupported('%s is not the self of a plain method' % x)
    cls = owner[0]
    if cls.bases or cls.keywords or cls.decorator_list:
        raise Unsupported('class %s has bases / a metaclass / decorators' % cls.name)
    for m in cls.body:
        names = [m.name] if isinstance(m, (ast.FunctionDef, ast.AsyncFunctionDef, ast.ClassDef)) else \
            [n.id for n in ast.walk(m) if isinstance(n, ast.Name) and not isinstance(n.ctx, ast.Load)]
        for nm in names:
            if nm in ('__setattr__', '__getattr__', '__getattribute__', '__slots__', f):
                raise Unsupported('class %s defines %s' % (cls.name, nm))
    receivers, parents = set(), set()
    top_of = {}
    for i, st in enumerate(fn.body):
        for n in ast.walk(st):
            top_of[id(n)] = i
            if isinstance(n, (ast.FunctionDef, ast.AsyncFunctionDef, ast.ClassDef, ast.Delete, ast.Global,
                              ast.Nonlocal, ast.NamedExpr, ast.Yield, ast.YieldFrom, ast.Await)):
                raise Unsupported('%s inside %s, which mutates %s.%s' % (type(n).__name__, fn.name, x, f))
            if isinstance(n, ast.Lambda) and any(isinstance(y, ast.Name) and y.id == x for y in ast.walk(n)):
                raise Unsupported('a lambda of %s mentions %s' % (fn.name, x))
            if isinstance(n, ast.Attribute) and isinstance(n.value, ast.Name) and n.value.id == x:
                parents.add(id(n.value))
            if isinstance(n, ast.Expr) and isinstance(n.value, ast.Call) and isinstance(n.value.func, ast.Attribute) \
                    and n.value.func.attr in ('append', 'sort'):
                receivers.add(id(n.value.func.value))
    stores = []
    for st in fn.body:
        for n in ast.walk(st):
            if isinstance(n, ast.Name) and n.id == x and (not isinstance(n.ctx, ast.Load) or id(n) not in parents):
                raise Unsupported('%s is rebound or used other than as `%s.<attr>`' % (x, x))
            if isinstance(n, ast.arg) and n.arg == x:
                raise Unsupported('%s is rebound by a lambda' % x)
            if isinstance(n, ast.Attribute) and isinstance(n.value, ast.Name) and n.value.id == x and n.attr == f:
                if isinstance(n.ctx, ast.Load):
                    if id(n) not in receivers:
                        raise Unsupported('%s.%s is read other than as the receiver of append / sort' % (x, f))
                else:
                    stores.append(n)
    ok = [i for i, st in enumerate(fn.body) if isinstance(st, ast.Assign) and len(st.targets) == 1
          and st.targets[0] in stores and isinstance(st.value, ast.List) and not st.value.elts]
    if len(stores) != 1 or len(ok) != 1:
        raise Unsupported('%s.%s is not bound exactly once, by `%s.%s = []` at the top level' % (x, f, x, f))
    for st in fn.body:
        for n in ast.walk(st):
            if isinstance(n, ast.Attribute) and isinstance(n.value, ast.Name) and n.value.id == x and n.attr == f \
                    and isinstance(n.ctx, ast.Load) and top_of[id(n)] <= ok[0]:
                raise Unsupported('%s.%s is used before `%s.%s = []`' % (x, f, x, f))


def block(stmts):
    if OPAQUE[0]:
        return '; '.join(stmt_or_unsupported(s) for s in stmts)
    return '; '.join(stmt(s) for s in stmts)


# Target option 'opaque' (set by translate_function for the targets that ask for it; off for every other target).
# A statement outside the subset is then not a refusal of the whole function: it is printed as the statement
#     %unsupported = %unsupported("<first line of its text> #<digest of its ast>")
# i.e. the call of a function that is never defined ("%unsupported" is not a Python name): EXECUTING it is an error
# value in Py.v (a theorem that the body returns a value on some inputs therefore proves that no such statement is
# reached on these inputs, and for them the unprinted text cannot matter), while a function whose paths never run
# into it is printed exactly as without the option.  Nothing is approximated: the smallest enclosing statement that
# the printer does not understand is replaced as a whole, and statements that change the meaning of the function
# even when they are not executed (yield, global / nonlocal, nested definitions, ...) are still refused.
OPAQUE = [False]
# option 'str_index' of the target being printed (see expr(): constant subscripts are calls of "%getitem")
STR_INDEX = [False]
# option 'isinstance' of the target being printed (see expr(): isinstance(x, C) is a call of "%isinstance")
ISINSTANCE = [False]


def stmt_or_unsupported(s):
    try:
        return stmt(s)
    except Unsupported:
        for n in ast.walk(s):
            if isinstance(n, (ast.Yield, ast.YieldFrom, ast.Await, ast.Global, ast.Nonlocal, ast.FunctionDef,
                              ast.AsyncFunctionDef, ast.ClassDef, ast.Lambda, ast.Import, ast.ImportFrom,
                              ast.Try, ast.With, ast.AsyncWith, ast.AsyncFor, ast.Delete, ast.NamedExpr)):
                raise
        import hashlib
        first = ast.unparse(s).split('\n')[0]
        tag = '%s #%s' % (first[:120], hashlib.sha1(ast.dump(s).encode()).hexdigest()[:12])
        return '(SAssign [(TVar "%%unsupported")] (ECall "%%unsupported" [(EConst (VStr %s))]))' % q(tag)


def fold_continue(stmts):
    """`if c: A; continue` (no else; A possibly empty) followed by the statements R, directly in the body of a `for` (or
    in the R of a previous such rewriting)  ==  `if c: A` (`pass` when A is empty) `else: R` : going on with the next
    iteration after A is skipping R, for every input.  Any other `continue` is left in place (and refused by the
    caller)."""
    for i, s in enumerate(stmts):
        if isinstance(s, ast.If) and not s.orelse and isinstance(s.body[-1], ast.Continue):
            return stmts[:i] + [ast.If(test=s.test, body=list(s.body[:-1]) or [ast.Pass()],
                                       orelse=fold_continue(stmts[i + 1:]))]
    return stmts


class InlineGen(ast.NodeTransformer):
    """max(positives) where `positives = (genexp)` was bound just before: inline the generator (single use)."""
    def __init__(self, gens):
        self.gens = gens
        self.uses = {k: 0 for k in gens}

    def visit_Name(self, n):
        if isinstance(n.ctx, ast.Load) and n.id in self.gens:
            self.uses[n.id] += 1
        return n

    def visit_Call(self, n):
        if isinstance(n.func, ast.Name) and n.func.id in ('max', 'min') and len(n.args) == 1 \
                and isinstance(n.args[0], ast.Name) and n.args[0].id in self.gens:
            self.uses[n.args[0].id] += 1
            n.args[0] = self.gens[n.args[0].id]
            return n
        self.generic_visit(n)
        return n


def find_function(tree, qualname):
    node = tree
    for part in qualname.split('.'):
        for child in ast.walk(node) if node is tree else node.body:
            if isinstance(child, (ast.FunctionDef, ast.ClassDef)) and child.name == part:
                node = child
                break
        else:
            raise Unsupported('function %s not found' % qualname)
    return node


class Unroll(ast.NodeTransformer):
    """`for v in xs: body` and `[elt for v in xs]`, where `a, b, c = xs` is the statement right before the slice and
    neither xs nor a, b, c is rebound in the slice, are printed as body[v:=a]; body[v:=b]; body[v:=c] and
    [elt[v:=a], elt[v:=b], elt[v:=c]].  In Python the loop mutates the objects that a, b, c also name; in the value
    domain of Py.v (objects are values) a loop over the list would update copies, hence the unrolling over the names."""
    def __init__(self, xs, names):
        self.xs, self.names, self.loopvars = xs, names, set()

    def over(self, it):
        return isinstance(it, ast.Name) and it.id == self.xs

    def visit_For(self, n):
        self.generic_visit(n)
        if not self.over(n.iter):
            return n
        if not isinstance(n.target, ast.Name) or n.orelse or n.target.id in self.names or n.target.id == self.xs:
            raise Unsupported('loop over %s: target / else' % self.xs)
        v = n.target.id
        for m in n.body:
            for x in ast.walk(m):
                if isinstance(x, (ast.Break, ast.Continue, ast.Return, ast.Yield, ast.YieldFrom, ast.Lambda,
                                  ast.FunctionDef, ast.Global, ast.Nonlocal, ast.NamedExpr)):
                    raise Unsupported('%s inside a loop over %s' % (type(x).__name__, self.xs))
                if isinstance(x, ast.Name) and x.id == v and not isinstance(x.ctx, ast.Load):
                    raise Unsupported('loop variable %s rebound inside the loop over %s' % (v, self.xs))
                if isinstance(x, (ast.comprehension,)) and any(
                        isinstance(y, ast.Name) and y.id == v for y in ast.walk(x.target)):
                    raise Unsupported('loop variable %s rebound by a comprehension' % v)
        self.loopvars.add(v)
        import copy
        out = []
        for a in self.names:
            for m in n.body:
                out.append(Subst(v, ast.Name(id=a, ctx=ast.Load())).visit(copy.deepcopy(m)))
        return out

    def visit_ListComp(self, n):
        self.generic_visit(n)
        if len(n.generators) == 1 and self.over(n.generators[0].iter):
            g = n.generators[0]
            if not isinstance(g.target, ast.Name) or g.ifs or g.is_async or g.target.id in self.names:
                raise Unsupported('comprehension over %s' % self.xs)
            for x in ast.walk(n.elt):
                if isinstance(x, (ast.comprehension, ast.Lambda, ast.NamedExpr)):
                    raise Unsupported('nested binder in a comprehension over %s' % self.xs)
            import copy
            return ast.List(elts=[Subst(g.target.id, ast.Name(id=a, ctx=ast.Load())).visit(copy.deepcopy(n.elt))
                                  for a in self.names], ctx=ast.Load())
        return n


def slice_after_unpack(fn, xs, adapters):
    """The statements of fn after the (unique, top-level) statement `a, b, c = xs`, with loops / list comprehensions
    over xs unrolled over a, b, c (see Unroll).  Checked: the statement before it is
    `xs = [cls(...) for _ in xs]` where `cls = A if t else B` (or `cls = A`) is bound once before, and A, B are
    module-level classes deriving from `adapters` without __new__ (so a, b, c are three distinct fresh objects: a
    mutation through one name is not seen through another); after the unpacking neither xs nor a, b, c is rebound
    or deleted, xs is used only by the unrolled loops, and the loop variables are not used outside them."""
    body = list(fn.body)
    idx = [i for i, s in enumerate(body) if isinstance(s, ast.Assign) and len(s.targets) == 1
           and isinstance(s.targets[0], ast.Tuple) and isinstance(s.value, ast.Name) and s.value.id == xs]
    if len(idx) != 1:
        raise Unsupported('%d statements `a, b, c = %s` at the top level of %s' % (len(idx), xs, fn.name))
    i = idx[0]
    elts = body[i].targets[0].elts
    if not all(isinstance(t, ast.Name) for t in elts):
        raise Unsupported('targets of the unpacking of %s' % xs)
    names = [t.id for t in elts]
    if len(set(names)) != len(names) or xs in names:
        raise Unsupported('names bound by the unpacking of %s are not distinct' % xs)
    # the list is a list of fresh adapter objects
    prev = body[i - 1] if i >= 1 else None
    ok = (isinstance(prev, ast.Assign) and len(prev.targets) == 1 and isinstance(prev.targets[0], ast.Name)
          and prev.targets[0].id == xs and isinstance(prev.value, ast.ListComp) and len(prev.value.generators) == 1
          and not prev.value.generators[0].ifs and isinstance(prev.value.elt, ast.Call)
          and isinstance(prev.value.elt.func, ast.Name))
    if not ok:
        raise Unsupported('the statement before the unpacking of %s is not `%s = [cls(...) for ...]`' % (xs, xs))
    cls = prev.value.elt.func.id
    binds = [s for s in ast.walk(fn) if isinstance(s, ast.Name) and s.id == cls and not isinstance(s.ctx, ast.Load)]
    defs = [s for s in body[:i - 1] if isinstance(s, ast.Assign) and len(s.targets) == 1
            and isinstance(s.targets[0], ast.Name) and s.targets[0].id == cls]
    if len(binds) != 1 or len(defs) != 1 or any(a.arg == cls for a in fn.args.args):
        raise Unsupported('%s is not bound exactly once before the unpacking of %s' % (cls, xs))
    v = defs[0].value
    classes = [v.body, v.orelse] if isinstance(v, ast.IfExp) else [v]
    if not all(isinstance(c, ast.Name) for c in classes):
        raise Unsupported('%s is not a class or a choice between two classes' % cls)
    return i, names, [c.id for c in classes]


def check_adapter_classes(tree, classes, base):
    for c in classes:
        d = [n for n in tree.body if isinstance(n, ast.ClassDef) and n.name == c]
        if len(d) != 1 or d[0].keywords or d[0].decorator_list \
                or [ast.unparse(b) for b in d[0].bases] != [base] \
                or any(isinstance(m, ast.FunctionDef) and m.name == '__new__' for m in d[0].body):
            raise Unsupported('%s is not a plain subclass of %s' % (c, base))


def bound_method_aliases(fn, body):
    """`f = obj.m` at the top level of the translated statements, where `.m` is a translated (or external) method and
    f is CALLED later: every call `f(args)` is printed as the method call `obj.m(args)` and the alias statement as
    `pass`.  In Python the statement looks the method up once (no effect: methods are resolved by name, the receiver
    is trusted to be an instance of the class of the target) and the bound method keeps the object that obj names at
    that moment; so the rewriting preserves the meaning when, as checked here: obj and f are plain names, f is bound
    by this statement only (not a parameter, no other store, no del / global / nonlocal / nested function), obj is
    bound nowhere in the function except as a parameter, f is read only as the callee of calls, and every such call
    lies in a statement after the alias at the same level."""
    out = list(body)
    for i, s in enumerate(body):
        if not (isinstance(s, ast.Assign) and len(s.targets) == 1 and isinstance(s.targets[0], ast.Name)
                and isinstance(s.value, ast.Attribute) and isinstance(s.value.value, ast.Name)
                and ('.' + s.value.attr in CALLABLE or '.' + s.value.attr in EXTERNAL)
                and s.value.attr not in PROP_GET):
            continue
        f, obj, m = s.targets[0].id, s.value.value.id, s.value.attr
        called = [n for n in ast.walk(fn) if isinstance(n, ast.Call) and isinstance(n.func, ast.Name) and n.func.id == f]
        if not called:
            continue
        for n in ast.walk(fn):
            if isinstance(n, (ast.FunctionDef, ast.Lambda, ast.Global, ast.Nonlocal, ast.Delete)) and n is not fn:
                raise Unsupported('%s inside %s, which aliases the bound method %s.%s' % (type(n).__name__, fn.name, obj, m))
            if isinstance(n, ast.Name) and n.id == f and not isinstance(n.ctx, ast.Load) and n is not s.targets[0]:
                raise Unsupported('the bound-method alias %s is rebound' % f)
            if isinstance(n, ast.Name) and n.id == obj and not isinstance(n.ctx, ast.Load):
                raise Unsupported('%s, whose method %s is aliased, is rebound' % (obj, m))
            if isinstance(n, ast.arg) and n.arg == f:
                raise Unsupported('the bound-method alias %s is a parameter' % f)
        callees = set(id(n.func) for n in called)
        later = set()
        for t in body[i + 1:]:
            later.update(id(n) for n in ast.walk(t))
        for n in ast.walk(fn):
            if isinstance(n, ast.Name) and n.id == f and isinstance(n.ctx, ast.Load):
                if id(n) not in callees:
                    raise Unsupported('the bound-method alias %s is used other than as a callee' % f)
                if id(n) not in later:
                    raise Unsupported('the bound-method alias %s is called outside the statements after its binding' % f)
        import copy

        class Re(ast.NodeTransformer):
            def visit_Call(self, n):
                self.generic_visit(n)
                if isinstance(n.func, ast.Name) and n.func.id == f:
                    n.func = ast.Attribute(value=ast.Name(id=obj, ctx=ast.Load()), attr=m, ctx=ast.Load())
                return n
        out = [ast.Pass() if t is s else (Re().visit(copy.deepcopy(t)) if j > i else t) for j, t in enumerate(out)]
    return out


def slice_in_for(fn, first, last, then=()):
    """The statements, inside the body of the only top-level `for` loop of fn that assigns `first` at the top level of
    its body, from the first assignment `first = ...` through the first assignment `last = ...` after it (both
    plain-name assignments at the top level of the loop body).  Checked: no name bound by these statements is bound
    again anywhere else in the loop (so what the rest of the iteration reads under these names are the values
    computed by the slice), and the statements contain no nested loop / function.  `then`: expressions (source text,
    compared after ast.unparse) that must occur in the loop after the slice - the consumers of the values, so that a
    change of what is handed on (another matrix given to add_links) is refused rather than missed."""
    def assigns(s, nm):
        return isinstance(s, ast.Assign) and len(s.targets) == 1 and isinstance(s.targets[0], ast.Name) \
            and s.targets[0].id == nm
    loops = [x for x in fn.body if isinstance(x, ast.For) and any(assigns(s, first) for s in x.body)]
    if len(loops) != 1:
        raise Unsupported('%d top-level for loops of %s assign %s' % (len(loops), fn.name, first))
    loop = loops[0]
    if loop.orelse:
        raise Unsupported('else clause of the loop of %s' % fn.name)
    i = [k for k, s in enumerate(loop.body) if assigns(s, first)][0]
    js = [k for k, s in enumerate(loop.body) if k >= i and assigns(s, last)]
    if not js:
        raise Unsupported('no assignment of %s after the one of %s in the loop of %s' % (last, first, fn.name))
    sl = loop.body[i:js[0] + 1]
    inside = set()
    for s in sl:
        for n in ast.walk(s):
            inside.add(id(n))
            if isinstance(n, (ast.For, ast.While, ast.FunctionDef, ast.Lambda, ast.Global, ast.Nonlocal, ast.Delete,
                              ast.NamedExpr)):
                raise Unsupported('%s inside the slice %s..%s of %s' % (type(n).__name__, first, last, fn.name))
    bound = set(n.id for s in sl for n in ast.walk(s) if isinstance(n, ast.Name) and not isinstance(n.ctx, ast.Load))
    for n in ast.walk(loop):
        if id(n) in inside:
            continue
        if isinstance(n, ast.Name) and n.id in bound and not isinstance(n.ctx, ast.Load):
            raise Unsupported('%s, bound by the slice %s..%s, is bound again in the loop of %s' % (n.id, first, last, fn.name))
        if isinstance(n, (ast.Global, ast.Nonlocal)) and set(n.names) & bound:
            raise Unsupported('global / nonlocal declaration of a name of the slice %s..%s' % (first, last))
        if isinstance(n, ast.arg) and n.arg in bound:
            raise Unsupported('%s, bound by the slice %s..%s, is a parameter of a nested function' % (n.arg, first, last))
    after = set()
    for st in loop.body[js[0] + 1:]:
        for n in ast.walk(st):
            if isinstance(n, ast.expr):
                after.add(ast.unparse(n))
    for text in then:
        if ast.unparse(ast.parse(text, mode='eval').body) not in after:
            raise Unsupported('the loop of %s does not contain `%s` after the slice %s..%s' % (fn.name, text, first, last))
    return sl


def select_branch(fn, var, value):
    """The body of the branch `var == 'value'` of the (unique) top-level `if var == 'a': .. elif var == 'b': ..` chain
    of fn.  Every test of the chain must be `var == <string constant>` with pairwise distinct constants, so that the
    branch is the one executed exactly when var == 'value' (the tests before it are false and have no effect); a
    final `else:` is allowed and ignored.  The statements before and after the chain are not translated."""
    def test_const(t):
        if isinstance(t, ast.Compare) and len(t.ops) == 1 and isinstance(t.ops[0], ast.Eq) \
                and isinstance(t.left, ast.Name) and t.left.id == var \
                and isinstance(t.comparators[0], ast.Constant) and isinstance(t.comparators[0].value, str):
            return t.comparators[0].value
        return None
    chains = []
    for s in fn.body:
        if isinstance(s, ast.If) and test_const(s.test) is not None:
            chain, node = [], s
            while True:
                c = test_const(node.test)
                if c is None:
                    raise Unsupported('test %s in the chain on %s' % (ast.unparse(node.test)[:60], var))
                chain.append((c, node.body))
                if len(node.orelse) == 1 and isinstance(node.orelse[0], ast.If):
                    node = node.orelse[0]
                else:
                    break
            chains.append(chain)
    if len(chains) != 1:
        raise Unsupported('%d if-chains on %s at the top level of %s' % (len(chains), var, fn.name))
    consts = [c for c, _ in chains[0]]
    if len(set(consts)) != len(consts):
        raise Unsupported('the chain on %s tests a constant twice' % var)
    if value not in consts:
        raise Unsupported('no branch %s == %r in %s' % (var, value, fn.name))
    body = dict(chains[0])[value]
    for s in body:
        for x in ast.walk(s):
            if isinstance(x, ast.Name) and x.id == var and not isinstance(x.ctx, ast.Load):
                raise Unsupported('%s is rebound inside its own branch' % var)
    return list(body)


def slice_span(fn, first, last, opts, params):
    """slice_from = ('<span>', first, last, opts): the top-level statements of fn from the statement that binds `first`
    (the first top-level statement, of any kind, inside which the name is a target; written '=name': the first plain
    top-level assignment `name = ...`) through the first top-level statement, at or after it, inside which `last` is a
    target (`last` None: through the end of the function).  The statements before and after are not translated; what
    ties the slice to them is checked here (fail-closed), with opts =
      'keep':   names bound inside the slice that are bound NOWHERE else in the function (not parameters, no global /
                nonlocal / del / nested function binding them): what the rest of the function reads under these names
                are the values the slice computed;
      'then':   source texts of expressions or whole statements (compared after ast.unparse) that must occur in the
                top-level statements after the slice: the consumers of these values;
      'before': source texts of top-level statements that must occur before the slice; every free variable of the
                slice (`params`) is either bound before the slice only by statements of this list (the last one
                wins), or is a parameter of fn that nothing binds before the slice.
    The slice contains no loop, nested function, lambda, global / nonlocal, del, walrus, yield."""
    body = list(fn.body)
    # the targets of comprehensions / generator expressions live in a scope of their own (Python 3): not bindings of
    # the function's locals
    comp = set()
    for c in ast.walk(fn):
        if isinstance(c, ast.comprehension):
            comp.update(id(x) for x in ast.walk(c.target))

    def stores(s, nm):
        return any(isinstance(x, ast.Name) and x.id == nm and not isinstance(x.ctx, ast.Load) and id(x) not in comp
                   for x in ast.walk(s))

    def plain(s, nm):
        return isinstance(s, ast.Assign) and len(s.targets) == 1 and isinstance(s.targets[0], ast.Name) \
            and s.targets[0].id == nm
    if first.startswith('='):
        starts = [k for k, s in enumerate(body) if plain(s, first[1:])]
    else:
        starts = [k for k, s in enumerate(body) if stores(s, first)]
    if not starts:
        raise Unsupported('no top-level statement of %s binds %s' % (fn.name, first))
    i = starts[0]
    if last is None:
        j = len(body) - 1
    else:
        ends = [k for k, s in enumerate(body) if k >= i and stores(s, last)]
        if not ends:
            raise Unsupported('no statement of %s binds %s after the one that binds %s' % (fn.name, last, first))
        j = ends[0]
    sl = body[i:j + 1]
    inside = set()
    for s in sl:
        for n in ast.walk(s):
            inside.add(id(n))
            if isinstance(n, (ast.For, ast.While, ast.FunctionDef, ast.AsyncFunctionDef, ast.Lambda, ast.Global,
                              ast.Nonlocal, ast.Delete, ast.NamedExpr, ast.Yield, ast.YieldFrom, ast.Await,
                              ast.ClassDef, ast.Try, ast.With)):
                raise Unsupported('%s inside the slice %s..%s of %s' % (type(n).__name__, first, last, fn.name))
    bound = set(n.id for s in sl for n in ast.walk(s) if isinstance(n, ast.Name) and not isinstance(n.ctx, ast.Load))
    keep = list(opts.get('keep', []))
    for nm in keep:
        if nm not in bound:
            raise Unsupported('%s is not bound by the slice %s..%s of %s' % (nm, first, last, fn.name))
    for n in ast.walk(fn):
        if id(n) in inside:
            continue
        if isinstance(n, ast.Name) and n.id in keep and not isinstance(n.ctx, ast.Load) and id(n) not in comp:
            raise Unsupported('%s, bound by the slice %s..%s, is bound again in %s' % (n.id, first, last, fn.name))
        if isinstance(n, (ast.Global, ast.Nonlocal)) and set(n.names) & set(keep):
            raise Unsupported('global / nonlocal declaration of a name of the slice %s..%s' % (first, last))
        if isinstance(n, ast.arg) and n.arg in keep:
            raise Unsupported('%s, bound by the slice %s..%s, is a parameter' % (n.arg, first, last))
        if isinstance(n, ast.ExceptHandler) and n.name in keep:
            raise Unsupported('%s, bound by the slice %s..%s, is bound by an except clause' % (n.name, first, last))
        if isinstance(n, ast.alias) and (n.asname or n.name).split('.')[0] in keep:
            raise Unsupported('%s, bound by the slice %s..%s, is bound by an import' % (n.name, first, last))
    after = set()
    for st in body[j + 1:]:
        after.add(ast.unparse(st))
        for n in ast.walk(st):
            if isinstance(n, ast.expr):
                after.add(ast.unparse(n))
    for text in opts.get('then', []):
        mod = ast.parse(text)
        norm = ast.unparse(mod.body[0].value if isinstance(mod.body[0], ast.Expr) else mod.body[0])
        if norm not in after:
            raise Unsupported('%s does not contain `%s` after the slice %s..%s' % (fn.name, text, first, last))
    if 'before' in opts:
        texts = [ast.unparse(ast.parse(t).body[0]) for t in opts['before']]
        found = {}
        for k, st in enumerate(body[:i]):
            if ast.unparse(st) in texts:
                if ast.unparse(st) in found:
                    raise Unsupported('the statement `%s` occurs twice before the slice %s..%s' % (ast.unparse(st), first, last))
                found[ast.unparse(st)] = k
        for t in texts:
            if t not in found:
                raise Unsupported('%s does not contain the statement `%s` before the slice %s..%s' % (fn.name, t, first, last))
        fnparams = [a.arg for a in fn.args.args]
        for p_ in (params or []):
            binders = [k for k, st in enumerate(body[:i]) if stores(st, p_)]
            if not binders:
                if p_ not in fnparams:
                    raise Unsupported('%s, read by the slice %s..%s, is neither a parameter of %s nor bound before it'
                                      % (p_, first, last, fn.name))
            elif any(k not in found.values() for k in binders):
                raise Unsupported('%s, read by the slice %s..%s, is bound before it by a statement that is not listed'
                                  % (p_, first, last))
    return sl


# option 'inner' of the target being printed: the parameters of the enclosing decorator (callees a body may call as
# declared oracles) and the vararg of the inner function (see decorator_inner / oracle_stmt)
CLOSURE_PARAMS = set()
VARARG = [None]
KNOWN_BUILTINS = ('getattr', 'setattr', 'hasattr', 'max', 'min', 'len', 'abs', 'sum', 'range', 'enumerate', 'tuple',
                  'isinstance', 'reversed', 'bool', 'functools')


def decorator_inner(tree, outer, inner_name):
    """Target option 'inner' = name: the target is the function `name` defined inside the module-level decorator
    `outer` and returned by it, i.e. what a call of the decorated function executes.  Accepted shape only:
        def outer(p):                      one positional parameter, no decorator
            [docstring]
            @functools.wraps(p)            optional; `functools` bound in the module by `import functools` only.
            def name(a, b, *rest): ...     wraps() copies attributes onto `name` and returns it: calls are unchanged
            name.attr = p                  any number of these
            return name
    so p is bound once, when the decorator is applied, and `name` can only be entered through the returned object.
    Inside `name`: positional parameters without defaults and an optional vararg (no keyword parameters); p, name and
    the vararg are never rebound, no nested function / lambda / global / nonlocal, `name` is not used (no recursion).
    Returns a copy of `name` whose vararg is an ordinary last parameter (its value: the tuple of the extra positional
    arguments), and records p in CLOSURE_PARAMS and the vararg in VARARG for the printing of the body."""
    import copy
    if outer not in tree.body or outer.decorator_list:
        raise Unsupported('%s is not an undecorated module-level function' % outer.name)
    a = outer.args
    if a.vararg or a.kwarg or a.kwonlyargs or a.posonlyargs or a.defaults or len(a.args) != 1:
        raise Unsupported('signature of the decorator %s' % outer.name)
    p = a.args[0].arg
    body = list(outer.body)
    if body and isinstance(body[0], ast.Expr) and isinstance(body[0].value, ast.Constant) \
            and isinstance(body[0].value.value, str):
        body = body[1:]
    if len(body) < 2 or not isinstance(body[0], ast.FunctionDef) or body[0].name != inner_name:
        raise Unsupported('%s does not start with the definition of %s' % (outer.name, inner_name))
    inner = body[0]
    if p in KNOWN_BUILTINS or inner_name in KNOWN_BUILTINS or p == inner_name:
        raise Unsupported('names of the decorator %s' % outer.name)
    for s in body[1:-1]:
        if not (isinstance(s, ast.Assign) and len(s.targets) == 1 and isinstance(s.targets[0], ast.Attribute)
                and isinstance(s.targets[0].value, ast.Name) and s.targets[0].value.id == inner_name
                and isinstance(s.value, ast.Name) and s.value.id == p):
            raise Unsupported('statement of the decorator %s: %s' % (outer.name, ast.unparse(s)[:80]))
    if not (isinstance(body[-1], ast.Return) and isinstance(body[-1].value, ast.Name) and body[-1].value.id == inner_name):
        raise Unsupported('%s does not end with `return %s`' % (outer.name, inner_name))
    if inner.decorator_list:
        if len(inner.decorator_list) != 1 or ast.unparse(inner.decorator_list[0]) != 'functools.wraps(%s)' % p:
            raise Unsupported('decorator of %s.%s' % (outer.name, inner_name))
        binds = 0
        for n in ast.walk(tree):
            if isinstance(n, ast.alias) and ((n.asname or n.name).split('.')[0] == 'functools' or n.name == '*'):
                binds += 1
            if (isinstance(n, ast.Name) and n.id == 'functools' and not isinstance(n.ctx, ast.Load)) \
                    or (isinstance(n, ast.arg) and n.arg == 'functools') \
                    or (isinstance(n, (ast.FunctionDef, ast.AsyncFunctionDef, ast.ClassDef)) and n.name == 'functools') \
                    or (isinstance(n, (ast.Global, ast.Nonlocal)) and 'functools' in n.names) \
                    or (isinstance(n, ast.ExceptHandler) and n.name == 'functools'):
                binds += 2
        if binds != 1 or not any(isinstance(n, ast.Import) and any(
                x.name == 'functools' and x.asname is None for x in n.names) for n in tree.body):
            raise Unsupported('functools is not bound by a single module-level `import functools`')
    ia = inner.args
    if ia.kwarg or ia.kwonlyargs or ia.posonlyargs or ia.defaults or ia.kw_defaults:
        raise Unsupported('signature of %s.%s' % (outer.name, inner_name))
    names = [x.arg for x in ia.args] + ([ia.vararg.arg] if ia.vararg else [])
    if len(set(names)) != len(names) or p in names or inner_name in names:
        raise Unsupported('parameters of %s.%s' % (outer.name, inner_name))
    fixed = {p, inner_name} | ({ia.vararg.arg} if ia.vararg else set())
    for s in inner.body:
        for n in ast.walk(s):
            if isinstance(n, (ast.FunctionDef, ast.AsyncFunctionDef, ast.ClassDef, ast.Lambda, ast.Global, ast.Nonlocal,
                              ast.Delete, ast.NamedExpr, ast.Yield, ast.YieldFrom, ast.Await, ast.Try, ast.With,
                              ast.Import, ast.ImportFrom)):
                raise Unsupported('%s inside %s.%s' % (type(n).__name__, outer.name, inner_name))
            if isinstance(n, ast.Name) and n.id in fixed and not isinstance(n.ctx, ast.Load):
                raise Unsupported('%s is rebound inside %s.%s' % (n.id, outer.name, inner_name))
            if isinstance(n, ast.Name) and n.id == inner_name:
                raise Unsupported('%s uses its own name' % inner_name)
            if isinstance(n, ast.comprehension) and any(
                    isinstance(x, ast.Name) and x.id in fixed for x in ast.walk(n.target)):
                raise Unsupported('%s is rebound by a comprehension' % sorted(fixed))
    fn = copy.deepcopy(inner)
    fn.decorator_list = []
    if ia.vararg:
        fn.args.args = fn.args.args + [ast.arg(arg=ia.vararg.arg)]
        fn.args.vararg = None
    ast.fix_missing_locations(fn)
    CLOSURE_PARAMS.add(p)
    VARARG[0] = ia.vararg.arg if ia.vararg else None
    return fn


def slice_loop_body(fn, until, then=(), returns=None, start=None, before=(), init=()):
    """The statements of the body of the only top-level `for` loop of fn, from the first one through the (unique)
    top-level statement of that body whose text (ast.unparse) is `until` (or, `until` = '<text', the one right before the
    statement whose first line is `text`; `start` = '>text': the one right after the statement `text`).  The free variables of these statements are
    the `params` of the target: values at the start of an iteration.  Checked: no nested function / lambda / global /
    del of a name in the function; a name BOUND by the slice is bound nowhere else in the loop (so what the rest of the
    iteration reads under it is what the slice computed); a name whose list the slice MUTATES (x.append / x.pop) does
    not occur in the rest of the loop at all; `then`: expression texts that must occur in the loop after the slice
    (the consumers of the computed values: a change of what is handed on is refused rather than missed); `returns`:
    the text of the last statement of the function.  `start`: the text of the (unique) top-level statement of the loop
    body at which the slice starts instead of the first one (the statements of the body before it bind free variables
    of the slice).  A name x whose entry x['k'] the slice assigns (a dictionary: the variable is updated, as for
    attributes) may be used by the rest of the iteration, but the statements after the slice neither rebind x nor
    assign / delete its entry 'k' again."""
    loops = [x for x in fn.body if isinstance(x, ast.For)]
    if len(loops) != 1:
        raise Unsupported('%d for loops at the top level of %s' % (len(loops), fn.name))
    loop = loops[0]
    if loop.orelse:
        raise Unsupported('else clause of the loop of %s' % fn.name)
    if until.startswith('<'):
        # '<text': the statement right before the top-level statement of the body whose first line (as unparsed) is `text`
        js = [k - 1 for k, s in enumerate(loop.body) if k >= 1 and ast.unparse(s).split('\n')[0] == until[1:]]
    else:
        want = ast.unparse(ast.parse(until).body[0])
        js = [k for k, s in enumerate(loop.body) if ast.unparse(s) == want]
    if len(js) != 1:
        raise Unsupported('%d statements `%s` at the top level of the loop of %s' % (len(js), until, fn.name))
    i0 = 0
    if start is not None:
        if start.startswith('>'):
            # '>text': the statement right after the top-level statement of the body whose text is `text`
            want0 = ast.unparse(ast.parse(start[1:]).body[0])
            is_ = [k + 1 for k, s in enumerate(loop.body) if ast.unparse(s) == want0]
        else:
            want0 = ast.unparse(ast.parse(start).body[0])
            is_ = [k for k, s in enumerate(loop.body) if ast.unparse(s) == want0]
        if len(is_) != 1 or is_[0] > js[0]:
            raise Unsupported('%d statements `%s` at the top level of the loop of %s' % (len(is_), start, fn.name))
        i0 = is_[0]
    sl = loop.body[i0:js[0] + 1]
    # `init`: texts of the top-level statements of the function before the loop (docstring aside), in this order
    if init and [ast.unparse(x) for x in fn.body[:fn.body.index(loop)]
                 if not (isinstance(x, ast.Expr) and isinstance(x.value, ast.Constant))] != [
            ast.unparse(ast.parse(t).body[0]) for t in init]:
        raise Unsupported('the statements of %s before its loop are not %s' % (fn.name, list(init)))
    # `before`: texts of statements that must occur, in this order, right before the start of the slice
    if [ast.unparse(x) for x in loop.body[max(0, i0 - len(before)):i0]] != [
            ast.unparse(ast.parse(t).body[0]) for t in before]:
        raise Unsupported('the statements before the slice of %s are not %s' % (fn.name, list(before)))
    # entries x['k'] assigned by the slice: not assigned again after it, x not rebound after it
    entries = set()
    for s in sl:
        for n in ast.walk(s):
            if isinstance(n, ast.Subscript) and not isinstance(n.ctx, ast.Load):
                if not (isinstance(n.value, ast.Name) and isinstance(n.slice, ast.Constant)
                        and isinstance(n.slice.value, str)):
                    raise Unsupported('subscript target %s in the slice of %s' % (ast.unparse(n)[:60], fn.name))
                entries.add((n.value.id, n.slice.value))
    for st in loop.body[js[0] + 1:]:
        for n in ast.walk(st):
            if isinstance(n, ast.Name) and not isinstance(n.ctx, ast.Load) and n.id in {x for x, _ in entries}:
                raise Unsupported('%s, whose entry the slice of %s assigns, is rebound after it' % (n.id, fn.name))
            if isinstance(n, ast.Subscript) and not isinstance(n.ctx, ast.Load) and isinstance(n.value, ast.Name) \
                    and n.value.id in {x for x, _ in entries} and not (
                        isinstance(n.slice, ast.Constant) and isinstance(n.slice.value, str)
                        and (n.value.id, n.slice.value) not in entries):
                raise Unsupported('the entry %s, assigned by the slice of %s, is assigned again after it'
                                  % (ast.unparse(n)[:60], fn.name))
            if isinstance(n, ast.Call) and isinstance(n.func, ast.Attribute) and isinstance(n.func.value, ast.Name) \
                    and n.func.value.id in {x for x, _ in entries} \
                    and n.func.attr in ('update', 'pop', 'popitem', 'clear', 'setdefault', '__setitem__', '__delitem__'):
                raise Unsupported('%s.%s() after the slice of %s, which assigns an entry of it'
                                  % (n.func.value.id, n.func.attr, fn.name))
    for n in ast.walk(fn):
        if isinstance(n, (ast.FunctionDef, ast.AsyncFunctionDef, ast.Lambda, ast.Global, ast.Nonlocal, ast.NamedExpr,
                          ast.Yield, ast.YieldFrom, ast.Try, ast.With)) and n is not fn:
            raise Unsupported('%s inside %s' % (type(n).__name__, fn.name))
        if isinstance(n, ast.Delete) and any(isinstance(t, ast.Name) for t in n.targets):
            raise Unsupported('del of a name inside %s' % fn.name)
    inside = set(id(n) for s in sl for n in ast.walk(s))
    bound = set(n.id for s in sl for n in ast.walk(s) if isinstance(n, ast.Name) and not isinstance(n.ctx, ast.Load))
    mutated = set()
    for s in sl:
        for n in ast.walk(s):
            if isinstance(n, ast.Call) and isinstance(n.func, ast.Attribute) and isinstance(n.func.value, ast.Name):
                mutated.add(n.func.value.id)
    if bound & mutated:
        raise Unsupported('%s is both rebound and mutated by the slice of %s' % (sorted(bound & mutated), fn.name))
    for n in ast.walk(loop):
        if id(n) in inside:
            continue
        if isinstance(n, ast.Name) and n.id in bound and not isinstance(n.ctx, ast.Load):
            raise Unsupported('%s, bound by the slice of %s, is bound again in the loop' % (n.id, fn.name))
        if isinstance(n, ast.Name) and n.id in mutated:
            raise Unsupported('%s, mutated by the slice of %s, is used in the rest of the loop' % (n.id, fn.name))
    after = set()
    for st in loop.body[js[0] + 1:]:
        for n in ast.walk(st):
            if isinstance(n, ast.expr):
                after.add(ast.unparse(n))
    for text in then:
        if ast.unparse(ast.parse(text, mode='eval').body) not in after:
            raise Unsupported('the loop of %s does not contain `%s` after the slice' % (fn.name, text))
    if returns is not None and ast.unparse(fn.body[-1]) != ast.unparse(ast.parse(returns).body[0]):
        raise Unsupported('%s does not end with `%s`' % (fn.name, returns))
    return list(sl)


def is_pop_call(n):
    return isinstance(n, ast.Call) and isinstance(n.func, ast.Attribute) and n.func.attr == 'pop' \
        and isinstance(n.func.value, ast.Name) and not n.args and not n.keywords


def hoist_pops(fn, stmts, params):
    """The call `x.pop()` (x a plain name, no argument) inside an expression.  Expressions have no effect on the
    environment in Py.v, so the statement  `t = E` / `t op= E`  (t a plain name other than x) whose E contains one such
    call is printed as the three statements
        %pop = x[-1]; x = x[:-1]; t = E[x.pop() := %pop]          ("%pop" is not a Python name)
    x[-1] on an empty list is IndexError as pop() is; otherwise the last element is taken and dropped.  The same
    meaning for every input under the conditions checked here (anything else is refused):
      * in E the call is reached from the root through operands of + - * only, and wherever the way goes into a RIGHT
        operand the left one is a number literal or a name that is certainly bound at this point (a parameter of the translated
        statements, or the target of a plain `name = ..` statement earlier in this block or in an enclosing block, no
        `del name` anywhere): Python evaluates exactly these before the call, they have no effect and cannot raise,
        and no operation is completed before the call - so taking the element first changes neither the result nor
        which error is raised; for `t op= E` the read of t comes first too: t must be certainly bound as well;
      * x occurs nowhere else in the statement, E contains no other call;
      * x is a parameter of the translated statements that they never rebind, and each of its reads is one that cannot
        give the list object a second name (the receiver of .append(..) / .pop(), the argument of len / sum, a
        subscripted x[..], the iterable of a for): Python mutates the object in place, here the variable is rebound
        (lists are values, as for x.append(e)); the final value of the variable x is the final state of the caller's
        list.  A receiver that is not a list is an error in both (AttributeError in Python, TypeError here)."""
    import copy
    if not any(is_pop_call(n) for s in stmts for n in ast.walk(s)):
        return stmts
    for n in ast.walk(fn):
        if isinstance(n, (ast.FunctionDef, ast.AsyncFunctionDef, ast.Lambda, ast.Global, ast.Nonlocal, ast.NamedExpr)) \
                and n is not fn:
            raise Unsupported('%s inside %s, which pops from a list' % (type(n).__name__, fn.name))
        if isinstance(n, ast.Delete) and any(isinstance(t, ast.Name) for t in n.targets):
            raise Unsupported('del of a name inside %s, which pops from a list' % fn.name)
    popped = set(n.func.value.id for s in stmts for n in ast.walk(s) if is_pop_call(n))
    safe = set()
    for s in stmts:
        for n in ast.walk(s):
            if isinstance(n, ast.Name) and n.id in popped and not isinstance(n.ctx, ast.Load):
                raise Unsupported('%s, from which an element is popped, is rebound' % n.id)
            if isinstance(n, ast.Call) and isinstance(n.func, ast.Attribute) and n.func.attr in ('append', 'pop'):
                safe.add(id(n.func.value))
            if isinstance(n, ast.Call) and isinstance(n.func, ast.Name) and n.func.id in ('len', 'sum') \
                    and len(n.args) == 1 and not n.keywords:
                safe.add(id(n.args[0]))
            if isinstance(n, ast.Subscript) and isinstance(n.ctx, ast.Load):
                safe.add(id(n.value))
            if isinstance(n, ast.For):
                safe.add(id(n.iter))
    for s in stmts:
        for n in ast.walk(s):
            if isinstance(n, ast.Name) and n.id in popped and id(n) not in safe:
                raise Unsupported('%s, from which an element is popped, is read in a way that may alias it' % n.id)
    for x in popped:
        if x not in params:
            raise Unsupported('%s, from which an element is popped, is not a parameter of the translated statements' % x)

    def leaf(e, bound):
        return (isinstance(e, ast.Constant) and type(e.value) in (int, float)) \
            or (isinstance(e, ast.Name) and isinstance(e.ctx, ast.Load) and e.id in bound)

    def rewrite(s, bound):
        if isinstance(s, ast.Assign) and len(s.targets) == 1 and isinstance(s.targets[0], ast.Name):
            t = s.targets[0].id
        elif isinstance(s, ast.AugAssign) and isinstance(s.target, ast.Name) and type(s.op) in BIN:
            t = s.target.id
            if t not in bound:
                raise Unsupported('%s %s= .. x.pop() ..: %s may be unbound' % (t, BIN[type(s.op)], t))
        else:
            raise Unsupported('x.pop() in the statement %s' % ast.unparse(s)[:80])
        calls = [n for n in ast.walk(s.value) if isinstance(n, ast.Call)]
        if len(calls) != 1:
            raise Unsupported('x.pop() next to another call in %s' % ast.unparse(s)[:80])
        x = calls[0].func.value.id
        if t == x or sum(1 for n in ast.walk(s) if isinstance(n, ast.Name) and n.id == x) != 1:
            raise Unsupported('%s occurs twice in %s' % (x, ast.unparse(s)[:80]))
        new = copy.deepcopy(s)
        e, parent = new.value, None
        side = None
        while not is_pop_call(e):
            if isinstance(e, ast.BinOp) and isinstance(e.op, (ast.Add, ast.Sub, ast.Mult)) \
                    and any(is_pop_call(n) for n in ast.walk(e.left)):
                # the left operand is evaluated first: nothing of this operation comes before the call
                parent, e, side = e, e.left, 'left'
                continue
            if not (isinstance(e, ast.BinOp) and isinstance(e.op, (ast.Add, ast.Sub, ast.Mult)) and leaf(e.left, bound)):
                raise Unsupported('x.pop() is not reached through right operands of + - * after literals / bound names '
                                  'in %s' % ast.unparse(s)[:80])
            parent, e, side = e, e.right, 'right'
        by = ast.Name(id='%pop', ctx=ast.Load())
        if parent is None:
            new.value = by
        elif side == 'left':
            parent.left = by
        else:
            parent.right = by
        take = ast.Assign(targets=[ast.Name(id='%pop', ctx=ast.Store())], value=ast.Subscript(
            value=ast.Name(id=x, ctx=ast.Load()), slice=ast.Constant(value=-1), ctx=ast.Load()))
        drop = ast.Assign(targets=[ast.Name(id=x, ctx=ast.Store())], value=ast.Subscript(
            value=ast.Name(id=x, ctx=ast.Load()), slice=ast.Slice(lower=None, upper=ast.Constant(value=-1), step=None),
            ctx=ast.Load()))
        return [ast.copy_location(take, s), ast.copy_location(drop, s), new]

    def has_pop(e):
        return e is not None and any(is_pop_call(n) for n in ast.walk(e))

    def walk_block(block_, bound):
        bound, out = set(bound), []
        for s in block_:
            if not has_pop(s):
                out.append(s)
            elif isinstance(s, (ast.Assign, ast.AugAssign)):
                out.extend(rewrite(s, bound))
            elif isinstance(s, ast.If) and not has_pop(s.test):
                s2 = copy.copy(s)
                s2.body, s2.orelse = walk_block(s.body, bound), walk_block(s.orelse, bound)
                out.append(s2)
            elif isinstance(s, ast.While) and not has_pop(s.test) and not s.orelse:
                s2 = copy.copy(s)
                s2.body = walk_block(s.body, bound)
                out.append(s2)
            else:
                raise Unsupported('x.pop() in the statement %s' % ast.unparse(s).split('\n')[0][:80])
            if isinstance(s, ast.Assign) and all(isinstance(t, ast.Name) for t in s.targets):
                bound.update(t.id for t in s.targets)
        return out
    return walk_block(list(stmts), set(params))


def translate_function(fn, name, slice_from=None, params=None, after_unpack=None, tree=None, in_for=None):
    """fn: ast.FunctionDef.  slice_from: name of the variable whose first assignment starts the translated
    slice (the statements before it are *not* translated; `params` are then the free variables).
    after_unpack = (xs, adapter base class): the slice starts after `a, b, c = xs` (see slice_after_unpack).
    in_for = (first, last): the statements first = ... through last = ... of a top-level loop (see slice_in_for)."""
    CURRENT[:] = [fn, tree]
    # the option 'opaque' of the target with this Coq name (see stmt_or_unsupported); off for every other target
    OPAQUE[0] = any(c == name and x.get('opaque') for _, ts in TARGETS.values() for _, _, c, x in ts)
    STR_INDEX[0] = any(c == name and x.get('str_index') for _, ts in TARGETS.values() for _, _, c, x in ts)
    ISINSTANCE[0] = any(c == name and x.get('isinstance') for _, ts in TARGETS.values() for _, _, c, x in ts)
    SEQ_OPS[0] = any(c == name and x.get('seq_ops') for _, ts in TARGETS.values() for _, _, c, x in ts)
    FOR_BREAK[0] = any(c == name and x.get('for_break') for _, ts in TARGETS.values() for _, _, c, x in ts)
    UNPACK_GEN[0] = any(c == name and x.get('unpack_gen') for _, ts in TARGETS.values() for _, _, c, x in ts)
    REBUILD[0] = any(c == name and x.get('rebuild') for _, ts in TARGETS.values() for _, _, c, x in ts)
    OBJ_METHODS.clear()
    for _, ts in TARGETS.values():
        for _, _, c, x in ts:
            if c == name and x.get('obj_methods'):
                OBJ_METHODS.update(x['obj_methods'])
    body = list(fn.body)
    if in_for is not None:
        body = slice_in_for(fn, *in_for)
    elif after_unpack is not None:
        xs, base = after_unpack
        i, names, classes = slice_after_unpack(fn, xs, base)
        check_adapter_classes(tree, classes, base)
        un = Unroll(xs, names)
        mod = un.visit(ast.Module(body=body[i + 1:], type_ignores=[]))
        body = mod.body
        # objects are values in Py.v: an adapter may only be used as the receiver of an attribute access / method
        # call (`box_a.x`), never copied into another name, a list or an argument (no second name for one object)
        bases = set()
        for s in body:
            for x in ast.walk(s):
                if isinstance(x, ast.Attribute) and isinstance(x.value, ast.Name):
                    bases.add(id(x.value))
        for s in body:
            for x in ast.walk(s):
                if isinstance(x, ast.Name) and x.id in names and id(x) not in bases:
                    raise Unsupported('%s is used other than as the receiver of an attribute access' % x.id)
        for s in body:
            for x in ast.walk(s):
                if isinstance(x, ast.Name) and x.id == xs:
                    raise Unsupported('%s is used other than by a loop / list comprehension over it' % xs)
                if isinstance(x, ast.Name) and x.id in names and not isinstance(x.ctx, ast.Load):
                    raise Unsupported('%s is rebound after the unpacking of %s' % (x.id, xs))
                if isinstance(x, ast.Name) and x.id in un.loopvars:
                    raise Unsupported('loop variable %s is used outside the loops over %s' % (x.id, xs))
                if isinstance(x, (ast.arg,)) and x.arg in names + [xs]:
                    raise Unsupported('%s is rebound by a nested function' % x.arg)
    elif slice_from == '<while>':
        loops = [x for x in body if isinstance(x, ast.While)]
        if len(loops) != 1:
            raise Unsupported('%d while loops at the top level of %s' % (len(loops), fn.name))
        body = loops
    elif slice_from == '<first-if>':
        # the first `if` statement at the top level of the function (test included); the statements after it are
        # not translated
        ifs = [x for x in body if isinstance(x, ast.If)]
        if not ifs:
            raise Unsupported('no if statement at the top level of %s' % fn.name)
        body = ifs[:1]
    elif isinstance(slice_from, tuple) and slice_from[0] == '<branch>':
        body = select_branch(fn, slice_from[1], slice_from[2])
    elif isinstance(slice_from, tuple) and slice_from[0] == '<after-chain>':
        # the statements that follow the (unique) top-level chain `if var == 'a': .. elif ..`, to the end of fn
        body = body[chain_position(fn, slice_from[1]) + 1:]
        if not body:
            raise Unsupported('nothing after the chain on %s in %s' % (slice_from[1], fn.name))
    elif isinstance(slice_from, tuple) and slice_from[0] == '<from-to>':
        # from the first top-level statement inside which the name slice_from[1] is a target, up to (not including)
        # the first later top-level statement inside which the name slice_from[2] is a target
        def binds_(s_, nm_):
            return any(isinstance(x, ast.Name) and x.id == nm_ and not isinstance(x.ctx, ast.Load) for x in ast.walk(s_))
        js_ = [j for j, s in enumerate(body) if binds_(s, slice_from[1])]
        if not js_:
            raise Unsupported('no statement of %s binds %s' % (fn.name, slice_from[1]))
        ks_ = [j for j, s in enumerate(body) if j > js_[0] and binds_(s, slice_from[2])]
        if not ks_:
            raise Unsupported('no statement of %s after the one binding %s binds %s' % (fn.name, slice_from[1], slice_from[2]))
        body = body[js_[0]:ks_[0]]
    elif isinstance(slice_from, tuple) and slice_from[0] == '<until-chain>':
        # from the first top-level statement inside which the name slice_from[2] is a target, up to (not including)
        # the chain on the variable slice_from[1]
        i_ = chain_position(fn, slice_from[1])
        js_ = [j for j, s in enumerate(body[:i_]) if any(
            isinstance(x, ast.Name) and x.id == slice_from[2] and not isinstance(x.ctx, ast.Load) for x in ast.walk(s))]
        if not js_:
            raise Unsupported('no statement of %s before the chain on %s binds %s' % (fn.name, slice_from[1], slice_from[2]))
        body = body[js_[0]:i_]
    elif isinstance(slice_from, tuple) and slice_from[0] == '<loop-body>':
        # ('<loop-body>', until, then, returns[, start[, before[, init]]]): statements of the body of the only top-level for loop, from the
        # first one (or `start`) through `until` (slice_loop_body)
        body = slice_loop_body(fn, slice_from[1], slice_from[2], slice_from[3],
                               slice_from[4] if len(slice_from) > 4 else None,
                               slice_from[5] if len(slice_from) > 5 else (),
                               slice_from[6] if len(slice_from) > 6 else ())
    elif isinstance(slice_from, tuple) and slice_from[0] == '<span>':
        body = slice_span(fn, slice_from[1], slice_from[2], slice_from[3], params)
    elif isinstance(slice_from, tuple) and slice_from[0] == '<nested>':
        body = slice_nested(fn, slice_from[1], slice_from[2], slice_from[3])
    elif isinstance(slice_from, tuple) and slice_from[0] == '<after-for>':
        # the statements that follow the (unique) top-level loop `for <name> in ..:` (name = slice_from[1]), to the end
        # of fn; the loop and the statements before it are not translated (`params` are the free variables)
        fors_ = [k for k, x in enumerate(body) if isinstance(x, ast.For) and isinstance(x.target, ast.Name)
                 and x.target.id == slice_from[1]]
        if len(fors_) != 1:
            raise Unsupported('%d top-level loops over %s in %s' % (len(fors_), slice_from[1], fn.name))
        body = body[fors_[0] + 1:]
        if not body:
            raise Unsupported('nothing after the loop over %s in %s' % (slice_from[1], fn.name))
    elif isinstance(slice_from, tuple) and slice_from[0] == '<last-else>':
        # ('<last-else>', head): the `else` branch of the LAST top-level statement of the function, which must be the
        # statement `if <head>:` (first line compared as text).  The branch is the tail of the function whenever the
        # test is false: a `return` of the slice is the return of the function, and running off its end is running
        # off the end of the function (None).  The test and everything before it are not translated; `params` are
        # the free variables (the target states which values they stand for).
        last_ = body[-1] if body else None
        if not isinstance(last_, ast.If) or ast.unparse(last_).split('\n')[0] != slice_from[1] or not last_.orelse:
            raise Unsupported('the last statement of %s is not `%s` with an else branch' % (fn.name, slice_from[1]))
        body = list(last_.orelse)
    elif slice_from == '<last-if>':
        # the last `if` statement at the top level of the function (test included) and the statements after it, to the
        # end of the function; the statements before it are not translated
        ifs = [k for k, x in enumerate(body) if isinstance(x, ast.If)]
        if not ifs:
            raise Unsupported('no if statement at the top level of %s' % fn.name)
        body = body[ifs[-1]:]
    elif slice_from is not None and slice_from.startswith('<binds:'):
        # from the first top-level statement (of any kind: an `if` whose branches assign it, a loop, ...) inside which
        # the name is a target, to the end of the function
        name_ = slice_from[len('<binds:'):-1]
        for i, s in enumerate(body):
            if any(isinstance(x, ast.Name) and x.id == name_ and not isinstance(x.ctx, ast.Load) for x in ast.walk(s)):
                body = body[i:]
                break
        else:
            raise Unsupported('no statement of %s binds %s' % (fn.name, name_))
    elif slice_from is not None:
        for i, s in enumerate(body):
            if isinstance(s, ast.Assign) and len(s.targets) == 1 and isinstance(s.targets[0], ast.Name) \
                    and s.targets[0].id == slice_from:
                body = body[i:]
                break
        else:
            raise Unsupported('slice start %s not found in %s' % (slice_from, fn.name))
    body = bound_method_aliases(fn, body)
    # `x.pop()` inside an expression: see hoist_pops (the statements are returned unchanged when there is none)
    body = hoist_pops(fn, body, params if params is not None else [a_.arg for a_ in fn.args.args])
    gens = {}
    for s in body:
        if isinstance(s, ast.Assign) and len(s.targets) == 1 and isinstance(s.targets[0], ast.Name) \
                and isinstance(s.value, ast.GeneratorExp):
            gens[s.targets[0].id] = s.value
    check_setitem_alias(body)
    mod = ast.Module(body=body, type_ignores=[])
    ig = InlineGen(gens)
    mod = ig.visit(mod)
    for k, n in ig.uses.items():
        if n != 1:
            raise Unsupported('generator %s used %d times' % (k, n))
    del NAMED_BUILTINS_SEEN[:]
    text = block(mod.body)
    for b_ in sorted(set(NAMED_BUILTINS_SEEN)):
        if tree is None:
            raise Unsupported('builtin %s used where the module is not known' % b_)
        check_named_builtin(tree, b_)
    args = params if params is not None else [a.arg for a in fn.args.args]
    return 'Definition %s_args : list string := [%s].\nDefinition %s_body : list stmt := [%s].\n' % (
        name, '; '.join(q(a) for a in args), name, text)


# classes whose constructor call `C(...)` is a translation target (kind 'ctor'), filled by generate()
CTORS = set()


def translate_ctor(tree, clsname, name):
    """`C(args)` for a module-level class `class C(list)` without __new__ / metaclass / decorator whose __init__
    ends with the statement `super().__init__(X)` and mentions neither self nor super elsewhere, and returns nowhere:
    the new object is a list holding the elements of X.  Lists are values in Py.v, so the constructor is printed as
    the function (parameters of __init__ without self) whose body is the body of __init__ with that last statement
    replaced by `return [r for r in X]` (r is not a Python name: "%r"); an X that is not a list raises in both.
    The methods of C are resolved by name, like all methods."""
    cls = [n for n in tree.body if isinstance(n, ast.ClassDef) and n.name == clsname]
    if len(cls) != 1:
        raise Unsupported('class %s not found (or defined twice)' % clsname)
    cls = cls[0]
    if cls.keywords or cls.decorator_list or [ast.unparse(b) for b in cls.bases] != ['list']:
        raise Unsupported('class %s is not a plain subclass of list' % clsname)
    inits = [m for m in cls.body if isinstance(m, ast.FunctionDef) and m.name == '__init__']
    if len(inits) != 1 or inits[0].decorator_list \
            or any(isinstance(m, ast.FunctionDef) and m.name in ('__new__', '__init_subclass__', '__class_getitem__')
                   for m in cls.body):
        raise Unsupported('constructor of %s' % clsname)
    init = inits[0]
    params, defaults = signature(init)
    if not params or params[0] != 'self' or 'self' in params[1:]:
        raise Unsupported('signature of %s.__init__' % clsname)
    last = init.body[-1]
    ok = (isinstance(last, ast.Expr) and isinstance(last.value, ast.Call) and not last.value.keywords
          and len(last.value.args) == 1 and not isinstance(last.value.args[0], ast.Starred)
          and isinstance(last.value.func, ast.Attribute) and last.value.func.attr == '__init__'
          and isinstance(last.value.func.value, ast.Call) and isinstance(last.value.func.value.func, ast.Name)
          and last.value.func.value.func.id == 'super' and not last.value.func.value.args
          and not last.value.func.value.keywords)
    if not ok:
        raise Unsupported('%s.__init__ does not end with super().__init__(X)' % clsname)
    x = last.value.args[0]
    for st in init.body[:-1] + [ast.Expr(value=x)]:
        for n in ast.walk(st):
            if isinstance(n, ast.Name) and n.id in ('self', 'super'):
                raise Unsupported('%s.__init__ uses %s before super().__init__(X)' % (clsname, n.id))
            if isinstance(n, (ast.Return, ast.Yield, ast.YieldFrom, ast.FunctionDef, ast.Lambda, ast.Global, ast.Nonlocal)):
                raise Unsupported('%s inside %s.__init__' % (type(n).__name__, clsname))
    copy_x = ast.ListComp(elt=ast.Name(id='%r', ctx=ast.Load()), generators=[ast.comprehension(
        target=ast.Name(id='%r', ctx=ast.Store()), iter=x, ifs=[], is_async=0)])
    text = block(init.body[:-1] + [ast.Return(value=copy_x)])
    return 'Definition %s_args : list string := [%s].\nDefinition %s_body : list stmt := [%s].\n' % (
        name, '; '.join(q(a) for a in params[1:]), name, text)


def literal_table(tree, varname, name):
    """Module-level `VAR = {literal dict}` -> association list of (key, val)."""
    for s in tree.body:
        if isinstance(s, ast.Assign) and len(s.targets) == 1 and isinstance(s.targets[0], ast.Name) \
                and s.targets[0].id == varname:
            try:
                ns = {}
                value = eval(compile(ast.Expression(s.value), '<table>', 'eval'), {'__builtins__': {}}, ns)
            except Exception as exc:
                raise Unsupported('table %s is not a literal: %s' % (varname, exc))
            if isinstance(value, dict):
                items = list(value.items())
            else:
                raise Unsupported('table %s: not a dict' % varname)
            rows = '; '.join('(%s, %s)' % (const(k), const(v)) for k, v in items)
            return 'Definition %s : list (val * val) := [%s].\n' % (name, rows)
    raise Unsupported('table %s not found' % varname)


def exact_q(e, src):
    """A numeric module-level expression made of literals and + - * / as an exact rational: the decimal literal
    TEXT is read (96. is 96, 2.54 is 254/100), not its binary float."""
    from fractions import Fraction
    if isinstance(e, ast.Constant) and isinstance(e.value, (int, float)) and not isinstance(e.value, bool):
        text = ast.get_source_segment(src, e)
        if text is None or not re.fullmatch(r'[0-9]*\.?[0-9]*', text) or not re.search(r'[0-9]', text):
            raise Unsupported('numeric literal %r' % (text,))
        return Fraction(text.rstrip('.') if text.endswith('.') else text)
    if isinstance(e, ast.UnaryOp) and isinstance(e.op, ast.USub):
        return -exact_q(e.operand, src)
    if isinstance(e, ast.BinOp) and type(e.op) in BIN:
        a, b = exact_q(e.left, src), exact_q(e.right, src)
        if isinstance(e.op, ast.Add):
            return a + b
        if isinstance(e.op, ast.Sub):
            return a - b
        if isinstance(e.op, ast.Mult):
            return a * b
        if b == 0:
            raise Unsupported('division by zero in table')
        return a / b
    raise Unsupported('table value %s' % ast.dump(e)[:80])


def q_table(tree, src, varname, name):
    """Module-level `VAR = {'key': <arithmetic over literals>, ...}` -> list (string * Q), exact."""
    for s in tree.body:
        if isinstance(s, ast.Assign) and len(s.targets) == 1 and isinstance(s.targets[0], ast.Name) \
                and s.targets[0].id == varname:
            if not isinstance(s.value, ast.Dict):
                raise Unsupported('table %s: not a dict display' % varname)
            rows = []
            for k, v in zip(s.value.keys, s.value.values):
                if not (isinstance(k, ast.Constant) and isinstance(k.value, str)):
                    raise Unsupported('table %s: key %s' % (varname, ast.dump(k)[:60]))
                fr = exact_q(v, src)
                rows.append('(%s, (%d # %d)%%Q)' % (q(k.value), fr.numerator, fr.denominator))
            return 'Definition %s : list (string * Q) := [%s].\n' % (name, '; '.join(rows))
    raise Unsupported('table %s not found' % varname)


def class_table(tree, varname, name, module):
    """Module-level `VAR = {('k1', 'k2'): module.ClassName, ...}` (bound exactly once in the module, keys tuples of
    string literals, values attributes of the imported module `module`) -> list (val * string): the key as the
    VList of its strings, the class by its name.  A duplicate key is refused (Python keeps the last one)."""
    binds = [n for n in ast.walk(tree) if isinstance(n, ast.Name) and n.id == varname and not isinstance(n.ctx, ast.Load)]
    defs = [s for s in tree.body if isinstance(s, ast.Assign) and len(s.targets) == 1
            and isinstance(s.targets[0], ast.Name) and s.targets[0].id == varname]
    if len(defs) != 1 or len(binds) != 1:
        raise Unsupported('table %s is not bound exactly once at the top level' % varname)
    for n in ast.walk(tree):
        # VAR[k] = v / del VAR[k] / VAR.update(...) would change the table after its display
        if isinstance(n, ast.Subscript) and isinstance(n.value, ast.Name) and n.value.id == varname \
                and not isinstance(n.ctx, ast.Load):
            raise Unsupported('table %s is modified by a subscript assignment' % varname)
        if isinstance(n, ast.Attribute) and isinstance(n.value, ast.Name) and n.value.id == varname:
            raise Unsupported('table %s: method / attribute %s is used' % (varname, n.attr))
    d = defs[0].value
    if not isinstance(d, ast.Dict):
        raise Unsupported('table %s: not a dict display' % varname)
    rows, seen = [], set()
    for k, v in zip(d.keys, d.values):
        if not (isinstance(k, ast.Tuple) and k.elts and all(
                isinstance(x, ast.Constant) and isinstance(x.value, str) for x in k.elts)):
            raise Unsupported('table %s: key %s' % (varname, ast.dump(k)[:60] if k is not None else '**'))
        key = tuple(x.value for x in k.elts)
        if key in seen:
            raise Unsupported('table %s: duplicate key %r' % (varname, key))
        seen.add(key)
        if not (isinstance(v, ast.Attribute) and isinstance(v.value, ast.Name) and v.value.id == module):
            raise Unsupported('table %s: value %s' % (varname, ast.dump(v)[:60]))
        rows.append('(%s, %s)' % (const(key), q(v.attr)))
    return 'Definition %s : list (val * string) := [%s].\n' % (name, '; '.join(rows))


def check_computer(tree, fn, names):
    """`fn` is the function that `register_computer` registers for exactly the CSS properties `names`, and no other
    function of the module is registered for one of them (a later registration would replace it in
    COMPUTER_FUNCTIONS); its decorators are only such registrations (they return the function unchanged)."""
    def registered(f):
        out = []
        for d in f.decorator_list:
            if isinstance(d, ast.Call) and isinstance(d.func, ast.Name) and d.func.id == 'register_computer' \
                    and len(d.args) == 1 and not d.keywords and isinstance(d.args[0], ast.Constant) \
                    and isinstance(d.args[0].value, str):
                out.append(d.args[0].value)
            else:
                out.append(None)
        return out
    mine = registered(fn)
    if None in mine or sorted(mine) != sorted(names):
        raise Unsupported('%s is not registered as the computer of exactly %s' % (fn.name, sorted(names)))
    for f in ast.walk(tree):
        if isinstance(f, (ast.FunctionDef, ast.AsyncFunctionDef)) and f is not fn and set(registered(f)) & set(names):
            raise Unsupported('%s is also registered as a computer of %s' % (f.name, sorted(names)))
        if isinstance(f, ast.Subscript) and isinstance(f.value, ast.Name) and f.value.id == 'COMPUTER_FUNCTIONS' \
                and not isinstance(f.ctx, ast.Load) and not (
                    isinstance(f.slice, ast.Name) and f.slice.id == 'name'):
            raise Unsupported('COMPUTER_FUNCTIONS is modified outside register_computer')


class ConstProp(ast.NodeTransformer):
    """The rewritings of specialise(): see there."""
    def __init__(self, consts):
        self.consts = consts

    def visit_Name(self, n):
        if n.id in self.consts:
            if not isinstance(n.ctx, ast.Load):
                raise Unsupported('the specialised parameter %s is rebound' % n.id)
            return ast.copy_location(ast.Constant(value=self.consts[n.id]), n)
        return n

    def visit_JoinedStr(self, n):
        self.generic_visit(n)
        parts = []
        for v in n.values:
            if isinstance(v, ast.FormattedValue) and v.conversion == -1 and v.format_spec is None:
                v = v.value
            if not (isinstance(v, ast.Constant) and isinstance(v.value, str)):
                raise Unsupported('f-string with a part that is not a compile-time string constant')
            parts.append(v.value)
        return ast.copy_location(ast.Constant(value=''.join(parts)), n)

    @staticmethod
    def attr_name(a, what):
        if not (isinstance(a, ast.Constant) and isinstance(a.value, str) and a.value.isidentifier()):
            raise Unsupported('%s with a name that is not a compile-time constant' % what)
        return a.value

    def visit_Call(self, n):
        self.generic_visit(n)
        if isinstance(n.func, ast.Name) and n.func.id == 'getattr':
            if len(n.args) != 2 or n.keywords:
                raise Unsupported('getattr with a default')
            return ast.copy_location(
                ast.Attribute(value=n.args[0], attr=self.attr_name(n.args[1], 'getattr'), ctx=ast.Load()), n)
        return n

    def visit_Expr(self, n):
        self.generic_visit(n)
        c = n.value
        if isinstance(c, ast.Call) and isinstance(c.func, ast.Name) and c.func.id == 'setattr':
            if len(c.args) != 3 or c.keywords or not isinstance(c.args[0], ast.Name):
                raise Unsupported('setattr on something that is not a plain name')
            t = ast.Attribute(value=ast.Name(id=c.args[0].id, ctx=ast.Load()),
                              attr=self.attr_name(c.args[1], 'setattr'), ctx=ast.Store())
            return ast.copy_location(ast.Assign(targets=[t], value=c.args[2]), n)
        return n


def cp_block(stmts, known, params):
    """Constant propagation through a list of statements (see specialise()).  known: name -> string constant, valid at
    the entry of the list: the specialised parameters (`params`, never rebound) and the locals whose last binding, on
    every path to this point, is the plain statement `x = <string constant>`.  A statement that binds a name anywhere
    inside it makes that name unknown before it is processed, so what is known at the entry of a compound statement
    holds throughout its blocks, on every iteration; inside a block knowledge grows again statement by statement."""
    import copy
    out = []
    for s in stmts:
        stored = {n.id for n in ast.walk(s) if isinstance(n, ast.Name) and not isinstance(n.ctx, ast.Load)}
        if stored & set(params):
            raise Unsupported('the specialised parameter %s is rebound' % sorted(stored & set(params)))
        if isinstance(s, ast.Assign) and len(s.targets) == 1 and isinstance(s.targets[0], ast.Name):
            s.value = ConstProp(known).visit(s.value)
            x = s.targets[0].id
            known = {k: c for k, c in known.items() if k != x}
            if isinstance(s.value, ast.Constant) and isinstance(s.value.value, str):
                known[x] = s.value.value
            out.append(s)
            continue
        known = {k: c for k, c in known.items() if k not in stored}
        if isinstance(s, ast.For) and not s.orelse and any(isinstance(m, ast.Continue) for m in ast.walk(s)):
            # `if c: continue` directly in the body of the loop becomes `if c: pass` `else: <the rest>` (fold_continue:
            # meaning-preserving for every loop); a loop over constants may then be unrolled below
            s.body = fold_continue(list(s.body))
        if isinstance(s, ast.For) and isinstance(s.iter, (ast.Tuple, ast.List)) and s.iter.elts \
                and all(isinstance(c, ast.Constant) for c in s.iter.elts) and isinstance(s.target, ast.Name) \
                and not s.orelse and not any(isinstance(m, (ast.Break, ast.Continue)) for m in ast.walk(s)):
            # for v in (c1, .., cn): body   ==   v = c1; body; ..; v = cn; body      (a non-empty display of constants,
            # no break / continue / else: the loop runs the body once per constant, v bound to it, in this order)
            unrolled = []
            for c in s.iter.elts:
                unrolled.append(ast.copy_location(ast.Assign(
                    targets=[ast.Name(id=s.target.id, ctx=ast.Store())], value=copy.deepcopy(c)), s))
                unrolled.extend(copy.deepcopy(s.body))
            more, known = cp_block(unrolled, known, params)
            out.extend(more)
            continue
        if isinstance(s, ast.If):
            s.test = ConstProp(known).visit(s.test)
            s.body = cp_block(s.body, known, params)[0]
            s.orelse = cp_block(s.orelse, known, params)[0]
        elif isinstance(s, (ast.For, ast.While)):
            if isinstance(s, ast.For):
                s.iter = ConstProp(known).visit(s.iter)
            else:
                s.test = ConstProp(known).visit(s.test)
            s.body = cp_block(s.body, known, params)[0]
            s.orelse = cp_block(s.orelse, known, params)[0]
        elif isinstance(s, (ast.With, ast.Try, ast.Match if hasattr(ast, 'Match') else ast.With)):
            raise Unsupported('%s inside a specialised function' % type(s).__name__)
        else:
            s = ConstProp(known).visit(s)
        out.append(s)
    return out, known


class ReplaceTests(ast.NodeTransformer):
    def __init__(self, tests):
        self.tests, self.seen = tests, set()

    def visit_Call(self, n):
        text = ast.unparse(n)
        if text in self.tests:
            self.seen.add(text)
            return ast.copy_location(ast.Name(id=self.tests[text], ctx=ast.Load()), n)
        self.generic_visit(n)
        return n


def specialise(fn, tree, consts, tests=None, free=None):
    """Target option 'consts' = {parameter: string}: the function SPECIALISED to these arguments, by constant
    propagation only.  The parameter is removed from the signature and every read of it becomes the constant; then
      f'..{c}..' whose parts are all string constants   ==  the concatenated constant (format(s, '') is s for a str)
      getattr(x, 'name')                                ==  x.name          (definition of getattr)
      setattr(x, 'name', e)   as a statement, x a name  ==  x.name = e      (definition of setattr; x is a plain name,
                                                                             so the evaluation order cannot be seen)
    Nothing else is folded: `if axis == 'width'` stays a comparison of two constants in the printed body and is
    decided by Py.v.  Refused (fail-closed): a specialised parameter that is rebound, deleted, or shadowed by a nested
    function / lambda / comprehension; getattr / setattr / an f-string whose name is not a compile-time constant;
    getattr with a default; setattr as an expression; getattr / setattr rebound in the function or in the module.
    The propagation also follows the locals bound by a plain `x = <string constant>` (cp_block) and unrolls a `for`
    over a display of constants into `v = c1; body; v = c2; body; ..` (same function).
    Option 'tests' = {"isinstance(x, boxes.PageBox)": name}: the class of an object is outside the value domain of
    Py.v; the test (x a parameter that is never rebound, the text exactly as unparsed) is replaced by the new
    parameter `name`, an input of the translated body: its truth value when the function is entered, which is its
    value at every later point since neither x nor the names of the test can be rebound by the translated subset.
    Option 'free' = [names]: names read but never bound in the function (module-level bindings such as `inf`) become
    parameters: their value is an input of the translated body."""
    import copy
    fn = copy.deepcopy(fn)
    tests, free = dict(tests or {}), list(free or [])
    a = fn.args
    if a.vararg or a.kwarg or a.kwonlyargs or a.posonlyargs or a.defaults:
        raise Unsupported('signature of %s (specialisation)' % fn.name)
    params = [x.arg for x in a.args]
    for p_, v in consts.items():
        if p_ not in params or not isinstance(v, str):
            raise Unsupported('%s is not a positional parameter of %s / not specialised to a string' % (p_, fn.name))
    for n in ast.walk(fn):
        if isinstance(n, (ast.FunctionDef, ast.Lambda, ast.Global, ast.Nonlocal, ast.Delete, ast.NamedExpr)) \
                and n is not fn:
            raise Unsupported('%s inside the specialised function %s' % (type(n).__name__, fn.name))
        if isinstance(n, ast.Name) and n.id in ('getattr', 'setattr') and not isinstance(n.ctx, ast.Load):
            raise Unsupported('%s is rebound in %s' % (n.id, fn.name))
        if isinstance(n, ast.arg) and n.arg in ('getattr', 'setattr'):
            raise Unsupported('%s is a parameter of %s' % (n.arg, fn.name))
    for n in tree.body:
        names = [n.name] if isinstance(n, (ast.FunctionDef, ast.ClassDef)) else \
            [x.asname or x.name for x in n.names] if isinstance(n, (ast.Import, ast.ImportFrom)) else \
            [x.id for x in ast.walk(n) if isinstance(x, ast.Name) and not isinstance(x.ctx, ast.Load)]
        if 'getattr' in names or 'setattr' in names or '*' in names:
            raise Unsupported('getattr / setattr may be rebound at the module level')
    a.args = [x for x in a.args if x.arg not in consts]
    stored = {n.id for n in ast.walk(fn) if isinstance(n, ast.Name) and not isinstance(n.ctx, ast.Load)}
    used = {n.id for n in ast.walk(fn) if isinstance(n, ast.Name)} | set(params)
    for text, name in tests.items():
        call_ = ast.parse(text, mode='eval').body
        if not (isinstance(call_, ast.Call) and isinstance(call_.func, ast.Name) and call_.func.id == 'isinstance'
                and len(call_.args) == 2 and isinstance(call_.args[0], ast.Name) and call_.args[0].id in params
                and call_.args[0].id not in stored and ast.unparse(call_) == text):
            raise Unsupported('test %s: not isinstance(<parameter never rebound>, <class>)' % text)
        if name in used or 'isinstance' in stored or any(
                isinstance(x, ast.Name) and x.id in stored for x in ast.walk(call_.args[1])):
            raise Unsupported('test %s: the name %s is in use / the names of the test are rebound' % (text, name))
    rt = ReplaceTests(tests)
    fn.body = [rt.visit(s_) for s_ in fn.body]
    if rt.seen != set(tests):
        raise Unsupported('tests not found in %s: %s' % (fn.name, sorted(set(tests) - rt.seen)))
    for name in free:
        if name in stored or name in params or name not in used:
            raise Unsupported('%s is not a free name of %s' % (name, fn.name))
    a.args = a.args + [ast.arg(arg=x) for x in list(tests.values()) + free]
    fn.body = cp_block(fn.body, dict(consts), list(consts))[0]
    ast.fix_missing_locations(fn)
    return fn


HEADER = ('(* GENERATED by tools/py2coq.py from %s -- do not edit *)\n'
          'From Coq Require Import QArith List String.\nRequire Import WV.base.Py.\n'
          'Import ListNotations.\nOpen Scope string_scope.\n\n')

# option 'block' of the targets of GenFlexResolve (see slice_nested): the statements of the body of `for line in
# flex_lines:` (flex_layout, step 6) and of its `while not all(frozen)` loop, by the start of their first lines
FLEX_FOR_BLOCK = ['hypothetical_main_size = sum(', 'hypothetical_main_size += (len(line) - 1) * main_gap',
                  'if hypothetical_main_size < available_main_space:', 'for index, child in line:',
                  'initial_free_space = available_main_space', 'for i, (index, child) in enumerate(line):',
                  'while not all((child.frozen for index, child in line)):', 'for index, child in line:']
FLEX_WHILE_BLOCK = ['unfrozen_factor_sum = 0', 'remaining_free_space = available_main_space',
                    'for i, (index, child) in enumerate(line):', 'if initial_free_space == inf:',
                    'if remaining_free_space == inf:', 'if unfrozen_factor_sum < 1:',
                    'if remaining_free_space == 0:', 'for index, child in line:',
                    'adjustments = sum(', 'for index, child in line:']
# option 'obj_methods' of the targets of GenStream (see OBJ_METHODS): the methods of pydyf.Stream that the methods of
# weasyprint.pdf.stream.Stream call through super(), with their parameters, and the pydyf constructor they use
STREAM_METHODS = {
    'super': {'push_state': [], 'pop_state': [], 'begin_text': [], 'end_text': [], 'end_marked_content': [],
              'set_font_size': ['font', 'size'], 'begin_marked_content': ['tag', 'property_list'],
              'set_matrix': ['a', 'b', 'c', 'd', 'e', 'f'],
              'set_color_special': ['name', 'stroke', '*']},
    'module_calls': {'pydyf.Dictionary': 'dict'},
}

# file -> list of (kind, python name, coq name, extra)
TARGETS = {
    'GenBlock': ('weasyprint/layout/block.py', [
        ('fun', 'collapse_margin', 'collapse_margin', {}),
        ('fun', 'block_level_width', 'block_level_width', {}),
        ('fun', 'block_level_page_break', 'break_fold', {'slice_from': 'result', 'params': ['values']}),
        ('fun', 'avoid_page_break', 'avoid_page_break', {}),
        ('fun', 'force_page_break', 'force_page_break', {}),
    ]),
    'GenPercent': ('weasyprint/layout/percent.py', [
        ('fun', 'percentage', 'percentage', {}),
    ]),
    'GenLayoutCtx': ('weasyprint/layout/__init__.py', [
        # LayoutContext.overflows (a @staticmethod: option 'static') and overflows_page, whose call
        # self.overflows(..) is linked to it; the float literal 1e-9 is the exact rational 1/10^9
        ('fun', 'LayoutContext.overflows', 'ctx_overflows', {'static': True}),
        ('fun', 'LayoutContext.overflows_page', 'ctx_overflows_page', {}),
    ]),
    'GenBreakLine': ('weasyprint/layout/block.py', [
        # _break_line whole: the orphans / widows decision when a line overflows.  remove_placeholders (it touches
        # the placeholder lists and the footnotes only) is a statement oracle; `for _ in lines_iterator` with its
        # break by the flag rewriting of option 'for_break'; del new_children[-needed:] and the slices see stmt()
        ('fun', '_break_line', 'break_line',
         {'for_break': True, 'out_params': ['new_children'],
          'oracle_stmts': {'remove_placeholders': (['context', 'box_list', 'absolute_boxes', 'fixed_boxes'],
                                                   ['context', 'absolute_boxes', 'fixed_boxes'])}}),
        # find_earlier_page_break: its first statement, the case of a list of line boxes (index = len - widows;
        # nothing when index < orphans)
        ('fun', 'find_earlier_page_break', 'find_earlier_lines',
         {'slice_from': '<first-if>', 'isinstance': True,
          'params': ['context', 'children', 'absolute_boxes', 'fixed_boxes', 'boxes'],
          'oracle_stmts': {'remove_placeholders': (['context', 'box_list', 'absolute_boxes', 'fixed_boxes'],
                                                   ['context', 'absolute_boxes', 'fixed_boxes'])}}),
    ]),
    'GenBoxSizing': ('weasyprint/layout/percent.py', [
        # adjust_box_sizing(box, axis) specialised to its two call sites (option 'consts': constant propagation of
        # the parameter; getattr / setattr / f'max_{axis}' become plain attribute accesses, see specialise())
        ('fun', 'adjust_box_sizing', 'adjust_box_sizing_width',
         {'consts': {'axis': 'width'}, 'call_as': 'adjust_box_sizing[width]'}),
        ('fun', 'adjust_box_sizing', 'adjust_box_sizing_height',
         {'consts': {'axis': 'height'}, 'call_as': 'adjust_box_sizing[height]'}),
    ]),
    'GenResolve': ('weasyprint/layout/percent.py', [
        # resolve_one_percentage(box, property_name, refer_to) specialised to the 14 property names resolve_percentages
        # passes to it (option 'consts'; its call of percentage() is linked to GenPercent)
        ('fun', 'resolve_one_percentage', 'resolve_one_margin_left',
         {'consts': {'property_name': 'margin_left'}, 'call_as': 'resolve_one_percentage[margin_left]'}),
        ('fun', 'resolve_one_percentage', 'resolve_one_margin_right',
         {'consts': {'property_name': 'margin_right'}, 'call_as': 'resolve_one_percentage[margin_right]'}),
        ('fun', 'resolve_one_percentage', 'resolve_one_margin_top',
         {'consts': {'property_name': 'margin_top'}, 'call_as': 'resolve_one_percentage[margin_top]'}),
        ('fun', 'resolve_one_percentage', 'resolve_one_margin_bottom',
         {'consts': {'property_name': 'margin_bottom'}, 'call_as': 'resolve_one_percentage[margin_bottom]'}),
        ('fun', 'resolve_one_percentage', 'resolve_one_padding_left',
         {'consts': {'property_name': 'padding_left'}, 'call_as': 'resolve_one_percentage[padding_left]'}),
        ('fun', 'resolve_one_percentage', 'resolve_one_padding_right',
         {'consts': {'property_name': 'padding_right'}, 'call_as': 'resolve_one_percentage[padding_right]'}),
        ('fun', 'resolve_one_percentage', 'resolve_one_padding_top',
         {'consts': {'property_name': 'padding_top'}, 'call_as': 'resolve_one_percentage[padding_top]'}),
        ('fun', 'resolve_one_percentage', 'resolve_one_padding_bottom',
         {'consts': {'property_name': 'padding_bottom'}, 'call_as': 'resolve_one_percentage[padding_bottom]'}),
        ('fun', 'resolve_one_percentage', 'resolve_one_width',
         {'consts': {'property_name': 'width'}, 'call_as': 'resolve_one_percentage[width]'}),
        ('fun', 'resolve_one_percentage', 'resolve_one_min_width',
         {'consts': {'property_name': 'min_width'}, 'call_as': 'resolve_one_percentage[min_width]'}),
        ('fun', 'resolve_one_percentage', 'resolve_one_max_width',
         {'consts': {'property_name': 'max_width'}, 'call_as': 'resolve_one_percentage[max_width]'}),
        ('fun', 'resolve_one_percentage', 'resolve_one_height',
         {'consts': {'property_name': 'height'}, 'call_as': 'resolve_one_percentage[height]'}),
        ('fun', 'resolve_one_percentage', 'resolve_one_min_height',
         {'consts': {'property_name': 'min_height'}, 'call_as': 'resolve_one_percentage[min_height]'}),
        ('fun', 'resolve_one_percentage', 'resolve_one_max_height',
         {'consts': {'property_name': 'max_height'}, 'call_as': 'resolve_one_percentage[max_height]'}),
        # resolve_percentages: its calls of resolve_one_percentage / adjust_box_sizing mutate the box: printed as
        # %call, box = f(box, 'name', refer_to) (oracle statements; the theorems link them to the specialisations above
        # and to GenBoxSizing by the constant name); isinstance(box, boxes.PageBox) and `inf` are inputs; the loop over
        # the four sides is unrolled and its f-string / setattr / hasattr names are constants (see specialise())
        ('fun', 'resolve_percentages', 'resolve_percentages', {
            'consts': {}, 'tests': {'isinstance(box, boxes.PageBox)': 'box_is_page'}, 'free': ['inf'],
            'call_as': 'resolve_percentages[]',
            'oracle_stmts': {'resolve_one_percentage': (['box', 'property_name', 'refer_to'], ['box']),
                             'adjust_box_sizing': (['box', 'axis'], ['box'])}}),
    ]),
    'GenReplaced': ('weasyprint/layout/replaced.py', [
        ('fun', '_constraint_image_sizing', 'constraint_image_sizing', {}),
        ('fun', 'contain_constraint_image_sizing', 'contain_constraint_image_sizing', {}),
        ('fun', 'cover_constraint_image_sizing', 'cover_constraint_image_sizing', {}),
        ('fun', 'default_image_sizing', 'default_image_sizing', {}),
    ]),
    'GenBoxes': ('weasyprint/formatting_structure/boxes.py', [
        ('fun', 'Box.padding_width', 'padding_width', {}),
        ('fun', 'Box.padding_height', 'padding_height', {}),
        ('fun', 'Box.border_width', 'border_width', {}),
        ('fun', 'Box.border_height', 'border_height', {}),
        ('fun', 'Box.margin_width', 'margin_width', {}),
        ('fun', 'Box.margin_height', 'margin_height', {}),
        ('fun', 'Box.content_box_x', 'content_box_x', {}),
        ('fun', 'Box.content_box_y', 'content_box_y', {}),
        ('fun', 'Box.border_box_x', 'border_box_x', {}),
        ('fun', 'Box.border_box_y', 'border_box_y', {}),
        ('fun', '_overlap_ratio', 'overlap_ratio', {}),
        ('fun', 'Box.rounded_box', 'rounded_box', {}),
        ('fun', 'Box.rounded_box_ratio', 'rounded_box_ratio', {}),
        ('fun', 'Box.rounded_padding_box', 'rounded_padding_box', {}),
        ('fun', 'Box.rounded_border_box', 'rounded_border_box', {}),
        ('fun', 'Box.rounded_content_box', 'rounded_content_box', {}),
    ]),
    'GenFloat': ('weasyprint/layout/float.py', [
        ('fun', 'get_clearance', 'get_clearance', {}),
        # the `while True:` loop of avoid_collisions (the statements before it bind its free variables, the ones
        # after it read position_y, max_left_bound, max_right_bound)
        ('fun', 'avoid_collisions', 'avoid_loop', {'slice_from': '<while>', 'params': [
            'excluded_shapes', 'position_y', 'box_width', 'box_height', 'box', 'containing_block', 'outer']}),
    ]),
    'GenFloatPos': ('weasyprint/layout/float.py', [
        # float_width without its handle_min_max_width decorator (like absolute_width); shrink_to_fit an oracle
        ('fun', 'float_width', 'float_width', {'callable': False}),
        # find_float_position, whole body (CSS 2.1 9.5.1 rules 4-6, 1-2, 9): avoid_collisions an oracle (EXTERNAL; its
        # loop is the target avoid_loop), box.translate an external statement, box.margin_width() the Box method
        ('fun', 'find_float_position', 'find_float_position', {'callable': False}),
        # the head of float_layout, from `cb_width, cb_height = ..` up to (not including) `clearance = ..`: percentages
        # resolved (external statements), then the auto margins set to 0 (CSS 2.1 10.3.5)
        ('fun', 'float_layout', 'float_layout_margins', {
            'callable': False, 'slice_from': ('<from-to>', 'cb_width', 'clearance'),
            'params': ['box', 'containing_block']}),
    ]),
    'GenAbsolute': ('weasyprint/layout/absolute.py', [
        ('fun', 'absolute_width', 'absolute_width', {'callable': False}),
        ('fun', 'absolute_height', 'absolute_height', {'callable': False}),
    ]),
    'GenAbsReplaced': ('weasyprint/layout/absolute.py', [
        # absolute_replaced (CSS 2.1 10.3.8 / 10.6.5), whole body: its first statement
        # inline_replaced_box_width_height(box, (cb_width, cb_height)) sets box.width / box.height: an oracle statement
        # (%call, box = f(box, containing_block)); box.margin_width() etc. are calls of the Box methods (GenBoxes)
        ('fun', 'absolute_replaced', 'absolute_replaced', {
            'callable': False,
            'oracle_stmts': {'inline_replaced_box_width_height': (['box', 'containing_block'], ['box'])}}),
        # the end of absolute_block, after the loop that lays the absolute descendants out: the translation returned by
        # absolute_width / absolute_height becomes the final position (new_box.translate is an external statement)
        ('fun', 'absolute_block', 'absolute_block_translate', {
            'callable': False, 'slice_from': ('<after-for>', 'child_placeholder'),
            'params': ['translate_box_width', 'translate_x', 'translate_box_height', 'translate_y', 'new_box',
                       'resume_at']}),
    ]),
    'GenPage': ('weasyprint/layout/page.py', [
        ('fun', 'page_width_or_height', 'page_width_or_height', {}),
        # from rule 2 on (the first statement wraps the box into an OrientedBox adapter)
        ('fun', 'compute_fixed_dimension', 'compute_fixed_dimension', {
            'slice_from': 'total', 'params': ['box', 'outer', 'top_or_left']}),
        # the @property getters of the adapter class as methods ".sugar", ".outer", ".outer_min_content_size",
        # ".outer_max_content_size"; in every target of this file a read `x.<property>` is a call of the getter and
        # the statement `x.outer = e` is the body of the setter
        ('props', 'OrientedBox', 'OrientedBox', {}),
        # after `box_a, box_b, box_c = side_boxes` (the adapters are built before); loops over side_boxes unrolled
        ('fun', 'compute_variable_dimension', 'compute_variable_dimension', {
            'after_unpack': ('side_boxes', 'OrientedBox'),
            'params': ['box_a', 'box_b', 'box_c', 'available_size']}),
    ]),
    'GenInline': ('weasyprint/layout/inline.py', [
        ('fun', 'text_align', 'text_align', {}),
        # the function under @handle_min_max_width (the wrapper is GenMinMax): shrink_to_fit is an oracle
        ('fun', 'inline_block_width', 'inline_block_width', {}),
        # `if (nb_spaces := count_expandable_spaces(line)):` is printed as the binding followed by `if nb_spaces:` (see
        # stmt()); count_expandable_spaces (recursive, isinstance, str.count) and add_word_spacing (recursive, mutates
        # the boxes of the line, Pango layouts) are declared oracles of this target
        # the slice is the whole body (its only statement); as a slice the target is not a callee of other targets:
        # in text_align the statement `justify_line(context, line, offset)` stays the external statement it was
        ('fun', 'justify_line', 'justify_line', {
            'slice_from': '<first-if>', 'params': ['context', 'line', 'extra_width'],
            'oracle_stmts': {'count_expandable_spaces': (['box'], []),
                             'add_word_spacing': (['context', 'box', 'justification_spacing', 'x_advance'],
                                                  ['box'])}}),
    ]),
    'GenPageName': ('weasyprint/layout/block.py', [
        ('fun', 'block_level_page_name', 'block_level_page_name', {}),
    ]),
    'GenRelative': ('weasyprint/layout/block.py', [
        # the `if box.style['position'] == 'relative':` statement of relative_positioning (the recursion into the
        # children of inline boxes that follows it is not translated)
        ('fun', 'relative_positioning', 'relative_if', {'slice_from': '<first-if>', 'params': [
            'box', 'containing_block']}),
    ]),
    'GenCss': ('weasyprint/css/__init__.py', [
        ('fun', 'declaration_precedence', 'declaration_precedence', {}),
    ]),
    'GenMedia': ('weasyprint/css/media_queries.py', [
        ('fun', 'evaluate_media_query', 'evaluate_media_query', {}),
    ]),
    'GenAnchors': ('weasyprint/anchors.py', [
        # `transform_point = matrix.transform_point` : see bound_method_aliases
        ('fun', 'rectangle_aabb', 'rectangle_aabb', {}),
        # make_page_bookmark_tree, per bookmark: the level stack (skipped_levels.append / the `while ..: .. pop()` loop
        # / the clamp), previous_level, depth and the two asserts - the head of the loop body; the rest of the
        # iteration (children lists aliased inside last_by_depth) is outside the value domain of Py.v and must still
        # consume depth as listed; `x.pop()` inside an expression: see hoist_pops
        ('fun', 'make_page_bookmark_tree', 'bookmark_stack_step', {
            'slice_from': ('<loop-body>', '<children = []', [
                'last_by_depth[depth - 1].append(subtree)', 'last_by_depth[depth:]',
                'last_by_depth.append(children)'], 'return previous_level'),
            'params': ['level', 'previous_level', 'skipped_levels']}),
    ]),
    'GenPdfAnchors': ('weasyprint/pdf/anchors.py', [
        # add_outlines, per bookmark: the Count bookkeeping after the recursive call (Count of the item = the count of
        # its children, negated when the item is closed; an open item adds its children's count to the count of the
        # list it is in).  The recursion, the pydyf objects and the Prev / Next / First / Last / Parent entries are
        # outside the slice; what consumes `count` and the item must still be there as listed
        ('fun', 'add_outlines', 'outline_count_step', {
            'slice_from': ('<loop-body>', '<if outlines:', ['outlines.append(outline)'], 'return outlines, count',
                           '>children_outlines, children_count = add_outlines(pdf, children, parent=outline)',
                           ['children_outlines, children_count = add_outlines(pdf, children, parent=outline)'],
                           ['count = len(bookmarks)', 'outlines = []']),
            'params': ['outline', 'children_count', 'state', 'count']}),
    ]),
    'GenMatrix': ('weasyprint/matrix.py', [
        # Matrix(a, b, c, d, e, f, matrix): the list that Matrix.__init__ hands to list.__init__ (see translate_ctor)
        ('ctor', 'Matrix', 'Matrix_init', {}),
        # a @ b (3x3 product; `sum(... for k in range(3))` unrolled, see sum_over_display)
        ('fun', 'Matrix.__matmul__', 'matmul', {}),
        ('fun', 'Matrix.transform_point', 'transform_point', {}),
    ]),
    'GenPdfPage': ('weasyprint/pdf/__init__.py', [
        # per page: the CSS px -> PDF point matrix handed to add_links / add_annotations / add_forms, the bleed
        # offsets and the MediaBox numbers (statements `matrix = ...` through `page_rectangle = ...` of the page loop)
        ('fun', 'generate_pdf', 'page_geometry', {'in_for': ('matrix', 'page_rectangle', [
            'add_links(links_and_anchors, matrix, pdf, pdf_page, pdf_names, mark)',
            'add_annotations(links_and_anchors[0], matrix, document, pdf, pdf_page, annot_files, compress)',
            'pydyf.Array([left, top, right, bottom])']), 'params': ['scale', 'page']}),
        # the TrimBox numbers (bleed = the page's bleed at scale, built by a dict comprehension outside the slice)
        ('fun', 'generate_pdf', 'page_trim', {'in_for': ('trim_left', 'trim_bottom', [
            'pydyf.Array([trim_left, trim_top, trim_right, trim_bottom])']), 'params': [
            'left', 'top', 'right', 'bottom', 'bleed']}),
    ]),
    'GenCounters': ('weasyprint/css/counters.py', [
        ('fun', 'symbol', 'symbol', {}),
        # CounterStyle.render_value, step 3: the bodies of the branches of `if system == 'cyclic': .. elif ..`
        # (free variables as parameters; each ends with `initial` bound, or returns the value of the recursive call
        # for the decimal / fallback style, an oracle).  `// len abs x[i] ''.join(reversed(..))` are primitives of Py.v, `%` the builtin "%mod"
        ('fun', 'CounterStyle.render_value', 'rv_cyclic', {
            'slice_from': ('<branch>', 'system', 'cyclic'), 'params': ['self', 'counter', 'counter_value']}),
        ('fun', 'CounterStyle.render_value', 'rv_fixed', {
            'slice_from': ('<branch>', 'system', 'fixed'),
            'params': ['self', 'counter', 'counter_value', 'fixed_number', 'previous_types']}),
        ('fun', 'CounterStyle.render_value', 'rv_alphabetic', {
            'slice_from': ('<branch>', 'system', 'alphabetic'), 'params': ['self', 'counter', 'counter_value']}),
        ('fun', 'CounterStyle.render_value', 'rv_numeric', {
            'slice_from': ('<branch>', 'system', 'numeric'), 'params': ['self', 'counter', 'counter_value']}),
        # the rest of render_value after the `while extends:` loop.  Option 'seq_ops': `+ * len` on strings / lists are
        # the primitives PSeqAdd / PSeqMul / PSeqLen; 'for_break': a for loop with break / else (see for_with_break);
        # 'unpack_gen': a, b = (generator).  rv_neg = the head of step 3, from `initial = None` up to the chain on
        # `system` (is_negative, the negative symbols, use_negative, abs); rv_finish = the statements after the chain
        # (steps 4 to 6); rv_range = step 2 (the range test, a for .. else loop under 'for_break'; the module-level name
        # `inf` is an input), slice option ('<from-to>', 'counter_ranges', 'initial')
        ('fun', 'CounterStyle.render_value', 'rv_symbolic', {
            'slice_from': ('<branch>', 'system', 'symbolic'), 'params': ['self', 'counter', 'counter_value'],
            'seq_ops': True}),
        ('fun', 'CounterStyle.render_value', 'rv_additive', {
            'slice_from': ('<branch>', 'system', 'additive'),
            'params': ['self', 'counter', 'counter_value', 'initial', 'is_negative', 'previous_types'],
            'seq_ops': True, 'for_break': True}),
        ('fun', 'CounterStyle.render_value', 'rv_finish', {
            'slice_from': ('<after-chain>', 'system'),
            'params': ['counter', 'initial', 'is_negative', 'use_negative', 'negative_prefix', 'negative_suffix'],
            'seq_ops': True}),
        ('fun', 'CounterStyle.render_value', 'rv_range', {
            'slice_from': ('<from-to>', 'counter_ranges', 'initial'),
            'params': ['self', 'counter', 'counter_value', 'system', 'previous_types', 'inf'], 'for_break': True}),
        ('fun', 'CounterStyle.render_value', 'rv_neg', {
            'slice_from': ('<until-chain>', 'system', 'initial'),
            'params': ['counter', 'counter_value', 'system'], 'unpack_gen': True}),
    ]),
    'GenTable': ('weasyprint/layout/table.py', [
        # fixed_table_layout from the choice of the horizontal border spacing on: the pass over the cells of the
        # first row (colspan cells share what their columns do not have yet), the equal shares of the columns that
        # are still unknown, the distribution of the extra width, table.width / table.column_widths.  The statements
        # before it (the wrapped table, the <col> elements, num_columns, the list column_widths filled from the <col>
        # widths) bind the free variables
        ('fun', 'fixed_table_layout', 'fixed_cells_finish', {'slice_from': '<binds:border_spacing_x>', 'params': [
            'table', 'first_row_cells', 'num_columns', 'column_widths']}),
        # the two statements of the head of fixed_table_layout that size the list of column widths:
        # num_columns = max(len(all_columns), sum(cell.colspan for cell in first_row_cells)) and the fresh list
        # column_widths = [None] * num_columns (option 'seq_ops': `*` is repetition of a list here); all_columns and
        # first_row_cells come from the statements listed in 'before', num_columns goes to the tied slice above
        ('fun', 'fixed_table_layout', 'fixed_head_sizes', {
            'slice_from': ('<span>', 'num_columns', 'column_widths', {
                'keep': ['num_columns'],
                'before': ['all_columns = [column for column_group in table.column_groups '
                           'for column in column_group.children]',
                           'if table.children and table.children[0].children:\n'
                           '    first_rowgroup = table.children[0]\n'
                           '    first_row_cells = first_rowgroup.children[0].children\n'
                           'else:\n    first_row_cells = []'],
                'then': ['for i, column in enumerate(all_columns):\n'
                         '    resolve_one_percentage(column, "width", table.width)\n'
                         '    if column.width != "auto":\n        column_widths[i] = column.width',
                         'border_spacing_x * (num_columns + 1)']}),
            'params': ['all_columns', 'first_row_cells'], 'seq_ops': True}),
    ]),
    'GenCssUtils': ('weasyprint/css/utils.py', [
        ('qtable', 'LENGTHS_TO_PIXELS', 'lengths_to_pixels', {}),
    ]),
    'GenComputed': ('weasyprint/css/computed_values.py', [
        # the @register_computer functions (style, name, value) of display / break-before / break-after (C08, C04);
        # option 'computer': the function is the one registered for exactly these properties (see check_computer);
        # `len` and `.startswith` are the builtins "%len" / "%startswith"
        ('fun', 'display', 'display', {'computer': ['display']}),
        ('fun', 'break_before_after', 'break_before_after', {'computer': ['break-before', 'break-after']}),
        # position is a keyword (a str) or the pair ('running()', name): `position[0]` is the builtin "%getitem"
        ('fun', 'compute_float', 'compute_float', {'computer': ['float'], 'str_index': True}),
        # C06: the length computer, whole (option 'imports': ZERO_PIXELS / Dimension of css/properties.py and the
        # table LENGTHS_TO_PIXELS of css/utils.py, see IMPORTED; character_ratio an oracle)
        ('fun', 'length', 'length', {
            'computer': ['top', 'right', 'left', 'bottom', 'margin-top', 'margin-right', 'margin-bottom', 'margin-left',
                         'height', 'width', 'min-width', 'min-height', 'max-width', 'max-height', 'padding-top',
                         'padding-right', 'padding-bottom', 'padding-left', 'text-indent', 'hyphenate-limit-zone',
                         'flex-basis', 'text-underline-offset', 'text-decoration-thickness'],
            'imports': {'ZERO_PIXELS': ('weasyprint/css/properties.py', 'const'),
                        'Dimension': ('weasyprint/css/properties.py', 'namedtuple'),
                        'LENGTHS_TO_PIXELS': ('weasyprint/css/utils.py', 'qtable')}}),
        ('fun', 'pixel_length', 'pixel_length', {'computer': ['letter-spacing']}),
        ('fun', 'length_pixels_only', 'length_pixels_only', {'computer': ['column-width', 'outline-offset']}),
        # the tuple computers: tuple(length(..) for value in values) (printed as the list comprehension)
        ('fun', 'length_or_percentage_tuple', 'length_or_percentage_tuple', {'computer': ['transform-origin']}),
        ('fun', 'length_tuple', 'length_tuple', {'computer': ['border-spacing', 'size', 'clip']}),
        ('fun', 'line_height', 'line_height', {'computer': ['line-height']}),
        # font-size, whole: the table FONT_SIZE_KEYWORDS of this module (a comprehension over INITIAL_VALUES['font_size']
        # of css/properties.py), the two for / else searches of larger / smaller (option 'for_break': no break here,
        # the else clause runs when the loop ends), keyword_values[::-1], its call of length()
        ('fun', 'font_size', 'font_size', {
            'computer': ['font-size'], 'for_break': True,
            'imports': {'FONT_SIZE_KEYWORDS': ('weasyprint/css/computed_values.py', 'qtable'),
                        'INITIAL_VALUES': ('weasyprint/css/properties.py', 'entries')}}),
    ]),
    # C06, further computers of the same module that are `length()` behind a keyword or over a tuple (a file of their
    # own: GenComputed and what is proved about it stay as they are): gap (column-gap, row-gap: 'normal' kept),
    # word_spacing ('normal' -> 0, else pixels only), border_radius (the four corners: length() over the pair)
    'GenComputedGap': ('weasyprint/css/computed_values.py', [
        ('fun', 'gap', 'gap', {'computer': ['column-gap', 'row-gap']}),
        ('fun', 'word_spacing', 'word_spacing', {'computer': ['word-spacing']}),
        ('fun', 'border_radius', 'border_radius', {
            'computer': ['border-top-left-radius', 'border-top-right-radius', 'border-bottom-left-radius',
                         'border-bottom-right-radius']}),
        # border_width (the four border widths, column-rule-width, outline-width), whole: the table
        # BORDER_WIDTH_KEYWORDS of this module (imports), `name.replace('width', 'style')` the builtin "%replace",
        # `isinstance(value, int)` the builtin "%isinstance" with the class int as the marker "%int", `style[<key>]`
        # with the computed key the builtin "%getitem" (option 'str_index')
        ('fun', 'border_width', 'border_width', {
            'computer': ['border-top-width', 'border-right-width', 'border-left-width', 'border-bottom-width',
                         'column-rule-width', 'outline-width'],
            'isinstance': True, 'str_index': True,
            'imports': {'BORDER_WIDTH_KEYWORDS': ('weasyprint/css/computed_values.py', 'qtable')}}),
        # tab_size, whole: an int (a number of spaces) kept, anything else through length()
        ('fun', 'tab_size', 'tab_size', {'computer': ['tab-size'], 'isinstance': True}),
    ]),
    'GenBuild': ('weasyprint/formatting_structure/build.py', [
        # BOX_TYPE_FROM_DISPLAY: (outside, inside) / (table part,) -> the name of the class of boxes.py
        ('classtable', 'BOX_TYPE_FROM_DISPLAY', 'box_type_from_display', {'module': 'boxes'}),
    ]),
    'GenGrid': ('weasyprint/layout/grid.py', [
        # the placement helpers of the grid placement algorithm (C12).  `len` is the builtin "%len".  In _get_line
        # and _get_placement the searches for NAMED lines (for ... else loops with break over enumerate / slices)
        # are outside the subset: option 'opaque' prints each of them as a call of "%unsupported", an error value
        # when executed; the theorems are about lines without names, which never reach them.
        ('fun', '_intersect', 'grid_intersect', {}),
        ('fun', '_intersect_with_children', 'grid_intersect_with_children', {}),
        ('fun', '_get_line', 'grid_get_line', {'opaque': True}),
        ('fun', '_get_placement', 'grid_get_placement', {'opaque': True}),
        ('fun', '_get_span', 'grid_get_span', {}),
        # _get_second_placement, the sparse case: the else branch of the final `if dense:` (option '<last-else>'), a
        # function of the set of occupied tracks (here a list of its elements: only its truth value and its max are
        # used) and of the second-axis placement properties.  `for end_track in count(track + 1)` (second_start a
        # span) is outside the subset: option 'opaque'; the theorems are about second_start == 'auto'.
        ('fun', '_get_second_placement', 'grid_second_sparse', {
            'slice_from': ('<last-else>', 'if dense:'), 'opaque': True,
            'params': ['occupied_tracks', 'second_start', 'second_end', 'second_tracks']}),
    ]),
    'GenFlexResolve': ('weasyprint/layout/flex.py', [
        # flex_layout, step 6 "resolve the flexible lengths" (css-flexbox 9.7, C12) for one line, as consecutive
        # slices of the body of `for line in flex_lines:` and of its `while not all(frozen)` loop (slice_nested).
        # The items are attribute bags held by the pairs (index, child) of `line`; the loops that store attributes
        # of child are printed by the rule of rebuild_for (option 'rebuild').  `inf` and `sys` are inputs.
        ('fun', 'flex_layout', 'flex_mode', {
            'slice_from': ('<nested>', 'hypothetical_main_size = sum(', 'if hypothetical_main_size < available_main_space:',
                           {'inside': ['for line in flex_lines:'], 'block': FLEX_FOR_BLOCK}),
            'rebuild': True, 'params': ['line', 'main_gap', 'available_main_space']}),
        ('fun', 'flex_layout', 'flex_inflexible', {
            'slice_from': ('<nested>', "for index, child in line:\n    if flex_factor_type == 'grow':", None,
                           {'inside': ['for line in flex_lines:'], 'block': FLEX_FOR_BLOCK}),
            'rebuild': True, 'params': ['line', 'flex_factor_type']}),
        ('fun', 'flex_layout', 'flex_initial_free_space', {
            'slice_from': ('<nested>', 'initial_free_space = available_main_space',
                           'for i, (index, child) in enumerate(line):\n    if child.frozen:\n        initial_free_space -=',
                           {'inside': ['for line in flex_lines:'], 'block': FLEX_FOR_BLOCK}),
            'rebuild': True, 'params': ['line', 'main_gap', 'available_main_space']}),
        ('fun', 'flex_layout', 'flex_remaining', {
            'slice_from': ('<nested>', 'unfrozen_factor_sum = 0', 'if unfrozen_factor_sum < 1:',
                           {'inside': ['for line in flex_lines:',
                                       'while not all((child.frozen for index, child in line)):'],
                            'block': FLEX_WHILE_BLOCK}),
            'rebuild': True,
            'params': ['line', 'main_gap', 'available_main_space', 'initial_free_space', 'inf', 'sys']}),
        ('fun', 'flex_layout', 'flex_distribute', {
            'slice_from': ('<nested>', 'if remaining_free_space == 0:', None,
                           {'inside': ['for line in flex_lines:',
                                       'while not all((child.frozen for index, child in line)):'],
                            'block': FLEX_WHILE_BLOCK}),
            'rebuild': True, 'params': ['line', 'remaining_free_space', 'flex_factor_type']}),
        ('fun', 'flex_layout', 'flex_clamp_width', {
            'slice_from': ('<nested>', 'for index, child in line:\n    child.adjustment = 0', None,
                           {'inside': ['for line in flex_lines:',
                                       'while not all((child.frozen for index, child in line)):'],
                            'block': FLEX_WHILE_BLOCK, 'consts': {'main': 'width'}}),
            'rebuild': True, 'params': ['line']}),
        ('fun', 'flex_layout', 'flex_clamp_height', {
            'slice_from': ('<nested>', 'for index, child in line:\n    child.adjustment = 0', None,
                           {'inside': ['for line in flex_lines:',
                                       'while not all((child.frozen for index, child in line)):'],
                            'block': FLEX_WHILE_BLOCK, 'consts': {'main': 'height'}}),
            'rebuild': True, 'params': ['line']}),
        ('fun', 'flex_layout', 'flex_freeze', {
            'slice_from': ('<nested>', 'adjustments = sum(', 'for index, child in line:\n    if adjustments == 0:',
                           {'inside': ['for line in flex_lines:',
                                       'while not all((child.frozen for index, child in line)):'],
                            'block': FLEX_WHILE_BLOCK}),
            'rebuild': True, 'params': ['line']}),
    ]),
    'GenReplacedBox': ('weasyprint/layout/replaced.py', [
        # the functions under the handle_min_max_* decorators (`.without_min_max`); image.get_intrinsic_size is an
        # oracle; in replaced_box_width the call statement of the (decorated) block_level_width imported inside the
        # function is an oracle that mutates box
        ('fun', 'min_max_auto_replaced', 'min_max_auto_replaced', {}),
        ('fun', 'replaced_box_height', 'replaced_box_height', {}),
        ('fun', 'replaced_box_width', 'replaced_box_width', {
            'oracle_stmts': {'block_level_width': (['box', 'containing_block'], ['box'])}}),
        # replacedbox_layout translates as it is (its `assert object_fit == 'none', object_fit` is accepted); its calls
        # of contain_/cover_constraint_image_sizing, percentage and Box.content_box_x/y are answered by the callees'
        # own regenerated bodies (GenReplaced, GenPercent, GenBoxes) in proofs/C13_gen_layout.v
        ('fun', 'replacedbox_layout', 'replacedbox_layout', {}),
    ]),
    'GenInlineReplaced': ('weasyprint/layout/replaced.py', [
        # inline_replaced_box_layout (CSS 2.1 10.3.2: 'auto' margins of an inline replaced box are used as 0), whole
        # body: the loop over the four sides is unrolled, getattr / setattr / f'margin_{side}' get constant names (see
        # specialise()); its last statement inline_replaced_box_width_height(box, containing_block) sets box.width /
        # box.height: an oracle statement (%call, box = f(box, containing_block))
        ('fun', 'inline_replaced_box_layout', 'inline_replaced_box_layout', {
            'consts': {}, 'callable': False,
            'oracle_stmts': {'inline_replaced_box_width_height': (['box', 'containing_block'], ['box'])}}),
        # inline_replaced_box_width_height, whole body: the five callees mutate the box: oracle statements
        # (%call, box = f(box, ..)); f.without_min_max (the function under the handle_min_max_* decorator) and f (the
        # decorated one) are different oracles
        ('fun', 'inline_replaced_box_width_height', 'inline_replaced_box_width_height', {
            'callable': False,
            'oracle_stmts': {'replaced_box_width.without_min_max': (['box', 'containing_block'], ['box']),
                             'replaced_box_height.without_min_max': (['box'], ['box']),
                             'min_max_auto_replaced': (['box'], ['box']),
                             'replaced_box_width': (['box', 'containing_block'], ['box']),
                             'replaced_box_height': (['box'], ['box'])}}),
    ]),
    'GenMinMax': ('weasyprint/layout/min_max.py', [
        # the function that a call of a @handle_min_max_width / @handle_min_max_height function executes (option
        # 'inner': the `wrapper` defined in and returned by the decorator).  The decorated function is the parameter
        # `function` of the decorator: `result = function(box, *args)` is printed as the oracle statement
        # result, box, args = function(box, args)  (it mutates box, and may mutate what args holds);
        # getattr(box, 'position_x', None) is the builtin "%getattr"
        ('fun', 'handle_min_max_width', 'min_max_width_wrapper', {
            'inner': 'wrapper', 'call_as': 'handle_min_max_width.wrapper',
            'oracle_stmts': {'function': (['box', '*args'], ['box', '*args'])}}),
        ('fun', 'handle_min_max_height', 'min_max_height_wrapper', {
            'inner': 'wrapper', 'call_as': 'handle_min_max_height.wrapper',
            'oracle_stmts': {'function': (['box', '*args'], ['box', '*args'])}}),
    ]),
    'GenPageCounters': ('weasyprint/layout/page.py', [
        # the whole function: the loop over the three property names is unrolled and `style[propname]` gets a constant
        # key (option 'consts' with no parameter: see specialise() / cp_block()); `continue` folded into if / else
        ('fun', '_standardize_page_based_counters', 'standardize_page_based_counters', {'consts': {}}),
    ]),
    'GenPageSide': ('weasyprint/layout/page.py', [
        # remake_page (C04): from the `if` that binds next_page_side (the side a forced break asks for) through
        # `side = ...`: next_page_side, blank, name, side.  The values come from page_maker[index] and go to PageType /
        # make_page (checked by slice_span: 'before' / 'keep' / 'then'); bool() is `not not`
        ('fun', 'remake_page', 'page_side', {
            'slice_from': ('<span>', 'next_page_side', 'side', {
                'keep': ['next_page_side', 'blank', 'name', 'side'],
                'before': ['page_maker = context.page_maker',
                           'resume_at, next_page, right_page, page_state, _ = page_maker[index]'],
                'then': ['PageType(side, blank, name, index, groups)', 'page_number = index + 1',
                         'make_page(context, root_box, page_type, resume_at, page_number, page_state)']}),
            'params': ['next_page', 'right_page', 'resume_at', 'context', 'root_box']}),
        # remake_page, after make_page returned: the parity flips and the entry of the next page is stored
        # (resume_at, next_page as returned by make_page); the dict display of constants is a constant VObj
        ('fun', 'remake_page', 'page_next', {
            'slice_from': ('<span>', '=right_page', None, {
                'before': ['page_maker = context.page_maker',
                           'resume_at, next_page, right_page, page_state, _ = page_maker[index]',
                           'page_state = copy.deepcopy(page_state)',
                           'page, resume_at, next_page = make_page(context, root_box, page_type, resume_at, '
                           'page_number, page_state)']}),
            'params': ['index', 'page_maker', 'right_page', 'resume_at', 'next_page', 'page_state', 'page']}),
        # make_page: what a blank page does with its resume_at (first `if page_type.blank:`: remembered, the root
        # box loses its children) ...
        ('fun', 'make_page', 'blank_enter', {
            'slice_from': ('<span>', 'previous_resume_at', 'previous_resume_at', {
                'keep': ['previous_resume_at'], 'before': []}),
            'params': ['page_type', 'resume_at', 'root_box']}),
        # ... and what it returns (last `if page_type.blank:` and the return statement): the remembered resume_at
        # and the next_page of its own page_maker entry
        ('fun', 'make_page', 'blank_return', {
            'slice_from': '<last-if>',
            'params': ['page_type', 'previous_resume_at', 'page_maker', 'page_number', 'page', 'resume_at',
                       'next_page']}),
    ]),
    'GenStacking': ('weasyprint/stacking.py', [
        # StackingContext.__init__ (C17): the three z buckets (`self.x.append(..)` / `self.x.sort(key=lambda c:
        # c.z_index)` on the lists the constructor itself creates: see fresh_list_attr; the sort is PSortedByAttr of
        # Py.v) and the z-index normalisation.  'call_as': never the callee of a translated call
        ('fun', 'StackingContext.__init__', 'stacking_init', {'call_as': 'StackingContext.__init__'}),
        # _dispatch: which boxes get a stacking context of their own / a "fake" one / go to the floats / stay in the
        # normal tree with their index in blocks and blocks_and_cells.  The decisions are translated; the recursive
        # work (StackingContext.from_box, _dispatch_children) and list.insert are outside the subset: option
        # 'opaque' prints each such statement as a call of "%unsupported" carrying its text.  isinstance(..) is the
        # builtin "%isinstance" (option 'isinstance'), box.is_floated() an oracle; the module `boxes` and the class
        # AbsolutePlaceholder are inputs
        ('fun', '_dispatch', 'stacking_dispatch', {
            'opaque': True, 'isinstance': True, 'call_as': '_dispatch[decisions]',
            'params': ['box', 'page', 'child_contexts', 'blocks', 'floats', 'blocks_and_cells',
                       'boxes', 'AbsolutePlaceholder']}),
    ]),
    'GenPageSel': ('weasyprint/css/__init__.py', [
        # does an @page selector (side, :blank, :first, name, :nth(an+b [of group])) match a page type; `%` is the
        # builtin "%mod", the loop over page_type.groups has a tuple target and an `if ...: continue`
        ('fun', 'StyleFor._page_type_match', 'page_type_match', {}),
    ]),
    'GenStream': ('weasyprint/pdf/stream.py', [
        # the graphics-state bookkeeping methods of Stream (C16): the attributes of self are the fields of an object
        # value, `super().m(..)` is the oracle "super.m" that answers the new state of self (pydyf is not in the
        # repository), self.stream / self._ctm_stack / self.marked are list-valued attributes (option 'obj_methods');
        # the @property ctm is the method ".ctm"
        ('props', 'Stream', 'Stream', {}),
        ('fun', 'Stream.push_state', 'stream_push_state', {'obj_methods': STREAM_METHODS, 'call_as': 'Stream.push_state'}),
        ('fun', 'Stream.pop_state', 'stream_pop_state', {'obj_methods': STREAM_METHODS, 'call_as': 'Stream.pop_state'}),
        ('fun', 'Stream.begin_text', 'stream_begin_text', {'obj_methods': STREAM_METHODS, 'call_as': 'Stream.begin_text'}),
        ('fun', 'Stream.end_text', 'stream_end_text', {'obj_methods': STREAM_METHODS, 'call_as': 'Stream.end_text'}),
        ('fun', 'Stream.set_font_size', 'stream_set_font_size', {
            'obj_methods': STREAM_METHODS, 'call_as': 'Stream.set_font_size'}),
        ('fun', 'Stream.end_marked_content', 'stream_end_marked_content', {
            'obj_methods': STREAM_METHODS, 'call_as': 'Stream.end_marked_content'}),
        # pydyf.Dictionary({'MCID': len(self.marked)}) is the oracle "pydyf.Dictionary", self.get_marked_content_tag
        # the method oracle ".get_marked_content_tag" (both specified in model/C16Py.v)
        ('fun', 'Stream.begin_marked_content', 'stream_begin_marked_content', {
            'obj_methods': STREAM_METHODS, 'call_as': 'Stream.begin_marked_content'}),
        # self._ctm_stack[-1] = Matrix(a, b, c, d, e, f) @ self.ctm : the store into the last item is the statement
        # form `x.a[-1] = e` of 'obj_methods'; Matrix(..) and @ are linked to gen/GenMatrix.v by the theorems
        ('fun', 'Stream.transform', 'stream_transform', {
            'obj_methods': STREAM_METHODS, 'call_as': 'Stream.transform'}),
        # def set_color_special(self, name, stroke=False, *operands): the vararg is an ordinary last parameter whose
        # value is the tuple of the extra arguments (option 'vararg_last'); super().set_color_special(name, stroke,
        # *operands) is the oracle "super.set_color_special" receiving that tuple as its last argument
        ('fun', 'Stream.set_color_special', 'stream_set_color_special', {
            'obj_methods': STREAM_METHODS, 'vararg_last': True, 'call_as': 'Stream.set_color_special'}),
    ]),
}


def generate(repo, out_dir, only=None):
    """Returns (written_files, errors) ; errors: list of (target, message)."""
    errors, written = [], []
    os.makedirs(out_dir, exist_ok=True)
    # first pass: the signatures of all function targets (what a translated body may call)
    CALLABLE.clear()
    CTORS.clear()
    STATIC_METHODS.clear()
    for fname, (src, targets) in TARGETS.items():
        try:
            tree0 = ast.parse(open(os.path.join(repo, src)).read())
        except Exception:
            continue
        for kind, pyname, coqname, extra in targets:
            if kind == 'props':
                try:
                    for g in class_properties(tree0, pyname)[0]:
                        CALLABLE['.' + g] = (['self'], {})
                except Unsupported:
                    pass
            if kind == 'ctor':
                try:
                    ps, ds = signature(find_function(tree0, pyname + '.__init__'))
                    CALLABLE[pyname] = (ps[1:], ds)
                    CTORS.add(pyname)
                except Unsupported:
                    pass
            if kind != 'fun' or extra.get('slice_from') or extra.get('after_unpack') or extra.get('in_for') \
                    or extra.get('inner'):
                continue
            try:
                fn0 = find_function(tree0, pyname)
                key = ('.' + pyname.split('.')[-1]) if '.' in pyname else pyname
                if extra.get('static'):
                    check_static(fn0, pyname)
                    STATIC_METHODS.add(key)
                CALLABLE[extra.get('call_as', key)] = signature(fn0)
            except Unsupported:
                pass
    for fname, (src, targets) in TARGETS.items():
        if only and fname not in only:
            continue
        path = os.path.join(repo, src)
        try:
            source = open(path).read()
            tree = ast.parse(source)
        except Exception as exc:
            errors.append((fname, 'cannot parse %s: %s' % (src, exc)))
            continue
        parts = [HEADER % src]
        table = []
        # the properties of the class named by a 'props' target are in force for every target of this file
        PROP_GET.clear()
        PROP_SET.clear()
        getters_of = {}
        for kind, pyname, coqname, extra in targets:
            if kind == 'props':
                try:
                    g, st = class_properties(tree, pyname)
                    if set(g) & set(PROP_GET):
                        raise Unsupported('two classes define the property %s' % sorted(set(g) & set(PROP_GET)))
                    PROP_GET.update(g)
                    PROP_SET.update(st)
                    getters_of[pyname] = list(g)
                except Unsupported as exc:
                    errors.append(('%s:%s' % (fname, pyname), str(exc)))
                    parts.append('(* UNSUPPORTED %s: %s *)\n' % (pyname, str(exc).replace('*)', '* )')))
        for kind, pyname, coqname, extra in targets:
            TARGET_ORACLE.clear()
            IMPORTED.clear()
            try:
                if kind == 'props':
                    # one translated method per getter: ".name" with the single parameter self
                    for g in getters_of.get(pyname, []):
                        del CALLS_SEEN[:]
                        del BUILTINS_SEEN[:]
                        parts.append(translate_function(PROP_GET[g], '%s_%s' % (coqname, g)))
                        for b in sorted(set(BUILTINS_SEEN)):
                            check_builtin(tree, PROP_GET[g], b)
                        table.append('(%s, (%s_%s_args, %s_%s_body))' % (q('.' + g), coqname, g, coqname, g))
                elif kind == 'fun':
                    fn = find_function(tree, pyname)
                    CLOSURE_PARAMS.clear()
                    VARARG[0] = None
                    if extra.get('static'):
                        check_static(fn, pyname)
                    for x_ in extra.get('out_params', ()):
                        # option 'out_params': parameters whose list object the function mutates for its caller (the
                        # theorems read the final value of the variable as the state of that object): refused when the
                        # name is ever rebound, which would leave the caller's object alone
                        if x_ not in [a_.arg for a_ in fn.args.args] or any(
                                isinstance(n_, ast.Name) and n_.id == x_ and not isinstance(n_.ctx, ast.Load)
                                for n_ in ast.walk(fn)):
                            raise Unsupported('%s is not a parameter of %s that is never rebound' % (x_, pyname))
                    if extra.get('inner'):
                        fn = decorator_inner(tree, fn, extra['inner'])
                    VARARG_LAST[0] = None
                    if extra.get('vararg_last'):
                        fn = vararg_as_last(fn)
                    if extra.get('consts') is not None or extra.get('tests') or extra.get('free'):
                        fn = specialise(fn, tree, extra.get('consts') or {}, extra.get('tests'), extra.get('free'))
                    if extra.get('computer'):
                        check_computer(tree, fn, extra['computer'])
                    if extra.get('calls'):
                        parts.append(translate_wrapper(fn, coqname))
                    else:
                        del CALLS_SEEN[:]
                        del BUILTINS_SEEN[:]
                        TARGET_ORACLE.clear()
                        TARGET_ORACLE.update(extra.get('oracle_stmts', {}))
                        if extra.get('imports'):
                            IMPORTED.update(resolve_imported(repo, src, tree, extra['imports']))
                            for n_, (k_, d_) in sorted(IMPORTED.items()):
                                if k_ == 'namedtuple' and not any(('Definition %s_fields ' % n_) in p_ for p_ in parts):
                                    parts.append('Definition %s_fields : list string := [%s].\n' % (
                                        n_, '; '.join(q(f_) for f_ in d_)))
                        parts.append(translate_function(fn, coqname, extra.get('slice_from'), extra.get('params'),
                                                        extra.get('after_unpack'), tree, extra.get('in_for')))
                        for callee in sorted(set(CALLS_SEEN)):
                            check_binding(tree, fn, callee)
                        for b in sorted(set(BUILTINS_SEEN)):
                            check_builtin(tree, fn, b)
                        if not extra.get('slice_from') and not extra.get('after_unpack') and not extra.get('in_for'):
                            key = ('.' + pyname.split('.')[-1]) if '.' in pyname else pyname
                            table.append('(%s, (%s_args, %s_body))' % (q(extra.get('call_as', key)), coqname, coqname))
                elif kind == 'ctor':
                    del CALLS_SEEN[:]
                    del BUILTINS_SEEN[:]
                    parts.append(translate_ctor(tree, pyname, coqname))
                    for callee in sorted(set(CALLS_SEEN)):
                        check_binding(tree, find_function(tree, pyname + '.__init__'), callee)
                    for b in sorted(set(BUILTINS_SEEN)):
                        check_builtin(tree, find_function(tree, pyname + '.__init__'), b)
                    table.append('(%s, (%s_args, %s_body))' % (q(pyname), coqname, coqname))
                elif kind == 'qtable':
                    parts.append(q_table(tree, source, pyname, coqname))
                elif kind == 'classtable':
                    parts.append(class_table(tree, pyname, coqname, extra['module']))
                else:
                    parts.append(literal_table(tree, pyname, coqname))
            except Unsupported as exc:
                errors.append(('%s:%s' % (fname, pyname), str(exc)))
                parts.append('(* UNSUPPORTED %s: %s *)\n' % (pyname, str(exc).replace('*)', '* )')))
        parts.append('Definition %s_table : list (string * (list string * list stmt)) := [%s].\n' % (
            fname, '; '.join(table)))
        text = '\n'.join(parts)
        dest = os.path.join(out_dir, fname + '.v')
        old = open(dest).read() if os.path.exists(dest) else None
        if old != text:
            open(dest, 'w').write(text)
            written.append(dest)
    return written, errors


def check_static(fn, pyname):
    """option 'static' of a method target: the def is decorated by exactly `@staticmethod` (its parameters are then
    the arguments of the call, without the receiver); the builtin name is not rebound at the level of the class"""
    if '.' not in pyname or len(fn.decorator_list) != 1 or not isinstance(fn.decorator_list[0], ast.Name) \
            or fn.decorator_list[0].id != 'staticmethod':
        raise Unsupported('%s is not a method decorated by exactly @staticmethod' % pyname)


def check_setitem_alias(stmts):
    """Lists are values in Py.v: `x[i] = e` updates the variable x only.  So for every name x that the translated
    statements mutate by a computed index, each read of x must be one that cannot create a second name for the list
    object (x[j]; the iterable of a for / comprehension; the argument of len / sum / enumerate / max / min) -- or
    come after the last `x[i] = ...` outside any loop that contains one (then the alias is never seen to differ).
    When x is a parameter of a slice, the statements before the slice are NOT checked (the list must be fresh
    there)."""
    mod = ast.Module(body=list(stmts), type_ignores=[])
    mutated = {}
    for n in ast.walk(mod):
        if isinstance(n, ast.Assign) and len(n.targets) == 1 and isinstance(n.targets[0], ast.Subscript) \
                and isinstance(n.targets[0].value, ast.Name) \
                and not isinstance(n.targets[0].slice, (ast.Slice, ast.Tuple, ast.Starred, ast.Constant)):
            mutated.setdefault(n.targets[0].value.id, []).append(n)
    if not mutated:
        return
    safe = set()
    loops = []
    for n in ast.walk(mod):
        if isinstance(n, ast.Subscript) and isinstance(n.value, ast.Name):
            safe.add(id(n.value))
        if isinstance(n, (ast.For, ast.comprehension)) and isinstance(n.iter, ast.Name):
            safe.add(id(n.iter))
        if isinstance(n, ast.Call) and isinstance(n.func, ast.Name) \
                and n.func.id in ('len', 'sum', 'enumerate', 'max', 'min') \
                and len(n.args) == 1 and isinstance(n.args[0], ast.Name):
            safe.add(id(n.args[0]))
        if isinstance(n, ast.Expr) and isinstance(n.value, ast.Call) and isinstance(n.value.func, ast.Attribute) \
                and n.value.func.attr in ('append', 'extend') and isinstance(n.value.func.value, ast.Name) \
                and len(n.value.args) == 1 and not n.value.keywords:
            # the statement x.append(e) / x.extend(e) (printed as SAppend / SExtend: the variable x is updated): the
            # receiver is used in place, no second name for the list is created
            safe.add(id(n.value.func.value))
        if isinstance(n, (ast.For, ast.While)):
            loops.append(n)
    for n in ast.walk(mod):
        if isinstance(n, ast.Name) and n.id in mutated and isinstance(n.ctx, ast.Load) and id(n) not in safe:
            last = max(a.end_lineno for a in mutated[n.id])
            in_loop = any(any(x is n for x in ast.walk(lp))
                          and any(any(y is a for y in ast.walk(lp)) for a in mutated[n.id]) for lp in loops)
            if n.lineno <= last or in_loop:
                raise Unsupported('the list %s is mutated by index and read at line %d in a way that may alias it'
                                  % (n.id, n.lineno))
        if isinstance(n, (ast.Lambda, ast.FunctionDef)) and any(
                isinstance(x, ast.Name) and x.id in mutated for x in ast.walk(n)):
            raise Unsupported('a list mutated by index is captured by a nested function')
        if isinstance(n, ast.For) and isinstance(n.iter, ast.Name) and n.iter.id in mutated \
                and any(any(y is a for y in ast.walk(n)) for a in mutated[n.iter.id]):
            raise Unsupported('the list %s is mutated by index inside a loop over it' % n.iter.id)


def check_binding(tree, fn, callee):
    """the called name must denote the translation target: a module-level function of the same file or a name
    imported with `from ... import name`, and not rebound inside the calling function; methods (".name") are
    resolved by name only (recorded in the trusted base)"""
    if callee.startswith('.'):
        return
    if callee.endswith('.without_min_max') and callee in TARGET_ORACLE:
        # the oracle statement f.without_min_max(..) (see oracle_stmt): f is not rebound in the calling function and
        # is THE module-level function f, defined once, under exactly one decorator handle_min_max_width / _height
        # imported from .min_max (which sets the attribute without_min_max of what it returns)
        base = callee[:-len('.without_min_max')]
        for n in ast.walk(fn):
            if (isinstance(n, ast.Name) and not isinstance(n.ctx, ast.Load) and n.id == base) \
                    or (isinstance(n, ast.arg) and n.arg == base):
                raise Unsupported('%s is rebound inside %s' % (base, fn.name))
        defs = [n for n in tree.body if isinstance(n, ast.FunctionDef) and n.name == base]
        others = [n for n in tree.body if not isinstance(n, ast.FunctionDef) and any(
            isinstance(x, ast.Name) and x.id == base and not isinstance(x.ctx, ast.Load) for x in ast.walk(n))]
        if len(defs) != 1 or others or len(defs[0].decorator_list) != 1 \
                or not isinstance(defs[0].decorator_list[0], ast.Name) \
                or defs[0].decorator_list[0].id not in ('handle_min_max_width', 'handle_min_max_height'):
            raise Unsupported('%s is not one module-level function under a handle_min_max_* decorator' % base)
        deco = defs[0].decorator_list[0].id
        if not any(isinstance(n, ast.ImportFrom) and n.module == 'min_max' and n.level == 1 and any(
                a.name == deco and a.asname is None for a in n.names) for n in tree.body):
            raise Unsupported('%s is not imported from .min_max' % deco)
        return
    for n in ast.walk(fn):
        if isinstance(n, ast.Name) and isinstance(n.ctx, ast.Store) and n.id == callee:
            raise Unsupported('%s is rebound inside %s' % (callee, fn.name))
        if isinstance(n, ast.arg) and n.arg == callee:
            raise Unsupported('%s is a parameter of %s' % (callee, fn.name))
    if callee == 'hasattr':
        # the builtin: not bound at the module level (by a def / class / import / assignment)
        for n in tree.body:
            names = [n.name] if isinstance(n, (ast.FunctionDef, ast.ClassDef)) else \
                [x.asname or x.name for x in n.names] if isinstance(n, (ast.Import, ast.ImportFrom)) else \
                [x.id for x in ast.walk(n) if isinstance(x, ast.Name) and not isinstance(x.ctx, ast.Load)]
            if callee in names or '*' in names:
                raise Unsupported('%s may be rebound at the module level' % callee)
        return
    if callee in TARGET_ORACLE and callee in CLOSURE_PARAMS:
        return  # the parameter of the enclosing decorator (option 'inner': decorator_inner checked its binding)
    if callee in TARGET_ORACLE:
        # a declared oracle of this target: bound by a `from m import f` statement of the function itself (or of the
        # module, below)
        if any(isinstance(n, ast.ImportFrom) and any(a.asname is None and a.name == callee for a in n.names)
               for n in fn.body):
            return
    for n in tree.body:
        if isinstance(n, ast.FunctionDef) and n.name == callee:
            return
        if isinstance(n, ast.ClassDef) and n.name == callee and callee in CTORS:
            return
        if isinstance(n, ast.ImportFrom) and any((a.asname or a.name) == callee and a.name == callee for a in n.names):
            return
    raise Unsupported('%s is neither defined nor imported in this module' % callee)


def check_named_builtin(tree, name):
    """the name of a Python builtin printed as a primitive must denote the builtin: the module never binds it
    (no assignment, definition, parameter, import, except target, global declaration of that name)"""
    for n in ast.walk(tree):
        if isinstance(n, ast.Name) and n.id == name and not isinstance(n.ctx, ast.Load):
            raise Unsupported('the module rebinds the builtin %s' % name)
        if isinstance(n, (ast.FunctionDef, ast.AsyncFunctionDef, ast.ClassDef)) and n.name == name:
            raise Unsupported('the module defines %s' % name)
        if isinstance(n, ast.arg) and n.arg == name:
            raise Unsupported('%s is a parameter name in the module' % name)
        if isinstance(n, ast.alias) and ((n.asname or n.name).split('.')[0] == name or n.name == '*'):
            raise Unsupported('the module imports %s (or *)' % name)
        if isinstance(n, ast.ExceptHandler) and n.name == name:
            raise Unsupported('the module binds %s in an except clause' % name)
        if isinstance(n, (ast.Global, ast.Nonlocal)) and name in n.names:
            raise Unsupported('the module declares %s global / nonlocal' % name)


def translate_wrapper(fn, name):
    """handle_min_max_*.wrapper: `function(box, *args)` is the call of the decorated function; it is printed as
    the statement SCall (run the callee body on the same box), handled by the interpreter-level combinator
    [run_wrapped] in the proofs; here we print the wrapper with calls replaced by a marker variable update."""
    out = []
    for s in fn.body:
        if isinstance(s, ast.Assign) and isinstance(s.value, ast.Call) and isinstance(s.value.func, ast.Name) \
                and s.value.func.id == 'function':
            out.append('SCallWrapped')
        elif isinstance(s, ast.If):
            inner = []
            for t in s.body:
                if isinstance(t, ast.Assign) and isinstance(t.value, ast.Call) and isinstance(t.value.func, ast.Name) \
                        and t.value.func.id == 'function':
                    inner.append('SCallWrapped')
                elif isinstance(t, ast.Assign) and isinstance(t.targets[0], ast.Tuple):
                    # box.margin_left, box.margin_right = computed_margins
                    inner.append('(SUnpack [%s] %s)' % ('; '.join(target(x) for x in t.targets[0].elts), expr(t.value)))
                else:
                    inner.append(stmt(t))
            if s.orelse:
                raise Unsupported('else in wrapper')
            out.append('(SIf %s [%s] [])' % (expr(s.test), '; '.join(inner)))
        else:
            out.append(stmt(s))
    return 'Definition %s_body : list wstmt := [%s].\n' % (name, '; '.join(out))


if __name__ == '__main__':
    ap = argparse.ArgumentParser()
    ap.add_argument('--repo', default='/repo')
    ap.add_argument('--out', default=os.path.join(os.path.dirname(os.path.abspath(__file__)), '..', 'coq', 'gen'))
    a = ap.parse_args()
    written, errors = generate(a.repo, a.out)
    for w in written:
        print('wrote', w)
    for t, m in errors:
        print('UNSUPPORTED', t, m)
    sys.exit(1 if errors else 0)
