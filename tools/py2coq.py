"""Fail-closed printer: Python function source -> Coq term of type (list stmt) in the base/Py.v embedding.

The translator is *only a printer*: it serialises the Python ``ast`` of the listed
functions of /repo's current working tree; the meaning of the printed syntax is
given by the interpreter coq/base/Py.v.  Anything outside the accepted subset
raises ``Unsupported`` naming the node (the check then reports a broken
obligation ``gen:<target>``).

usage: py2coq.py [--repo /repo] [--out /verif/coq/gen]   (writes a file only when its text changed)
"""
import ast, re, sys, os, textwrap, argparse
from fractions import Fraction


class Unsupported(Exception):
    pass


def q(s):
    return '"%s"' % s.replace('"', '""')


def num(v):
    if isinstance(v, bool):
        return '(VBool %s)' % ('true' if v else 'false')
    if isinstance(v, int):
        return '(VNum (%d#1))' % v if v >= 0 else '(VNum ((%d)#1))' % v
    if isinstance(v, float):
        f = Fraction(repr(v))  # exact decimal denoted by the literal text
        return '(VNum ((%d)#%d))' % (f.numerator, f.denominator)
    raise Unsupported(repr(v))


def const(v):
    if v is None:
        return 'VNone'
    if isinstance(v, str):
        return '(VStr %s)' % q(v)
    if isinstance(v, tuple):
        return '(VList [%s])' % '; '.join(const(x) for x in v)
    return num(v)


BIN = {ast.Add: 'Add', ast.Sub: 'Sub', ast.Mult: 'Mul', ast.Div: 'Div'}
CMP = {ast.Eq: 'Eq', ast.NotEq: 'NotEq', ast.Lt: 'Lt', ast.LtE: 'LtE', ast.Gt: 'Gt', ast.GtE: 'GtE'}


def expr(e):
    if isinstance(e, ast.Constant):
        return '(EConst %s)' % const(e.value)
    if isinstance(e, ast.Name):
        return '(EVar %s)' % q(e.id)
    if isinstance(e, ast.Attribute):
        if e.attr in PROP_GET:
            # a READ of a @property of the class registered by the 'props' target of this file: the call of its
            # translated getter (receiver resolved by name, like methods)
            if not isinstance(e.ctx, ast.Load):
                raise Unsupported('property %s used as a target' % e.attr)
            CALLS_SEEN.append('.' + e.attr)
            return '(ECall %s [%s])' % (q('.' + e.attr), expr(e.value))
        return '(EAttr %s %s)' % (expr(e.value), q(e.attr))
    if isinstance(e, ast.BinOp) and type(e.op) in BIN:
        return '(EBin %s %s %s)' % (BIN[type(e.op)], expr(e.left), expr(e.right))
    if isinstance(e, ast.BinOp) and isinstance(e.op, ast.BitXor):
        return '(EXor %s %s)' % (expr(e.left), expr(e.right))
    if isinstance(e, ast.Compare):
        if len(e.ops) == 1 and isinstance(e.ops[0], (ast.In, ast.NotIn)):
            neg = 'true' if isinstance(e.ops[0], ast.NotIn) else 'false'
            return '(EIn %s %s %s)' % (neg, expr(e.left), expr(e.comparators[0]))
        if len(e.ops) == 1 and isinstance(e.ops[0], (ast.Is, ast.IsNot)) \
                and isinstance(e.comparators[0], ast.Constant) and e.comparators[0].value is None:
            # `x is None` / `x is not None`: equality with None in the value domain of Py.v
            return '(ECmp %s [(%s, (EConst VNone))])' % (expr(e.left), 'Eq' if isinstance(e.ops[0], ast.Is) else 'NotEq')
        if not all(type(o) in CMP for o in e.ops):
            raise Unsupported(ast.dump(e)[:200])
        rest = '; '.join('(%s, %s)' % (CMP[type(o)], expr(c)) for o, c in zip(e.ops, e.comparators))
        return '(ECmp %s [%s])' % (expr(e.left), rest)
    if isinstance(e, ast.BoolOp):
        k = 'EAnd' if isinstance(e.op, ast.And) else 'EOr'
        r = expr(e.values[-1])
        for v in reversed(e.values[:-1]):
            r = '(%s %s %s)' % (k, expr(v), r)
        return r
    if isinstance(e, ast.UnaryOp) and isinstance(e.op, ast.Not):
        return '(ENot %s)' % expr(e.operand)
    if isinstance(e, ast.UnaryOp) and isinstance(e.op, ast.USub):
        return '(EBin Sub (EConst (VNum 0)) %s)' % expr(e.operand)
    if isinstance(e, ast.IfExp):
        return '(ECond %s %s %s)' % (expr(e.test), expr(e.body), expr(e.orelse))
    if isinstance(e, ast.Subscript) and isinstance(e.slice, ast.Constant) and isinstance(e.slice.value, str):
        return '(ESubscr %s %s)' % (expr(e.value), q(e.slice.value))
    if isinstance(e, ast.Subscript) and isinstance(e.slice, ast.Constant) and isinstance(e.slice.value, int) \
            and e.slice.value >= 0:
        return '(EIndex %s %d)' % (expr(e.value), e.slice.value)
    if isinstance(e, ast.Call) and isinstance(e.func, ast.Name) and e.func.id == 'isinstance' \
            and ast.unparse(e.args[1]) == 'boxes.Box':
        return '(EIsObj %s)' % expr(e.args[0])
    if isinstance(e, (ast.Tuple, ast.List)):
        return '(ETuple [%s])' % '; '.join(expr(x) for x in e.elts)
    if isinstance(e, ast.Call) and isinstance(e.func, ast.Name) and e.func.id in ('max', 'min') \
            and len(e.args) == 1 and not e.keywords:
        a = e.args[0]
        k = 'EMaxGen' if e.func.id == 'max' else 'EMinGen'
        if isinstance(a, ast.GeneratorExp) and len(a.generators) == 1:
            g = a.generators[0]
            if isinstance(g.target, ast.Name) and len(g.ifs) <= 1 and not g.is_async:
                cond = 'None' if not g.ifs else '(Some %s)' % expr(g.ifs[0])
                return '(%s %s %s %s %s)' % (k, expr(a.elt), q(g.target.id), expr(g.iter), cond)
        if not isinstance(a, ast.GeneratorExp):  # max(xs) == max(x for x in xs), xs any list-valued expression
            return '(%s (EVar "_x") "_x" %s None)' % (k, expr(a))
    if isinstance(e, ast.Call) and isinstance(e.func, ast.Name) and e.func.id in ('max', 'min') \
            and len(e.args) >= 2 and not e.keywords:
        k = 'EMaxGen' if e.func.id == 'max' else 'EMinGen'
        return '(%s (EVar "_x") "_x" (ETuple [%s]) None)' % (k, '; '.join(expr(x) for x in e.args))
    if isinstance(e, ast.ListComp) and len(e.generators) == 1 and isinstance(e.generators[0].target, ast.Tuple) \
            and all(isinstance(t, ast.Name) for t in e.generators[0].target.elts) \
            and len(e.generators[0].ifs) <= 1 and not e.generators[0].is_async:
        # [elt for a, b in it if c]  ==  [elt[a := p[0], b := p[1]] for p in it if c[...]]   (p is not a Python name;
        # an element that is not a pair of the right length raises in Python, here p[i] is IndexError: both errors)
        import copy
        g = e.generators[0]
        elt, cond = copy.deepcopy(e.elt), copy.deepcopy(g.ifs[0]) if g.ifs else None
        for i, t in enumerate(g.target.elts):
            by = ast.Subscript(value=ast.Name(id='%p', ctx=ast.Load()), slice=ast.Constant(value=i), ctx=ast.Load())
            elt = Subst(t.id, by).visit(elt)
            if cond is not None:
                cond = Subst(t.id, by).visit(cond)
        c = 'None' if cond is None else '(Some %s)' % expr(cond)
        return '(EListComp %s "%%p" %s %s)' % (expr(elt), expr(g.iter), c)
    if isinstance(e, ast.ListComp) and len(e.generators) == 1:
        g = e.generators[0]
        if isinstance(g.target, ast.Name) and len(g.ifs) <= 1 and not g.is_async:
            cond = 'None' if not g.ifs else '(Some %s)' % expr(g.ifs[0])
            return '(EListComp %s %s %s %s)' % (expr(e.elt), q(g.target.id), expr(g.iter), cond)
    if isinstance(e, ast.Call) and isinstance(e.func, ast.Name) and e.func.id == 'sum' and len(e.args) == 1 \
            and not e.keywords and isinstance(e.args[0], ast.GeneratorExp):
        return sum_over_display(e.args[0])
    if isinstance(e, ast.Call) and isinstance(e.func, ast.Attribute) and e.func.attr == 'count' \
            and isinstance(e.func.value, (ast.List, ast.Tuple)) and len(e.args) == 1 and not e.keywords \
            and isinstance(e.args[0], ast.Constant) and isinstance(e.args[0].value, str):
        # [a, b, c].count('auto')  ==  (1 if a == 'auto' else 0) + ...   (the elements are pure: names / attributes)
        r = '(EConst (VNum 0))'
        for x in e.func.value.elts:
            pure(x)
            r = '(EBin Add %s (ECond (ECmp %s [(Eq, %s)]) (EConst (VNum 1)) (EConst (VNum 0))))' % (r, expr(x), expr(e.args[0]))
        return r
    if isinstance(e, ast.Call):
        return call(e)
    raise Unsupported(ast.dump(e)[:200])


def pure(x):
    """names and attribute chains only: evaluating them twice, or not at all, cannot be observed"""
    while isinstance(x, ast.Attribute):
        if x.attr in PROP_GET:
            raise Unsupported('element of a display reads the property %s' % x.attr)
        x = x.value
    if not isinstance(x, ast.Name):
        raise Unsupported('element %s of a display is not a name / attribute' % ast.dump(x)[:80])


class Subst(ast.NodeTransformer):
    def __init__(self, name, by):
        self.name, self.by = name, by

    def visit_Name(self, n):
        import copy
        return copy.deepcopy(self.by) if isinstance(n.ctx, ast.Load) and n.id == self.name else n


def sum_over_display(g):
    """sum(elt for x in (a, b, c) if cond)  ==  0 + (elt[a] if cond[a] else 0) + ...   over a tuple / list display of
    pure elements (Python's sum starts from 0 and adds from the left; an element filtered out adds nothing, here 0)"""
    if len(g.generators) != 1:
        raise Unsupported('sum over nested generators')
    gen = g.generators[0]
    if not (isinstance(gen.target, ast.Name) and isinstance(gen.iter, (ast.Tuple, ast.List)) and len(gen.ifs) <= 1
            and not gen.is_async):
        raise Unsupported('sum over %s' % ast.dump(gen.iter)[:80])
    import copy
    r = '(EConst (VNum 0))'
    for x in gen.iter.elts:
        pure(x)
        elt = Subst(gen.target.id, x).visit(copy.deepcopy(g.elt))
        term = expr(elt)
        if gen.ifs:
            cond = Subst(gen.target.id, x).visit(copy.deepcopy(gen.ifs[0]))
            term = '(ECond %s %s (EConst (VNum 0)))' % (expr(cond), term)
        r = '(EBin Add %s %s)' % (r, term)
    return r


# name -> (parameter names, {parameter: default expression text}) of the functions that may be called: the other
# translation targets (filled by generate()); methods are registered as ".name" with self first
CALLABLE = {}
CALLS_SEEN = []
# functions outside the translated subset that a body may call: they stay oracles ([ocall] with a hypothesis in
# the theorem, recorded in the trusted base), name -> parameter names
EXTERNAL = {
    'shrink_to_fit': (['context', 'box', 'available_content_width'], {}),
    'justify_line': (['context', 'line', 'extra_width'], {}),
    'resolve_position_percentages': (['box', 'containing_block'], {}),
    '.translate': (['self', 'dx', 'dy', 'ignore_floats'],
                   {'dx': '(EConst (VNum (0#1)))', 'dy': '(EConst (VNum (0#1)))',
                    'ignore_floats': '(EConst (VBool false))'}),
    '.page_values': (['self'], {}),
    # OrientedBox.restore_box_attributes copies margin_a / margin_b / inner back to the real box
    '.restore_box_attributes': (['self'], {}),
}
# external functions that may be called as a STATEMENT `f(a, b)` (their effect is outside the translated subset):
# name -> the parameters whose object the callee may mutate.  The embedding has value semantics, so the statement is
# printed as the unpacking  %call, m1, .., mk = f(a, b) : the oracle answers the list [returned value; state of m1
# after the call; ..] and the mutated arguments (which must be plain names) are rebound.  The variable "%call"
# (not a Python name) is bound in the final environment exactly when such a statement was executed.
# (an oracle of EXTERNAL that is not listed here mutates nothing the translated code reads again: its statement is
# printed as the assignment of its result to "%call")
EXTERNAL_STMT = {
    'justify_line': ['line'],
    'resolve_position_percentages': ['box'],
    '.translate': ['self'],
}


def call(e):
    if isinstance(e.func, ast.Name):
        name, args = e.func.id, list(e.args)
    elif isinstance(e.func, ast.Attribute):
        name, args = '.' + e.func.attr, [e.func.value] + list(e.args)
    else:
        raise Unsupported(ast.dump(e)[:200])
    if name in CALLABLE:
        params, defaults = CALLABLE[name]
    elif name in EXTERNAL:
        params, defaults = EXTERNAL[name]
    else:
        raise Unsupported('call of %s (not a translation target)' % name)
    if any(isinstance(a, ast.Starred) for a in args) or any(k.arg is None for k in e.keywords):
        raise Unsupported('star arguments in call of %s' % name)
    if len(args) > len(params):
        raise Unsupported('too many arguments in call of %s' % name)
    given = {p: expr(a) for p, a in zip(params, args)}
    for k in e.keywords:
        if k.arg not in params or k.arg in given:
            raise Unsupported('keyword %s in call of %s' % (k.arg, name))
        given[k.arg] = expr(k.value)
    out = []
    for p_ in params:
        if p_ in given:
            out.append(given[p_])
        elif p_ in defaults:
            out.append(defaults[p_])
        else:
            raise Unsupported('missing argument %s in call of %s' % (p_, name))
    CALLS_SEEN.append(name)
    return '(ECall %s [%s])' % (q(name), '; '.join(out))


def call_stmt(e):
    """statement-level call of an external function (see EXTERNAL_STMT)"""
    if isinstance(e.func, ast.Name):
        name, args = e.func.id, list(e.args)
    elif isinstance(e.func, ast.Attribute):
        name, args = '.' + e.func.attr, [e.func.value] + list(e.args)
    else:
        raise Unsupported(ast.dump(e)[:200])
    if name in CALLABLE or name not in EXTERNAL or name not in EXTERNAL_STMT:
        raise Unsupported('statement-level call of %s (not an external statement function)' % name)
    text = call(e)
    params = EXTERNAL[name][0]
    given = dict(zip(params, args))
    for k in e.keywords:
        given[k.arg] = k.value
    targets = ['(TVar "%call")']
    for m in EXTERNAL_STMT[name]:
        a = given.get(m)
        if not isinstance(a, ast.Name):
            raise Unsupported('argument %s of the statement-level call of %s is not a plain name' % (m, name))
        targets.append('(TVar %s)' % q(a.id))
    return '(SUnpack [%s] %s)' % ('; '.join(targets), text)


def signature(fn):
    a = fn.args
    if a.vararg or a.kwarg or a.kwonlyargs or a.posonlyargs:
        raise Unsupported('signature of %s' % fn.name)
    params = [x.arg for x in a.args]
    defaults = {}
    for p_, d in zip(params[len(params) - len(a.defaults):], a.defaults):
        if not isinstance(d, ast.Constant):
            raise Unsupported('default of %s in %s' % (p_, fn.name))
        defaults[p_] = '(EConst %s)' % const(d.value)
    return params, defaults


def target(t):
    if isinstance(t, ast.Name):
        return '(TVar %s)' % q(t.id)
    if isinstance(t, ast.Attribute) and isinstance(t.value, ast.Name):
        if t.attr in PROP_GET:
            # only the plain statement `x.prop = e` is understood (stmt() prints the setter there)
            raise Unsupported('assignment to the property %s in this form' % t.attr)
        return '(TAttr %s %s)' % (q(t.value.id), q(t.attr))
    raise Unsupported(ast.dump(t)[:200])


# @property getters and setters of the class named by the 'props' target of the file being printed (filled by
# generate() for that file only): name -> getter FunctionDef ; name -> (parameter, attribute, value expression)
PROP_GET = {}
PROP_SET = {}


def class_properties(tree, clsname):
    """The @property getters and @name.setter setters of the module-level class `clsname`.
    Accepted class body: docstring, undecorated methods (ignored), getters `def p(self)` under exactly @property,
    setters `def p(self, v)` under exactly @p.setter whose body is the single statement `self.<attr> = <expr>` with
    <attr> not a property and <expr> reading only self, v, min, max.  Anything else raises Unsupported.  No other
    class of the module may define a member of the same name (a subclass could override the property)."""
    cls = [n for n in tree.body if isinstance(n, ast.ClassDef) and n.name == clsname]
    if len(cls) != 1:
        raise Unsupported('class %s not found (or defined twice)' % clsname)
    cls = cls[0]
    if cls.keywords or cls.decorator_list:
        raise Unsupported('class %s has a metaclass / decorator' % clsname)
    getters, setters = {}, {}
    for m in cls.body:
        if isinstance(m, ast.Expr) and isinstance(m.value, ast.Constant) and isinstance(m.value.value, str):
            continue
        if not isinstance(m, ast.FunctionDef):
            raise Unsupported('member of %s: %s' % (clsname, ast.dump(m)[:80]))
        if m.name in ('__getattr__', '__getattribute__', '__setattr__', '__new__'):
            raise Unsupported('%s defines %s' % (clsname, m.name))
        if not m.decorator_list:
            continue
        if len(m.decorator_list) != 1:
            raise Unsupported('decorators of %s.%s' % (clsname, m.name))
        d = m.decorator_list[0]
        a = m.args
        if a.vararg or a.kwarg or a.kwonlyargs or a.posonlyargs or a.defaults:
            raise Unsupported('signature of %s.%s' % (clsname, m.name))
        if isinstance(d, ast.Name) and d.id == 'property':
            if [x.arg for x in a.args] != ['self'] or m.name in getters:
                raise Unsupported('getter %s.%s' % (clsname, m.name))
            getters[m.name] = m
        elif isinstance(d, ast.Attribute) and d.attr == 'setter' and isinstance(d.value, ast.Name) \
                and d.value.id == m.name and m.name in getters and m.name not in setters:
            if len(a.args) != 2 or a.args[0].arg != 'self' or a.args[1].arg == 'self':
                raise Unsupported('setter %s.%s' % (clsname, m.name))
            setters[m.name] = m
        else:
            raise Unsupported('decorator of %s.%s' % (clsname, m.name))
    out_set = {}
    for name, m in setters.items():
        par = m.args.args[1].arg
        if len(m.body) != 1 or not isinstance(m.body[0], ast.Assign) or len(m.body[0].targets) != 1:
            raise Unsupported('setter %s.%s is not a single assignment' % (clsname, name))
        t = m.body[0].targets[0]
        if not (isinstance(t, ast.Attribute) and isinstance(t.value, ast.Name) and t.value.id == 'self') \
                or t.attr in getters:
            raise Unsupported('setter %s.%s does not assign a plain attribute of self' % (clsname, name))
        for n in ast.walk(m.body[0].value):
            if isinstance(n, ast.Name) and n.id not in ('self', par, 'min', 'max'):
                raise Unsupported('setter %s.%s reads %s' % (clsname, name, n.id))
            if isinstance(n, (ast.Lambda, ast.ListComp, ast.GeneratorExp, ast.SetComp, ast.DictComp, ast.NamedExpr)):
                raise Unsupported('setter %s.%s: %s' % (clsname, name, type(n).__name__))
        out_set[name] = (par, t.attr, m.body[0].value)
    for other in ast.walk(tree):
        if isinstance(other, ast.ClassDef) and other is not cls:
            for m in other.body:
                names = [m.name] if isinstance(m, (ast.FunctionDef, ast.ClassDef)) else \
                    [x.id for t in getattr(m, 'targets', []) for x in ast.walk(t) if isinstance(x, ast.Name)] + \
                    ([m.target.id] if isinstance(m, ast.AnnAssign) and isinstance(m.target, ast.Name) else [])
                for nm in names:
                    if nm in getters:
                        raise Unsupported('class %s redefines the property %s of %s' % (other.name, nm, clsname))
    return getters, out_set


def property_assignment(s):
    """`x.prop = e`  ==  the body of the setter with self := x, after binding its parameter to the value of e
    (bound to "%prop.param", not a Python name, so that e is evaluated first and once, as in the call)"""
    t = s.targets[0]
    if t.attr not in PROP_SET:
        raise Unsupported('property %s has no setter' % t.attr)
    if not isinstance(t.value, ast.Name):
        raise Unsupported('assignment to the property %s of %s' % (t.attr, ast.dump(t.value)[:60]))
    par, attr, value = PROP_SET[t.attr]
    import copy
    tmp = '%%%s.%s' % (t.attr, par)
    body = copy.deepcopy(value)
    body = Subst(par, ast.Name(id=tmp, ctx=ast.Load())).visit(body)
    body = Subst('self', ast.Name(id=t.value.id, ctx=ast.Load())).visit(body)
    return '(SAssign [(TVar %s)] %s); (SAssign [(TAttr %s %s)] %s)' % (
        q(tmp), expr(s.value), q(t.value.id), q(attr), expr(body))


def stmt(s):
    if isinstance(s, ast.Expr) and isinstance(s.value, ast.Constant):
        return 'SPass'  # docstring
    if isinstance(s, ast.Pass):
        return 'SPass'
    if isinstance(s, ast.Assert) and s.msg is None:
        return '(SAssert %s)' % expr(s.test)
    if isinstance(s, ast.Assign) and len(s.targets) == 1 and isinstance(s.targets[0], ast.Tuple):
        return '(SUnpack [%s] %s)' % ('; '.join(target(t) for t in s.targets[0].elts), expr(s.value))
    if isinstance(s, ast.Assign) and len(s.targets) == 1 and isinstance(s.targets[0], ast.Attribute) \
            and s.targets[0].attr in PROP_GET:
        return property_assignment(s)
    if isinstance(s, ast.Assign):
        if len(s.targets) == 1 and isinstance(s.targets[0], ast.Name) and isinstance(s.value, ast.GeneratorExp):
            return 'SPass'  # inlined at its (single) use by InlineGen
        return '(SAssign [%s] %s)' % ('; '.join(target(t) for t in reversed(s.targets)), expr(s.value))
    if isinstance(s, ast.AugAssign) and type(s.op) in BIN:
        return '(SAug %s %s %s)' % (target(s.target), BIN[type(s.op)], expr(s.value))
    if isinstance(s, ast.If):
        return '(SIf %s [%s] [%s])' % (expr(s.test), block(s.body), block(s.orelse))
    if isinstance(s, ast.Return):
        return '(SReturn %s)' % (expr(s.value) if s.value is not None else '(EConst VNone)')
    if isinstance(s, ast.For) and isinstance(s.target, ast.Name) and not s.orelse:
        if any(isinstance(m, (ast.Break, ast.Continue)) for m in ast.walk(s)):
            raise Unsupported('break/continue inside a for loop')
        return '(SFor %s %s [%s])' % (q(s.target.id), expr(s.iter), block(s.body))
    if isinstance(s, ast.Expr) and isinstance(s.value, ast.Call) and isinstance(s.value.func, ast.Attribute) \
            and s.value.func.attr == 'extend' and isinstance(s.value.func.value, ast.Name) \
            and len(s.value.args) == 1:
        return '(SExtend %s %s)' % (q(s.value.func.value.id), expr(s.value.args[0]))
    if isinstance(s, ast.Expr) and isinstance(s.value, ast.Call) and isinstance(s.value.func, ast.Attribute) \
            and s.value.func.attr == 'append' and isinstance(s.value.func.value, ast.Name) \
            and len(s.value.args) == 1 and not s.value.keywords:
        return '(SAppend %s %s)' % (q(s.value.func.value.id), expr(s.value.args[0]))
    if isinstance(s, ast.Expr) and isinstance(s.value, ast.Call):
        # f(...) / x.m(...) for its effect: only for the oracles of EXTERNAL (the effect is outside the model; the call
        # and its arguments stay visible: the result is bound to "%call", which is not a Python name)
        f = s.value.func
        name = f.id if isinstance(f, ast.Name) else ('.' + f.attr if isinstance(f, ast.Attribute) else None)
        if name in EXTERNAL_STMT:
            return call_stmt(s.value)
        if name in EXTERNAL:
            return '(SAssign [(TVar "%%call")] %s)' % call(s.value)
        raise Unsupported('call statement of %s' % name)
    if isinstance(s, ast.While) and not s.orelse:
        for n in ast.walk(s):
            # break / continue inside a `for` nested in the loop would target that `for`: not in the subset
            if isinstance(n, ast.For) and any(isinstance(m, (ast.Break, ast.Continue)) for m in ast.walk(n)):
                raise Unsupported('break/continue inside a for loop')
            if isinstance(n, ast.While) and n is not s:
                raise Unsupported('nested while')
        return '(SWhile %s [%s])' % (expr(s.test), block(s.body))
    if isinstance(s, ast.Break):
        return 'SBreak'
    if isinstance(s, ast.Continue):
        return 'SContinue'
    raise Unsupported(ast.dump(s)[:200])


def block(stmts):
    return '; '.join(stmt(s) for s in stmts)


class InlineGen(ast.NodeTransformer):
    """max(positives) where `positives = (genexp)` was bound just before: inline the generator (single use)."""
    def __init__(self, gens):
        self.gens = gens
        self.uses = {k: 0 for k in gens}

    def visit_Name(self, n):
        if isinstance(n.ctx, ast.Load) and n.id in self.gens:
            self.uses[n.id] += 1
        return n

    def visit_Call(self, n):
        if isinstance(n.func, ast.Name) and n.func.id in ('max', 'min') and len(n.args) == 1 \
                and isinstance(n.args[0], ast.Name) and n.args[0].id in self.gens:
            self.uses[n.args[0].id] += 1
            n.args[0] = self.gens[n.args[0].id]
            return n
        self.generic_visit(n)
        return n


def find_function(tree, qualname):
    node = tree
    for part in qualname.split('.'):
        for child in ast.walk(node) if node is tree else node.body:
            if isinstance(child, (ast.FunctionDef, ast.ClassDef)) and child.name == part:
                node = child
                break
        else:
            raise Unsupported('function %s not found' % qualname)
    return node


class Unroll(ast.NodeTransformer):
    """`for v in xs: body` and `[elt for v in xs]`, where `a, b, c = xs` is the statement right before the slice and
    neither xs nor a, b, c is rebound in the slice, are printed as body[v:=a]; body[v:=b]; body[v:=c] and
    [elt[v:=a], elt[v:=b], elt[v:=c]].  In Python the loop mutates the objects that a, b, c also name; in the value
    domain of Py.v (objects are values) a loop over the list would update copies, hence the unrolling over the names."""
    def __init__(self, xs, names):
        self.xs, self.names, self.loopvars = xs, names, set()

    def over(self, it):
        return isinstance(it, ast.Name) and it.id == self.xs

    def visit_For(self, n):
        self.generic_visit(n)
        if not self.over(n.iter):
            return n
        if not isinstance(n.target, ast.Name) or n.orelse or n.target.id in self.names or n.target.id == self.xs:
            raise Unsupported('loop over %s: target / else' % self.xs)
        v = n.target.id
        for m in n.body:
            for x in ast.walk(m):
                if isinstance(x, (ast.Break, ast.Continue, ast.Return, ast.Yield, ast.YieldFrom, ast.Lambda,
                                  ast.FunctionDef, ast.Global, ast.Nonlocal, ast.NamedExpr)):
                    raise Unsupported('%s inside a loop over %s' % (type(x).__name__, self.xs))
                if isinstance(x, ast.Name) and x.id == v and not isinstance(x.ctx, ast.Load):
                    raise Unsupported('loop variable %s rebound inside the loop over %s' % (v, self.xs))
                if isinstance(x, (ast.comprehension,)) and any(
                        isinstance(y, ast.Name) and y.id == v for y in ast.walk(x.target)):
                    raise Unsupported('loop variable %s rebound by a comprehension' % v)
        self.loopvars.add(v)
        import copy
        out = []
        for a in self.names:
            for m in n.body:
                out.append(Subst(v, ast.Name(id=a, ctx=ast.Load())).visit(copy.deepcopy(m)))
        return out

    def visit_ListComp(self, n):
        self.generic_visit(n)
        if len(n.generators) == 1 and self.over(n.generators[0].iter):
            g = n.generators[0]
            if not isinstance(g.target, ast.Name) or g.ifs or g.is_async or g.target.id in self.names:
                raise Unsupported('comprehension over %s' % self.xs)
            for x in ast.walk(n.elt):
                if isinstance(x, (ast.comprehension, ast.Lambda, ast.NamedExpr)):
                    raise Unsupported('nested binder in a comprehension over %s' % self.xs)
            import copy
            return ast.List(elts=[Subst(g.target.id, ast.Name(id=a, ctx=ast.Load())).visit(copy.deepcopy(n.elt))
                                  for a in self.names], ctx=ast.Load())
        return n


def slice_after_unpack(fn, xs, adapters):
    """The statements of fn after the (unique, top-level) statement `a, b, c = xs`, with loops / list comprehensions
    over xs unrolled over a, b, c (see Unroll).  Checked: the statement before it is
    `xs = [cls(...) for _ in xs]` where `cls = A if t else B` (or `cls = A`) is bound once before, and A, B are
    module-level classes deriving from `adapters` without __new__ (so a, b, c are three distinct fresh objects: a
    mutation through one name is not seen through another); after the unpacking neither xs nor a, b, c is rebound
    or deleted, xs is used only by the unrolled loops, and the loop variables are not used outside them."""
    body = list(fn.body)
    idx = [i for i, s in enumerate(body) if isinstance(s, ast.Assign) and len(s.targets) == 1
           and isinstance(s.targets[0], ast.Tuple) and isinstance(s.value, ast.Name) and s.value.id == xs]
    if len(idx) != 1:
        raise Unsupported('%d statements `a, b, c = %s` at the top level of %s' % (len(idx), xs, fn.name))
    i = idx[0]
    elts = body[i].targets[0].elts
    if not all(isinstance(t, ast.Name) for t in elts):
        raise Unsupported('targets of the unpacking of %s' % xs)
    names = [t.id for t in elts]
    if len(set(names)) != len(names) or xs in names:
        raise Unsupported('names bound by the unpacking of %s are not distinct' % xs)
    # the list is a list of fresh adapter objects
    prev = body[i - 1] if i >= 1 else None
    ok = (isinstance(prev, ast.Assign) and len(prev.targets) == 1 and isinstance(prev.targets[0], ast.Name)
          and prev.targets[0].id == xs and isinstance(prev.value, ast.ListComp) and len(prev.value.generators) == 1
          and not prev.value.generators[0].ifs and isinstance(prev.value.elt, ast.Call)
          and isinstance(prev.value.elt.func, ast.Name))
    if not ok:
        raise Unsupported('the statement before the unpacking of %s is not `%s = [cls(...) for ...]`' % (xs, xs))
    cls = prev.value.elt.func.id
    binds = [s for s in ast.walk(fn) if isinstance(s, ast.Name) and s.id == cls and not isinstance(s.ctx, ast.Load)]
    defs = [s for s in body[:i - 1] if isinstance(s, ast.Assign) and len(s.targets) == 1
            and isinstance(s.targets[0], ast.Name) and s.targets[0].id == cls]
    if len(binds) != 1 or len(defs) != 1 or any(a.arg == cls for a in fn.args.args):
        raise Unsupported('%s is not bound exactly once before the unpacking of %s' % (cls, xs))
    v = defs[0].value
    classes = [v.body, v.orelse] if isinstance(v, ast.IfExp) else [v]
    if not all(isinstance(c, ast.Name) for c in classes):
        raise Unsupported('%s is not a class or a choice between two classes' % cls)
    return i, names, [c.id for c in classes]


def check_adapter_classes(tree, classes, base):
    for c in classes:
        d = [n for n in tree.body if isinstance(n, ast.ClassDef) and n.name == c]
        if len(d) != 1 or d[0].keywords or d[0].decorator_list \
                or [ast.unparse(b) for b in d[0].bases] != [base] \
                or any(isinstance(m, ast.FunctionDef) and m.name == '__new__' for m in d[0].body):
            raise Unsupported('%s is not a plain subclass of %s' % (c, base))


def translate_function(fn, name, slice_from=None, params=None, after_unpack=None, tree=None):
    """fn: ast.FunctionDef.  slice_from: name of the variable whose first assignment starts the translated
    slice (the statements before it are *not* translated; `params` are then the free variables).
    after_unpack = (xs, adapter base class): the slice starts after `a, b, c = xs` (see slice_after_unpack)."""
    body = list(fn.body)
    if after_unpack is not None:
        xs, base = after_unpack
        i, names, classes = slice_after_unpack(fn, xs, base)
        check_adapter_classes(tree, classes, base)
        un = Unroll(xs, names)
        mod = un.visit(ast.Module(body=body[i + 1:], type_ignores=[]))
        body = mod.body
        # objects are values in Py.v: an adapter may only be used as the receiver of an attribute access / method
        # call (`box_a.x`), never copied into another name, a list or an argument (no second name for one object)
        bases = set()
        for s in body:
            for x in ast.walk(s):
                if isinstance(x, ast.Attribute) and isinstance(x.value, ast.Name):
                    bases.add(id(x.value))
        for s in body:
            for x in ast.walk(s):
                if isinstance(x, ast.Name) and x.id in names and id(x) not in bases:
                    raise Unsupported('%s is used other than as the receiver of an attribute access' % x.id)
        for s in body:
            for x in ast.walk(s):
                if isinstance(x, ast.Name) and x.id == xs:
                    raise Unsupported('%s is used other than by a loop / list comprehension over it' % xs)
                if isinstance(x, ast.Name) and x.id in names and not isinstance(x.ctx, ast.Load):
                    raise Unsupported('%s is rebound after the unpacking of %s' % (x.id, xs))
                if isinstance(x, ast.Name) and x.id in un.loopvars:
                    raise Unsupported('loop variable %s is used outside the loops over %s' % (x.id, xs))
                if isinstance(x, (ast.arg,)) and x.arg in names + [xs]:
                    raise Unsupported('%s is rebound by a nested function' % x.arg)
    elif slice_from == '<while>':
        loops = [x for x in body if isinstance(x, ast.While)]
        if len(loops) != 1:
            raise Unsupported('%d while loops at the top level of %s' % (len(loops), fn.name))
        body = loops
    elif slice_from == '<first-if>':
        # the first `if` statement at the top level of the function (test included); the statements after it are
        # not translated
        ifs = [x for x in body if isinstance(x, ast.If)]
        if not ifs:
            raise Unsupported('no if statement at the top level of %s' % fn.name)
        body = ifs[:1]
    elif slice_from is not None:
        for i, s in enumerate(body):
            if isinstance(s, ast.Assign) and len(s.targets) == 1 and isinstance(s.targets[0], ast.Name) \
                    and s.targets[0].id == slice_from:
                body = body[i:]
                break
        else:
            raise Unsupported('slice start %s not found in %s' % (slice_from, fn.name))
    gens = {}
    for s in body:
        if isinstance(s, ast.Assign) and len(s.targets) == 1 and isinstance(s.targets[0], ast.Name) \
                and isinstance(s.value, ast.GeneratorExp):
            gens[s.targets[0].id] = s.value
    mod = ast.Module(body=body, type_ignores=[])
    ig = InlineGen(gens)
    mod = ig.visit(mod)
    for k, n in ig.uses.items():
        if n != 1:
            raise Unsupported('generator %s used %d times' % (k, n))
    text = block(mod.body)
    args = params if params is not None else [a.arg for a in fn.args.args]
    return 'Definition %s_args : list string := [%s].\nDefinition %s_body : list stmt := [%s].\n' % (
        name, '; '.join(q(a) for a in args), name, text)


def literal_table(tree, varname, name):
    """Module-level `VAR = {literal dict}` -> association list of (key, val)."""
    for s in tree.body:
        if isinstance(s, ast.Assign) and len(s.targets) == 1 and isinstance(s.targets[0], ast.Name) \
                and s.targets[0].id == varname:
            try:
                ns = {}
                value = eval(compile(ast.Expression(s.value), '<table>', 'eval'), {'__builtins__': {}}, ns)
            except Exception as exc:
                raise Unsupported('table %s is not a literal: %s' % (varname, exc))
            if isinstance(value, dict):
                items = list(value.items())
            else:
                raise Unsupported('table %s: not a dict' % varname)
            rows = '; '.join('(%s, %s)' % (const(k), const(v)) for k, v in items)
            return 'Definition %s : list (val * val) := [%s].\n' % (name, rows)
    raise Unsupported('table %s not found' % varname)


def exact_q(e, src):
    """A numeric module-level expression made of literals and + - * / as an exact rational: the decimal literal
    TEXT is read (96. is 96, 2.54 is 254/100), not its binary float."""
    from fractions import Fraction
    if isinstance(e, ast.Constant) and isinstance(e.value, (int, float)) and not isinstance(e.value, bool):
        text = ast.get_source_segment(src, e)
        if text is None or not re.fullmatch(r'[0-9]*\.?[0-9]*', text) or not re.search(r'[0-9]', text):
            raise Unsupported('numeric literal %r' % (text,))
        return Fraction(text.rstrip('.') if text.endswith('.') else text)
    if isinstance(e, ast.UnaryOp) and isinstance(e.op, ast.USub):
        return -exact_q(e.operand, src)
    if isinstance(e, ast.BinOp) and type(e.op) in BIN:
        a, b = exact_q(e.left, src), exact_q(e.right, src)
        if isinstance(e.op, ast.Add):
            return a + b
        if isinstance(e.op, ast.Sub):
            return a - b
        if isinstance(e.op, ast.Mult):
            return a * b
        if b == 0:
            raise Unsupported('division by zero in table')
        return a / b
    raise Unsupported('table value %s' % ast.dump(e)[:80])


def q_table(tree, src, varname, name):
    """Module-level `VAR = {'key': <arithmetic over literals>, ...}` -> list (string * Q), exact."""
    for s in tree.body:
        if isinstance(s, ast.Assign) and len(s.targets) == 1 and isinstance(s.targets[0], ast.Name) \
                and s.targets[0].id == varname:
            if not isinstance(s.value, ast.Dict):
                raise Unsupported('table %s: not a dict display' % varname)
            rows = []
            for k, v in zip(s.value.keys, s.value.values):
                if not (isinstance(k, ast.Constant) and isinstance(k.value, str)):
                    raise Unsupported('table %s: key %s' % (varname, ast.dump(k)[:60]))
                fr = exact_q(v, src)
                rows.append('(%s, (%d # %d)%%Q)' % (q(k.value), fr.numerator, fr.denominator))
            return 'Definition %s : list (string * Q) := [%s].\n' % (name, '; '.join(rows))
    raise Unsupported('table %s not found' % varname)


HEADER = ('(* GENERATED by tools/py2coq.py from %s -- do not edit *)\n'
          'From Coq Require Import QArith List String.\nRequire Import WV.base.Py.\n'
          'Import ListNotations.\nOpen Scope string_scope.\n\n')

# file -> list of (kind, python name, coq name, extra)
TARGETS = {
    'GenBlock': ('weasyprint/layout/block.py', [
        ('fun', 'collapse_margin', 'collapse_margin', {}),
        ('fun', 'block_level_width', 'block_level_width', {}),
        ('fun', 'block_level_page_break', 'break_fold', {'slice_from': 'result', 'params': ['values']}),
        ('fun', 'avoid_page_break', 'avoid_page_break', {}),
        ('fun', 'force_page_break', 'force_page_break', {}),
    ]),
    'GenPercent': ('weasyprint/layout/percent.py', [
        ('fun', 'percentage', 'percentage', {}),
    ]),
    'GenReplaced': ('weasyprint/layout/replaced.py', [
        ('fun', '_constraint_image_sizing', 'constraint_image_sizing', {}),
        ('fun', 'contain_constraint_image_sizing', 'contain_constraint_image_sizing', {}),
        ('fun', 'cover_constraint_image_sizing', 'cover_constraint_image_sizing', {}),
        ('fun', 'default_image_sizing', 'default_image_sizing', {}),
    ]),
    'GenBoxes': ('weasyprint/formatting_structure/boxes.py', [
        ('fun', 'Box.padding_width', 'padding_width', {}),
        ('fun', 'Box.padding_height', 'padding_height', {}),
        ('fun', 'Box.border_width', 'border_width', {}),
        ('fun', 'Box.border_height', 'border_height', {}),
        ('fun', 'Box.margin_width', 'margin_width', {}),
        ('fun', 'Box.margin_height', 'margin_height', {}),
        ('fun', 'Box.content_box_x', 'content_box_x', {}),
        ('fun', 'Box.content_box_y', 'content_box_y', {}),
        ('fun', 'Box.border_box_x', 'border_box_x', {}),
        ('fun', 'Box.border_box_y', 'border_box_y', {}),
        ('fun', '_overlap_ratio', 'overlap_ratio', {}),
        ('fun', 'Box.rounded_box', 'rounded_box', {}),
        ('fun', 'Box.rounded_box_ratio', 'rounded_box_ratio', {}),
        ('fun', 'Box.rounded_padding_box', 'rounded_padding_box', {}),
        ('fun', 'Box.rounded_border_box', 'rounded_border_box', {}),
        ('fun', 'Box.rounded_content_box', 'rounded_content_box', {}),
    ]),
    'GenFloat': ('weasyprint/layout/float.py', [
        ('fun', 'get_clearance', 'get_clearance', {}),
        # the `while True:` loop of avoid_collisions (the statements before it bind its free variables, the ones
        # after it read position_y, max_left_bound, max_right_bound)
        ('fun', 'avoid_collisions', 'avoid_loop', {'slice_from': '<while>', 'params': [
            'excluded_shapes', 'position_y', 'box_width', 'box_height', 'box', 'containing_block', 'outer']}),
    ]),
    'GenAbsolute': ('weasyprint/layout/absolute.py', [
        ('fun', 'absolute_width', 'absolute_width', {'callable': False}),
        ('fun', 'absolute_height', 'absolute_height', {'callable': False}),
    ]),
    'GenPage': ('weasyprint/layout/page.py', [
        ('fun', 'page_width_or_height', 'page_width_or_height', {}),
        # from rule 2 on (the first statement wraps the box into an OrientedBox adapter)
        ('fun', 'compute_fixed_dimension', 'compute_fixed_dimension', {
            'slice_from': 'total', 'params': ['box', 'outer', 'top_or_left']}),
        # the @property getters of the adapter class as methods ".sugar", ".outer", ".outer_min_content_size",
        # ".outer_max_content_size"; in every target of this file a read `x.<property>` is a call of the getter and
        # the statement `x.outer = e` is the body of the setter
        ('props', 'OrientedBox', 'OrientedBox', {}),
        # after `box_a, box_b, box_c = side_boxes` (the adapters are built before); loops over side_boxes unrolled
        ('fun', 'compute_variable_dimension', 'compute_variable_dimension', {
            'after_unpack': ('side_boxes', 'OrientedBox'),
            'params': ['box_a', 'box_b', 'box_c', 'available_size']}),
    ]),
    'GenInline': ('weasyprint/layout/inline.py', [
        ('fun', 'text_align', 'text_align', {}),
    ]),
    'GenPageName': ('weasyprint/layout/block.py', [
        ('fun', 'block_level_page_name', 'block_level_page_name', {}),
    ]),
    'GenRelative': ('weasyprint/layout/block.py', [
        # the `if box.style['position'] == 'relative':` statement of relative_positioning (the recursion into the
        # children of inline boxes that follows it is not translated)
        ('fun', 'relative_positioning', 'relative_if', {'slice_from': '<first-if>', 'params': [
            'box', 'containing_block']}),
    ]),
    'GenCss': ('weasyprint/css/__init__.py', [
        ('fun', 'declaration_precedence', 'declaration_precedence', {}),
    ]),
    'GenMedia': ('weasyprint/css/media_queries.py', [
        ('fun', 'evaluate_media_query', 'evaluate_media_query', {}),
    ]),
    'GenCssUtils': ('weasyprint/css/utils.py', [
        ('qtable', 'LENGTHS_TO_PIXELS', 'lengths_to_pixels', {}),
    ]),
}


def generate(repo, out_dir, only=None):
    """Returns (written_files, errors) ; errors: list of (target, message)."""
    errors, written = [], []
    os.makedirs(out_dir, exist_ok=True)
    # first pass: the signatures of all function targets (what a translated body may call)
    CALLABLE.clear()
    for fname, (src, targets) in TARGETS.items():
        try:
            tree0 = ast.parse(open(os.path.join(repo, src)).read())
        except Exception:
            continue
        for kind, pyname, coqname, extra in targets:
            if kind == 'props':
                try:
                    for g in class_properties(tree0, pyname)[0]:
                        CALLABLE['.' + g] = (['self'], {})
                except Unsupported:
                    pass
            if kind != 'fun' or extra.get('slice_from') or extra.get('after_unpack'):
                continue
            try:
                fn0 = find_function(tree0, pyname)
                key = ('.' + pyname.split('.')[-1]) if '.' in pyname else pyname
                CALLABLE[extra.get('call_as', key)] = signature(fn0)
            except Unsupported:
                pass
    for fname, (src, targets) in TARGETS.items():
        if only and fname not in only:
            continue
        path = os.path.join(repo, src)
        try:
            source = open(path).read()
            tree = ast.parse(source)
        except Exception as exc:
            errors.append((fname, 'cannot parse %s: %s' % (src, exc)))
            continue
        parts = [HEADER % src]
        table = []
        # the properties of the class named by a 'props' target are in force for every target of this file
        PROP_GET.clear()
        PROP_SET.clear()
        getters_of = {}
        for kind, pyname, coqname, extra in targets:
            if kind == 'props':
                try:
                    g, st = class_properties(tree, pyname)
                    if set(g) & set(PROP_GET):
                        raise Unsupported('two classes define the property %s' % sorted(set(g) & set(PROP_GET)))
                    PROP_GET.update(g)
                    PROP_SET.update(st)
                    getters_of[pyname] = list(g)
                except Unsupported as exc:
                    errors.append(('%s:%s' % (fname, pyname), str(exc)))
                    parts.append('(* UNSUPPORTED %s: %s *)\n' % (pyname, str(exc).replace('*)', '* )')))
        for kind, pyname, coqname, extra in targets:
            try:
                if kind == 'props':
                    # one translated method per getter: ".name" with the single parameter self
                    for g in getters_of.get(pyname, []):
                        del CALLS_SEEN[:]
                        parts.append(translate_function(PROP_GET[g], '%s_%s' % (coqname, g)))
                        table.append('(%s, (%s_%s_args, %s_%s_body))' % (q('.' + g), coqname, g, coqname, g))
                elif kind == 'fun':
                    fn = find_function(tree, pyname)
                    if extra.get('calls'):
                        parts.append(translate_wrapper(fn, coqname))
                    else:
                        del CALLS_SEEN[:]
                        parts.append(translate_function(fn, coqname, extra.get('slice_from'), extra.get('params'),
                                                        extra.get('after_unpack'), tree))
                        for callee in sorted(set(CALLS_SEEN)):
                            check_binding(tree, fn, callee)
                        if not extra.get('slice_from') and not extra.get('after_unpack'):
                            key = ('.' + pyname.split('.')[-1]) if '.' in pyname else pyname
                            table.append('(%s, (%s_args, %s_body))' % (q(extra.get('call_as', key)), coqname, coqname))
                elif kind == 'qtable':
                    parts.append(q_table(tree, source, pyname, coqname))
                else:
                    parts.append(literal_table(tree, pyname, coqname))
            except Unsupported as exc:
                errors.append(('%s:%s' % (fname, pyname), str(exc)))
                parts.append('(* UNSUPPORTED %s: %s *)\n' % (pyname, str(exc).replace('*)', '* )')))
        parts.append('Definition %s_table : list (string * (list string * list stmt)) := [%s].\n' % (
            fname, '; '.join(table)))
        text = '\n'.join(parts)
        dest = os.path.join(out_dir, fname + '.v')
        old = open(dest).read() if os.path.exists(dest) else None
        if old != text:
            open(dest, 'w').write(text)
            written.append(dest)
    return written, errors


def check_binding(tree, fn, callee):
    """the called name must denote the translation target: a module-level function of the same file or a name
    imported with `from ... import name`, and not rebound inside the calling function; methods (".name") are
    resolved by name only (recorded in the trusted base)"""
    if callee.startswith('.'):
        return
    for n in ast.walk(fn):
        if isinstance(n, ast.Name) and isinstance(n.ctx, ast.Store) and n.id == callee:
            raise Unsupported('%s is rebound inside %s' % (callee, fn.name))
        if isinstance(n, ast.arg) and n.arg == callee:
            raise Unsupported('%s is a parameter of %s' % (callee, fn.name))
    for n in tree.body:
        if isinstance(n, ast.FunctionDef) and n.name == callee:
            return
        if isinstance(n, ast.ImportFrom) and any((a.asname or a.name) == callee and a.name == callee for a in n.names):
            return
    raise Unsupported('%s is neither defined nor imported in this module' % callee)


def translate_wrapper(fn, name):
    """handle_min_max_*.wrapper: `function(box, *args)` is the call of the decorated function; it is printed as
    the statement SCall (run the callee body on the same box), handled by the interpreter-level combinator
    [run_wrapped] in the proofs; here we print the wrapper with calls replaced by a marker variable update."""
    out = []
    for s in fn.body:
        if isinstance(s, ast.Assign) and isinstance(s.value, ast.Call) and isinstance(s.value.func, ast.Name) \
                and s.value.func.id == 'function':
            out.append('SCallWrapped')
        elif isinstance(s, ast.If):
            inner = []
            for t in s.body:
                if isinstance(t, ast.Assign) and isinstance(t.value, ast.Call) and isinstance(t.value.func, ast.Name) \
                        and t.value.func.id == 'function':
                    inner.append('SCallWrapped')
                elif isinstance(t, ast.Assign) and isinstance(t.targets[0], ast.Tuple):
                    # box.margin_left, box.margin_right = computed_margins
                    inner.append('(SUnpack [%s] %s)' % ('; '.join(target(x) for x in t.targets[0].elts), expr(t.value)))
                else:
                    inner.append(stmt(t))
            if s.orelse:
                raise Unsupported('else in wrapper')
            out.append('(SIf %s [%s] [])' % (expr(s.test), '; '.join(inner)))
        else:
            out.append(stmt(s))
    return 'Definition %s_body : list wstmt := [%s].\n' % (name, '; '.join(out))


if __name__ == '__main__':
    ap = argparse.ArgumentParser()
    ap.add_argument('--repo', default='/repo')
    ap.add_argument('--out', default=os.path.join(os.path.dirname(os.path.abspath(__file__)), '..', 'coq', 'gen'))
    a = ap.parse_args()
    written, errors = generate(a.repo, a.out)
    for w in written:
        print('wrote', w)
    for t, m in errors:
        print('UNSUPPORTED', t, m)
    sys.exit(1 if errors else 0)
