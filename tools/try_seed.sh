#!/bin/bash
# usage: tools/try_seed.sh <seed-dir> <Cxx> [<Cyy> ...]
# Applies <seed-dir>/patch.diff to a scratch copy of /repo, confirms the demo fails there and passes on /repo,
# runs the given checks against the copy (VERIF_REPO) and prints their verdicts; removes the copy.
set -u
SEED=$(realpath $1); shift
M=$(mktemp -d /tmp/mrepo.XXXXXX)
git -C /repo archive HEAD | tar -x -C $M
if ! git -C $M apply --unsafe-paths --directory=$M $SEED/patch.diff 2>/dev/null; then
  (cd $M && patch -p1 -s < $SEED/patch.diff) || { echo "PATCH DOES NOT APPLY"; rm -rf $M; exit 2; }
fi
echo "== demo on /repo:";   (cd $SEED && PYTHONPATH=/repo timeout 300 /venv/bin/python demo.py 2>&1 | tail -2)
echo "== demo on mutant:";  (cd $SEED && PYTHONPATH=$M timeout 300 /venv/bin/python demo.py 2>&1 | tail -2)
for P in "$@"; do
  echo "== check $P on mutant:"
  (cd /verif && VERIF_REPO=$M timeout 1500 ./check $P 2>&1 | grep -v "^KNOWN" | tail -3)
done
rm -rf $M
(cd /verif && PYTHONPATH=/repo:/verif/harness:/verif/tools /venv/bin/python -c "import common; common.regen()")
