"""usage: keep_seed.py <seed-dir> <Cxx> <caught-by: comma list of checks or 'none'> [note]
Copies a confirmed seeded change to /verif/seeded/<Cxx>-<name>/ and records what was run."""
import sys, os, json, shutil
src, prop, caught = sys.argv[1].rstrip('/'), sys.argv[2], sys.argv[3]
note = sys.argv[4] if len(sys.argv) > 4 else ''
base = os.path.basename(src)
name = base if base.startswith(prop + "-") else "%s-%s" % (prop, base)
dst = os.path.join('/verif/seeded', name)
os.makedirs(dst, exist_ok=True)
for f in ('patch.diff', 'demo.py'):
    shutil.copy(os.path.join(src, f), os.path.join(dst, f))
meta = {}
try:
    meta = json.load(open(os.path.join(src, 'meta.json')))
except Exception:
    pass
meta.update({'property': prop, 'confirmed': 'demo.py passes on /repo HEAD and fails with patch.diff applied (tools/try_seed.sh); '
             'the seeder ran the suite with the change', 'ran': 'tools/try_seed.sh %s %s' % (src, prop),
             'caught_by': [] if caught == 'none' else caught.split(','), 'note': note})
json.dump(meta, open(os.path.join(dst, 'meta.json'), 'w'), indent=1)
print('kept', dst)
