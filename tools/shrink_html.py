"""Greedy shrinker for generated HTML documents (elements with style attributes and text).

usage as a library:  shrink(html, predicate) -> smaller html for which predicate(html) is still true
command line:        shrink_html.py <replay.json | file.html> pages-unbounded|timeout|crash:<ExcType>
The predicate renders in a child process (weasyprint from $VERIF_REPO or /repo) under a CPU-time limit.
"""
import html.parser, json, os, re, subprocess, sys

REPO = os.environ.get('VERIF_REPO', '/repo')
VOID = {'br', 'img', 'hr', 'input', 'col', 'meta', 'link'}


class Node:
    def __init__(self, tag=None, attrs=None, text=None):
        self.tag, self.attrs, self.text, self.kids = tag, list(attrs or []), text, []

    def out(self):
        if self.tag is None:
            return self.text
        a = ''.join(' %s="%s"' % (k, v) if v is not None else ' ' + k for k, v in self.attrs if not (k == 'style' and not v))
        if self.tag in VOID:
            return '<%s%s>' % (self.tag, a)
        return '<%s%s>%s</%s>' % (self.tag, a, ''.join(k.out() for k in self.kids), self.tag)


class P(html.parser.HTMLParser):
    def __init__(self):
        super().__init__(convert_charrefs=False)
        self.root = Node('root')
        self.stack = [self.root]

    def handle_starttag(self, tag, attrs):
        n = Node(tag, attrs)
        self.stack[-1].kids.append(n)
        if tag not in VOID:
            self.stack.append(n)

    def handle_endtag(self, tag):
        for i in range(len(self.stack) - 1, 0, -1):
            if self.stack[i].tag == tag:
                del self.stack[i:]
                break

    def handle_data(self, data):
        self.stack[-1].kids.append(Node(text=data))

    def handle_entityref(self, name):
        self.handle_data('&%s;' % name)

    def handle_charref(self, name):
        self.handle_data('&#%s;' % name)


def parse(doc):
    p = P()
    p.feed(doc)
    p.close()
    return p.root


def dump(root):
    return ''.join(k.out() for k in root.kids)


def nodes(root):
    out = []

    def walk(n):
        for k in n.kids:
            out.append((n, k))
            walk(k)
    walk(root)
    return out


def candidates(root):
    """yield (description, apply, undo)"""
    for parent, n in nodes(root):
        i = parent.kids.index(n)

        def rm(parent=parent, n=n, i=i):
            parent.kids.remove(n)
            return lambda: parent.kids.insert(i, n)
        yield 'remove', rm
        if n.tag is not None and n.tag != 'style' and n.kids:
            def unwrap(parent=parent, n=n, i=i):
                parent.kids[i:i + 1] = n.kids

                def undo():
                    parent.kids[i:i + len(n.kids)] = [n]
                return undo
            yield 'unwrap', unwrap
        if n.tag is None and len(n.text) > 3:
            def short(n=n):
                old = n.text
                n.text = old[:max(1, len(old) // 2)]
                return lambda: setattr(n, 'text', old)
            yield 'shorten', short
        if n.tag is not None and n.tag not in ('style', 'div') and n.tag not in VOID:
            def rename(n=n):
                old = n.tag
                n.tag = 'div'
                return lambda: setattr(n, 'tag', old)
            yield 'rename', rename
        if n.tag is not None:
            for ai, (k, v) in enumerate(n.attrs):
                if k == 'style' and v:
                    decls = [d for d in v.split(';') if d.strip()]
                    for di in range(len(decls)):
                        def rmdecl(n=n, ai=ai, decls=decls, di=di, v=v):
                            n.attrs[ai] = ('style', ';'.join(decls[:di] + decls[di + 1:]))
                            return lambda: n.attrs.__setitem__(ai, ('style', v))
                        yield 'decl', rmdecl
                elif k != 'style':
                    def rmattr(n=n, ai=ai, kv=(k, v)):
                        n.attrs.pop(ai)
                        return lambda: n.attrs.insert(ai, kv)
                    yield 'attr', rmattr


def shrink(doc, predicate, log=None):
    root = parse(doc)
    if not predicate(dump(root)):
        raise SystemExit('predicate does not hold on the parsed/re-printed document')
    progress = True
    while progress:
        progress = False
        n = 0
        while True:
            cands = list(candidates(root))
            if n >= len(cands):
                break
            what, apply = cands[n]
            undo = apply()
            if predicate(dump(root)):
                progress = True
                if log:
                    log('%s -> %d bytes' % (what, len(dump(root))))
            else:
                undo()
                n += 1
    return dump(root)


CHILD = r'''
import sys, json, signal, resource
sys.path.insert(0, %(repo)r)
import logging
logging.getLogger('weasyprint').setLevel(logging.CRITICAL + 1)
logging.getLogger('fontTools').setLevel(logging.CRITICAL + 1)
case = json.load(sys.stdin)
class TO(Exception): pass
def alarm(*a): raise TO()
signal.signal(signal.SIGPROF, alarm); signal.setitimer(signal.ITIMER_PROF, case['limit'])
import weasyprint.layout.page as P
orig = P.remake_page
seen = {}
class Unbounded(Exception): pass
def rp(index, *a):
    r = orig(index, *a)
    key = repr(r[1])
    seen[key] = seen.get(key, 0) + 1
    if r[1] is not None and seen[key] > 150: raise Unbounded()   # the same resume point again and again
    return r
P.remake_page = rp
from tests.testing_utils import FakeHTML
try:
    doc = FakeHTML(string=case['html']).render()
    doc.write_pdf(**case.get('options', {}))
    print('ok', len(doc.pages))
except TO: print('timeout')
except Unbounded: print('pages-unbounded')
except BaseException as e: print('crash:' + type(e).__name__)
'''


def outcome(doc, options=None, limit=20):
    r = subprocess.run(['/venv/bin/python', '-c', CHILD % {'repo': REPO}], input=json.dumps({'html': doc, 'options': options or {}, 'limit': limit}),
                       capture_output=True, text=True, env={**os.environ, 'PYTHONHASHSEED': '0'})
    return (r.stdout.strip().splitlines() or ['crash:child %s' % r.stderr[-200:]])[-1]


if __name__ == '__main__':
    src, want = sys.argv[1], sys.argv[2]
    limit = int(sys.argv[3]) if len(sys.argv) > 3 else 20
    if src.endswith('.json'):
        d = json.load(open(src))
        d = d.get('data', d)
        doc, options = d['html'], d.get('options') or {}
    else:
        doc, options = open(src).read(), {}
    print('initial outcome:', outcome(doc, options, limit))
    small = shrink(doc, lambda h: outcome(h, options, limit) == want, log=lambda m: print(m, file=sys.stderr))
    print(small)
