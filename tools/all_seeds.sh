#!/bin/bash
# Re-evaluates every kept seeded change against the current /repo HEAD: prints one line per change.
# usage: tools/all_seeds.sh [Cxx ...]   (default: all)
cd /verif
for d in seeded/*/; do
  n=$(basename $d); p=${n%%-*}
  if [ $# -gt 0 ] && [[ ! " $* " =~ " $p " ]]; then continue; fi
  out=$(tools/try_seed.sh /verif/seeded/$n $p 2>&1)
  if echo "$out" | grep -q "PATCH DOES NOT APPLY"; then v="PATCH-DOES-NOT-APPLY";
  elif echo "$out" | grep "^VIOLATION" | grep -vq "no-failing-input-found"; then v="caught";
  elif echo "$out" | grep -q "^VIOLATION"; then v="only-no-failing-input-found";
  else v="MISSED"; fi
  echo "$n $v"
done
