"""Writes /verif/MANIFEST.json from the table below (kept in one place so that it stays valid)."""
import json, os
V = os.path.dirname(os.path.dirname(os.path.abspath(__file__)))
props = [json.loads(l) for l in open(os.path.join(V, 'properties.jsonl'))]

BASE_TB = ('Coq 8.16.1 kernel (coqc; coqchk in the thorough tier); vm_compute for cases.v evaluation; no axioms '
           '(every property theorem is Closed under the global context); translator tools/py2coq.py + interpreter '
           'coq/base/Py.v for regenerated models; hand models tied by the correspondence streams only; Python harness.')

CLAIMED = {
 'C05': dict(
   text='Theorems (Coq, closed): the CSS 2.1 10.3.3 width equation in its geometric reading for all 8 auto patterns, '
        'both directions, tuple/box containing blocks, proved about the body of block_level_width regenerated from '
        '/repo on every run; collapse_margin = max(positives,0)+min(negatives,0) for every list (induction), its '
        'characterisation and order independence. Tie: translator + direct-call correspondence with exact rationals. '
        'Monitor: random block trees rendered and judged (finite non-negative used values, width equation, min/max, '
        'containment, no sibling overlap). Partial: vertical margin collapsing through the tree and min/max re-entry '
        'are monitored / tied through the fragmentation model, not proved here.',
   technique='Coq proof over a model regenerated from source (py2coq) + differential correspondence + render monitor',
   ref='6 C05'),
}
NOT_YET = 'check not built yet in this session (design in DESIGN.md section 6); no claim is made'

checks, na = [], []
for p in props:
    pid = p['id']
    if pid in CLAIMED:
        c = CLAIMED[pid]
        checks.append({
            'property_id': pid,
            'quick_cmd': './check %s --tier quick' % pid,
            'thorough_cmd': './check %s --tier thorough' % pid,
            'evidence_file': '/verif/evidence/%s.json' % pid,
            'replay_cmd_template': './check %s --replay {path}' % pid,
            'engine': 'coq+harness',
            'level_claimed': {'category': 'proof', 'text': c['text'], 'design_ref': c['ref']},
            'level_note': BASE_TB + ' ' + c.get('note', ''),
            'technique': c['technique'],
        })
    else:
        na.append({'property_id': pid, 'reason': NOT_YET})

m = {
 'version': 1,
 'setup_cmd': './setup.sh',
 'hooks': {'guard': 'WEASYPRINT_VERIF', 'enable': 'env WEASYPRINT_VERIF=1 (set by ./check; no source hook is needed so far: '
           'observation points are wrapped from the harness process)',
           'baseline_off_cmd': 'cd /repo && env -u WEASYPRINT_VERIF /venv/bin/python -m pytest -ra -q -p no:cacheprovider --timeout=900 --continue-on-collection-errors',
           'source_commits': [], 'add_only': True},
 'engines': [{'name': 'coq+harness', 'path': '/verif/check', 'serves_properties': sorted(CLAIMED),
              'kind_free_text': 'Coq 8.16.1 development under /verif/coq (models regenerated from /repo by tools/py2coq.py or '
                                'hand-written), theorems in coq/props, correspondence and monitors in /verif/harness'}],
 'checks': checks,
 'not_applicable': na,
 'notes': 'See DESIGN.md. Fix commits in /repo are listed in known_findings.json.',
}
json.dump(m, open(os.path.join(V, 'MANIFEST.json'), 'w'), indent=1)
print('claimed', sorted(CLAIMED), 'not claimed', len(na))
