"""Rewrites the per-property table of DESIGN.md section 13 (between the markers) from MANIFEST.json, coq/props and
known_findings.json, and the theorem total in the trusted-base paragraph."""
import json, os, re
V = os.path.dirname(os.path.dirname(os.path.abspath(__file__)))
m = json.load(open(os.path.join(V, 'MANIFEST.json')))
known = json.load(open(os.path.join(V, 'known_findings.json')))['findings']
rows, total = [], 0
for c in m['checks']:
    pid = c['property_id']
    n = len(re.findall(r'^ *Print Assumptions', open(os.path.join(V, 'coq', 'props', pid + '.v')).read(), re.M))
    total += n
    fx = ' '.join(f['id'] for f in known if f['property'] == pid and f['status'] == 'fixed') or '—'
    op = ' '.join(f['id'] for f in known if f['property'] == pid and f['status'] == 'open') or '—'
    rows.append('| %s | %d | %s | %s | %s |' % (pid, n, c['technique'], fx, op))
table = ('| property | theorems | technique | fixed in /repo | open findings |\n|---|---|---|---|---|\n' + '\n'.join(rows))
p = os.path.join(V, 'DESIGN.md')
s = open(p).read()
s = re.sub(r'\| property \| theorems \| technique \| fixed in /repo \| open findings \|\n(\|.*\n)+', table + '\n', s)
s = re.sub(r'`Print Assumptions` of all\n?\s*\d+ property theorems', '`Print Assumptions` of all\n%d property theorems' % total, s)
open(p, 'w').write(s)
print('theorems', total, 'fixed', sum(f['status'] == 'fixed' for f in known), 'open', sum(f['status'] == 'open' for f in known))
