#!/bin/bash
# full quick pass of all 20 checks with a given seed: tools/runall.sh <seed>  (logs and summary under .work/logs)
cd /verif
seed=$1
for p in C01 C02 C03 C04 C05 C06 C07 C08 C09 C10 C11 C12 C13 C14 C15 C16 C17 C18 C19 C20; do s=$(date +%s); VERIF_SEED=$seed ./check $p --tier quick > .work/logs/$p.quick.s$seed.log 2>&1; echo "$p seed=$seed exit=$? $(( $(date +%s)-s ))s" >> .work/logs/summary.s$seed.txt; done
echo DONE >> .work/logs/summary.s$seed.txt
