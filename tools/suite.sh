#!/bin/bash
# Run the pinned WeasyPrint suite on /repo's working tree and compare with BASELINE.json stable_pass.
# usage: tools/suite.sh   -> prints missing tests (baseline-passing tests that did not pass now); exit 0 iff none
set -u
OUT=$(mktemp /tmp/suite.XXXXXX.xml)
R=${1:-/repo}
cd $R && env -u WEASYPRINT_VERIF PYTHONPATH=$R /venv/bin/python -m pytest -q -p no:cacheprovider -n 16 --timeout=900 --continue-on-collection-errors --junitxml=$OUT >/dev/null 2>&1
/venv/bin/python - "$OUT" <<'PY'
import sys, json, xml.etree.ElementTree as ET
base=set(json.load(open('/root/.vp/BASELINE.json'))['stable_pass'])
t=ET.parse(sys.argv[1]).getroot()
ok=set()
for tc in t.iter('testcase'):
    if not any(c.tag in ('failure','error','skipped') for c in tc):
        ok.add(tc.get('classname')+'::'+tc.get('name'))
missing=sorted(base-ok)
print('baseline',len(base),'passed-now',len(ok),'missing',len(missing))
for m in missing[:20]: print('  MISSING',m)
sys.exit(1 if missing else 0)
PY
rc=$?
rm -f $OUT
exit $rc
