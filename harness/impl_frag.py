"""Implementation side of the fragmentation correspondence: render, list (word id, y) per page."""
import fraggen


def walk_text(box, out):
    """all TextBoxes in tree order, unwrapping absolute placeholders"""
    inner = getattr(box, '_box', None)
    if inner is not None and type(box).__name__ == 'AbsolutePlaceholder':
        box = inner
    if hasattr(box, 'text') and not getattr(box, 'children', None):
        out.append(box)
        return
    for c in getattr(box, 'children', ()) or ():
        walk_text(c, out)


def render_lines(case):
    from tests.testing_utils import render_pages
    pages = render_pages(case['html'])
    res = []
    for p in pages:
        tb = []
        walk_text(p, tb)
        lines = []
        for b in tb:
            y = b.position_y
            if y != int(y):
                y = float(y)
            else:
                y = int(y)
            lines.append((b.text, y))
        res.append(lines)
    return res


def render_lines_blank(case):
    """render_lines + which pages are blank pages (the root box has no child: made for a page-side break)"""
    from tests.testing_utils import render_pages
    pages = render_pages(case['html'])
    res, blank = [], []
    for p in pages:
        tb = []
        walk_text(p, tb)
        lines = []
        for b in tb:
            y = b.position_y
            y = float(y) if y != int(y) else int(y)
            lines.append((b.text, y))
        res.append(lines)
        root, = p.children
        blank.append(not root.children)
    return {'lines': res, 'blank': blank}
