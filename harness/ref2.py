"""Purely functional restatement of ref.py (no mutation, no aliasing), shaped for transliteration to Gallina.
Boxes:   ('lines', ids)  |  ('blk', st, kids, is_root)
Frags:   ('line', wid, y, h, resume(None|int), orphans, widows)
         ('blk', st, index, y, mt, mb, pt, pb, bt, bb, height, kids)
Skips:   None | ('line', k) | ('child', i, sub)
List aliasing of adjoining_margins is made explicit: a layout function receives the *content* `adj` of the list
object it is handed and returns `adj_fin` (final content of that same object), `out` (content of the list it
returns) and `same` (the returned list is that very object)."""
def overflows(bottom,y):
    if bottom is None: return False            # bottom_space = -inf  (not used in this grammar)
    return y>bottom if bottom>=0 else y>=bottom
def collapse(ms): return max([0]+[m for m in ms if m>=0])+min([0]+[m for m in ms if m<=0])
def avoid(v): return v in ('avoid','avoid-page')
def force(v): return v in ('page','left','right','recto','verso')
def fold_breaks(values):
    result='auto'
    for value in values:
        if value in ('left','right','recto','verso') or (value,result) in (
            ('page','auto'),('page','avoid'),('page','avoid-page'),('page','avoid-column'),
            ('column','auto'),('column','avoid'),('column','avoid-page'),('column','avoid-column'),
            ('page','column'),
            ('avoid','auto'),('avoid-page','auto'),('avoid-column','auto')):
            result=value
        elif value!=result and value in ('avoid','avoid-page','avoid-column') and result in ('avoid','avoid-page','avoid-column'):
            result='avoid'
    return result
def g(st,k,d): return st.get(k,d)
def before_chain(f):
    vals=[]
    while f is not None and f[0]=='blk':
        vals.append(g(f[1],'ba','auto'))
        if not f[11]: break
        f=f[11][-1]
    return vals[::-1]
def after_chain_box(b):
    vals=[]
    while b is not None and b[0]=='blk':
        vals.append(g(b[1],'bf','auto'))
        if not b[2]: break
        b=b[2][0]
    return vals
def after_chain_frag(f):
    vals=[]
    while f is not None and f[0]=='blk':
        vals.append(g(f[1],'bf','auto'))
        if not f[11]: break
        f=f[11][0]
    return vals

def break_line(st, nplaced, remaining_after, pie):
    over_orphans=nplaced-g(st,'orphans',1)
    if over_orphans<0 and not pie: return None            # abort
    needed=g(st,'widows',1)-1
    if needed: needed-=min(needed,remaining_after)
    if needed>over_orphans and not pie: return None       # abort
    return needed if (needed and needed<=over_orphans) else 0   # number of placed lines to drop

def linebox_layout(ctx, st, mt, pb, bb, ids, index, pie, adj, bottom_space, position_y, sub, dbd):
    """returns (abort, stop, resume, position_y, placed, mt)"""
    if adj: position_y+=collapse(adj)
    k = sub[1] if sub else 0
    n=len(ids); gen_y=position_y; y=position_y; placed=[]
    abort=stop=False; resume=None
    cur_skip=sub
    while k<n:
        nxt=k+1 if k+1<n else None
        new_y=gen_y+ctx['LH']            # the line iterator keeps its own running position
        dbd = dbd or (nxt is None)
        offset = bb+pb if dbd else 0
        if (bool(placed) or not pie) and overflows(ctx['page_bottom']-bottom_space, new_y+offset):
            drop=break_line(st, len(placed), n-(k+1), pie)
            if drop is None:
                abort=True; resume=nxt
            else:
                stop=True
                if drop: placed=placed[:-drop]
                resume=('child',index,cur_skip)
            break
        line_y=gen_y
        if pie and overflows(ctx['page_bottom']-bottom_space, new_y):
            new_y-=mt; line_y=gen_y-mt; mt=0
        placed=placed+[('line',ids[k],line_y,ctx['LH'],nxt,g(st,'orphans',1),g(st,'widows',1))]
        y=new_y
        gen_y+=ctx['LH']
        cur_skip=('line',nxt) if nxt is not None else None
        resume=nxt
        k+=1
    if placed:
        last=placed[-1][4]
        resume=('child',index,('line',last) if last is not None else None)
    elif not stop:
        resume=None if not abort else None
    return abort, stop, resume, y, placed, mt

def find_earlier(children):
    if children and children[0][0]=='line':
        orphans=children[0][5]; widows=children[0][6]
        index=len(children)-widows
        if index<orphans: return None
        newc=children[:index]
        last=newc[-1][4]
        return newc, ('child',0,('line',last) if last is not None else None)
    previous=None
    for index in reversed(range(len(children))):
        child=children[index]
        pbv=fold_breaks(before_chain(child)+after_chain_frag(previous))
        if previous is not None and not avoid(pbv):
            return children[:index+1], ('child', children[index+1][2], None)
        previous=child
        if not avoid(g(child[1],'bi','auto')) and child[0]=='blk':
            r=find_earlier(child[11])
            if r:
                ngc,res=r
                return children[:index]+[child[:11]+(ngc,)], ('child', child[2], res)
    return None

def block_level_layout(ctx, box, pos_y, bottom_space, skip, cb_is_root, pie, adj):
    mt=g(box[1],'mt',0)
    if ctx['current_page']>1 and pie and (cb_is_root or adj) and not ctx['forced_break']: mt=0
    return block_container_layout(ctx, box, pos_y, mt, bottom_space, skip, pie, adj)

ABORT_NP=('any','')
def block_container_layout(ctx, box, pos_y, mt, bottom_space, skip, pie, adj):
    """returns (res, adj_fin, out, same); res = None | (frag, resume, next_page, collapsing_through)"""
    _,st,kids,is_root=box
    mb=g(st,'mb',0); pt=g(st,'pt',0); pb=g(st,'pb',0); bt=g(st,'bt',0); bb=g(st,'bb',0)
    is_start=skip is None; clone=bool(g(st,'clone',False))
    if not clone and not is_start: mt=pt=bt=0
    dbd=clone
    if dbd: bottom_space+=pb+bb+max(0,mb)
    O=adj+[mt]; cur=O; cur_is_O=True
    cwc=not (bt or pt or is_root)
    if cwc: position_y=pos_y
    else:
        pos_y+=collapse(cur)-mt
        cur=[]; cur_is_O=False
        position_y=pos_y+mt+bt+pt
    newc=[]; next_page=('any',None)
    if is_start: sk=0; sub=None
    else: sk,sub=skip[1],skip[2]
    resume=None; broke=False
    for index in range(sk,len(kids)):
        child=kids[index]
        if child[0]=='lines':
            abort,stop,resume,position_y,placed,mt=linebox_layout(ctx,st,mt,pb,bb,child[1],index,pie,cur,bottom_space,position_y,sub,dbd)
            newc=newc+placed
            dbd=dbd or (resume is None)
            cur=[]; cur_is_O=False
        else:
            (abort,stop,resume,position_y,cur,cur_is_O,O,next_page,newc)=in_flow_layout(
                ctx,is_root,index,child,newc,pie,cur,cur_is_O,O,bottom_space,position_y,sub,cwc,next_page)
            sub=None
        if abort:
            return None, O, [], False
        if stop:
            cur=[]; cur_is_O=False; broke=True
            break
    if not broke: resume=None
    fragmented=resume is not None
    if fragmented and avoid(g(st,'bi','auto')) and not pie:
        return None, O, [], False
    if cwc: pos_y+=collapse(O)-mt
    collapsing_through=False
    if not newc:
        cm=collapse(cur)
        if bt==0 and pt==0 and bb==0 and pb==0: collapsing_through=True
        else:
            position_y+=cm; cur=[]; cur_is_O=False
    if bb or pb or is_root:
        position_y+=collapse(cur); cur=[]; cur_is_O=False
    # new_box.remove_decoration(start=not is_start, end=fragmented)
    nmb,npb,nbb=mb,pb,bb
    if not clone and fragmented: nmb=npb=nbb=0
    height=position_y-(pos_y+mt+bt+pt)
    if not fragmented: height=max(height,0)
    else:
        nh=ctx['page_bottom']-bottom_space-pos_y-(mt+bt+pt+npb+nbb+nmb)
        if nh>height:
            height=nh
            if dbd: height+=pb+bb+mb
    np=next_page if next_page[1] is not None else (next_page[0],'')
    frag=('blk',st,None,pos_y,mt,nmb,pt,npb,bt,nbb,height,newc)
    return (frag,resume,np,collapsing_through), O, cur, cur_is_O

def in_flow_layout(ctx,box_is_root,index,child,newc,pie,cur,cur_is_O,O,bottom_space,position_y,sub,cwc,next_page):
    last=newc[-1] if newc else None
    if last is not None:
        page_break=fold_breaks(before_chain(last)+after_chain_box(child))
        if force(page_break):
            return False,True,('child',index,None),position_y,cur,cur_is_O,O,(page_break,''),newc
    else:
        page_break='auto'
    # (translate of previous children: none in this grammar since newc is empty when last is None)
    pie_nc=pie and not newc
    res,cur_fin,out,same=block_level_layout(ctx,child,position_y,bottom_space,sub,box_is_root,pie_nc,cur)
    if cur_is_O: O=cur_fin
    cur=cur_fin
    new_child=None; resume=None
    if res is not None:
        new_child,resume,next_page,ct=res
        if not ct:
            _,_,_,cy,cmt,cmb,cpt,cpb,cbt,cbb,ch,_=new_child
            content_bottom=cy+cmt+cbt+cpt+ch
            border_bottom=cy+cmt+(ch+cpt+cpb+cbt+cbb)
            can_break=not pie_nc
            if can_break and overflows(ctx['page_bottom']-bottom_space,content_bottom):
                new_child=None
            elif can_break and overflows(ctx['page_bottom']-bottom_space,border_bottom):
                bottom_space+=cpb+cbb
                # the implementation does not reset child.position_y before laying the child out again:
                # the second layout starts from the position the first one left (cy), not from position_y
                res,cur_fin,out,same=block_level_layout(ctx,child,position_y,bottom_space,sub,box_is_root,pie_nc,cur)
                if cur_is_O: O=cur_fin
                cur=cur_fin
                if res is not None:
                    new_child,resume,next_page,ct=res
                    _,_,_,cy,cmt,cmb,cpt,cpb,cbt,cbb,ch,_=new_child
                    position_y=cy+cmt+(ch+cpt+cpb+cbt+cbb)
                else:
                    new_child=None; resume=None; next_page=ABORT_NP
            else:
                position_y=border_bottom
        # adjoining_margins = next_adjoining_margins
        cur_is_O=cur_is_O and same
        cur=out
        if new_child is not None:
            cur=cur+[new_child[5]]
            if cur_is_O: O=cur
    else:
        next_page=ABORT_NP
    if new_child is None:
        if avoid(page_break):
            r=find_earlier(newc)
            if r:
                newc,resume=r
                return False,True,resume,position_y,cur,cur_is_O,O,next_page,newc
            elif not pie:
                return True,False,resume,position_y,cur,cur_is_O,O,next_page,newc
        if newc: return False,True,('child',index,None),position_y,cur,cur_is_O,O,next_page,newc
        return True,False,resume,position_y,cur,cur_is_O,O,next_page,newc
    new_child=new_child[:2]+(index,)+new_child[3:]
    newc=newc+[new_child]
    if resume is not None:
        return False,True,('child',index,resume),position_y,cur,cur_is_O,O,next_page,newc
    return False,False,None,position_y,cur,cur_is_O,O,next_page,newc

def paginate(root,H,LH,ltr=True,max_pages=500):
    pages=[]; resume=None; next_page=('any',''); right=True; i=0
    while True:
        b=next_page[0]
        side=b if b in ('left','right') else (('right' if (ltr ^ (b=='verso')) else 'left') if b in ('recto','verso') else None)
        blank=bool((side=='left' and right) or (side=='right' and not right))
        ctx={'LH':LH,'page_bottom':H,'current_page':i+1,'forced_break':(next_page[0]!='any' or bool(next_page[1]))}
        if blank:
            pages.append(('blank',[])); new_resume,new_next=resume,next_page
        else:
            res,_,_,_=block_level_layout(ctx,root,0,0,resume,False,True,[])
            frag,new_resume,new_next,_=res
            lines=[]
            def walk(f):
                for c in f[11]:
                    if c[0]=='line': lines.append((c[1],c[2]))
                    else: walk(c)
            walk(frag)
            pages.append(('right' if right else 'left',lines))
        resume,next_page,right=new_resume,new_next,not right
        i+=1
        if resume is None or i>=max_pages: break
    return pages
